package fw

import (
	"fmt"
	"math/rand"
	"os"
	"runtime"
	"runtime/debug"
	"syscall"
)

// WorkerArgs configure one worker process.
type WorkerArgs struct {
	ID       string
	Seed     int64
	Tier     string
	From     int
	To       int
	Skip     map[int]bool
	Out      string
	Journal  string
	Variant  string
	MemLimit uint64
}

// RunWorker executes cases [From, To) in this process. It is single-goroutine by
// design so that a blocked library call becomes a runtime deadlock report.
func RunWorker(a WorkerArgs) int {
	chk := Lookup(a.ID)
	if chk == nil {
		fmt.Fprintln(os.Stderr, "unknown check", a.ID)
		return 2
	}
	if a.MemLimit > 0 {
		lim := syscall.Rlimit{Cur: a.MemLimit, Max: a.MemLimit}
		_ = syscall.Setrlimit(syscall.RLIMIT_AS, &lim)
	}
	debug.SetTraceback("all")
	if chk.Procs > 0 {
		runtime.GOMAXPROCS(chk.Procs)
	} else {
		runtime.GOMAXPROCS(2)
	}
	var journal *os.File
	if a.Journal != "" {
		f, err := os.OpenFile(a.Journal, os.O_CREATE|os.O_WRONLY|os.O_APPEND, 0o644)
		if err != nil {
			fmt.Fprintln(os.Stderr, "journal:", err)
			return 2
		}
		journal = f
	}
	rep := &WorkerReport{Counters: map[string]int64{}, distinct: map[uint64]struct{}{}, Next: a.From}
	flush := func() {
		rep.Distinct = rep.Distinct[:0]
		for d := range rep.distinct {
			rep.Distinct = append(rep.Distinct, d)
		}
		if err := writeJSONAtomic(a.Out, rep); err != nil {
			fmt.Fprintln(os.Stderr, "report:", err)
			os.Exit(2)
		}
	}
	sinceFlush := 0
	for idx := a.From; idx < a.To; idx++ {
		if a.Skip[idx] {
			rep.Next = idx + 1
			continue
		}
		if journal != nil {
			fmt.Fprintf(journal, "case %d\n", idx)
		}
		ctx := &Ctx{ID: a.ID, Seed: a.Seed, Tier: a.Tier, Idx: idx, Variant: a.Variant,
			Rng: rand.New(rand.NewSource(caseSeed(a.Seed, a.ID, idx))), rep: rep, journal: journal, maxSamples: 3}
		runCase(chk, ctx, idx)
		rep.Next = idx + 1
		sinceFlush++
		if sinceFlush >= 50 {
			flush()
			sinceFlush = 0
		}
	}
	if journal != nil {
		fmt.Fprintf(journal, "done\n")
	}
	flush()
	return 0
}

// runCase runs one case. A panic that escapes the check's own code is a harness
// bug or an escaped library panic outside a guarded call: it is recorded as a
// failure with signature "harness-panic" so it is never silently lost.
func runCase(chk *Check, ctx *Ctx, idx int) {
	defer func() {
		if r := recover(); r != nil {
			ctx.Fail("harness-panic", map[string]interface{}{"panic": fmt.Sprint(r), "stack": string(debug.Stack())})
		}
	}()
	chk.Run(ctx, idx)
}

// Guard runs f and converts an escaping panic into a value (the library is
// supposed never to let one escape from its public entry points).
func Guard(f func()) (panicked interface{}, stack string) {
	defer func() {
		if r := recover(); r != nil {
			panicked = r
			stack = string(debug.Stack())
		}
	}()
	f()
	return nil, ""
}
