package fw

import (
	"bufio"
	"encoding/json"
	"fmt"
	"os"
	"os/exec"
	"path/filepath"
	"regexp"
	"runtime"
	"sort"
	"strconv"
	"strings"
	"sync"
	"syscall"
	"time"
)

// Root returns the /verif directory (parent of .build where the binary lives), or VERIF_ROOT.
func Root() string {
	if r := os.Getenv("VERIF_ROOT"); r != "" {
		return r
	}
	exe, err := os.Executable()
	if err == nil {
		d := filepath.Dir(exe)
		if filepath.Base(d) == ".build" || strings.HasPrefix(filepath.Base(d), ".build") {
			return filepath.Dir(d)
		}
	}
	return "/verif"
}

func binaryFor(variant string) string {
	exe, _ := os.Executable()
	base := filepath.Join(filepath.Dir(exe), "vcheck")
	if variant != "" {
		return base + "-" + variant
	}
	return base
}

type batch struct {
	variant  string
	from, to int
	n        int
}

type knownEntry struct {
	Sig  string
	Text string
}

// LoadKnown parses KNOWN_FINDINGS.txt: lines "known: property=<id> sig=<sig> :: text".
func LoadKnown(root, id string) []knownEntry {
	f, err := os.Open(filepath.Join(root, "KNOWN_FINDINGS.txt"))
	if err != nil {
		return nil
	}
	defer f.Close()
	var out []knownEntry
	sc := bufio.NewScanner(f)
	sc.Buffer(make([]byte, 1<<20), 1<<20)
	for sc.Scan() {
		line := strings.TrimSpace(sc.Text())
		if !strings.HasPrefix(line, "known:") {
			continue
		}
		head, text := line, ""
		if i := strings.Index(line, "::"); i >= 0 {
			head, text = line[:i], strings.TrimSpace(line[i+2:])
		}
		var prop, sig string
		for _, f := range strings.Fields(head) {
			if strings.HasPrefix(f, "property=") {
				prop = f[len("property="):]
			}
			if strings.HasPrefix(f, "sig=") {
				sig = f[len("sig="):]
			}
		}
		if prop == id && sig != "" {
			out = append(out, knownEntry{sig, text})
		}
	}
	return out
}

var sanitize = regexp.MustCompile(`[^A-Za-z0-9._-]+`)

func readCPU(pid int) (float64, bool) {
	b, err := os.ReadFile(fmt.Sprintf("/proc/%d/stat", pid))
	if err != nil {
		return 0, false
	}
	s := string(b)
	i := strings.LastIndexByte(s, ')')
	if i < 0 {
		return 0, false
	}
	f := strings.Fields(s[i+1:])
	if len(f) < 14 {
		return 0, false
	}
	ut, _ := strconv.ParseFloat(f[11], 64)
	st, _ := strconv.ParseFloat(f[12], 64)
	return (ut + st) / 100.0, true
}

type runOutcome struct {
	exit      int
	killedFor string // "cpu-budget" | "wall-watchdog" | ""
}

func runProc(bin string, args []string, env []string, journal, stderrPath string, cpuBudget float64, wallLimit time.Duration) runOutcome {
	cmd := exec.Command(bin, args...)
	cmd.Env = env
	errf, _ := os.Create(stderrPath)
	defer errf.Close()
	cmd.Stdout = errf
	cmd.Stderr = errf
	if err := cmd.Start(); err != nil {
		fmt.Fprintln(errf, "start:", err)
		return runOutcome{exit: 127}
	}
	done := make(chan struct{})
	var killedFor string
	var mu sync.Mutex
	go func() {
		var lastSize int64 = -1
		var baseCPU float64
		lastChange := time.Now()
		t := time.NewTicker(200 * time.Millisecond)
		defer t.Stop()
		for {
			select {
			case <-done:
				return
			case <-t.C:
			}
			var size int64
			if st, err := os.Stat(journal); err == nil {
				size = st.Size()
			}
			cpu, ok := readCPU(cmd.Process.Pid)
			if !ok {
				continue
			}
			if size != lastSize {
				lastSize = size
				baseCPU = cpu
				lastChange = time.Now()
				continue
			}
			if cpu-baseCPU > cpuBudget {
				mu.Lock()
				killedFor = "cpu-budget"
				mu.Unlock()
				cmd.Process.Signal(syscall.SIGQUIT)
				time.Sleep(2 * time.Second)
				cmd.Process.Kill()
				return
			}
			if time.Since(lastChange) > wallLimit {
				mu.Lock()
				killedFor = "wall-watchdog"
				mu.Unlock()
				cmd.Process.Signal(syscall.SIGQUIT)
				time.Sleep(2 * time.Second)
				cmd.Process.Kill()
				return
			}
		}
	}()
	err := cmd.Wait()
	close(done)
	mu.Lock()
	kf := killedFor
	mu.Unlock()
	code := 0
	if err != nil {
		code = 1
		if ee, ok := err.(*exec.ExitError); ok {
			code = ee.ExitCode()
			if code < 0 {
				code = 128
			}
		}
	}
	return runOutcome{exit: code, killedFor: kf}
}

func classifyCrash(stderr string, o runOutcome) string {
	switch {
	case o.killedFor != "":
		return o.killedFor
	case strings.Contains(stderr, "all goroutines are asleep - deadlock"):
		return "deadlock"
	case strings.Contains(stderr, "stack overflow"):
		return "stack-overflow"
	case strings.Contains(stderr, "out of memory") || strings.Contains(stderr, "cannot allocate memory"):
		return "oom"
	case strings.Contains(stderr, "checkptr"):
		return "checkptr"
	case strings.Contains(stderr, "concurrent map"):
		return "concurrent-map"
	case strings.Contains(stderr, "fatal error:"):
		return "fatal"
	case strings.Contains(stderr, "panic:"):
		return "panic"
	}
	return fmt.Sprintf("exit-%d", o.exit)
}

func tailString(s string, n int) string {
	if len(s) > n {
		return "…" + s[len(s)-n:]
	}
	return s
}

func headString(s string, n int) string {
	if len(s) > n {
		return s[:n] + "…"
	}
	return s
}

// parse journal: last case index, last region, notes after the last case line.
func parseJournal(path string) (lastCase int, region string, notes []string, done bool) {
	lastCase = -1
	b, err := os.ReadFile(path)
	if err != nil {
		return
	}
	for _, line := range strings.Split(string(b), "\n") {
		switch {
		case strings.HasPrefix(line, "case "):
			lastCase, _ = strconv.Atoi(line[5:])
			notes = nil
			region = ""
		case strings.HasPrefix(line, "note "):
			notes = append(notes, line[5:])
			if len(notes) > 8 {
				notes = notes[len(notes)-8:]
			}
		case strings.HasPrefix(line, "region "):
			region = line[7:]
		case line == "done":
			done = true
		}
	}
	return
}

// Region journals a region name used to qualify the signature of a crash in the current case.
func (c *Ctx) Region(name string) {
	if c.journal != nil {
		fmt.Fprintf(c.journal, "region %s\n", name)
	}
}

// Supervise runs a whole check and returns the process exit code.
func Supervise(id, tier string, seed int64, jobs int, onlyIdx int, onlyVariant string) int {
	start := time.Now()
	chk := Lookup(id)
	if chk == nil {
		fmt.Println("unknown check", id)
		return 2
	}
	root := Root()
	work := filepath.Join(root, ".work", fmt.Sprintf("%s-%s-%d", id, tier, os.Getpid()))
	os.RemoveAll(work)
	if err := os.MkdirAll(work, 0o755); err != nil {
		fmt.Println("workdir:", err)
		return 2
	}
	n := chk.Cases(tier)
	variants := chk.Variants
	if len(variants) == 0 {
		variants = []string{""}
	}
	if chk.Serial {
		jobs = 1
	}
	cpuBudget := chk.CPUBudget
	if cpuBudget == 0 {
		cpuBudget = 60
	}
	wall := 20 * time.Minute
	var batches []batch
	if onlyIdx >= 0 {
		batches = []batch{{variant: onlyVariant, from: onlyIdx, to: onlyIdx + 1}}
	} else {
		size := (n + jobs*4 - 1) / (jobs * 4)
		if size < 1 {
			size = 1
		}
		if chk.MaxBatch > 0 && size > chk.MaxBatch {
			size = chk.MaxBatch
		}
		for _, v := range variants {
			for f := 0; f < n; f += size {
				t := f + size
				if t > n {
					t = n
				}
				batches = append(batches, batch{variant: v, from: f, to: t})
			}
		}
	}
	for i := range batches {
		batches[i].n = i
	}
	merged := &Merged{Counters: map[string]int64{}, Distinct: map[uint64]struct{}{}, Values: map[string][]float64{}}
	var mu sync.Mutex
	ch := make(chan batch)
	var wg sync.WaitGroup
	baseEnv := os.Environ()
	for w := 0; w < jobs; w++ {
		wg.Add(1)
		go func() {
			defer wg.Done()
			for b := range ch {
				from := b.from
				skip := map[int]bool{}
				for run := 0; from < b.to; run++ {
					prefix := filepath.Join(work, fmt.Sprintf("b%d.r%d", b.n, run))
					out, journal, errp := prefix+".json", prefix+".journal", prefix+".err"
					var skips []string
					for s := range skip {
						skips = append(skips, strconv.Itoa(s))
					}
					args := []string{"worker", "--id", id, "--seed", fmt.Sprint(seed), "--tier", tier,
						"--from", fmt.Sprint(from), "--to", fmt.Sprint(b.to), "--out", out, "--journal", journal,
						"--variant", b.variant, "--skip", strings.Join(skips, ",")}
					env := baseEnv
					if b.variant == "race" {
						env = append(append([]string{}, baseEnv...), "GORACE=halt_on_error=0 log_path="+filepath.Join(work, fmt.Sprintf("race.b%d.r%d", b.n, run)))
					}
					o := runProc(binaryFor(b.variant), args, env, journal, errp, cpuBudget, wall)
					var rep WorkerReport
					haveRep := false
					if rb, err := os.ReadFile(out); err == nil && json.Unmarshal(rb, &rep) == nil {
						haveRep = true
					}
					lastCase, region, notes, done := parseJournal(journal)
					mu.Lock()
					if haveRep {
						merged.add(&rep)
					}
					if o.exit == 0 && done && haveRep && rep.Next >= b.to {
						mu.Unlock()
						os.Remove(out)
						os.Remove(journal)
						os.Remove(errp)
						break
					}
					// crash
					eb, _ := os.ReadFile(errp)
					class := classifyCrash(string(eb), o)
					merged.Crashes++
					if class == "wall-watchdog" || lastCase < 0 {
						merged.Inconclusive = append(merged.Inconclusive, fmt.Sprintf("worker for cases [%d,%d) %s (exit %d): %s", from, b.to, class, o.exit, tailString(string(eb), 600)))
						mu.Unlock()
						break
					}
					sig := "crash:" + class
					if region != "" {
						sig += "@" + region
					}
					merged.Failures = append(merged.Failures, Failure{Sig: sig, Idx: lastCase, Variant: b.variant,
						Detail: map[string]interface{}{"class": class, "exit": o.exit, "journal_notes": notes,
							"stderr_head": headString(string(eb), 3000), "stderr_tail": tailString(string(eb), 1500)}})
					merged.Counters["failures_total"]++
					mu.Unlock()
					skip[lastCase] = true
					if haveRep && rep.Next > from {
						from = rep.Next
					}
					// results of cases in [rep.Next, lastCase) are lost with the process and are re-run.
					if run > 200 {
						mu.Lock()
						merged.Inconclusive = append(merged.Inconclusive, fmt.Sprintf("batch [%d,%d) crashed more than 200 times", b.from, b.to))
						mu.Unlock()
						break
					}
				}
			}
		}()
	}
	for _, b := range batches {
		ch <- b
	}
	close(ch)
	wg.Wait()

	// race reports
	raceReports := 0
	if files, _ := filepath.Glob(filepath.Join(work, "race.*")); len(files) > 0 {
		seen := map[string]bool{}
		for _, f := range files {
			b, _ := os.ReadFile(f)
			for _, blk := range strings.Split(string(b), "==================") {
				if !strings.Contains(blk, "WARNING: DATA RACE") {
					continue
				}
				raceReports++
				key := raceKey(blk)
				if !seen[key] {
					seen[key] = true
					merged.Failures = append(merged.Failures, Failure{Sig: "race:" + key, Idx: -1, Variant: "race",
						Detail: map[string]interface{}{"report": headString(blk, 6000)}})
				}
			}
		}
		merged.Counters["race_reports_raw"] = int64(raceReports)
		merged.Counters["race_reports_distinct"] = int64(len(seen))
	}

	if chk.Post != nil && onlyIdx < 0 {
		chk.Post(tier, merged)
	}
	if chk.Floors != nil && onlyIdx < 0 {
		for k, v := range chk.Floors(tier) {
			if merged.Counters[k] < v {
				merged.Inconclusive = append(merged.Inconclusive, fmt.Sprintf("coverage floor not met: %s = %d < %d", k, merged.Counters[k], v))
			}
		}
	}
	if merged.Evals == 0 {
		merged.Inconclusive = append(merged.Inconclusive, "no evaluations were observed")
	}

	// Known findings vs violations.
	known := LoadKnown(root, id)
	knownBySig := map[string]string{}
	for _, k := range known {
		knownBySig[k.Sig] = k.Text
	}
	bySig := map[string][]Failure{}
	for _, f := range merged.Failures {
		bySig[f.Sig] = append(bySig[f.Sig], f)
	}
	var sigs []string
	for s := range bySig {
		sigs = append(sigs, s)
	}
	sort.Strings(sigs)
	violations := 0
	knownObserved := map[string]int{}
	if len(merged.Failures) > 0 && os.Getenv("VERIF_DUMP") != "" {
		os.MkdirAll(filepath.Join(root, "replays", id), 0o755)
		var fl []Failure
		for _, f := range merged.Failures {
			if _, ok := knownBySig[f.Sig]; !ok {
				fl = append(fl, f)
			}
		}
		for _, f := range merged.Failures {
			if _, ok := knownBySig[f.Sig]; ok {
				fl = append(fl, f)
			}
		}
		if len(fl) > 500 {
			fl = fl[:500]
		}
		db, _ := json.MarshalIndent(fl, "", " ")
		os.WriteFile(filepath.Join(root, "replays", id, "dump.json"), db, 0o644)
	}
	replayDir := filepath.Join(root, "replays", id)
	for _, s := range sigs {
		fs := bySig[s]
		if text, ok := knownBySig[s]; ok {
			knownObserved[s] = len(fs)
			fmt.Printf("KNOWN-FINDING: property=%s %s: %s (observed %d times)\n", id, s, text, len(fs))
			continue
		}
		violations += len(fs)
		os.MkdirAll(replayDir, 0o755)
		f := fs[0]
		path := filepath.Join(replayDir, fmt.Sprintf("%s-seed%d-%s-%d.json", sanitize.ReplaceAllString(headString(s, 80), "_"), seed, tier, f.Idx))
		rb, _ := json.MarshalIndent(map[string]interface{}{"property": id, "seed": seed, "tier": tier, "idx": f.Idx, "variant": f.Variant,
			"sig": s, "occurrences": len(fs), "detail": f.Detail}, "", " ")
		os.WriteFile(path, rb, 0o644)
		fmt.Printf("VIOLATION property=%s replay=%s\n", id, path)
		fmt.Printf("  sig=%s occurrences=%d\n", s, len(fs))
	}

	if onlyIdx < 0 {
		exh := false
		if chk.Exhaustive != nil {
			exh = chk.Exhaustive(tier)
		}
		observed := map[string]int64{}
		for k, v := range merged.Counters {
			observed[k] = v
		}
		cov := map[string]interface{}{
			"evaluations":             merged.Evals,
			"distinct_nontrivial":     len(merged.Distinct),
			"rule":                    chk.Rule,
			"samples":                 merged.Samples,
			"observed":                observed,
			"cases":                   n,
			"variants":                variants,
			"worker_crashes":          merged.Crashes,
			"known_findings_observed": knownObserved,
			"exhaustive":              exh,
		}
		if len(merged.Inconclusive) > 0 {
			cov["inconclusive"] = merged.Inconclusive
		}
		if len(merged.Values) > 0 {
			summ := map[string]interface{}{}
			for k, v := range merged.Values {
				if len(v) > 40 {
					v = v[:40]
				}
				summ[k] = v
			}
			cov["measurements"] = summ
		}
		if cov["samples"] == nil || len(merged.Samples) == 0 {
			cov["samples"] = []interface{}{}
		}
		ev := map[string]interface{}{
			"property_id": id, "tier": tier, "seed": seed, "level": chk.Level,
			"coverage": cov, "assumptions": chk.Assumptions,
			"wall_s": time.Since(start).Seconds(), "violations": violations,
		}
		os.MkdirAll(filepath.Join(root, "evidence"), 0o755)
		eb, _ := json.MarshalIndent(ev, "", " ")
		os.WriteFile(filepath.Join(root, "evidence", id+".json"), eb, 0o644)
	}
	fmt.Printf("%s %s seed=%d: cases=%d evaluations=%d distinct=%d failures=%d (known sigs %d) violations=%d crashes=%d wall=%.1fs cpus=%d\n",
		id, tier, seed, n, merged.Evals, len(merged.Distinct), len(merged.Failures), len(knownObserved), violations, merged.Crashes, time.Since(start).Seconds(), runtime.NumCPU())
	if os.Getenv("VERIF_KEEPWORK") == "" {
		os.RemoveAll(work)
	}
	if violations > 0 {
		return 1
	}
	if len(merged.Inconclusive) > 0 {
		for _, s := range merged.Inconclusive {
			fmt.Println("INCONCLUSIVE:", s)
		}
		return 3
	}
	return 0
}

var frameRe = regexp.MustCompile(`(?m)^  ([A-Za-z0-9_./()*\-\[\]]+)\(\)$`)

// raceKey de-duplicates a race report by the innermost library frames of both accesses, line numbers stripped.
func raceKey(blk string) string {
	parts := regexp.MustCompile(`(?m)^(Previous |)(Read|Write|read|write) at .*$`).Split(blk, -1)
	var keys []string
	for _, p := range parts[1:] {
		m := frameRe.FindAllStringSubmatch(p, 3)
		var fr []string
		for _, x := range m {
			fr = append(fr, x[1])
		}
		keys = append(keys, strings.Join(fr, "<"))
		if len(keys) == 2 {
			break
		}
	}
	sort.Strings(keys)
	return headString(strings.Join(keys, "||"), 300)
}
