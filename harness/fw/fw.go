// Package fw is the check framework: registration, worker loop, supervisor,
// evidence and known-findings handling.
package fw

import (
	"encoding/json"
	"fmt"
	"hash/fnv"
	"math/rand"
	"os"
	"sort"
	"strings"
)

// Check describes the monitor for one property.
type Check struct {
	ID          string
	Level       string // exploration | fault_enumeration
	Rule        string
	Assumptions []string
	Variants    []string // binary variants to run the whole case list under ("" = normal, "race", "purego")
	Exhaustive  func(tier string) bool
	// Cases returns the number of cases for a tier. Case idx is a pure function of (seed, tier, idx).
	Cases func(tier string) int
	Run   func(c *Ctx, idx int)
	// Floors: counters that must reach the given value, else the run is inconclusive (exit 3).
	Floors func(tier string) map[string]int64
	// CPUBudget is the CPU-seconds allowed between two journal entries (default 120).
	CPUBudget float64
	// MaxBatch limits the number of cases per worker process.
	MaxBatch int
	// MemLimit (bytes) for RLIMIT_AS in workers; 0 = none.
	MemLimit uint64
	// Serial runs a single worker at a time (for measurements).
	Serial bool
	// Procs is GOMAXPROCS inside a worker (default 2: workers are single-goroutine, more Ps only add GC contention).
	Procs int
	// Post may derive additional failures or counters from the merged report (supervisor side).
	Post func(tier string, m *Merged)
}

var registry = map[string]*Check{}

func Register(c *Check) {
	if _, dup := registry[c.ID]; dup {
		panic("duplicate check " + c.ID)
	}
	registry[c.ID] = c
}

func Lookup(id string) *Check { return registry[id] }

func IDs() []string {
	var ids []string
	for id := range registry {
		ids = append(ids, id)
	}
	sort.Strings(ids)
	return ids
}

// Failure is one observed violation (or crash) of a property.
type Failure struct {
	Sig     string      `json:"sig"` // signature: region+symptom, used to match known findings
	Idx     int         `json:"idx"` // case index
	Variant string      `json:"variant,omitempty"`
	Detail  interface{} `json:"detail"`
}

// WorkerReport is what a worker process writes.
type WorkerReport struct {
	Next     int                  `json:"next"` // next case index to run (all before it are complete)
	Evals    int64                `json:"evals"`
	Counters map[string]int64     `json:"counters"`
	Distinct []uint64             `json:"distinct"`
	Samples  []interface{}        `json:"samples"`
	Failures []Failure            `json:"failures"`
	Values   map[string][]float64 `json:"values,omitempty"` // named measurements (e.g. alloc per size)
	distinct map[uint64]struct{}
}

// Ctx is handed to a check's Run for one case.
type Ctx struct {
	ID         string
	Seed       int64
	Tier       string
	Idx        int
	Variant    string
	Rng        *rand.Rand
	rep        *WorkerReport
	journal    *os.File
	maxSamples int
}

func caseSeed(seed int64, id string, idx int) int64 {
	h := fnv.New64a()
	fmt.Fprintf(h, "%d/%s/%d", seed, id, idx)
	return int64(h.Sum64())
}

// Note journals the concrete input about to be executed (crash forensics).
func (c *Ctx) Note(format string, args ...interface{}) {
	if c.journal != nil {
		s := fmt.Sprintf(format, args...)
		if len(s) > 4000 {
			s = s[:4000] + "…"
		}
		fmt.Fprintf(c.journal, "note %s\n", strings.ReplaceAll(s, "\n", "\\n"))
	}
}

func (c *Ctx) Eval()                     { c.rep.Evals++ }
func (c *Ctx) Evals(n int64)             { c.rep.Evals += n }
func (c *Ctx) Count(key string, n int64) { c.rep.Counters[key] += n }
func (c *Ctx) Inc(key string)            { c.rep.Counters[key]++ }
func (c *Ctx) Max(key string, v int64) {
	if v > c.rep.Counters[key] {
		c.rep.Counters[key] = v
	}
}

// Value records a named measurement.
func (c *Ctx) Value(key string, v float64) {
	if c.rep.Values == nil {
		c.rep.Values = map[string][]float64{}
	}
	c.rep.Values[key] = append(c.rep.Values[key], v)
}

// Distinct registers a non-trivial case descriptor; distinct ones are counted.
func (c *Ctx) Distinct(desc string) {
	h := fnv.New64a()
	h.Write([]byte(desc))
	c.rep.distinct[h.Sum64()] = struct{}{}
}

// Sample keeps a few cases, written out in evidence.
func (c *Ctx) Sample(v interface{}) {
	if len(c.rep.Samples) < c.maxSamples {
		c.rep.Samples = append(c.rep.Samples, v)
	}
}

// WantSample tells whether another sample would be kept (avoid rendering cost otherwise).
func (c *Ctx) WantSample() bool { return len(c.rep.Samples) < c.maxSamples }

// Fail records a violation with a signature and a detail object (written to the replay file).
func (c *Ctx) Fail(sig string, detail interface{}) {
	if len(c.rep.Failures) < 2000 {
		c.rep.Failures = append(c.rep.Failures, Failure{Sig: sig, Idx: c.Idx, Variant: c.Variant, Detail: detail})
	}
	c.rep.Counters["failures_total"]++
}

// Merged is the supervisor's merged view.
type Merged struct {
	Evals        int64
	Counters     map[string]int64
	Distinct     map[uint64]struct{}
	Samples      []interface{}
	Failures     []Failure
	Values       map[string][]float64
	Crashes      int
	Inconclusive []string
}

func (m *Merged) Fail(sig string, detail interface{}) {
	m.Failures = append(m.Failures, Failure{Sig: sig, Idx: -1, Detail: detail})
}

func (m *Merged) add(r *WorkerReport) {
	m.Evals += r.Evals
	for k, v := range r.Counters {
		if strings.HasPrefix(k, "max_") {
			if v > m.Counters[k] {
				m.Counters[k] = v
			}
		} else {
			m.Counters[k] += v
		}
	}
	for _, d := range r.Distinct {
		m.Distinct[d] = struct{}{}
	}
	for _, s := range r.Samples {
		if len(m.Samples) < 6 {
			m.Samples = append(m.Samples, s)
		}
	}
	m.Failures = append(m.Failures, r.Failures...)
	for k, v := range r.Values {
		m.Values[k] = append(m.Values[k], v...)
	}
}

func writeJSONAtomic(path string, v interface{}) error {
	b, err := json.Marshal(v)
	if err != nil {
		return err
	}
	tmp := path + ".tmp"
	if err := os.WriteFile(tmp, b, 0o644); err != nil {
		return err
	}
	return os.Rename(tmp, path)
}
