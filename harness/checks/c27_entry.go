package checks

import (
	"bytes"
	"io"

	"github.com/kstenerud/go-concise-encoding/ce"
	"github.com/kstenerud/go-concise-encoding/ce/events"
	"github.com/kstenerud/go-concise-encoding/configuration"
	"github.com/kstenerud/go-concise-encoding/rules"

	"verifharness/ev"
	"verifharness/fw"
)

// Shared by C27, C28 and C29: a uniform way to call every public decode / unmarshal entry point.

// c27Out is what one call of an entry point was observed to do.
type c27Out struct {
	Val   string // rendered value (unmarshal) or rendered event log (decode)
	Err   error
	Panic interface{}
	Stack string
}

func (o c27Out) ErrNil() bool { return o.Err == nil }

func (o c27Out) Brief() map[string]interface{} {
	return map[string]interface{}{"result": short(o.Val, 1500), "err": errStr(o.Err), "panic": ev.PanicString(o.Panic)}
}

// c27Same: same error nil-ness and same value / event log, no escaped panic on either side.
func c27Same(a, b c27Out) bool {
	return a.Panic == nil && b.Panic == nil && a.ErrNil() == b.ErrNil() && a.Val == b.Val
}

// c27Entry names one public entry point.
type c27Entry struct {
	Format string // "cbe" | "cte" | "ce" (universal)
	Kind   string // "unmarshal" | "decode" (decoder + rules -> recorder) | "decode-norules"
	Reader bool   // reader-based variant (Unmarshal*/Decode) instead of document-based
}

func (e c27Entry) Name() string {
	up := map[string]string{"cbe": "CBE", "cte": "CTE", "ce": "CE"}[e.Format]
	switch {
	case e.Kind == "unmarshal" && e.Reader:
		return "ce.Unmarshal" + up
	case e.Kind == "unmarshal":
		return "ce.UnmarshalFrom" + up + "Document"
	case e.Reader:
		return "ce.New" + up + "Decoder.Decode(" + e.Kind + ")"
	}
	return "ce.New" + up + "Decoder.DecodeDocument(" + e.Kind + ")"
}

// As returns the same entry point for another format.
func (e c27Entry) As(format string) c27Entry { e.Format = format; return e }

func c27NewDecoder(format string, cfg *configuration.Configuration) ce.Decoder {
	switch format {
	case "cbe":
		return ce.NewCBEDecoder(cfg)
	case "cte":
		return ce.NewCTEDecoder(cfg)
	}
	return ce.NewCEDecoder(cfg)
}

// c27Call runs the entry point on doc; if rd is non-nil and the entry point is reader-based, rd is used instead of a
// bytes.Reader over doc. A panic that escapes the public entry point is captured, not hidden.
func c27Call(e c27Entry, doc []byte, rd io.Reader, cfg *configuration.Configuration) (out c27Out) {
	if e.Reader && rd == nil {
		rd = bytes.NewReader(doc)
	}
	if e.Kind == "unmarshal" {
		var v interface{}
		out.Panic, out.Stack = fw.Guard(func() {
			switch {
			case e.Reader && e.Format == "cbe":
				v, out.Err = ce.UnmarshalCBE(rd, nil, cfg)
			case e.Reader && e.Format == "cte":
				v, out.Err = ce.UnmarshalCTE(rd, nil, cfg)
			case e.Reader:
				v, out.Err = ce.UnmarshalCE(rd, nil, cfg)
			case e.Format == "cbe":
				v, out.Err = ce.UnmarshalFromCBEDocument(doc, nil, cfg)
			case e.Format == "cte":
				v, out.Err = ce.UnmarshalFromCTEDocument(doc, nil, cfg)
			default:
				v, out.Err = ce.UnmarshalFromCEDocument(doc, nil, cfg)
			}
		})
		if out.Panic == nil {
			if p, _ := fw.Guard(func() { out.Val = c27ValueString(v) }); p != nil {
				out.Val = "<unrenderable: " + ev.PanicString(p) + ">"
			}
		}
		return
	}
	rec := &ev.Recorder{}
	var rcv events.DataEventReceiver = rec
	if e.Kind == "decode" {
		rcv = rules.NewRules(rec, cfg)
	}
	dec := c27NewDecoder(e.Format, cfg)
	out.Panic, out.Stack = fw.Guard(func() {
		if e.Reader {
			out.Err = dec.Decode(rd, rcv)
		} else {
			out.Err = dec.DecodeDocument(doc, rcv)
		}
	})
	out.Val = ev.LogString(rec.Log)
	return
}

// c27Detect is the documented detection rule: 'c' / 'C' => CTE, 0x81 => CBE, anything else (or nothing) => undetected.
func c27Detect(doc []byte) string {
	if len(doc) == 0 {
		return ""
	}
	switch doc[0] {
	case 'c', 'C':
		return "cte"
	case 0x81:
		return "cbe"
	}
	return ""
}

var c27AllKinds = []c27Entry{
	{Kind: "unmarshal"}, {Kind: "unmarshal", Reader: true},
	{Kind: "decode"}, {Kind: "decode", Reader: true},
	{Kind: "decode-norules"}, {Kind: "decode-norules", Reader: true},
}

func c27NewEncoder(format string, cfg *configuration.Configuration) ce.Encoder {
	if format == "cbe" {
		return ce.NewCBEEncoder(cfg)
	}
	return ce.NewCTEEncoder(cfg)
}
