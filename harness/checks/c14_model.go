package checks

import (
	"unicode/utf8"

	"github.com/kstenerud/go-concise-encoding/ce/events"

	"verifharness/ev"
	"verifharness/fw"
)

// c14Usage is the independent usage model of a document, written from the property text:
// for every limited dimension the range [Lo, Hi] in which "the document's usage" lies.
// Lo == Hi wherever the property is unambiguous.
type c14Usage struct {
	Lo, Hi [c14NumDims]uint64
}

// c14Model measures a well-formed event log (one accepted by the validator under the default
// configuration). docLen is the encoded length in bytes (0 when there is no encoded form).
func c14Model(log []ev.Event, docLen int) c14Usage {
	var u c14Usage
	var depth, maxDepth uint64
	var valueObjects, otherObjects uint64
	var maxArrLo, maxArrHi uint64
	var maxIdent, markers uint64
	inRecType := false
	recTypeDepth := uint64(0)
	// chunked array state
	inArray := false
	var arrBytes, arrExtra uint64
	var chunkLeft uint64
	lastChunk := false
	elemBits := 8
	noteArray := func(data, extra uint64) {
		if data > maxArrLo {
			maxArrLo = data
		}
		if data+extra > maxArrHi {
			maxArrHi = data + extra
		}
	}
	endArrayIfDone := func() {
		if inArray && lastChunk && chunkLeft == 0 {
			noteArray(arrBytes, arrExtra)
			inArray = false
		}
	}
	value := func(isReference bool) {
		if inRecType || isReference {
			otherObjects++
		} else {
			valueObjects++
		}
	}
	open := func() {
		depth++
		if depth > maxDepth {
			maxDepth = depth
		}
	}
	ident := func(b []byte) {
		if uint64(len(b)) > maxIdent {
			maxIdent = uint64(len(b))
		}
	}
	for _, e := range log {
		switch e.K {
		case ev.BD, ev.ED, ev.VER, ev.ERR:
		case ev.PAD:
			otherObjects++
		case ev.COM:
			otherObjects++
			// a comment is not an array in the event model, but it is text of arbitrary length:
			// whether the array limit applies to it is not stated, so it only widens the range.
			if uint64(len(e.B)) > maxArrHi {
				maxArrHi = uint64(len(e.B))
			}
		case ev.NULL, ev.BOOL, ev.TRUE, ev.FALSE, ev.PINT, ev.NINT, ev.INT, ev.BINT, ev.FLOAT, ev.BFLOAT, ev.DFLOAT, ev.BDFLOAT, ev.UID, ev.NAN, ev.TIME:
			value(false)
		case ev.LIST, ev.MAP, ev.NODE, ev.EDGE:
			value(false)
			open()
		case ev.RECORD:
			value(false)
			ident(e.B)
			open()
		case ev.RECTYPE:
			otherObjects++
			ident(e.B)
			open()
			inRecType = true
			recTypeDepth = depth
		case ev.END:
			if inRecType && depth == recTypeDepth {
				inRecType = false
			}
			depth--
		case ev.MARK:
			otherObjects++
			markers++
			ident(e.B)
		case ev.REF:
			otherObjects++
			ident(e.B)
		case ev.ARR:
			value(e.AT == events.ArrayTypeReferenceRemote)
			noteArray(uint64(len(e.B)), 0)
		case ev.STRARR:
			value(e.AT == events.ArrayTypeReferenceRemote)
			noteArray(uint64(len(e.S)), 0)
		case ev.MEDIA:
			value(false)
			noteArray(uint64(len(e.B)), uint64(len(e.S)))
		case ev.CUSTB:
			value(false)
			noteArray(uint64(len(e.B)), 0)
		case ev.CUSTT:
			value(false)
			noteArray(uint64(len(e.S)), 0)
		case ev.ABEGIN, ev.MBEGIN, ev.CBEGIN:
			value(e.K == ev.ABEGIN && e.AT == events.ArrayTypeReferenceRemote)
			inArray, arrBytes, arrExtra, chunkLeft, lastChunk = true, 0, 0, 0, false
			elemBits = 8
			if e.K == ev.ABEGIN {
				elemBits = e.AT.ElementSize()
			}
			if e.K == ev.MBEGIN {
				arrExtra = uint64(len(e.S))
			}
		case ev.CHUNK:
			if elemBits == 1 {
				chunkLeft = (e.U + 7) / 8
			} else {
				chunkLeft = e.U * uint64(elemBits) / 8
			}
			arrBytes += chunkLeft
			lastChunk = !e.Flag
			endArrayIfDone()
		case ev.DATA:
			n := uint64(len(e.B))
			if n > chunkLeft {
				n = chunkLeft
			}
			chunkLeft -= n
			endArrayIfDone()
		}
	}
	u.Lo[c14Depth], u.Hi[c14Depth] = maxDepth, maxDepth
	u.Lo[c14Objects], u.Hi[c14Objects] = valueObjects, valueObjects+otherObjects
	u.Lo[c14Array], u.Hi[c14Array] = maxArrLo, maxArrHi
	u.Lo[c14Ident], u.Hi[c14Ident] = maxIdent, maxIdent
	u.Lo[c14Markers], u.Hi[c14Markers] = markers, markers
	u.Lo[c14DocSize], u.Hi[c14DocSize] = uint64(docLen), uint64(docLen)
	return u
}

// c14Features records which document features the monitor saw.
func c14Features(c *fw.Ctx, log []ev.Event) {
	seen := map[string]bool{}
	chunks := 0
	for _, e := range log {
		switch e.K {
		case ev.ABEGIN, ev.MBEGIN, ev.CBEGIN:
			seen["chunked-array"] = true
			chunks = 0
			if e.K == ev.ABEGIN && e.AT == events.ArrayTypeBit {
				seen["bit-array"] = true
			}
			if e.K == ev.MBEGIN {
				seen["media"] = true
			}
		case ev.CHUNK:
			chunks++
			if chunks > 1 {
				seen["multi-chunk-array"] = true
			}
			if e.U == 0 {
				seen["zero-length-chunk"] = true
			}
		case ev.ARR:
			if e.AT == events.ArrayTypeBit {
				seen["bit-array"] = true
			}
			if e.AT == events.ArrayTypeUID {
				seen["uid-array"] = true
			}
		case ev.NODE:
			seen["node"] = true
		case ev.EDGE:
			seen["edge"] = true
		case ev.RECORD:
			seen["record"] = true
		case ev.RECTYPE:
			seen["rectype"] = true
		case ev.MEDIA:
			seen["media"] = true
		case ev.CUSTB, ev.CUSTT:
			seen["custom"] = true
		case ev.MARK:
			seen["marker"] = true
		case ev.REF:
			seen["reference"] = true
		case ev.COM:
			seen["comment"] = true
		case ev.PAD:
			seen["padding"] = true
		}
		switch e.K {
		case ev.MARK, ev.REF, ev.RECORD, ev.RECTYPE:
			if utf8.RuneCount(e.B) != len(e.B) {
				seen["multibyte-identifier"] = true
			}
		}
	}
	for k := range seen {
		c.Inc("feature." + k)
	}
}
