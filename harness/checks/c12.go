package checks

import (
	"fmt"
	"math/big"
	"math/rand"
	"sort"
	"strings"

	compact_time "github.com/kstenerud/go-compact-time"
	"github.com/kstenerud/go-concise-encoding/ce"
	"github.com/kstenerud/go-concise-encoding/ce/events"
	"github.com/kstenerud/go-concise-encoding/configuration"
	"github.com/kstenerud/go-concise-encoding/rules"

	"verifharness/ev"
	"verifharness/fw"
	"verifharness/gen"
)

// C12 — duplicate map keys are rejected whatever encoding they use.
//
// A case is a list of 2-6 keys (c12Key: class + exact value) placed in a map or a record type. Directed
// cases take one pair of keys (equal values, or near misses) and drive EVERY ordered pair of encodings of
// the two keys: event forms straight into rules.NewRules (OnInt/OnPositiveInt/OnNegativeInt/OnBigInt,
// whole/byte-array/chunked strings and resource IDs, OnTrue/OnFalse/OnBoolean, OnUID, OnTime) and CBE wire
// forms through cbe.Decoder into rules (small int, every fixed width that fits, length-prefixed minimal and
// zero-padded up to big-integer lengths, short and chunked strings). Random cases mix classes, duplicates
// and near misses. Oracle (c12_model.go): accepted iff all normal forms are distinct; a rejection must not
// come before the first event of the first repeated key nor after the END of the container.

type c12Pair struct {
	A, B c12Key
	Note string
}

func c12I(s string) c12Key {
	if s == "-0" {
		return c12Key{Class: 'i', NegZero: true, Int: new(big.Int)}
	}
	v, ok := new(big.Int).SetString(s, 0)
	if !ok {
		panic("c12: bad integer literal " + s)
	}
	return c12Key{Class: 'i', Int: v}
}

func c12Pow(e uint, add int64) c12Key {
	v := new(big.Int).Lsh(big.NewInt(1), e)
	v.Add(v, big.NewInt(add))
	return c12Key{Class: 'i', Int: v}
}

func c12NegOf(k c12Key) c12Key { return c12Key{Class: 'i', Int: new(big.Int).Neg(k.Int)} }
func c12S(s string) c12Key     { return c12Key{Class: 's', Text: s} }
func c12R(s string) c12Key     { return c12Key{Class: 'r', Text: s} }
func c12B(b bool) c12Key       { return c12Key{Class: 'b', Bool: b} }
func c12U(b []byte) c12Key     { return c12Key{Class: 'u', UID: b} }
func c12T(t compact_time.Time) c12Key {
	return c12Key{Class: 't', Time: t}
}

var c12Pairs []c12Pair

func c12BuildPairs() {
	add := func(a, b c12Key, note string) { c12Pairs = append(c12Pairs, c12Pair{a, b, note}) }
	// integers: the same value twice (all encodings against all encodings) ...
	var ints []c12Key
	for _, s := range []string{"0", "1", "5", "99", "100", "101", "127", "128", "255", "256", "65535", "65536", "0x7fffffff", "0x80000000",
		"0xffffffff", "0x100000000", "0x10000000000", "0x7fffffffffffffff", "0x8000000000000000", "0x8000000000000001", "0xffffffffffffffff",
		"0x10000000000000000", "0x10000000000000005", "0x20000000000000000", "0xffffffffffffffffffffffffffffffff", "0x100000000000000000000000000000000",
		"0x100000000000000000000000000000005"} {
		ints = append(ints, c12I(s))
	}
	ints = append(ints, c12Pow(200, 0))
	for _, v := range ints {
		add(v, v, "same-int")
		if v.Int.Sign() != 0 {
			n := c12NegOf(v)
			add(n, n, "same-negative-int")
			add(v, n, "int-vs-negated")
			add(n, v, "int-vs-negated")
		}
		p1 := c12Key{Class: 'i', Int: new(big.Int).Add(v.Int, big.NewInt(1))}
		add(v, p1, "int-vs-successor")
	}
	add(c12I("-0"), c12I("-0"), "same-negative-zero")
	// ... and values that coincide only modulo a machine width or as a two's-complement pun
	for _, p := range [][2]string{{"5", "0x10000000000000005"}, {"0", "0x10000000000000000"}, {"5", "0x100000000000000000000000000000005"},
		{"0x10000000000000005", "0x100000000000000000000000000000005"}, {"0xffffffffffffffff", "-1"}, {"0x8000000000000000", "-0x8000000000000000"},
		{"0xfffffffffffffffb", "-5"}, {"255", "-1"}, {"65535", "-1"}, {"128", "-128"}, {"0xffffffff", "-1"}, {"0x80000000", "-0x80000000"},
		{"-0xffffffffffffffff", "1"}, {"-0x10000000000000000", "0"}, {"-0x10000000000000005", "-5"}, {"1", "-0"}, {"-1", "-0"}} {
		add(c12I(p[0]), c12I(p[1]), "int-pun")
		add(c12I(p[1]), c12I(p[0]), "int-pun")
	}
	// strings and resource IDs
	texts := []string{"", "a", "ab", "é", "日本語", "a\U0001F600b", "0123456789abcde", "0123456789abcdef", "The quick brown fox jumps over", "\x00", "1", "true"}
	for _, s := range texts {
		add(c12S(s), c12S(s), "same-string")
		add(c12R(s), c12R(s), "same-rid")
	}
	for _, p := range [][2]string{{"a", "a\x00"}, {"a", "A"}, {"a", "a "}, {"", "\x00"}, {"é", "e"}, {"日本語", "日本"}, {"0123456789abcdef", "0123456789abcdeg"},
		{"ab", "ba"}, {"a\U0001F600b", "a\U0001F601b"}} {
		add(c12S(p[0]), c12S(p[1]), "string-near-miss")
		add(c12R(p[1]), c12R(p[0]), "rid-near-miss")
	}
	// UIDs
	u1 := []byte{0, 1, 2, 3, 4, 5, 6, 7, 8, 9, 10, 11, 12, 13, 14, 15}
	u2 := append([]byte{}, u1...)
	u2[15]++
	u3 := append([]byte{}, u1...)
	u3[0] ^= 0x80
	zero := make([]byte, 16)
	add(c12U(u1), c12U(u1), "same-uid")
	add(c12U(zero), c12U(zero), "same-uid")
	add(c12U(u1), c12U(u2), "uid-near-miss")
	add(c12U(u1), c12U(u3), "uid-near-miss")
	add(c12U([]byte("0123456789abcdef")), c12S("0123456789abcdef"), "uid-vs-string")
	// booleans
	add(c12B(true), c12B(true), "same-bool")
	add(c12B(false), c12B(false), "same-bool")
	add(c12B(true), c12B(false), "bool-near-miss")
	// times (one zone per pair)
	utc := compact_time.TZAtUTC()
	berlin := compact_time.TZAtAreaLocation("Europe/Berlin")
	off := compact_time.TZWithMiutesOffsetFromUTC(90)
	ll := compact_time.TZAtLatLong(5012, -12345)
	for _, z := range []compact_time.Timezone{utc, berlin, off, ll, compact_time.TZLocal()} {
		ts := compact_time.NewTimestamp(2020, 1, 2, 12, 30, 45, 0, z)
		ts1 := compact_time.NewTimestamp(2020, 1, 2, 12, 30, 45, 1, z)
		tm := compact_time.NewTime(12, 30, 45, 0, z)
		tm1 := compact_time.NewTime(12, 30, 46, 0, z)
		add(c12T(ts), c12T(ts), "same-timestamp")
		add(c12T(tm), c12T(tm), "same-time")
		add(c12T(ts), c12T(ts1), "time-near-miss")
		add(c12T(tm), c12T(tm1), "time-near-miss")
		add(c12T(tm), c12T(ts), "time-vs-timestamp")
	}
	d := compact_time.NewDate(2020, 1, 2)
	d1 := compact_time.NewDate(2020, 1, 3)
	add(c12T(d), c12T(d), "same-date")
	add(c12T(d), c12T(d1), "time-near-miss")
	add(c12T(d), c12T(compact_time.NewTimestamp(2020, 1, 2, 0, 0, 0, 0, utc)), "date-vs-timestamp")
	add(c12T(compact_time.NewDate(-2020, 1, 2)), c12T(d), "time-near-miss")
	// different classes whose usual written forms coincide
	add(c12I("1"), c12S("1"), "int-vs-text")
	add(c12I("-5"), c12S("-5"), "int-vs-text")
	add(c12I("1"), c12B(true), "int-vs-bool")
	add(c12I("0"), c12B(false), "int-vs-bool")
	add(c12S("true"), c12B(true), "text-vs-bool")
	add(c12R("false"), c12B(false), "text-vs-bool")
	add(c12S("2020-01-02"), c12T(d), "text-vs-time")
	add(c12T(d), c12S("2020-01-02"), "text-vs-time")
	add(c12R("2020-01-02"), c12T(d), "text-vs-time")
	add(c12S("12:30:45"), c12T(compact_time.NewTime(12, 30, 45, 0, utc)), "text-vs-time")
	add(c12T(compact_time.NewTimestamp(2020, 1, 2, 12, 30, 45, 0, utc)), c12S("2020-01-02/12:30:45"), "text-vs-time")
	add(c12I("18446744073709551616"), c12S("18446744073709551616"), "int-vs-text")
}

const (
	c12Map = iota
	c12MapInList
	c12MapAsValue
	c12RecordType
	c12NumContainers
)

var c12ContainerNames = []string{"map", "map-in-list", "map-as-map-value", "record-type"}

func init() {
	c12BuildPairs()
	fw.Register(&fw.Check{
		ID:    "C12",
		Level: "exploration",
		Rule: "case = 2-6 keys (integers incl. every width boundary up to 2^200 and -0, strings, resource IDs, UIDs, booleans, times) in a map (top level, in a list, as a map value) or a record type. " +
			"Directed cases: one pair of keys (same value, or near miss: negated, successor, equal modulo 2^64/2^128, two's-complement pun, text differing in one character/NUL, other class with the same written form) with " +
			"EVERY ordered pair of encodings of the two: event forms into rules.NewRules, and CBE wire forms (small, each fixed width that fits, length-prefixed minimal/padded/big) through cbe.Decoder+rules; " +
			"random cases mix classes, duplicates and near misses over random encodings. Oracle: reference model (normal form = class + exact value): accepted iff all normal forms distinct, rejection not before the " +
			"repeated key and not after the container's END. An evaluation = one driven document. Non-trivial = at least two keys whose encodings differ in form; distinct = distinct (container, key list, encoding list).",
		Assumptions: []string{"pairs the text leaves open are never put in one map: -0 with 0, a string and a resource ID with equal text, non-date times in different zones",
			"CBE documents are built by the harness's own writer from the CBE type codes; times are encoded with go-compact-time",
			"a panic of the validator at an event, or an error returned by cbe.Decoder.DecodeDocument, is the rejection; its position is the number of events that reached the receiver behind rules"},
		Exhaustive: func(string) bool { return false },
		Cases:      func(tier string) int { return c12Directed() + tierN(tier, 4000, 150000) },
		Run:        runC12,
		Floors: func(string) map[string]int64 {
			f := map[string]int64{"drives": 20000, "mode.events": 5000, "mode.cbe": 5000, "model.duplicate": 3000, "model.distinct": 3000,
				"lib.accepted": 3000, "lib.rejected": 3000, "container.record-type": 1000, "container.map": 1000}
			for _, k := range []string{"int", "pint", "nint", "bint", "whole", "chunked", "cbe-small", "cbe-fixed8", "cbe-fixed16", "cbe-fixed32", "cbe-fixed64", "uid", "time", "boolean", "true/false",
				"cbe-short", "cbe-chunked-n", "cbe-uid", "cbe-time", "cbe-bool", "cbe-var-padded", "cbe-var-big", "cbe-var-minimal"} {
				f["form."+k] = 20
			}
			for _, k := range []string{"i", "s", "r", "u", "b", "t"} {
				f["class."+k] = 100
			}
			return f
		},
	})
}

func c12Directed() int { return len(c12Pairs) * 2 }

// c12Rendering is one concrete document for a key list.
type c12Rendering struct {
	container int
	cbe       bool
	forms     []c12Form
	values    []int  // value kind per key (maps)
	nestedKey int    // for value kind "nested map": index of the outer key it repeats
	marked    []bool // maps only: key i carries a marker ("k<i>") in front of its encoding
	log       []ev.Event
	doc       []byte
	keyStart  []int
	endIdx    int
}

const (
	c12ValInt = iota
	c12ValNull
	c12ValText
	c12ValList
	c12ValNestedMap // {copy of an outer key: 1}: the same key in another map is no duplicate
	c12ValChunkedText
	c12NumVals
)

func c12ValueEvents(kind int, nested c12Form) []ev.Event {
	switch kind {
	case c12ValNull:
		return []ev.Event{{K: ev.NULL}}
	case c12ValText:
		return []ev.Event{{K: ev.STRARR, AT: events.ArrayTypeString, S: "v"}}
	case c12ValList:
		return []ev.Event{{K: ev.LIST}, {K: ev.END}}
	case c12ValChunkedText:
		return []ev.Event{{K: ev.ABEGIN, AT: events.ArrayTypeString}, {K: ev.CHUNK, U: 1, Flag: true}, {K: ev.DATA, B: []byte("k")}, {K: ev.CHUNK, U: 1}, {K: ev.DATA, B: []byte("v")}}
	case c12ValNestedMap:
		out := []ev.Event{{K: ev.MAP}}
		out = append(out, nested.Events...)
		return append(out, ev.Event{K: ev.INT, I: 1}, ev.Event{K: ev.END})
	}
	return []ev.Event{{K: ev.INT, I: 1}}
}

func c12ValueCBE(kind int, nested c12Form) (b []byte, n int) {
	switch kind {
	case c12ValNull:
		return []byte{0x7d}, 1
	case c12ValText:
		return []byte{0x81, 'v'}, 1
	case c12ValList:
		return []byte{0x9a, 0x9b}, 2
	case c12ValChunkedText:
		return []byte{0x90, 0x03, 'k', 0x02, 'v'}, 5
	case c12ValNestedMap:
		b = append([]byte{0x99}, nested.CBE...)
		return append(b, 0x01, 0x9b), nested.NEvents + 3
	}
	return []byte{0x01}, 1
}

// c12Render builds the event log (events mode) or the CBE document plus event accounting (CBE mode).
func c12Render(rd *c12Rendering) {
	isMap := rd.container != c12RecordType
	if !rd.cbe {
		log := make([]ev.Event, 0, 48)
		log = append(log, ev.Event{K: ev.BD}, ev.Event{K: ev.VER, U: 0})
		switch rd.container {
		case c12MapInList:
			log = append(log, ev.Event{K: ev.LIST}, ev.Event{K: ev.MAP})
		case c12MapAsValue:
			// the outer map uses the first key's own encoding as its key: equal keys in different maps
			log = append(log, ev.Event{K: ev.MAP})
			log = append(log, rd.forms[0].Events...)
			log = append(log, ev.Event{K: ev.MAP})
		case c12RecordType:
			log = append(log, ev.Event{K: ev.RECTYPE, B: []byte("r")})
		default:
			log = append(log, ev.Event{K: ev.MAP})
		}
		for i, f := range rd.forms {
			rd.keyStart = append(rd.keyStart, len(log))
			if isMap && i < len(rd.marked) && rd.marked[i] {
				log = append(log, ev.Event{K: ev.MARK, B: []byte(fmt.Sprintf("k%d", i))})
			}
			log = append(log, f.Events...)
			if isMap {
				log = append(log, c12ValueEvents(rd.values[i], rd.forms[rd.nestedKey])...)
			}
		}
		rd.endIdx = len(log)
		log = append(log, ev.Event{K: ev.END})
		switch rd.container {
		case c12MapInList, c12MapAsValue:
			log = append(log, ev.Event{K: ev.END})
		case c12RecordType:
			log = append(log, ev.Event{K: ev.NULL})
		}
		log = append(log, ev.Event{K: ev.ED})
		rd.log = log
		return
	}
	doc := []byte{0x81, 0x00}
	n := 2
	switch rd.container {
	case c12MapInList:
		doc = append(doc, 0x9a, 0x99)
		n += 2
	case c12MapAsValue:
		doc = append(doc, 0x99)
		doc = append(doc, rd.forms[0].CBE...)
		doc = append(doc, 0x99)
		n += 2 + rd.forms[0].NEvents
	case c12RecordType:
		doc = append(doc, 0x7f, 0xf1, 0x01, 'r')
		n++
	default:
		doc = append(doc, 0x99)
		n++
	}
	for i, f := range rd.forms {
		rd.keyStart = append(rd.keyStart, n)
		if isMap && i < len(rd.marked) && rd.marked[i] {
			doc = append(doc, 0x7f, 0xf0, 0x02, 'k', byte('0'+i))
			n++
		}
		doc = append(doc, f.CBE...)
		n += f.NEvents
		if isMap {
			b, c := c12ValueCBE(rd.values[i], rd.forms[rd.nestedKey])
			doc = append(doc, b...)
			n += c
		}
	}
	rd.endIdx = n
	doc = append(doc, 0x9b)
	switch rd.container {
	case c12MapInList, c12MapAsValue:
		doc = append(doc, 0x9b)
	case c12RecordType:
		doc = append(doc, 0x7d)
	}
	rd.doc = doc
}

type c12Runner struct {
	c      *fw.Ctx
	cfg    *configuration.Configuration
	failed map[string]bool
	cnt    map[string]int64
	drives int64
}

func (rn *c12Runner) inc(k string) { rn.cnt[k]++ }

func (rn *c12Runner) flush() {
	rn.c.Evals(rn.drives)
	keys := make([]string, 0, len(rn.cnt))
	for k := range rn.cnt {
		keys = append(keys, k)
	}
	sort.Strings(keys)
	for _, k := range keys {
		rn.c.Count(k, rn.cnt[k])
	}
}

func c12FormClass(f c12Form) string {
	if strings.HasPrefix(f.Name, "cbe-var") {
		var n, m int
		fmt.Sscanf(f.Name, "cbe-var%d(min%d)", &n, &m)
		switch {
		case n > 8:
			return "cbe-var-big"
		case n > m:
			return "cbe-var-padded"
		}
		return "cbe-var-minimal"
	}
	if strings.HasPrefix(f.Name, "chunked") {
		return "chunked"
	}
	if f.Name == "strarr" || f.Name == "arr" {
		return "whole"
	}
	return f.Name
}

func c12MagClass(k c12Key) string {
	if k.Class != 'i' {
		return ""
	}
	switch n := new(big.Int).Abs(k.Int).BitLen(); {
	case k.NegZero:
		return "-0"
	case n <= 63:
		return "<2^63"
	case n == 64 && new(big.Int).Abs(k.Int).Cmp(new(big.Int).Lsh(big.NewInt(1), 63)) == 0:
		return "=2^63"
	case n <= 64:
		return "<2^64"
	}
	return ">=2^64"
}

// execute delivers a rendered document to the validator: rej = index of the rejected event (-1 = accepted).
func (rn *c12Runner) execute(rd *c12Rendering) (rej int, why string, escaped map[string]interface{}) {
	if !rd.cbe {
		r := rules.NewRules(nil, rn.cfg)
		idx, p := replayAuto(r, rd.log)
		return idx, ev.PanicString(p), nil
	}
	res := decodeDoc(ce.NewCBEDecoder(rn.cfg), rd.doc, rn.cfg, true)
	if res.Panic != nil {
		return -1, "", map[string]interface{}{"panic": ev.PanicString(res.Panic), "stack": short(res.Stack, 1500)}
	}
	if res.Err != nil {
		return len(res.Log), res.Err.Error(), nil
	}
	return -1, "", nil
}

// partnerOf finds, by driving two-key containers, the earlier key that the validator takes for equal to key at.
func (rn *c12Runner) partnerOf(rd *c12Rendering, at int) int {
	for i := 0; i < at; i++ {
		two := &c12Rendering{container: rd.container, cbe: rd.cbe, forms: []c12Form{rd.forms[i], rd.forms[at]}, values: []int{c12ValInt, c12ValInt}}
		c12Render(two)
		if rej, _, _ := rn.execute(two); rej >= 0 {
			return i
		}
	}
	return -1
}

// drive runs one rendering and applies the oracle.
func (rn *c12Runner) drive(keys []c12Key, rd *c12Rendering) {
	c12Render(rd)
	rn.drives++
	rn.inc("drives")
	rn.inc("container." + c12ContainerNames[rd.container])
	for _, f := range rd.forms {
		rn.inc("form." + c12FormClass(f))
	}
	if rd.cbe {
		rn.inc("mode.cbe")
	} else {
		rn.inc("mode.events")
	}
	rej, why, escaped := rn.execute(rd)
	if escaped != nil {
		rn.fail("cbe-decoder-escaped-panic", keys, rd, -1, escaped)
		return
	}
	if rej < 0 {
		rn.inc("lib.accepted")
	} else {
		rn.inc("lib.rejected")
	}
	dup := c12FirstDuplicate(keys)
	if dup < 0 {
		rn.inc("model.distinct")
		if rej >= 0 {
			at := len(keys) - 1
			for at > 0 && rd.keyStart[at] > rej {
				at--
			}
			sig := "unexpected-reject"
			if strings.Contains(why, "already exists") {
				sig = "false-duplicate"
			}
			where := string(keys[at].Class) + "-alone"
			partner := -1
			if at > 0 {
				if partner = rn.partnerOf(rd, at); partner >= 0 {
					a, b := string(keys[partner].Class), string(keys[at].Class)
					if a > b {
						a, b = b, a
					}
					where = a + "~" + b
				} else {
					where = string(keys[at].Class) + "-no-single-partner"
				}
			}
			rn.fail(sig+"@"+where, keys, rd, rej, map[string]interface{}{"why": why, "rejected_key": at, "taken_for_equal_to_key": partner})
		}
		return
	}
	rn.inc("model.duplicate")
	first := 0
	for i := 0; i < dup; i++ {
		if keys[i].NF() == keys[dup].NF() {
			first = i
			break
		}
	}
	a, b := rd.forms[first].Reach, rd.forms[dup].Reach
	if a > b {
		a, b = b, a
	}
	where := string(keys[dup].Class) + ":" + a + "~" + b + c12MagClass(keys[dup])
	switch {
	case rej < 0:
		rn.fail("missed-duplicate@"+where, keys, rd, rej, map[string]interface{}{"first": first, "repeat": dup})
	case rej < rd.keyStart[dup]:
		rn.fail("rejected-before-repeated-key@"+where, keys, rd, rej, map[string]interface{}{"why": why, "first": first, "repeat": dup})
	case rej > rd.endIdx:
		rn.fail("rejected-after-container-end@"+where, keys, rd, rej, map[string]interface{}{"why": why, "first": first, "repeat": dup})
	}
}

func (rn *c12Runner) fail(sig string, keys []c12Key, rd *c12Rendering, rej int, extra map[string]interface{}) {
	rn.inc("fail." + sig)
	if rn.failed[sig] {
		return
	}
	rn.failed[sig] = true
	d := map[string]interface{}{"container": c12ContainerNames[rd.container], "lib_rejected_at_event": rej, "key_first_event": rd.keyStart, "container_end_event": rd.endIdx}
	var ks, fs []string
	for i, k := range keys {
		ks = append(ks, k.String())
		fs = append(fs, rd.forms[i].Name)
	}
	d["keys"] = ks
	d["encodings"] = fs
	d["marked_keys"] = rd.marked
	if rd.cbe {
		d["cbe"] = hexs(rd.doc)
	} else {
		d["events"] = ev.LogStrings(rd.log)
	}
	for k, v := range extra {
		d[k] = v
	}
	rn.c.Fail(sig, d)
}

// c12Filler makes a key that differs from every key in avoid (by normal form) and is not a don't-care partner.
func c12Filler(r *rand.Rand, avoid []c12Key) c12Key {
	for {
		k := c12RandomKey(r)
		ok := true
		for _, a := range avoid {
			if a.NF() == k.NF() || c12DontCarePair(a, k) {
				ok = false
			}
		}
		if ok {
			return k
		}
	}
}

var c12Texts = []string{"", "a", "b", "ab", "key", "é", "日本", "x\U0001F600", "0123456789abcdef", "some longer key text here", "1", "-1", "true", "null", "\x00"}

func c12RandomKey(r *rand.Rand) c12Key {
	switch r.Intn(10) {
	case 0, 1, 2, 3:
		mag := gen.Magnitude(r)
		if r.Intn(2) == 0 {
			mag.Neg(mag)
		}
		return c12Key{Class: 'i', Int: mag}
	case 4, 5:
		if r.Intn(2) == 0 {
			return c12S(c12Texts[r.Intn(len(c12Texts))])
		}
		return c12S(gen.TextValue(r, 24, false))
	case 6:
		return c12R("r" + c12Texts[r.Intn(len(c12Texts))])
	case 7:
		return c12U(gen.RandBytes(r, 16))
	case 8:
		return c12B(r.Intn(2) == 0)
	}
	return c12T(gen.Time(r))
}

// c12NearMiss derives a key that differs from k in value but is close in representation.
func c12NearMiss(r *rand.Rand, k c12Key) c12Key {
	switch k.Class {
	case 'i':
		v := new(big.Int).Set(k.Int)
		switch r.Intn(5) {
		case 0:
			if v.Sign() != 0 {
				return c12Key{Class: 'i', Int: v.Neg(v)}
			}
			return c12Key{Class: 'i', Int: big.NewInt(1)}
		case 1:
			return c12Key{Class: 'i', Int: v.Add(v, big.NewInt(1))}
		case 2:
			return c12Key{Class: 'i', Int: v.Add(v, new(big.Int).Lsh(big.NewInt(1), 64))}
		case 3:
			return c12Key{Class: 'i', Int: v.Sub(v, new(big.Int).Lsh(big.NewInt(1), 64))}
		default:
			return c12S(k.Int.String())
		}
	case 's', 'r':
		t := k.Text
		switch r.Intn(3) {
		case 0:
			t += "\x00"
		case 1:
			t += " "
		default:
			t = "x" + t
		}
		return c12Key{Class: k.Class, Text: t}
	case 'u':
		u := append([]byte{}, k.UID...)
		u[r.Intn(16)] ^= 1 << uint(r.Intn(8))
		return c12U(u)
	case 'b':
		return c12B(!k.Bool)
	}
	t := k.Time
	if t.Type == compact_time.TimeTypeDate {
		if t.Day > 1 {
			t.Day--
		} else {
			t.Day++
		}
	} else if t.Nanosecond < 999999999 {
		t.Nanosecond++
	} else {
		t.Nanosecond--
	}
	return c12T(t)
}

func c12AnyDontCare(keys []c12Key) bool {
	for i := range keys {
		for j := 0; j < i; j++ {
			if c12DontCarePair(keys[i], keys[j]) {
				return true
			}
		}
	}
	return false
}

func runC12(c *fw.Ctx, idx int) {
	c11TuneRuntime()
	r := c.Rng
	rn := &c12Runner{c: c, cfg: configuration.New(), failed: map[string]bool{}, cnt: map[string]int64{}}
	defer rn.flush()

	randomValues := func(n int) []int {
		v := make([]int, n)
		for i := range v {
			v[i] = r.Intn(c12NumVals)
		}
		return v
	}

	randomMarks := func(n int) []bool {
		m := make([]bool, n)
		if r.Intn(3) != 0 {
			return m
		}
		for i := range m {
			m[i] = r.Intn(2) == 0
		}
		rn.inc("renderings.with_marked_keys")
		return m
	}

	if idx < c12Directed() {
		p := c12Pairs[idx/2]
		rn.inc("directed." + p.Note)
		rn.inc("class." + string(p.A.Class))
		rn.inc("class." + string(p.B.Class))
		c.Note("C12 directed %s: %s / %s", p.Note, p.A.String(), p.B.String())
		if c12DontCarePair(p.A, p.B) {
			rn.inc("dontcare.directed_pair")
			return
		}
		for _, cbe := range []bool{false, true} {
			fa := c12Forms(p.A, cbe, r)
			fb := c12Forms(p.B, cbe, r)
			for _, x := range fa {
				for _, y := range fb {
					// fillers around the pair: 0-2 other keys, the pair keeps its order
					keys := []c12Key{p.A, p.B}
					forms := []c12Form{x, y}
					nf := r.Intn(3)
					for i := 0; i < nf; i++ {
						k := c12Filler(r, keys)
						fs := c12Forms(k, cbe, r)
						f := fs[r.Intn(len(fs))]
						pos := r.Intn(len(keys) + 1)
						keys = append(keys[:pos], append([]c12Key{k}, keys[pos:]...)...)
						forms = append(forms[:pos], append([]c12Form{f}, forms[pos:]...)...)
					}
					container := c12Map
					if idx%2 == 1 {
						container = c12RecordType
					} else if r.Intn(3) == 0 {
						container = 1 + r.Intn(2)
					}
					rd := &c12Rendering{container: container, cbe: cbe, forms: forms, values: randomValues(len(keys)), nestedKey: r.Intn(len(keys)), marked: randomMarks(len(keys))}
					if x.Name != y.Name {
						c.Distinct(c12Desc(keys, rd))
					}
					rn.drive(keys, rd)
					if c.WantSample() && idx%41 == 0 && x.Name != y.Name && cbe {
						c.Sample(map[string]interface{}{"keys": []string{p.A.String(), p.B.String()}, "note": p.Note, "encodings": []string{x.Name, y.Name}, "cbe": hexs(rd.doc)})
					}
				}
			}
		}
		return
	}

	// random key lists
	n := 2 + r.Intn(5)
	var keys []c12Key
	for len(keys) < n {
		switch {
		case len(keys) > 0 && r.Intn(4) == 0:
			keys = append(keys, keys[r.Intn(len(keys))]) // a duplicate
		case len(keys) > 0 && r.Intn(3) == 0:
			keys = append(keys, c12NearMiss(r, keys[r.Intn(len(keys))]))
		default:
			keys = append(keys, c12RandomKey(r))
		}
	}
	// all times of one map share the zone of the first one
	var zone *compact_time.Timezone
	for i := range keys {
		if keys[i].Class == 't' && keys[i].Time.Type != compact_time.TimeTypeDate {
			if zone == nil {
				z := keys[i].Time.Timezone
				zone = &z
			} else {
				keys[i].Time.Timezone = *zone
			}
		}
	}
	if c12AnyDontCare(keys) {
		rn.inc("dontcare.random_key_list")
		return
	}
	c.Note("C12 random %v", keys)
	for _, k := range keys {
		rn.inc("class." + string(k.Class))
	}
	if c12FirstDuplicate(keys) >= 0 {
		rn.inc("random.with_duplicate")
	} else {
		rn.inc("random.all_distinct")
	}
	for rep := 0; rep < 6; rep++ {
		cbe := rep%2 == 1
		forms := make([]c12Form, len(keys))
		for i, k := range keys {
			fs := c12Forms(k, cbe, r)
			forms[i] = fs[r.Intn(len(fs))]
		}
		rd := &c12Rendering{container: r.Intn(c12NumContainers), cbe: cbe, forms: forms, values: randomValues(len(keys)), nestedKey: r.Intn(len(keys)), marked: randomMarks(len(keys))}
		c.Distinct(c12Desc(keys, rd))
		rn.drive(keys, rd)
	}
}

func c12Desc(keys []c12Key, rd *c12Rendering) string {
	var sb strings.Builder
	fmt.Fprintf(&sb, "%d|%v|", rd.container, rd.cbe)
	for i, k := range keys {
		sb.WriteString(k.NF())
		sb.WriteByte('/')
		sb.WriteString(rd.forms[i].Name)
		sb.WriteByte('|')
	}
	return sb.String()
}
