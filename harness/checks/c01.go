package checks

import (
	"bytes"
	"math/rand"
	"strings"

	compact_time "github.com/kstenerud/go-compact-time"
	"math/big"

	"github.com/kstenerud/go-concise-encoding/ce"
	"github.com/kstenerud/go-concise-encoding/configuration"

	"verifharness/ev"
	"verifharness/fw"
	"verifharness/gen"
)

func cbeStreamOpts(c *fw.Ctx) gen.StreamOpts {
	o := gen.StreamOpts{Comments: true, Padding: true, CustomBinary: true, RemoteRef: true, Markers: true, Records: true,
		Media: true, Chunked: true, MaxDepth: 2 + c.Rng.Intn(6), Size: 5 + c.Rng.Intn(60), MaxArrayLen: 40}
	if c.Tier == "thorough" && c.Rng.Intn(10) == 0 {
		o.MaxArrayLen = 5000
		o.Size = 200
	}
	if c.Rng.Intn(4) == 0 {
		o.MaxDepth = 0 + 1
		o.Size = 3
	}
	return o
}

// mismatchSig builds the signature of a canonical mismatch from the differing nodes.
func mismatchSig(a, b *ev.Node, path, desc string) string {
	x, y := ev.FindFirstDiffNodes(a, b)
	if x == nil || y == nil {
		return "mismatch:structure"
	}
	if x.Tag == y.Tag {
		if len(x.Kids) != len(y.Kids) {
			return "mismatch:" + x.Tag + ":child-count"
		}
		return "mismatch:" + x.Tag
	}
	return "mismatch:" + x.Tag + "->" + y.Tag
}

func init() {
	fw.Register(&fw.Check{
		ID:    "C01",
		Level: "exploration",
		Rule: "case = PRNG-generated event stream (valid by construction, confirmed by replay through the real rules validator), " +
			"encoded by cbe.Encoder and decoded by cbe.Decoder+rules into a recorder; oracle = equality of the canonical data views " +
			"(exact numbers, field-wise times, concatenated array bytes) modulo comments. Non-trivial = stream has >=1 container and >=3 value events; " +
			"distinct = distinct rendered event logs.",
		Assumptions: []string{"the harness's canonical view (ev.Canon) defines 'same data'", "generator bounds: depth<=8, <=260 values, integers <=4096 bits, arrays <=5000 elements"},
		Cases:       func(tier string) int { return tierN(tier, 6000, 200000) },
		Run:         runC01,
		Floors: func(string) map[string]int64 {
			return map[string]int64{"compared": 1000, "in.intwidth.small": 1, "in.intwidth.8": 1, "in.intwidth.16": 1, "in.intwidth.32": 1,
				"in.intwidth.48": 1, "in.intwidth.64": 1, "in.ev.bint": 1, "in.ev.abegin": 1, "in.ev.mark": 1, "in.ev.ref": 1, "in.ev.record": 1,
				"in.ev.edge": 1, "in.ev.node": 1, "in.ev.media": 1, "in.ev.custb": 1, "in.ev.time": 1}
		},
	})
}

// c01Directed: boundary streams that run first for every seed (index 0 is the probe of the big.Float known finding).
func c01Directed() [][]ev.Event {
	wrap := func(e ...ev.Event) []ev.Event {
		return append(append([]ev.Event{{K: ev.BD}, {K: ev.VER}}, e...), ev.Event{K: ev.ED})
	}
	bf, _ := new(big.Float).SetPrec(140).SetString("-0x.c2ce11731f7b19843b3311194fd36e2148ap+100")
	out := [][]ev.Event{wrap(ev.Event{K: ev.BFLOAT, BF: bf})}
	var ints []ev.Event
	ints = append(ints, ev.Event{K: ev.LIST})
	for _, b := range gen.IntBoundaries {
		m, _ := new(big.Int).SetString(b, 10)
		ints = append(ints, ev.Event{K: ev.BINT, BI: m}, ev.Event{K: ev.BINT, BI: new(big.Int).Neg(m)})
		if m.IsUint64() {
			ints = append(ints, ev.Event{K: ev.PINT, U: m.Uint64()}, ev.Event{K: ev.NINT, U: m.Uint64()})
		}
	}
	ints = append(ints, ev.Event{K: ev.END})
	out = append(out, wrap(ints...))
	// Length sweep: every variable-length scalar at every length 1..130, each followed by a sentinel, so that an encoder or
	// decoder scratch-buffer boundary (32, 64, 127, 128 bytes ...) is hit by every kind whatever the buffer's current size.
	r := rand.New(rand.NewSource(20260922))
	for n := 1; n <= 130; n++ {
		l := []ev.Event{{K: ev.LIST}}
		sentinel := ev.Event{K: ev.PINT, U: 65}
		if n >= 3 && n <= 127 {
			for _, ns := range []int{0, 5000000, 7000, 9} {
				z := compact_time.TZAtAreaLocation(gen.SynthAreaLocation(r, n))
				l = append(l, ev.Event{K: ev.TIME, T: compact_time.NewTime(1, 2, 3, ns, z)}, sentinel,
					ev.Event{K: ev.TIME, T: compact_time.NewTimestamp(2020, 1, 15, 10, 0, 1, ns, z)}, sentinel)
			}
		}
		if n <= 127 {
			id := bytes.Repeat([]byte{'m'}, n)
			l = append(l, ev.Event{K: ev.MARK, B: id}, sentinel, ev.Event{K: ev.REF, B: id})
		}
		l = append(l, ev.Event{K: ev.STRARR, AT: 1, S: strings.Repeat("s", n)}, sentinel,
			ev.Event{K: ev.BINT, BI: new(big.Int).Lsh(big.NewInt(1), uint(8*n-1))}, sentinel,
			ev.Event{K: ev.BINT, BI: new(big.Int).Neg(new(big.Int).Lsh(big.NewInt(1), uint(8*n-1)))}, sentinel, ev.Event{K: ev.END})
		out = append(out, wrap(l...))
	}
	return out
}

var c01dir = c01Directed()

func runC01(c *fw.Ctx, idx int) {
	cfg := configuration.New()
	in := gen.Stream(c.Rng, cbeStreamOpts(c))
	if idx < len(c01dir) {
		in = c01dir[idx]
	}
	c.Note("stream %s", ev.LogString(in))
	a, rej, why := throughRules(in, cfg)
	if rej >= 0 {
		c.Inc("generated_stream_rejected_by_rules")
		c.Count("rejected_reason."+short(ev.PanicString(why), 40), 1)
		return
	}
	c.Eval()
	withRulesInFront := c.Rng.Intn(2) == 0
	var doc []byte
	var fi int
	var p interface{}
	if withRulesInFront {
		doc, fi, p = encodeWithRules(ce.NewCBEEncoder(cfg), in, cfg)
	} else {
		doc, fi, p = encodeEvents(ce.NewCBEEncoder(cfg), a)
	}
	if fi >= 0 {
		c.Fail("encode-panic", map[string]interface{}{"stream": ev.LogStrings(in), "event": fi, "panic": ev.PanicString(p)})
		return
	}
	res := decodeDoc(ce.NewCBEDecoder(cfg), doc, cfg, true)
	if res.Panic != nil {
		c.Fail("decode-escaped-panic", map[string]interface{}{"stream": ev.LogStrings(in), "doc": hexs(doc), "panic": ev.PanicString(res.Panic), "stack": res.Stack})
		return
	}
	if res.Err != nil {
		c.Fail("decode-reject", map[string]interface{}{"stream": ev.LogStrings(in), "doc": hexs(doc), "err": res.Err.Error()})
		return
	}
	ca, err := ev.Canon(a, ev.Opts{DropComments: true})
	if err != nil {
		c.Fail("harness-canon-input", map[string]interface{}{"stream": ev.LogStrings(a), "err": err.Error()})
		return
	}
	cb, err := ev.Canon(res.Log, ev.Opts{})
	if err != nil {
		c.Fail("decoded-log-malformed", map[string]interface{}{"stream": ev.LogStrings(in), "decoded": ev.LogStrings(res.Log), "err": err.Error()})
		return
	}
	c.Count("compared", 1)
	c.Count("events_compared", int64(len(res.Log)))
	featureCounts(c, "in.", a)
	if nontrivialStream(a) {
		c.Distinct(ev.LogString(a))
	}
	if path, desc := ev.Diff(ca, cb); path != "" {
		sig := mismatchSig(ca, cb, path, desc)
		x, y := ev.FindFirstDiffNodes(ca, cb)
		if s := numMismatchSig(a, x, y); s != "" {
			sig = s
		}
		c.Fail(sig, map[string]interface{}{"stream": ev.LogStrings(in), "doc": hexs(doc), "decoded": ev.LogStrings(res.Log), "path": path, "diff": desc})
		return
	}
	if c.WantSample() && nontrivialStream(a) {
		c.Sample(map[string]interface{}{"stream": ev.LogStrings(a), "cbe": hexs(doc)})
	}
}
