package checks

// C24 - CTE literals decode to exactly the value written.
//
// Workload: the literal speller (c24_speller.go) renders chosen exact values in many spellings;
// literals are batched as elements of one list per document. Oracle: the reference evaluation of
// the literal text (c24_literal.go, written against the lexer grammar / specification).

import (
	"encoding/hex"
	"fmt"
	"strings"

	"github.com/kstenerud/go-concise-encoding/ce"
	"github.com/kstenerud/go-concise-encoding/configuration"

	"verifharness/ev"
	"verifharness/fw"
)

func init() {
	fw.Register(&fw.Check{
		ID:    "C24",
		Level: "exploration",
		Rule: "case = a batch of CTE literals produced by a seeded speller from chosen exact values (integers in bases 2/8/10/16 with prefix case, '_' separators, " +
			"leading zeros, sign, -0; decimal and hexadecimal floats with fraction/exponent forms, long mantissas, float64-subnormal and overflow ranges; inf/nan/snan; " +
			"typed int/uint/float arrays in generic and explicit b/o/x modes with boundary, out-of-range and inexact elements; strings with named escapes, \\[hex] code points, " +
			"continuations and verbatim sequences), decoded by ce.NewCTEDecoder + rules into a recorder as list elements of one document (failing batches are re-decoded literal by " +
			"literal, arrays element by element). Oracle = an independent reference evaluator written from CTELexer.g4: a literal inside the grammar must decode to exactly the " +
			"spelled value (canonical exact number / element bytes / string bytes), an array element that does not fit must be rejected, float elements that are not exactly " +
			"representable may be rejected or must decode to one of the two neighbouring representable values; spellings outside the grammar are only counted. " +
			"Evaluation = one in-grammar literal judged; non-trivial = every in-grammar literal; distinct = distinct literal texts.",
		Assumptions: []string{
			"the reference evaluator (checks/c24_literal.go) is the definition of 'the value a literal spells'; it is cross-checked on every literal against the speller's intended value and on directed literals against hand-written values",
			"generator bounds: |decimal exponent| <= 3400, |binary exponent| <= 5300, integers <= 265 bits, mantissas <= 50 hex / 70 decimal digits, strings <= 12 segments",
			"a \\[hex] escape that names no Unicode scalar value (surrogate, > 10ffff) is don't-care (the property only speaks about characters)",
			"float16 is the library's bfloat16 (upper half of a float32)",
		},
		Cases: func(tier string) int { return c24NumDirected() + tierN(tier, 1400, 120000) },
		Run:   runC24,
		Floors: func(tier string) map[string]int64 {
			m := map[string]int64{"judged": 15000, "batch.ok": 500}
			for _, k := range []string{"int.base2", "int.base8", "int.base10", "int.base16", "int.sep", "int.multisep", "int.leadzero", "int.negzero", "int.big", "int.upperprefix",
				"dfloat.frac", "dfloat.exp", "dfloat.coeff>18digits", "dfloat.coeff<=18digits", "dfloat.negzero", "dfloat.sep",
				"hfloat.frac", "hfloat.exp", "hfloat.longmant", "hfloat.exp.subnormal64", "hfloat.exp.below-subnormal64", "hfloat.exp.near-max64", "hfloat.negzero", "hfloat.sep",
				"special.inf", "special.-inf", "special.nan", "special.snan",
				"iarr.elem.outofrange.by1", "iarr.elem.outofrange.far", "iarr.elem.min", "iarr.elem.max", "iarr.elem.sep", "iarr.elem.multisep", "iarr.elem.leadzero", "iarr.elem.negzero", "iarr.arr.empty",
				"farr.elem.float-too-big", "farr.elem.float-inexact", "farr.elem.float-tie", "farr.elem.subnormal", "farr.elem.negzero", "farr.elem.nan", "farr.elem.snan", "farr.elem.inf", "farr.elem.-inf",
				"farr.elem.hexfloat", "farr.elem.decfloat", "farr.arr.empty",
				"str.str.raw", "str.str.codepoint", "str.str.codepoint.astral", "str.str.codepoint.leadzero", "str.str.continuation", "str.str.verbatim", "str.str.verbatim.empty",
				"str.str.verbatim.nonascii-sentinel", "unfit-element.rejected", "outside.rejected"} {
				m["feat."+k] = 1
			}
			for _, e := range c24NamedOrder {
				m["feat.str.str.named."+string(e)] = 1
			}
			for _, cl := range []string{"i", "u"} {
				for _, w := range []int{8, 16, 32, 64} {
					for _, md := range []string{"", "b", "o", "x"} {
						m[fmt.Sprintf("feat.iarr.arr.%s%d%s", cl, w, md)] = 1
					}
				}
			}
			for _, w := range []int{16, 32, 64} {
				for _, md := range []string{"", "x"} {
					m[fmt.Sprintf("feat.farr.arr.f%d%s", w, md)] = 1
				}
			}
			return m
		},
	})
}

// ---------------------------------------------------------------------------
// decoding

type c24Res struct {
	Err   string
	Panic string
	Stack string
	Kids  []*ev.Node // value nodes: the list's children (batch) or the single top-level value
	Log   []ev.Event
}

func (r *c24Res) failed() bool { return r.Err != "" || r.Panic != "" }

func c24Decode(doc string, list bool) c24Res {
	cfg := configuration.New()
	res := decodeDoc(ce.NewCTEDecoder(cfg), []byte(doc), cfg, true)
	out := c24Res{Log: res.Log}
	if res.Panic != nil {
		out.Panic = ev.PanicString(res.Panic)
		out.Stack = res.Stack
		return out
	}
	if res.Err != nil {
		out.Err = res.Err.Error()
		if out.Err == "" {
			out.Err = "(empty error)"
		}
		return out
	}
	doc2, err := ev.Canon(res.Log, ev.Opts{})
	if err != nil {
		out.Err = "harness: decoded log malformed: " + err.Error()
		return out
	}
	kids := doc2.Kids
	if list {
		if len(kids) != 1 || kids[0].Tag != "list" {
			out.Err = "harness: expected one top-level list, got " + doc2.Short()
			return out
		}
		kids = kids[0].Kids
	}
	out.Kids = kids
	return out
}

func c24BatchDoc(lits []string, sep string) string {
	return "c0 [" + strings.Join(lits, sep) + "]"
}

// ---------------------------------------------------------------------------
// judging one literal

func c24Cat(exp *c24Expect, text string) string {
	switch exp.Kind {
	case c24Str:
		return "str"
	case c24NaN:
		return "nan"
	case c24Arr:
		if exp.ArrType[0] == 'f' {
			return "arr-float"
		}
		return "arr-int"
	case c24Num:
		if c24IsIntText(text) {
			return "int"
		}
		return "float"
	}
	return "outside"
}

// c24IsIntText: the numeric scalar text is an integer spelling (no fraction / exponent).
func c24IsIntText(text string) bool {
	t := strings.TrimPrefix(text, "-")
	if len(t) > 1 && t[0] == '0' && strings.IndexByte("xX", t[1]) >= 0 {
		return !strings.ContainsAny(t, ".pP")
	}
	return !strings.ContainsAny(t, ".eE") && !strings.EqualFold(t, "inf")
}

// c24DecLeadingZero: a decimal integer spelling with two or more digits whose first digit is 0.
func c24DecLeadingZero(text string) bool {
	t := strings.ReplaceAll(strings.TrimPrefix(text, "-"), "_", "")
	if len(t) < 2 || t[0] != '0' {
		return false
	}
	for i := 0; i < len(t); i++ {
		if t[i] < '0' || t[i] > '9' {
			return false
		}
	}
	return true
}

// c24LongDecimalNegativeZero: a negative decimal float whose coefficient is zero and has more than 18 digits.
func c24LongDecimalNegativeZero(text string) bool {
	if !strings.HasPrefix(text, "-") || c24IsIntText(text) || len(text) > 2 && (text[2] == 'x' || text[2] == 'X') {
		return false
	}
	digits := 0
	for _, ch := range text[1:] {
		switch {
		case ch == 'e' || ch == 'E':
			return digits > 18
		case ch == '0':
			digits++
		case ch == '.' || ch == '_':
		default:
			return false
		}
	}
	return digits > 18
}

// c24ElemRegion names the known-defect class an integer array element spelling belongs to ("" if none).
func c24ElemRegion(mode byte, tok string) string {
	switch {
	case mode != 0 && strings.Contains(tok, "_"):
		return "elem-separator-in-explicit-base"
	case mode == 0 && strings.Contains(tok, "__"):
		return "elem-multi-separator"
	case mode == 0 && c24DecLeadingZero(tok):
		return "elem-dec-leading-zero"
	}
	return ""
}

// c24Region computes the region of a failing literal from its text (never from generator intent).
func c24Region(text string, exp *c24Expect, failingElem int) string {
	switch exp.Kind {
	case c24Num:
		if c24IsIntText(text) && c24DecLeadingZero(text) {
			return "dec-leading-zero"
		}
		if c24LongDecimalNegativeZero(text) {
			return "long-decimal-negative-zero"
		}
	case c24Arr:
		if exp.ArrType[0] != 'f' && failingElem >= 0 && failingElem < len(exp.Elems) {
			return c24ElemRegion(exp.Mode, exp.Elems[failingElem].Text)
		}
	case c24Str:
		_, ft := c24EvalString(text)
		switch {
		case ft.VerbatimNonASCII > 0:
			return "verbatim-nonascii-sentinel"
		case ft.VerbatimPrefix > 0:
			return "verbatim-contents-prefix-of-sentinel"
		case ft.VerbatimEmpty > 0:
			return "verbatim-empty"
		}
	}
	return ""
}

func c24Sig(symptom, cat, region string) string {
	s := symptom + ":" + cat
	if region != "" {
		s += "@" + region
	}
	return s
}

func c24ParseArrayVal(val string) (typ string, count int, data []byte, ok bool) {
	parts := strings.SplitN(val, ":", 3)
	if len(parts) != 3 {
		return "", 0, nil, false
	}
	if _, err := fmt.Sscan(parts[1], &count); err != nil {
		return "", 0, nil, false
	}
	d, err := hex.DecodeString(parts[2])
	if err != nil {
		return "", 0, nil, false
	}
	return parts[0], count, d, true
}

// c24CompareNode compares a decoded value node with the expectation. It returns "" when they agree,
// otherwise a description and, for arrays, the index of the first differing element (-1 otherwise).
func c24CompareNode(exp *c24Expect, n *ev.Node) (diff string, elem int) {
	switch exp.Kind {
	case c24Num:
		if n.Tag != "num" || n.Val != exp.Num {
			return fmt.Sprintf("decoded %s, spelled value num=%s", n.Short(), exp.Num), -1
		}
	case c24NaN:
		if n.Tag != "nan" || n.Val != exp.NaN {
			return fmt.Sprintf("decoded %s, spelled nan=%s", n.Short(), exp.NaN), -1
		}
	case c24Str:
		want := fmt.Sprintf("str:%q", string(exp.Str))
		if n.Tag != "array" || n.Val != want {
			return fmt.Sprintf("decoded %s, spelled %s", n.Short(), want), -1
		}
	case c24Arr:
		if n.Tag != "array" {
			return fmt.Sprintf("decoded %s, spelled a %s array", n.Short(), exp.ArrType), -1
		}
		typ, count, data, ok := c24ParseArrayVal(n.Val)
		if !ok || typ != exp.ArrType {
			return fmt.Sprintf("decoded %s, spelled a %s array", n.Short(), exp.ArrType), -1
		}
		if count != len(exp.Elems) || len(data) != count*exp.Width {
			return fmt.Sprintf("decoded %d elements (%d bytes), spelled %d elements of %d bytes", count, len(data), len(exp.Elems), exp.Width), -1
		}
		for i, e := range exp.Elems {
			var got uint64
			for b := 0; b < exp.Width; b++ {
				got |= uint64(data[i*exp.Width+b]) << (8 * uint(b))
			}
			switch {
			case e.NaN != "":
				f := c24FloatFmts[exp.ArrType]
				isNaN, quiet := f.isNaN(got)
				if !isNaN || quiet != (e.NaN == "q") {
					return fmt.Sprintf("element %d (%s): decoded bits %#x, spelled %s NaN", i, e.Text, got, e.NaN), i
				}
			case e.Exact:
				if got != e.Bits {
					return fmt.Sprintf("element %d (%s): decoded bits %#x, spelled value has bits %#x", i, e.Text, got, e.Bits), i
				}
			default:
				if got != e.Bits && got != e.Alt {
					return fmt.Sprintf("element %d (%s): decoded bits %#x is neither neighbour (%#x, %#x) of the spelled value", i, e.Text, got, e.Bits, e.Alt), i
				}
			}
		}
	}
	return "", -1
}

func c24Internal(err string) bool {
	return strings.Contains(err, "BUG") || strings.Contains(err, "runtime error")
}

// c24IsolateElem finds the first element of an array literal that fails on its own (-1 if none does).
func c24IsolateElem(c *fw.Ctx, text string, exp *c24Expect) int {
	open := strings.IndexByte(text, '[')
	if open < 0 {
		return -1
	}
	for i, e := range exp.Elems {
		if e.MustReject {
			continue
		}
		one := text[:open+1] + e.Text + "]"
		oneExp := c24EvalArray(one)
		if oneExp.Kind != c24Arr {
			continue
		}
		c.Inc("isolation.element_decodes")
		r := c24Decode("c0 "+one, false)
		if r.Panic != "" {
			return i
		}
		if r.Err != "" {
			if !oneExp.mayReject() {
				return i
			}
			continue
		}
		if len(r.Kids) != 1 {
			return i
		}
		if d, _ := c24CompareNode(&oneExp, r.Kids[0]); d != "" {
			return i
		}
	}
	return -1
}

// c24JudgeSingle decodes "c0 <literal>" and judges the outcome. It returns a failure signature ("" = fine).
func c24JudgeSingle(c *fw.Ctx, text string, exp *c24Expect) (sig string, detail map[string]interface{}) {
	doc := "c0 " + text
	c.Note("single %q", doc)
	c.Inc("decodes.single")
	r := c24Decode(doc, false)
	cat := c24Cat(exp, text)
	detail = map[string]interface{}{"literal": text, "doc": doc, "expected": c24ExpectString(exp)}
	if r.Panic != "" {
		detail["panic"], detail["stack"] = r.Panic, r.Stack
		return c24Sig("escaped-panic", cat, c24Region(text, exp, -1)), detail
	}
	if exp.Kind == c24Outside {
		if r.Err != "" {
			c.Inc("feat.outside.rejected")
			if c24Internal(r.Err) {
				c.Inc("outside.rejected.with-internal-error-text")
			}
		} else {
			c.Inc("outside.accepted")
		}
		return "", nil
	}
	c.Eval()
	c.Inc("judged")
	c.Inc("judged." + cat)
	if r.Err != "" {
		detail["err"] = r.Err
		switch {
		case exp.Kind == c24Arr && exp.mustReject():
			c.Inc("feat.unfit-element.rejected")
			return "", nil
		case exp.Kind == c24Arr && exp.mayReject():
			c.Inc("dontcare.inexact-float-element.rejected")
			return "", nil
		case exp.Kind == c24Str && exp.NotChar != "":
			c.Inc("dontcare.codepoint-not-a-character.rejected")
			return "", nil
		}
		elem := -1
		if exp.Kind == c24Arr {
			elem = c24IsolateElem(c, text, exp)
			detail["failing_element"] = elem
			if elem >= 0 {
				detail["failing_element_text"] = exp.Elems[elem].Text
			}
		}
		symptom := "reject"
		if c24Internal(r.Err) {
			symptom = "internal-error"
		}
		return c24Sig(symptom, cat, c24Region(text, exp, elem)), detail
	}
	if len(r.Kids) != 1 {
		detail["decoded"] = ev.LogStrings(r.Log)
		return c24Sig("malformed-result", cat, ""), detail
	}
	detail["decoded"] = r.Kids[0].Short()
	if exp.Kind == c24Arr && exp.mustReject() {
		unfit := -1
		for i, e := range exp.Elems {
			if e.MustReject {
				detail["unfit_element"] = e.Text
				unfit = i
				break
			}
		}
		return c24Sig("accepted-unfit-element", cat, c24Region(text, exp, unfit)), detail
	}
	if exp.Kind == c24Str && exp.NotChar != "" {
		c.Inc("dontcare.codepoint-not-a-character.accepted")
		return "", nil
	}
	if d, elem := c24CompareNode(exp, r.Kids[0]); d != "" {
		detail["diff"] = d
		return c24Sig("mismatch", cat, c24Region(text, exp, elem)), detail
	}
	c.Inc("matched")
	if exp.Kind == c24Arr && exp.mayReject() {
		c.Inc("inexact-float-element.decoded-to-neighbour")
	}
	return "", nil
}

func c24ExpectString(exp *c24Expect) string {
	switch exp.Kind {
	case c24Outside:
		return "outside grammar: " + exp.Why
	case c24Num:
		return "num=" + exp.Num
	case c24NaN:
		return "nan=" + exp.NaN
	case c24Str:
		if exp.NotChar != "" {
			return "string with non-character escape " + exp.NotChar
		}
		return fmt.Sprintf("str:%q", string(exp.Str))
	}
	var sb strings.Builder
	fmt.Fprintf(&sb, "%s[", exp.ArrType)
	for i, e := range exp.Elems {
		if i > 0 {
			sb.WriteByte(' ')
		}
		switch {
		case e.MustReject:
			sb.WriteString("REJECT(" + e.Text + ")")
		case e.NaN != "":
			sb.WriteString(e.NaN + "nan")
		case e.Exact:
			fmt.Fprintf(&sb, "%x", e.Bits)
		default:
			fmt.Fprintf(&sb, "%x|%x", e.Bits, e.Alt)
		}
	}
	sb.WriteByte(']')
	return sb.String()
}

// c24ExpectArrBytes renders an all-exact array expectation as "<type>:<little-endian hex>" ("" otherwise).
func c24ExpectArrBytes(exp *c24Expect) string {
	var data []byte
	for _, e := range exp.Elems {
		if !e.Exact {
			return ""
		}
		for b := 0; b < exp.Width; b++ {
			data = append(data, byte(e.Bits>>(8*uint(b))))
		}
	}
	return exp.ArrType + ":" + hex.EncodeToString(data)
}

// c24DocRegion: region predicate over a whole document for context-dependent failures.
func c24DocRegion(lits []string) string {
	verbatims, empties := 0, 0
	for _, t := range lits {
		if len(t) == 0 || t[0] != '"' {
			continue
		}
		_, ft := c24EvalString(t)
		if ft.EmptyAfterVerbatim > 0 || (verbatims > 0 && ft.VerbatimEmpty > 0) {
			return "verbatim-empty-after-verbatim"
		}
		verbatims += ft.Verbatim
		empties += ft.VerbatimEmpty
	}
	if empties > 0 {
		return "verbatim-empty"
	}
	return ""
}

// ---------------------------------------------------------------------------
// the case

type c24Item struct {
	lit c24Lit
	exp c24Expect
}

func c24SelfCheck(c *fw.Ctx, it *c24Item) bool {
	l, exp := &it.lit, &it.exp
	bad := ""
	switch {
	case l.WantNum != "":
		if exp.Kind != c24Num || exp.Num != l.WantNum {
			bad = "num=" + l.WantNum
		}
	case l.WantStr != nil:
		if exp.Kind != c24Str || exp.NotChar != "" || string(exp.Str) != string(l.WantStr) {
			bad = fmt.Sprintf("str:%q", string(l.WantStr))
		}
	case l.WantArr != "":
		if exp.Kind != c24Arr || c24ExpectArrBytes(exp) != l.WantArr {
			bad = l.WantArr
		}
	case l.HasWant:
		bad = "(intent flagged but empty)"
	}
	if bad != "" {
		c.Fail("harness-selfcheck", map[string]interface{}{"literal": l.Text, "speller_intent": bad, "reference": c24ExpectString(exp)})
		return false
	}
	return true
}

func runC24(c *fw.Ctx, idx int) {
	lits := c24CaseLits(c, idx)
	var batch, singles []*c24Item
	for i := range lits {
		it := &c24Item{lit: lits[i], exp: c24Eval(lits[i].Text)}
		if !c24SelfCheck(c, it) {
			continue
		}
		for _, f := range it.lit.Feats {
			c.Inc("feat." + it.lit.Cat + "." + f)
		}
		c.Inc("literals." + it.lit.Cat)
		if it.exp.Kind != c24Outside {
			c.Distinct(it.lit.Text)
		}
		if it.exp.definite() {
			batch = append(batch, it)
		} else {
			singles = append(singles, it)
		}
	}
	report := func(it *c24Item, sig string, detail map[string]interface{}) {
		detail["features"] = it.lit.Feats
		c.Fail(sig, detail)
	}
	judgeSingles := func(items []*c24Item) (failed int) {
		for _, it := range items {
			if sig, detail := c24JudgeSingle(c, it.lit.Text, &it.exp); sig != "" {
				report(it, sig, detail)
				failed++
			}
		}
		return
	}
	judgeSingles(singles)
	if len(batch) == 0 {
		return
	}
	if len(batch) == 1 {
		judgeSingles(batch)
		return
	}
	texts := make([]string, len(batch))
	for i, it := range batch {
		texts[i] = it.lit.Text
	}
	sep := []string{" ", "\n", "  ", "\t", "\r\n"}[c.Rng.Intn(5)]
	doc := c24BatchDoc(texts, sep)
	c.Note("batch %q", doc)
	c.Inc("decodes.batch")
	r := c24Decode(doc, true)
	if !r.failed() && len(r.Kids) == len(batch) {
		c.Inc("batch.ok")
		for i, it := range batch {
			d, elem := c24CompareNode(&it.exp, r.Kids[i])
			if d == "" {
				c.Eval()
				c.Inc("judged")
				c.Inc("judged." + c24Cat(&it.exp, it.lit.Text))
				c.Inc("matched")
				if c.WantSample() && i == 0 {
					c.Sample(map[string]interface{}{"literal": it.lit.Text, "expected": c24ExpectString(&it.exp), "decoded": r.Kids[i].Short(), "batch_size": len(batch)})
				}
				continue
			}
			// re-judge on its own: same failure => literal-level, otherwise context-dependent
			if sig, detail := c24JudgeSingle(c, it.lit.Text, &it.exp); sig != "" {
				report(it, sig, detail)
				continue
			}
			report(it, c24Sig("context-mismatch", c24Cat(&it.exp, it.lit.Text), c24DocRegion(texts)),
				map[string]interface{}{"literal": it.lit.Text, "doc": doc, "diff": d, "failing_element": elem, "expected": c24ExpectString(&it.exp)})
		}
		return
	}
	// the batch as a whole failed: find the literals that fail on their own
	c.Inc("batch.failed")
	if judgeSingles(batch) > 0 {
		return
	}
	// none fails alone: shrink the document while it keeps failing
	keep := append([]*c24Item{}, batch...)
	fails := func(items []*c24Item) (bool, c24Res) {
		ts := make([]string, len(items))
		for i, it := range items {
			ts[i] = it.lit.Text
		}
		c.Inc("isolation.shrink_decodes")
		rr := c24Decode(c24BatchDoc(ts, sep), true)
		if rr.failed() || len(rr.Kids) != len(items) {
			return true, rr
		}
		for i, it := range items {
			if d, _ := c24CompareNode(&it.exp, rr.Kids[i]); d != "" {
				return true, rr
			}
		}
		return false, rr
	}
	for i := 0; i < len(keep) && len(keep) > 1; {
		trial := append(append([]*c24Item{}, keep[:i]...), keep[i+1:]...)
		if f, _ := fails(trial); f {
			keep = trial
		} else {
			i++
		}
	}
	_, rr := fails(keep)
	ts := make([]string, len(keep))
	for i, it := range keep {
		ts[i] = it.lit.Text
	}
	symptom := "context-reject"
	if rr.Panic != "" {
		symptom = "context-escaped-panic"
	} else if rr.Err == "" {
		symptom = "context-mismatch"
	} else if c24Internal(rr.Err) {
		symptom = "context-internal-error"
	}
	last := keep[len(keep)-1]
	c.Fail(c24Sig(symptom, c24Cat(&last.exp, last.lit.Text), c24DocRegion(ts)),
		map[string]interface{}{"minimal_doc": c24BatchDoc(ts, sep), "literals": ts, "err": rr.Err, "panic": rr.Panic, "original_doc": doc, "original_err": r.Err,
			"note": "every literal of this document decodes correctly on its own"})
}
