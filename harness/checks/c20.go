package checks

import (
	"fmt"
	"reflect"
	"regexp"
	"sort"

	"github.com/kstenerud/go-concise-encoding/configuration"

	"verifharness/fw"
)

type c20N struct {
	V int
	P *c20N
	S []*c20N
	M map[string]*c20N
	// leaves that can be shared between nodes: a pointer to a scalar, a slice and a map of plain values
	W *int
	T []string
	C map[string]int
}

type c20B struct {
	Name string
	Kids []c20C
	Next *c20B
}

type c20C struct {
	W    float64
	Back *c20B
	Sib  *c20C
	Any  interface{}
}

func init() {
	fw.Register(&fw.Check{
		ID:    "C20",
		Level: "exploration",
		Rule: "case = random pointer graph of 2-40 nodes over struct{V int; P *N; S []*N; M map[string]*N; W *int; T []string; C map[string]int} (family A; the leaves W, T, C are drawn from small pools so that they are shared between nodes) or over struct values holding pointers and interfaces (family B), with random sharing, " +
			"self loops and back edges; marshaled with RecursionSupport=true to CBE or CTE (termination observed by the supervisor: CPU budget / stack overflow) and unmarshaled into a typed nil-pointer template. " +
			"Oracle GraphIso: a simultaneous walk of original and result builds a bijection between pointers, non-empty slices (backing array + length) and non-empty maps; any place where identity structure (shared / cyclic / distinct) or a scalar differs is the located difference. " +
			"Non-trivial = graph has at least one shared node or cycle; distinct = distinct graph descriptors.",
		Assumptions: []string{"only the part of the graph reachable from the root is compared", "map keys are distinct short strings"},
		Cases:       func(tier string) int { return 6 + tierN(tier, 3000, 100000) },
		Run:         runC20,
		CPUBudget:   30,
		Floors: func(string) map[string]int64 {
			return map[string]int64{"graphs_compared": 500, "graphs_with_cycle": 100, "graphs_with_sharing": 100, "bijection_pairs": 2000}
		},
	})
}

// c20Iso walks a and b together. seenA maps original pointers to result pointers, seenB the reverse.
type c20Iso struct {
	ab     map[uintptr]uintptr
	ba     map[uintptr]uintptr
	pairs  int
	open   []uintptr // original pointers on the current walk path (objects still "under construction" in document order)
	region string
}

func (w *c20Iso) walk(a, b reflect.Value, path string) string {
	if a.Kind() == reflect.Interface || b.Kind() == reflect.Interface {
		if a.Kind() == reflect.Interface {
			if a.IsNil() {
				if b.Kind() == reflect.Interface && b.IsNil() || !b.IsValid() {
					return ""
				}
				if (b.Kind() == reflect.Ptr || b.Kind() == reflect.Interface) && b.IsNil() {
					return ""
				}
				return path + ": nil interface vs " + fmt.Sprint(b.Type())
			}
			a = a.Elem()
		}
		if b.Kind() == reflect.Interface {
			if b.IsNil() {
				return path + ": value vs nil interface"
			}
			b = b.Elem()
		}
		// numbers inside interfaces may change kind
		if pa := numKey(a); pa != "" || numKey(b) != "" {
			if pa != numKey(b) {
				return fmt.Sprintf("%s: %v vs %v", path, a.Interface(), b.Interface())
			}
			return ""
		}
	}
	if a.Kind() != b.Kind() {
		return fmt.Sprintf("%s: kind %v vs %v", path, a.Kind(), b.Kind())
	}
	switch a.Kind() {
	case reflect.Ptr:
		if a.IsNil() || b.IsNil() {
			if a.IsNil() && b.IsNil() {
				return ""
			}
			if !a.IsNil() && c20InSliceStructField(path) {
				for _, o := range w.open {
					if o == a.Pointer() {
						w.region = "@reference-to-open-ancestor-from-struct-value-in-slice"
					}
				}
			}
			return path + ": nil pointer on one side only"
		}
		pa, pb := a.Pointer(), b.Pointer()
		if mb, ok := w.ab[pa]; ok {
			if mb != pb {
				return path + ": pointer was shared/cyclic in the original but points to a different object in the result"
			}
			return ""
		}
		if _, ok := w.ba[pb]; ok {
			return path + ": pointer is shared/cyclic in the result but was a distinct object in the original"
		}
		w.ab[pa], w.ba[pb] = pb, pa
		w.pairs++
		w.open = append(w.open, pa)
		r := w.walk(a.Elem(), b.Elem(), path+"*")
		w.open = w.open[:len(w.open)-1]
		return r
	case reflect.Struct:
		for i := 0; i < a.NumField(); i++ {
			if r := w.walk(a.Field(i), b.Field(i), path+"."+a.Type().Field(i).Name); r != "" {
				return r
			}
		}
	case reflect.Slice:
		if a.Len() != b.Len() {
			return fmt.Sprintf("%s: slice length %d vs %d", path, a.Len(), b.Len())
		}
		if a.Len() > 0 {
			// a slice is a node too: the same (backing array, length) held in two places must be one slice again
			if r, seen := w.identity(a.Pointer()^uintptr(a.Len())<<48^1<<62, b.Pointer()^uintptr(b.Len())<<48^1<<62, path, "slice"); r != "" || seen {
				return r
			}
		}
		for i := 0; i < a.Len(); i++ {
			if r := w.walk(a.Index(i), b.Index(i), fmt.Sprintf("%s[%d]", path, i)); r != "" {
				return r
			}
		}
	case reflect.Map:
		if a.Len() != b.Len() {
			return fmt.Sprintf("%s: map size %d vs %d", path, a.Len(), b.Len())
		}
		if !a.IsNil() && !b.IsNil() && a.Len() > 0 {
			if r, seen := w.identity(a.Pointer()^1<<63, b.Pointer()^1<<63, path, "map"); r != "" || seen {
				return r
			}
		}
		keys := a.MapKeys()
		sort.Slice(keys, func(i, j int) bool { return keys[i].String() < keys[j].String() })
		for _, k := range keys {
			bv := b.MapIndex(k)
			if !bv.IsValid() {
				return fmt.Sprintf("%s{%v}: key missing", path, k)
			}
			if r := w.walk(a.MapIndex(k), bv, fmt.Sprintf("%s{%v}", path, k)); r != "" {
				return r
			}
		}
	case reflect.Int:
		if a.Int() != b.Int() {
			return fmt.Sprintf("%s: %d vs %d", path, a.Int(), b.Int())
		}
	case reflect.Float64:
		if a.Float() != b.Float() {
			return fmt.Sprintf("%s: %v vs %v", path, a.Float(), b.Float())
		}
	case reflect.String:
		if a.String() != b.String() {
			return fmt.Sprintf("%s: %q vs %q", path, a.String(), b.String())
		}
	default:
		if !reflect.DeepEqual(a.Interface(), b.Interface()) {
			return fmt.Sprintf("%s: %v vs %v", path, a.Interface(), b.Interface())
		}
	}
	return ""
}

// identity records that original object ka corresponds to result object kb (keys are addresses tagged by kind).
// seen = the pair was met before (its contents were compared then).
func (w *c20Iso) identity(ka, kb uintptr, path, what string) (diff string, seen bool) {
	if mb, ok := w.ab[ka]; ok {
		if mb != kb {
			return path + ": " + what + " was shared in the original but is a different object in the result", true
		}
		return "", true
	}
	if _, ok := w.ba[kb]; ok {
		return path + ": " + what + " is shared in the result but was a distinct object in the original", true
	}
	w.ab[ka], w.ba[kb] = kb, ka
	w.pairs++
	return "", false
}

var c20SliceFieldRe = regexp.MustCompile(`\.Kids\[\d+\]\.(Back|Sib)$`)

// c20InSliceStructField: the path addresses a pointer field of a struct VALUE stored in a slice.
func c20InSliceStructField(path string) bool { return c20SliceFieldRe.MatchString(path) }

func numKey(v reflect.Value) string {
	switch v.Kind() {
	case reflect.Int, reflect.Int8, reflect.Int16, reflect.Int32, reflect.Int64:
		return fmt.Sprint(v.Int())
	case reflect.Uint, reflect.Uint8, reflect.Uint16, reflect.Uint32, reflect.Uint64:
		return fmt.Sprint(v.Uint())
	case reflect.Float32, reflect.Float64:
		return fmt.Sprint(v.Float())
	}
	return ""
}

// c20Fanout: mostly 0-2 children, sometimes a wide slice (5-20) so that slices grow past several capacity boundaries
// while references inside them are still pending.
func c20Fanout(c *fw.Ctx) int {
	if c.Rng.Intn(6) == 0 {
		return 5 + c.Rng.Intn(16)
	}
	return c.Rng.Intn(3)
}

func c20BuildA(c *fw.Ctx, n int) (root *c20N, desc string, cyc, shared bool) {
	nodes := make([]*c20N, n)
	for i := range nodes {
		nodes[i] = &c20N{V: i*7 + c.Rng.Intn(5)}
	}
	indeg := make([]int, n)
	pick := func(from int) int {
		j := c.Rng.Intn(n)
		indeg[j]++
		if j <= from {
			cyc = true
		}
		return j
	}
	for i, nd := range nodes {
		// tree edge to keep most nodes reachable
		if i+1 < n && c.Rng.Intn(4) != 0 {
			nd.S = append(nd.S, nodes[i+1])
			indeg[i+1]++
			desc += fmt.Sprintf("%d.S>%d ", i, i+1)
		}
		if c.Rng.Intn(3) == 0 {
			j := pick(i)
			nd.P = nodes[j]
			desc += fmt.Sprintf("%d.P>%d ", i, j)
		}
		for k := c20Fanout(c); k > 0; k-- {
			if c.Rng.Intn(6) == 0 {
				nd.S = append(nd.S, nil)
				desc += fmt.Sprintf("%d.S>nil ", i)
				continue
			}
			j := pick(i)
			nd.S = append(nd.S, nodes[j])
			desc += fmt.Sprintf("%d.S>%d ", i, j)
		}
		if c.Rng.Intn(3) == 0 {
			nd.M = map[string]*c20N{}
			for k := 1 + c.Rng.Intn(2); k > 0; k-- {
				j := pick(i)
				key := fmt.Sprintf("k%d", k)
				nd.M[key] = nodes[j]
				desc += fmt.Sprintf("%d.M[%s]>%d ", i, key, j)
			}
		}
	}
	// shared leaves: each pool member may be held by several nodes (sharing without any cycle)
	if c.Rng.Intn(2) == 0 {
		var ws []*int
		var ts [][]string
		var cs []map[string]int
		for k := 0; k < 3; k++ {
			w := 100 + k
			ws = append(ws, &w)
			ts = append(ts, []string{"x", fmt.Sprint("y", k), "z"}[:1+c.Rng.Intn(3)])
			cs = append(cs, map[string]int{"a": k, "b": k + 1})
		}
		used := map[string]int{}
		for i, nd := range nodes {
			if c.Rng.Intn(2) == 0 {
				k := c.Rng.Intn(3)
				nd.W = ws[k]
				used[fmt.Sprint("W", k)]++
				desc += fmt.Sprintf("%d.W>w%d ", i, k)
			}
			if c.Rng.Intn(3) == 0 {
				k := c.Rng.Intn(3)
				nd.T = ts[k]
				used[fmt.Sprint("T", k)]++
				desc += fmt.Sprintf("%d.T>t%d ", i, k)
			}
			if c.Rng.Intn(3) == 0 {
				k := c.Rng.Intn(3)
				nd.C = cs[k]
				used[fmt.Sprint("C", k)]++
				desc += fmt.Sprintf("%d.C>c%d ", i, k)
			}
		}
		for _, u := range used {
			if u > 1 {
				shared = true
			}
		}
	}
	for _, d := range indeg {
		if d > 1 {
			shared = true
		}
	}
	return nodes[0], desc, cyc, shared
}

func c20BuildB(c *fw.Ctx, n int) (root *c20B, desc string, cyc, shared bool) {
	allowOpen := c.Rng.Intn(10) == 0 || c.Idx < 6 // only some graphs enter the known-finding region (always the directed ones)
	bs := make([]*c20B, n)
	for i := range bs {
		bs[i] = &c20B{Name: fmt.Sprintf("b%d", i)}
	}
	for i, b := range bs {
		if i+1 < n {
			b.Next = bs[i+1]
		} else if c.Rng.Intn(2) == 0 {
			b.Next = bs[c.Rng.Intn(n)]
			cyc = true
			desc += fmt.Sprintf("%d.Next>back ", i)
		}
		k := c20Fanout(c)
		if c.Idx < 6 && i == 0 {
			k = 1
		}
		b.Kids = make([]c20C, k)
		for j := range b.Kids {
			kid := &b.Kids[j]
			kid.W = float64(i) + float64(j)/4
			pick := c.Rng.Intn(12)
			if c.Idx < 6 && j == 0 && i == 0 {
				pick = 0
			}
			switch pick {
			case 0:
				// reference to an object that is still open in document order (known-finding region)
				if !allowOpen {
					break
				}
				t := c.Rng.Intn(i + 1)
				kid.Back = bs[t]
				cyc = true
				desc += fmt.Sprintf("%d.%d.Back>open%d ", i, j, t)
			case 1, 2, 3, 4:
				if i+1 < n {
					t := i + 1 + c.Rng.Intn(n-i-1)
					kid.Back = bs[t]
					shared = true
					desc += fmt.Sprintf("%d.%d.Back>%d ", i, j, t)
				}
			}
			// interface fields hold scalars only: a pointer held by an interface{} cannot keep its type in a document
			if c.Rng.Intn(3) == 0 {
				kid.Any = "text"
			}
			if c.Rng.Intn(5) == 0 {
				kid.Sib = &c20C{W: -1}
				desc += fmt.Sprintf("%d.%d.Sib ", i, j)
			}
		}
	}
	return bs[0], desc + fmt.Sprint(n), cyc, shared
}

func runC20(c *fw.Ctx, idx int) {
	cfg := configuration.New()
	cfg.Iterator.RecursionSupport = true
	cte := idx%2 == 1
	codec := "cbe"
	if cte {
		codec = "cte"
	}
	famB := (idx/2)%3 == 2
	n := 2 + c.Rng.Intn(39)
	if idx < 6 {
		n = 2 + idx
	}
	var root, tmpl interface{}
	var desc string
	var cyc, shared bool
	if idx >= 6 && idx%40 == 7 {
		// a deep chain: L nodes nested through P (one container per level, within the default depth limit of 1000), every node
		// also referenced from its successor, so every level of the nesting is a marked (shared) container; optionally closed into a ring
		L := 300 + c.Rng.Intn(650)
		nodes := make([]*c20N, L)
		for i := range nodes {
			nodes[i] = &c20N{V: i}
		}
		for i := 0; i+1 < L; i++ {
			nodes[i].P = nodes[i+1]
			nodes[i+1].S = []*c20N{nodes[i]}
		}
		desc = fmt.Sprintf("deep-doubly-linked-chain L=%d", L)
		if c.Rng.Intn(2) == 0 {
			nodes[L-1].P = nodes[0]
			desc += " ring"
		}
		n = L
		root, cyc, shared, tmpl = nodes[0], true, true, (*c20N)(nil)
		desc = "A:" + desc
		c.Inc("graphs.deep_chain")
	} else if famB {
		r, d, cy, sh := c20BuildB(c, n)
		root, desc, cyc, shared, tmpl = r, "B:"+d, cy, sh, (*c20B)(nil)
	} else {
		r, d, cy, sh := c20BuildA(c, n)
		root, desc, cyc, shared, tmpl = r, "A:"+d, cy, sh, (*c20N)(nil)
	}
	c.Note("C20 %s %s", codec, short(desc, 2000))
	c.Eval()
	detail := func(extra map[string]interface{}) map[string]interface{} {
		m := map[string]interface{}{"codec": codec, "graph": desc, "nodes": n}
		for k, x := range extra {
			m[k] = x
		}
		return m
	}
	c.Region("marshal-graph")
	doc, err, p, st := marshalDoc(root, cte, cfg)
	if p != nil {
		c.Fail("marshal-escaped-panic", detail(map[string]interface{}{"panic": fmt.Sprint(p), "stack": short(st, 1500)}))
		return
	}
	if err != nil {
		c.Fail("marshal-error:"+errClass(err), detail(map[string]interface{}{"err": err.Error()}))
		return
	}
	c.Region("unmarshal-graph")
	out, err, p, st := unmarshalDoc(doc, tmpl, cte, cfg)
	if p != nil {
		c.Fail("unmarshal-escaped-panic", detail(map[string]interface{}{"doc": docString(doc, cte), "panic": fmt.Sprint(p), "stack": short(st, 1500)}))
		return
	}
	if err != nil {
		c.Fail("unmarshal-error:"+errClass(err), detail(map[string]interface{}{"doc": docString(doc, cte), "err": err.Error()}))
		return
	}
	w := &c20Iso{ab: map[uintptr]uintptr{}, ba: map[uintptr]uintptr{}}
	r := w.walk(reflect.ValueOf(root), reflect.ValueOf(out), "root")
	c.Inc("graphs_compared")
	c.Count("bijection_pairs", int64(w.pairs))
	c.Count("nodes", int64(n))
	if cyc {
		c.Inc("graphs_with_cycle")
	}
	if shared {
		c.Inc("graphs_with_sharing")
	}
	if cyc || shared {
		c.Distinct(codec + desc)
	}
	if r != "" {
		c.Fail("graph-not-isomorphic"+w.region, detail(map[string]interface{}{"doc": docString(doc, cte), "why": r}))
		return
	}
	if c.WantSample() && cyc {
		c.Sample(detail(map[string]interface{}{"doc": short(docString(doc, cte), 1200), "bijection_pairs": w.pairs}))
	}
}
