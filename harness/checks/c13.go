package checks

import (
	"fmt"
	"math/rand"

	"github.com/kstenerud/go-concise-encoding/configuration"

	"verifharness/fw"
)

// C13 — markers and local references are consistent in every accepted document.
//
// Part A (validator): marker/reference-heavy letter sequences, identifiers of every kind and
// MaxIdentifierLength varied, compared online with the same reference acceptor as C10 (its marker
// clauses are written from C13's text). Part B (builder): c13_build.go.

type c13Layout struct{ partA, partB int }

func c13LayoutFor(tier string) c13Layout {
	if tier == "thorough" {
		return c13Layout{partA: 120000, partB: 60000}
	}
	return c13Layout{partA: 8000, partB: 5000}
}

func init() {
	fw.Register(&fw.Check{
		ID:    "C13",
		Level: "exploration",
		Rule: "part A: model-generated valid letter sequences rich in markers and references (backward, forward, cyclic, as map keys, nested marked containers; 3-6 identifiers drawn from " +
			"ASCII/Unicode pools; MaxIdentifierLength in {1,2,3,5,8,16,127,1000}) and six corruptions of each (drop/duplicate/swap/insert/replace a letter, rename a marker or reference to another, unknown, " +
			"empty, over-long or bad-character identifier), each compared ONLINE letter by letter: the real rules validator accepts the next letter iff the reference acceptor (marker table, pending forward " +
			"references with keyability constraint, identifier syntax from the documented character set) does; one evaluation = one (prefix, letter) comparison. " +
			"part B: model-valid acyclic documents with markers and references are encoded to CBE and CTE and unmarshaled with ce.UnmarshalFromCBEDocument / ce.UnmarshalFromCTEDocument into a nil " +
			"template and into typed templates ([]interface{}, map[interface{}]interface{}, typed slices/maps/structs/pointers); the result must equal the value computed by substituting every reference " +
			"by its marked value; one evaluation = one unmarshal compared. distinct_nontrivial = distinct sequences/documents with >=1 container, >=1 marker and >=1 reference.",
		Assumptions: []string{
			"identifier characters: Unicode categories Cf, L, M, N and '_' '.' '-' (library documentation); random characters only from long-stable Unicode blocks",
			"identifier length: more characters than MaxIdentifierLength is too long; more bytes but not more characters is don't-care (the text does not say which unit counts)",
			"don't-care as for C10: reference as top-level object, markers/references inside record types, comment after a marker, reference key equal to another key, edge endpoint referencing null",
			"part B compares Go values structurally (reflect-based, NaN equal to NaN, numeric kinds by exact value); cyclic documents are excluded",
		},
		Cases: func(tier string) int {
			l := c13LayoutFor(tier)
			return 1 + l.partA + l.partB
		},
		Run:       runC13,
		CPUBudget: 300,
		Floors: func(tier string) map[string]int64 {
			f := map[string]int64{
				"a.random.valid_sequences": 2000, "a.random.corrupted_sequences": 10000, "a.directed.sequences": 30,
				"a.feature.ref_backward": 100, "a.feature.ref_forward": 100, "a.feature.ref_cyclic": 20, "a.feature.keyref_backward": 50,
				"a.feature.keyref_forward": 20, "a.feature.nested_marked_container": 50, "a.feature.marked_key": 50,
				"a.maxidlen.1": 10, "a.maxidlen.1000": 10,
				"b.compared": 2000, "b.template.nil": 500, "b.template.typed": 500, "b.format.cbe": 500, "b.format.cte": 500,
				"b.feature.ref_backward": 100, "b.feature.ref_forward": 50, "b.feature.keyref": 20, "b.feature.marked_container": 50,
			}
			for _, cl := range []c10Clause{clMarkerOnMarker, clMarkerOnReference, clMarkerOnRecType, clMarkerDup, clRefUnresolved, clKeyRefNotKeyable,
				clIDEmpty, clIDTooLong, clIDBadChar} {
				f["a.rejected_by_clause."+c10ClauseNames[cl]] = 5
			}
			return f
		},
	})
}

func runC13(c *fw.Ctx, idx int) {
	l := c13LayoutFor(c.Tier)
	switch {
	case idx == 0:
		c.Region("a-directed")
		d := newC10Cmp(c, "a.", configuration.New())
		c13DirectedA(d)
		d.flush()
		c.Region("b-directed")
		c13DirectedB(c)
	case idx <= l.partA:
		c.Region("a-random")
		c13RandomA(c)
	default:
		c.Region("b-random")
		c13RandomB(c)
	}
}

// ---------------------------------------------------------------------------
// part A

var c13MaxLens = []uint64{1, 2, 3, 5, 8, 16, 127, 1000}

// c13Pool builds the letter pool of one case: valid identifiers for the abstract marker ids, and
// hostile letters carrying identifiers of every defect class.
func c13Pool(r *rand.Rand, maxLen uint64) *c10Pool {
	used := map[string]bool{}
	nIDs := 3 + r.Intn(4)
	var ids []string
	for i := 0; i < nIDs; i++ {
		ids = append(ids, c13ValidID(r, int(maxLen), used))
	}
	p := c10NewPool(ids, []string{"a", "b"})
	// unknown but well-formed identifiers: abstract ids beyond the known ones
	for i := 0; i < 2; i++ {
		id := c13ValidID(r, int(maxLen), used)
		p.hostile = append(p.hostile, c10SymREF(uint8(nIDs+i), id))
	}
	for i := 0; i < 8; i++ {
		id, _ := c13BadID(r, maxLen)
		bad := c13ClassifyID([]byte(id), maxLen)
		if bad == c10IDOK {
			continue
		}
		mk := c10SymMARK(uint8(nIDs+2), id)
		mk.L.Bad = bad
		mk.Name = fmt.Sprintf("MARK(%q)", id)
		rf := c10SymREF(uint8(nIDs+2), id)
		rf.L.Bad = bad
		rf.Name = fmt.Sprintf("REF(%q)", id)
		p.hostile = append(p.hostile, mk, rf)
	}
	for i := range p.marks {
		p.marks[i].Name = fmt.Sprintf("MARK(%q)", ids[i])
		p.refs[i].Name = fmt.Sprintf("REF(%q)", ids[i])
	}
	return p
}

// c13Features counts the marker/reference shapes of a model-valid sequence.
func c13Features(d *c10Cmp, seq []c10Sym, prefix string) (markers, refs int) {
	m := newC10Model()
	for _, s := range seq {
		sl, _ := m.slot()
		switch s.L.K {
		case c10REF:
			refs++
			st := m.markers[s.L.ID].State
			name := "ref_"
			if sl == sMapKey {
				name = "keyref_"
			}
			switch st {
			case 0:
				d.counts[prefix+name+"forward"]++
			case 1:
				d.counts[prefix+"ref_cyclic"]++
			default:
				d.counts[prefix+name+"backward"]++
			}
		case c10MARK:
			markers++
			for i := range m.frames {
				if m.frames[i].Kind == fMarker {
					d.counts[prefix+"nested_marked_container"]++
					break
				}
			}
			if sl == sMapKey {
				d.counts[prefix+"marked_key"]++
			}
		}
		m.Step(s.L)
	}
	return
}

// c13Mutate applies a marker-specific corruption: rename one marker/reference letter.
func c13Mutate(r *rand.Rand, p *c10Pool, seq []c10Sym) ([]c10Sym, string) {
	var pos []int
	for i, s := range seq {
		if s.L.K == c10MARK || s.L.K == c10REF {
			pos = append(pos, i)
		}
	}
	if len(pos) == 0 {
		return c10Corrupt(r, p, seq)
	}
	out := append([]c10Sym{}, seq...)
	i := pos[r.Intn(len(pos))]
	isMark := out[i].L.K == c10MARK
	switch r.Intn(3) {
	case 0: // another known identifier (duplicate marker / retargeted reference)
		j := r.Intn(len(p.marks))
		if isMark {
			out[i] = p.marks[j]
		} else {
			out[i] = p.refs[j]
		}
		return out, "rename-known"
	case 1: // hostile identifier of the same letter kind
		var cands []c10Sym
		for _, h := range p.hostile {
			if h.L.K == out[i].L.K {
				cands = append(cands, h)
			}
		}
		if len(cands) > 0 {
			out[i] = cands[r.Intn(len(cands))]
			return out, "rename-hostile"
		}
	}
	// turn a marker into a reference or vice versa
	if isMark {
		out[i] = p.refs[out[i].L.ID%uint8(len(p.refs))]
	} else {
		out[i] = p.marks[out[i].L.ID%uint8(len(p.marks))]
	}
	return out, "flip-kind"
}

func c13RandomA(c *fw.Ctx) {
	r := c.Rng
	cfg := configuration.New()
	maxLen := c13MaxLens[r.Intn(len(c13MaxLens))]
	cfg.Rules.MaxIdentifierLength = maxLen
	d := newC10Cmp(c, "a.", cfg)
	defer d.flush()
	d.counts[fmt.Sprintf("maxidlen.%d", maxLen)]++
	p := c13Pool(r, maxLen)
	target := 8 + r.Intn(50)
	seq := c10GenValid(r, p, target, true)
	if seq == nil {
		d.counts["random.generator_stuck"]++
		return
	}
	c.Note("maxidlen %d seq %s", maxLen, c10NamesStr(seq))
	d.counts["random.valid_sequences"]++
	mk, rf := c13Features(d, seq, "feature.")
	if _, ok := c10RunLinear(d, seq, "a-valid"); !ok {
		return
	}
	if mk > 0 && rf > 0 && c10NontrivialSeq(seq) {
		c.Distinct("a." + c10NamesStr(seq))
	}
	if c.WantSample() && mk > 1 && rf > 1 && len(seq) < 28 {
		c.Sample(map[string]interface{}{"part": "A", "max_identifier_length": maxLen, "valid_sequence": c10Names(seq)})
	}
	for k := 0; k < 6; k++ {
		var cs []c10Sym
		var op string
		if k < 3 {
			cs, op = c13Mutate(r, p, seq)
		} else {
			cs, op = c10Corrupt(r, p, seq)
		}
		c.Note("corrupt(%s) %s", op, c10NamesStr(cs))
		_, whole := c10RunLinear(d, cs, "a-"+op)
		d.counts["random.corrupted_sequences"]++
		d.counts["random.corruption."+op]++
		if whole {
			d.counts["random.corrupted_still_valid"]++
		}
	}
}

// ---------------------------------------------------------------------------
// directed part A

type c13Directed struct {
	name string
	seq  []c10Sym // after BD V0
	want string
	max  uint64 // MaxIdentifierLength (0 = default)
}

func c13Sym(k c10Kind, id uint8, name string, maxLen uint64) c10Sym {
	var s c10Sym
	if k == c10MARK {
		s = c10SymMARK(id, name)
	} else {
		s = c10SymREF(id, name)
	}
	s.L.Bad = c13ClassifyID([]byte(name), maxLen)
	s.Name = fmt.Sprintf("%s(%q)", c10KindNames[k], name)
	return s
}

func c13DirectedCases() []c13Directed {
	const def = 1000
	M := func(id uint8, name string, max uint64) c10Sym { return c13Sym(c10MARK, id, name, max) }
	R := func(id uint8, name string, max uint64) c10Sym { return c13Sym(c10REF, id, name, max) }
	L, E, MP, K1, K2, N, F, ED := c10SymLST, c10SymEND, c10SymMAP, c10SymK1, c10SymK2, c10SymNUL, c10SymNK, c10SymED
	long127 := string(make127('a'))
	cases := []c13Directed{
		{"backward", []c10Sym{L, M(0, "x", def), K1, R(0, "x", def), E, ED}, "ok", def},
		{"forward", []c10Sym{L, R(0, "x", def), M(0, "x", def), K1, E, ED}, "ok", def},
		{"forward-key", []c10Sym{L, MP, R(0, "x", def), N, E, M(0, "x", def), K2, E, ED}, "ok", def},
		{"backward-key", []c10Sym{L, M(0, "x", def), K2, MP, R(0, "x", def), N, E, E, ED}, "ok", def},
		{"marked-key-then-ref-value", []c10Sym{MP, M(0, "x", def), K1, R(0, "x", def), E, ED}, "ok", def},
		{"nested-marked", []c10Sym{M(0, "x", def), L, M(1, "y", def), L, M(2, "z", def), K1, E, R(1, "y", def), R(2, "z", def), E, ED}, "ok", def},
		{"cyclic", []c10Sym{M(0, "x", def), L, R(0, "x", def), E, ED}, "ok", def},
		{"unicode-ids", []c10Sym{L, M(0, "é中_1", def), K1, R(0, "é中_1", def), M(1, "a-b.c", def), K2, M(2, "१́", def), N, E, ED}, "ok", def},
		{"id-at-limit", []c10Sym{L, M(0, "abcde", 5), K1, R(0, "abcde", 5), E, ED}, "ok", 5},
		{"id-127", []c10Sym{L, M(0, long127, 127), K1, R(0, long127, 127), E, ED}, "ok", 127},
		{"unknown-ref", []c10Sym{L, R(0, "x", def), E, ED}, "reject@3:reference-unresolved", def},
		{"unknown-ref-other-marker", []c10Sym{L, M(1, "y", def), K1, R(0, "x", def), E, ED}, "reject@5:reference-unresolved", def},
		{"case-sensitive", []c10Sym{L, M(1, "X", def), K1, R(0, "x", def), E, ED}, "reject@5:reference-unresolved", def},
		{"duplicate-scalar", []c10Sym{L, M(0, "x", def), K1, M(0, "x", def), K2}, "window@3-4:marker-defined-twice", def},
		{"duplicate-container", []c10Sym{L, M(0, "x", def), L, E, M(0, "x", def), MP, E}, "window@4-6:marker-defined-twice", def},
		{"duplicate-nested", []c10Sym{L, M(0, "x", def), L, M(0, "x", def), K1, E}, "window@3-5:marker-defined-twice", def},
		{"keyref-to-null", []c10Sym{L, M(0, "x", def), N, MP, R(0, "x", def)}, "reject@4:key-reference-not-keyable", def},
		{"keyref-to-float", []c10Sym{L, M(0, "x", def), F, MP, R(0, "x", def)}, "reject@4:key-reference-not-keyable", def},
		{"keyref-to-list", []c10Sym{L, M(0, "x", def), L, E, MP, R(0, "x", def)}, "reject@5:key-reference-not-keyable", def},
		{"keyref-to-array", []c10Sym{L, M(0, "x", def), c10SymARR, MP, R(0, "x", def)}, "reject@4:key-reference-not-keyable", def},
		{"forward-keyref-to-float", []c10Sym{L, MP, R(0, "x", def), N, E, M(0, "x", def), F}, "reject@6:key-reference-not-keyable", def},
		{"forward-keyref-to-null", []c10Sym{L, MP, R(0, "x", def), N, E, M(0, "x", def), N}, "reject@6:key-reference-not-keyable", def},
		{"forward-keyref-to-map", []c10Sym{L, MP, R(0, "x", def), N, E, M(0, "x", def), MP, E}, "window@6-7:key-reference-not-keyable", def},
		{"keyref-inside-marked-map", []c10Sym{M(0, "x", def), MP, R(0, "x", def), N, E}, "window@2-4:key-reference-not-keyable", def},
		{"marker-on-marker", []c10Sym{L, M(0, "x", def), M(1, "y", def)}, "reject@2:marker-on-marker", def},
		{"marker-on-reference", []c10Sym{L, M(0, "x", def), K1, M(1, "y", def), R(0, "x", def)}, "reject@4:marker-on-reference", def},
		{"marker-on-record-type", []c10Sym{M(0, "x", def), c10SymRT(0, "a")}, "reject@1:marker-on-record-type", def},
		{"empty-marker", []c10Sym{L, M(0, "", def)}, "reject@1:identifier-empty", def},
		{"empty-ref", []c10Sym{L, R(0, "", def)}, "reject@1:identifier-empty", def},
		{"too-long-marker", []c10Sym{L, M(0, "abcdef", 5)}, "reject@1:identifier-too-long", 5},
		{"too-long-ref", []c10Sym{L, R(0, "ab", 1)}, "reject@1:identifier-too-long", 1},
		{"too-long-default", []c10Sym{L, M(0, string(makeN('q', 1001)), def)}, "reject@1:identifier-too-long", def},
		{"bad-char-space", []c10Sym{L, M(0, "a b", def)}, "reject@1:identifier-bad-character", def},
		{"bad-char-colon", []c10Sym{L, R(0, "a:b", def)}, "reject@1:identifier-bad-character", def},
		{"bad-char-utf8", []c10Sym{L, M(0, "a\xffb", def)}, "reject@1:identifier-bad-character", def},
		{"bad-char-truncated", []c10Sym{L, R(0, "a\xe2\x82", def)}, "reject@1:identifier-bad-character", def},
		{"bad-char-symbol", []c10Sym{L, M(0, "€", def)}, "reject@1:identifier-bad-character", def},
		{"bad-char-nul", []c10Sym{L, M(0, "a\x00", def)}, "reject@1:identifier-bad-character", def},
		{"vague-length", []c10Sym{L, M(0, "ééé", 5)}, "dontcare@1", 5},
	}
	return cases
}

func make127(b byte) []byte { return makeN(b, 127) }

func makeN(b byte, n int) []byte {
	out := make([]byte, n)
	for i := range out {
		out[i] = b
	}
	return out
}

func c13DirectedA(d *c10Cmp) {
	for _, dc := range c13DirectedCases() {
		got := c10ModelTrace(dc.seq)
		if got != dc.want {
			d.c.Fail("harness-model-selftest", map[string]interface{}{"case": dc.name, "seq": c10Names(dc.seq), "want": dc.want, "model": got})
			continue
		}
		cfg := configuration.New()
		cfg.Rules.MaxIdentifierLength = dc.max
		d.cfg = cfg
		c10RunLinear(d, append([]c10Sym{c10SymBD, c10SymV0}, dc.seq...), "a-directed:"+dc.name)
		d.counts["directed.sequences"]++
	}
	// also every directed C10 sequence that involves markers or references
	d.cfg = configuration.New()
	byName := c10SymByName()
	for _, dcase := range c10DirectedCases {
		var syms []c10Sym
		uses := false
		for _, n := range splitFields(dcase.seq) {
			s := byName[n]
			if s.L.K == c10MARK || s.L.K == c10REF {
				uses = true
			}
			syms = append(syms, s)
		}
		if uses {
			c10RunLinear(d, append([]c10Sym{c10SymBD, c10SymV0}, syms...), "a-directed")
			d.counts["directed.sequences"]++
		}
	}
}
