package checks

import (
	"fmt"
	"math"
	"math/big"
	"math/rand"
	"strings"

	"github.com/cockroachdb/apd/v2"
	compact_float "github.com/kstenerud/go-compact-float"
	compact_time "github.com/kstenerud/go-compact-time"
	"github.com/kstenerud/go-concise-encoding/ce/events"

	"verifharness/ev"
)

// c10Sym is one abstract letter together with the concrete events that spell it.
type c10Sym struct {
	L    c10Letter
	Name string
	Ev   []ev.Event
}

func c10S(k c10Kind, id uint8, name string, evs ...ev.Event) c10Sym {
	return c10Sym{L: c10Letter{K: k, ID: id}, Name: name, Ev: evs}
}

func c10Names(syms []c10Sym) []string {
	out := make([]string, len(syms))
	for i, s := range syms {
		out[i] = s.Name
	}
	return out
}

func c10NamesStr(syms []c10Sym) string { return strings.Join(c10Names(syms), " ") }

func c10Events(syms []c10Sym) []ev.Event {
	var out []ev.Event
	for _, s := range syms {
		out = append(out, s.Ev...)
	}
	return out
}

var (
	c10SymBD  = c10S(c10BD, 0, "BD", ev.Event{K: ev.BD})
	c10SymV0  = c10S(c10V, 0, "V0", ev.Event{K: ev.VER, U: 0})
	c10SymV1  = c10S(c10V, 1, "V1", ev.Event{K: ev.VER, U: 1})
	c10SymV2  = c10S(c10V, 2, "V2", ev.Event{K: ev.VER, U: 2})
	c10SymED  = c10S(c10ED, 0, "ED", ev.Event{K: ev.ED})
	c10SymPAD = c10S(c10PAD, 0, "PAD", ev.Event{K: ev.PAD})
	c10SymCOM = c10S(c10COM, 0, "COM", ev.Event{K: ev.COM, B: []byte("c")})
	c10SymNUL = c10S(c10NULL, 0, "NULL", ev.Event{K: ev.NULL})
	c10SymK1  = c10S(c10KEY, 0, "K1", ev.Event{K: ev.PINT, U: 1})
	c10SymK2  = c10S(c10KEY, 1, "K2", ev.Event{K: ev.STRARR, AT: events.ArrayTypeString, S: "k"})
	c10SymK3  = c10S(c10KEY, 2, "K3", ev.Event{K: ev.PINT, U: 2})
	c10SymNK  = c10S(c10NONKEY, 0, "FLOAT", ev.Event{K: ev.FLOAT, F: 1.5})
	c10SymARR = c10S(c10ARR, 0, "ARRAY", ev.Event{K: ev.ARR, AT: events.ArrayTypeUint8, U: 2, B: []byte{1, 2}})
	c10SymLST = c10S(c10LIST, 0, "LIST", ev.Event{K: ev.LIST})
	c10SymMAP = c10S(c10MAP, 0, "MAP", ev.Event{K: ev.MAP})
	c10SymNOD = c10S(c10NODE, 0, "NODE", ev.Event{K: ev.NODE})
	c10SymEDG = c10S(c10EDGE, 0, "EDGE", ev.Event{K: ev.EDGE})
	c10SymEND = c10S(c10END, 0, "END", ev.Event{K: ev.END})
)

func c10SymRT(id uint8, name string) c10Sym {
	return c10S(c10RT, id, "RT("+name+")", ev.Event{K: ev.RECTYPE, B: []byte(name)})
}
func c10SymREC(id uint8, name string) c10Sym {
	return c10S(c10REC, id, "REC("+name+")", ev.Event{K: ev.RECORD, B: []byte(name)})
}
func c10SymMARK(id uint8, name string) c10Sym {
	return c10S(c10MARK, id, "MARK("+name+")", ev.Event{K: ev.MARK, B: []byte(name)})
}
func c10SymREF(id uint8, name string) c10Sym {
	return c10S(c10REF, id, "REF("+name+")", ev.Event{K: ev.REF, B: []byte(name)})
}

// The 17-letter alphabet of DESIGN.md (C10), explored after "BD V0".
func c10BaseAlphabet() []c10Sym {
	return []c10Sym{c10SymED, c10SymPAD, c10SymCOM, c10SymNUL, c10SymK1, c10SymK2, c10SymNK, c10SymARR, c10SymLST, c10SymMAP,
		c10SymNOD, c10SymEDG, c10SymEND, c10SymRT(0, "a"), c10SymREC(0, "a"), c10SymMARK(0, "x"), c10SymREF(0, "x")}
}

// Extended alphabet: second identifiers, a second integer key, BD / versions out of place.
func c10ExtAlphabet() []c10Sym {
	return append(c10BaseAlphabet(), c10SymK3, c10SymRT(1, "b"), c10SymREC(1, "b"), c10SymMARK(1, "y"), c10SymREF(1, "y"),
		c10SymBD, c10SymV0, c10SymV1)
}

// Alphabet for the enumeration of document starts (from the empty sequence).
func c10StartAlphabet() []c10Sym {
	return append(c10BaseAlphabet(), c10SymBD, c10SymV0, c10SymV1, c10SymV2)
}

// ---------------------------------------------------------------------------
// Pools of concrete spellings for the random part (and for C13 part A).

type c10Pool struct {
	keys    []c10Sym // index = value class; distinct classes denote distinct values
	nulls   []c10Sym
	nonkeys []c10Sym
	arrs    []c10Sym
	rts     []c10Sym
	recs    []c10Sym
	marks   []c10Sym
	refs    []c10Sym
	hostile []c10Sym // letters that are only ever wrong or don't-care (BD, versions, bad identifiers)
}

func c10Chunked(at events.ArrayType, chunks ...[]byte) []ev.Event {
	out := []ev.Event{{K: ev.ABEGIN, AT: at}}
	for i, ch := range chunks {
		out = append(out, ev.Event{K: ev.CHUNK, U: uint64(len(ch)), Flag: i < len(chunks)-1})
		if len(ch) > 0 {
			out = append(out, ev.Event{K: ev.DATA, B: ch})
		}
	}
	return out
}

func c10KeySyms() []c10Sym {
	big70 := new(big.Int).Lsh(big.NewInt(1), 70)
	uid := []byte{1, 2, 3, 4, 5, 6, 7, 8, 9, 10, 11, 12, 13, 14, 15, 16}
	ks := [][]ev.Event{
		{{K: ev.PINT, U: 1}},
		{{K: ev.STRARR, AT: events.ArrayTypeString, S: "k"}},
		{{K: ev.PINT, U: 2}},
		{{K: ev.TRUE}},
		{{K: ev.INT, I: -5}},
		{{K: ev.UID, B: uid}},
		{{K: ev.TIME, T: compact_time.NewDate(2020, 1, 2)}},
		{{K: ev.STRARR, AT: events.ArrayTypeResourceID, S: "r:1"}},
		c10Chunked(events.ArrayTypeString, []byte("cs")),
		{{K: ev.BINT, BI: big70}},
		{{K: ev.ARR, AT: events.ArrayTypeString, U: 2, B: []byte("s2")}},
		{{K: ev.BOOL, Flag: false}},
		c10Chunked(events.ArrayTypeResourceID, []byte("r:"), []byte("2")),
		{{K: ev.NINT, U: 77}},
		c10Chunked(events.ArrayTypeString, []byte("\xe2\x82\xac"), []byte{}),
		{{K: ev.TIME, T: compact_time.NewTime(1, 2, 3, 4, compact_time.TZAtUTC())}},
	}
	out := make([]c10Sym, len(ks))
	for i, e := range ks {
		out[i] = c10Sym{L: c10Letter{K: c10KEY, ID: uint8(i)}, Name: fmt.Sprintf("KEY%d[%s]", i, ev.LogString(e)), Ev: e}
	}
	return out
}

func c10NewPool(markIDs, recIDs []string) *c10Pool {
	p := &c10Pool{keys: c10KeySyms()}
	mk := func(k c10Kind, id uint8, e ...ev.Event) c10Sym {
		return c10Sym{L: c10Letter{K: k, ID: id}, Name: c10KindNames[k] + "[" + ev.LogString(e) + "]", Ev: e}
	}
	p.nulls = []c10Sym{c10SymNUL, mk(c10NULL, 0, ev.Event{K: ev.BINT}), mk(c10NULL, 0, ev.Event{K: ev.BFLOAT}), mk(c10NULL, 0, ev.Event{K: ev.BDFLOAT})}
	dnan := compact_float.QuietNaN()
	p.nonkeys = []c10Sym{c10SymNK, mk(c10NONKEY, 0, ev.Event{K: ev.NAN}), mk(c10NONKEY, 0, ev.Event{K: ev.DFLOAT, DF: compact_float.DFloatValue(-1, 15)}),
		mk(c10NONKEY, 0, ev.Event{K: ev.BFLOAT, BF: big.NewFloat(2.25)}), mk(c10NONKEY, 0, ev.Event{K: ev.BDFLOAT, BD: apd.New(31, -1)}),
		mk(c10NONKEY, 0, ev.Event{K: ev.DFLOAT, DF: dnan}), mk(c10NONKEY, 0, ev.Event{K: ev.NAN, Flag: true}),
		// NaN and infinity handed over as a binary float / big decimal (the validator re-dispatches NaN; it is still one object)
		mk(c10NONKEY, 0, ev.Event{K: ev.FLOAT, F: math.NaN()}), mk(c10NONKEY, 0, ev.Event{K: ev.FLOAT, F: math.Float64frombits(0x7ff0000000000001)}),
		mk(c10NONKEY, 0, ev.Event{K: ev.FLOAT, F: math.Inf(-1)}), mk(c10NONKEY, 0, ev.Event{K: ev.BDFLOAT, BD: &apd.Decimal{Form: apd.NaN}}),
		mk(c10NONKEY, 0, ev.Event{K: ev.DFLOAT, DF: compact_float.SignalingNaN()})}
	p.arrs = []c10Sym{c10SymARR,
		mk(c10ARR, 0, ev.Event{K: ev.ARR, AT: events.ArrayTypeBit, U: 3, B: []byte{5}}),
		mk(c10ARR, 0, ev.Event{K: ev.ARR, AT: events.ArrayTypeUint16, U: 1, B: []byte{1, 2}}),
		mk(c10ARR, 0, ev.Event{K: ev.MEDIA, S: "a/b", B: []byte{9}}),
		mk(c10ARR, 0, ev.Event{K: ev.CUSTB, U: 1, B: []byte{7}}),
		mk(c10ARR, 0, ev.Event{K: ev.CUSTT, U: 1, S: "t"}),
		mk(c10ARR, 0, c10Chunked(events.ArrayTypeUint8, []byte{1, 2})...),
		mk(c10ARR, 0, c10Chunked(events.ArrayTypeUint8, []byte{1}, []byte{})...),
		mk(c10ARR, 0, ev.Event{K: ev.MBEGIN, S: "a/b"}, ev.Event{K: ev.CHUNK, U: 1}, ev.Event{K: ev.DATA, B: []byte{3}}),
		mk(c10ARR, 0, ev.Event{K: ev.CBEGIN, AT: events.ArrayTypeCustomBinary, U: 2}, ev.Event{K: ev.CHUNK, U: 1}, ev.Event{K: ev.DATA, B: []byte{3}}),
		mk(c10ARR, 1, ev.Event{K: ev.STRARR, AT: events.ArrayTypeReferenceRemote, S: "http://x"}),
	}
	for i, id := range recIDs {
		p.rts = append(p.rts, c10SymRT(uint8(i), id))
		p.recs = append(p.recs, c10SymREC(uint8(i), id))
	}
	for i, id := range markIDs {
		p.marks = append(p.marks, c10SymMARK(uint8(i), id))
		p.refs = append(p.refs, c10SymREF(uint8(i), id))
	}
	p.hostile = []c10Sym{c10SymBD, c10SymV0, c10SymV1}
	return p
}

func c10Pick(r *rand.Rand, syms []c10Sym) c10Sym { return syms[r.Intn(len(syms))] }

// anyLetter returns a random letter of the pool, whatever the state (used to corrupt sequences).
func (p *c10Pool) anyLetter(r *rand.Rand) c10Sym {
	switch r.Intn(20) {
	case 0:
		return c10SymPAD
	case 1:
		return c10SymCOM
	case 2:
		return c10Pick(r, p.nulls)
	case 3, 4:
		return c10Pick(r, p.keys)
	case 5:
		return c10Pick(r, p.nonkeys)
	case 6:
		return c10Pick(r, p.arrs)
	case 7:
		return c10SymLST
	case 8:
		return c10SymMAP
	case 9:
		return c10SymNOD
	case 10:
		return c10SymEDG
	case 11, 12:
		return c10SymEND
	case 13:
		return c10Pick(r, p.rts)
	case 14:
		return c10Pick(r, p.recs)
	case 15, 16:
		return c10Pick(r, p.marks)
	case 17, 18:
		return c10Pick(r, p.refs)
	}
	if r.Intn(2) == 0 {
		return c10SymED
	}
	return c10Pick(r, p.hostile)
}
