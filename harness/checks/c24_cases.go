package checks

// Case composition for C24: directed literal tables (with hand-written values that also cross-check
// the reference evaluator) first, then seeded random batches by category.

import (
	"encoding/hex"
	"fmt"
	"math/big"
	"strings"

	"verifharness/fw"
)

func c24N(text, num string) c24Lit {
	return c24Lit{Text: text, WantNum: num, HasWant: true, Cat: "int"}
}
func c24F(cat, text, num string) c24Lit {
	return c24Lit{Text: text, WantNum: num, HasWant: true, Cat: cat}
}
func c24S(text, val string) c24Lit {
	return c24Lit{Text: text, WantStr: []byte(val), HasWant: true, Cat: "str"}
}
func c24A(cat, text, arr string) c24Lit {
	return c24Lit{Text: text, WantArr: arr, HasWant: true, Cat: cat}
}
func c24T(cat, text string, feats ...string) c24Lit {
	return c24Lit{Text: text, Cat: cat, Feats: feats}
}

func c24Pow5Canon(neg bool, mant int64, exp2 int64) string {
	return c24CanonBin(neg, big.NewInt(mant), exp2)
}

var c24Directed = []func() []c24Lit{
	// integers: every base, prefix case, separators, leading zeros in prefixed bases, -0, width boundaries
	func() []c24Lit {
		return []c24Lit{
			c24N("0", "0"), c24N("-0", "-0"), c24N("1", "1e0"), c24N("100", "1e2"), c24N("-100", "-1e2"), c24N("0b0", "0"), c24N("-0b0", "-0"),
			c24N("0B101", "5e0"), c24N("0o17", "15e0"), c24N("0O17", "15e0"), c24N("-0o0", "-0"), c24N("0xff", "255e0"), c24N("0XFF", "255e0"),
			c24N("0xFf", "255e0"), c24N("-0x0", "-0"), c24N("-0X80", "-128e0"), c24N("1_000", "1e3"), c24N("1__0", "1e1"), c24N("0xa_b", "171e0"),
			c24N("0b1_0_1", "5e0"), c24N("0o1___7", "15e0"), c24N("0x00ff", "255e0"), c24N("0b0001", "1e0"), c24N("0o007", "7e0"),
			c24N("9223372036854775807", "9223372036854775807e0"), c24N("9223372036854775808", "9223372036854775808e0"),
			c24N("-9223372036854775808", "-9223372036854775808e0"), c24N("-9223372036854775809", "-9223372036854775809e0"),
			c24N("18446744073709551615", "18446744073709551615e0"), c24N("18446744073709551616", "18446744073709551616e0"),
			c24N("0xffffffffffffffff", "18446744073709551615e0"), c24N("0x10000000000000000", "18446744073709551616e0"),
			c24N("-0x8000000000000000", "-9223372036854775808e0"), c24N("0b1"+strings.Repeat("0", 64), "18446744073709551616e0"),
			c24N("1"+strings.Repeat("0", 30), "1e30"), c24N("0x1"+strings.Repeat("0", 25), "1267650600228229401496703205376e0"),
			c24N("0o2"+strings.Repeat("0", 21), "18446744073709551616e0"),
		}
	},
	// decimal integers with leading zeros (inside the grammar: PINT_DEC is DIGITS_DEC)
	func() []c24Lit {
		return []c24Lit{c24N("010", "1e1"), c24N("09", "9e0"), c24N("-010", "-1e1"), c24N("0_9", "9e0"), c24N("007", "7e0"), c24N("00", "0"), c24N("-00", "-0"),
			c24N("0777", "777e0"), c24N("08", "8e0"), c24N("0_1_0", "1e1"), c24N("0123456789012345678901234567890", "12345678901234567890123456789e1"),
			c24N("-0000000000000000000000000000017", "-17e0")}
	},
	// decimal floats
	func() []c24Lit {
		f := func(t, n string) c24Lit { return c24F("dfloat", t, n) }
		return []c24Lit{f("1.5", "15e-1"), f("-1.5", "-15e-1"), f("0.0", "0"), f("-0.0", "-0"), f("-0e0", "-0"), f("-0.000e-5", "-0"), f("1e5", "1e5"), f("1E5", "1e5"),
			f("1e+5", "1e5"), f("1e-5", "1e-5"), f("1.0", "1e0"), f("100.0", "1e2"), f("0.1", "1e-1"), f("1_0.5_0e1_0", "105e9"), f("1e0_5", "1e5"), f("00.5", "5e-1"),
			f("010.5", "105e-1"), f("0e0", "0"), f("0.000", "0"), f("123456789012345678.5", "1234567890123456785e-1"),
			f("0.1234567890123456789012345", "1234567890123456789012345e-25"), f("1e-400", "1e-400"), f("9.99e999", "999e997"),
			f("1234567890123456789012345678901234567890e-10", "123456789012345678901234567890123456789e-9"), f("-0.0000000000000000000000", "-0"),
			f("999999999999999999e0", "999999999999999999e0"), f("9999999999999999999e0", "9999999999999999999e0"), f("1.000000000000000000", "1e0"),
			f("1e-0", "1e0"), f("1E+00", "1e0"), f("5e-3000", "5e-3000"), f("5e3000", "5e3000")}
	},
	// hexadecimal floats
	func() []c24Lit {
		f := func(t, n string) c24Lit { return c24F("hfloat", t, n) }
		return []c24Lit{f("0x1.8p3", "12e0"), f("0X1.8P3", "12e0"), f("-0x1.8p-1", "-75e-2"), f("0x1p0", "1e0"), f("0x0.8", "5e-1"), f("0x1.8", "15e-1"), f("0xap1", "2e1"),
			f("0x1p-1074", c24Pow5Canon(false, 1, -1074)), f("0x1p-1075", c24Pow5Canon(false, 1, -1075)), f("-0x0p0", "-0"), f("-0x0.0", "-0"), f("0x0p5", "0"),
			f("0x1_0.8_0p1_0", "16896e0"), f("0x1.00000000000001p0", c24CanonBin(false, new(big.Int).Add(c24Pow2(56), big.NewInt(1)), -56)),
			f("0x1p5000", c24CanonBin(false, big.NewInt(1), 5000)), f("0x1.fffffffffffffp1023", c24CanonBin(false, new(big.Int).Sub(c24Pow2(53), big.NewInt(1)), 971)),
			f("0x1p1024", c24CanonBin(false, big.NewInt(1), 1024)), f("0x0.00000000000000000000001p0", c24CanonBin(false, big.NewInt(1), -92)),
			f("0x1p+3", "8e0"), f("0x1p-03", "125e-3"), f("0xA.8", "105e-1"), f("0x1e5p0", "485e0"), f("0x1.8e5", c24CanonBin(false, big.NewInt(0x18e5), -12)),
			f("0x00001.8p0", "15e-1")}
	},
	// specials
	func() []c24Lit {
		var out []c24Lit
		for _, t := range []string{"inf", "-inf", "nan", "snan", "INF", "-Inf", "NaN", "sNaN", "SNAN", "-INF", "iNf"} {
			out = append(out, c24T("special", t, strings.ToLower(t)))
		}
		return out
	},
	// integer arrays: every type x mode with min, max, zero, one (and -0 for signed types)
	func() []c24Lit { return c24DirectedIntArrays(false) },
	// integer arrays: one element just outside the range, every type x mode
	func() []c24Lit { return c24DirectedIntArrays(true) },
	// integer array elements with separators and leading zeros (DIGITS_x = D ('_'* D)*)
	func() []c24Lit {
		a := func(t, w string) c24Lit { return c24A("iarr", t, w) }
		return []c24Lit{a("@u8[010]", "u8:0a"), a("@u8[09]", "u8:09"), a("@i8[-010]", "i8:f6"), a("@u16x[1_0]", "u16:1000"), a("@u16b[1_0]", "u16:0200"),
			a("@i16o[-1_0]", "i16:f8ff"), a("@u16[1__0]", "u16:0a00"), a("@u16[0x1__0]", "u16:1000"), a("@u16[1_0]", "u16:0a00"), a("@u16[0x1_0]", "u16:1000"),
			a("@i32x[-7fff_ffff 0_0_1]", "i32:0100008001000000"), a("@u64b[1___1]", "u64:0300000000000000"), a("@u8[007 0_0]", "u8:0700"),
			a("@U8X[fF]", "u8:ff"), a("@I16[ 1\n2\t3 \r\n]", "i16:010002000300"), a("@u8[]", "u8:"), a("@u8[ ]", "u8:"), a("@i64[-0]", "i64:0000000000000000"),
			a("@u8[0b11 0o7 0xf 9]", "u8:03070f09"), a("@i8[-0b11 -0o7 -0xf -9]", "i8:fdf9f1f7"), a("@u8[0B1 0O1 0X1]", "u8:010101")}
	},
	// float arrays
	func() []c24Lit {
		a := func(t, w string) c24Lit { return c24A("farr", t, w) }
		return []c24Lit{a("@f32[1.5 0x1.8p1 10 0x10 -0 inf -inf]", "f32:0000c03f0000404000002041000080410000008000 00807f000080ff"),
			a("@f32x[1.8p1 10 1e5 -0 -a.8]", "f32:00004040000080410080f24300000080000028c1"), a("@f16[1.5 -2 0x1p-133]", "f16:c03f00c00100"),
			a("@f64x[1p-1074 1.fffffffffffffp1023 -0]", "f64:0100000000000000ffffffffffffef7f0000000000000080"), a("@f64[0.5 -0.0 1e0 0x0p0]", "f64:000000000000e03f0000000000000080000000000000f03f0000000000000000"),
			a("@f16x[1 -1 0.8 7f.8p121]", "f16:803f80bf003f7f7f"), a("@f32[0x1p-149 0x1.fffffep127 1_0.5_0]", "f32:01000000ffff7f7f00002841"), a("@F32X[A.8P0]", "f32:00002841"),
			a("@f32[]", "f32:"), a("@f64x[ ]", "f64:"),
			c24T("farr", "@f32[nan snan NaN SNAN 1]", "elem.nan", "elem.snan"), c24T("farr", "@f16x[nan snan inf -inf]", "elem.nan"), c24T("farr", "@f64[nan snan]", "elem.nan"),
			c24T("farr", "@f32[1e39]", "elem.float-too-big"), c24T("farr", "@f32[0x1p128]", "elem.float-too-big"), c24T("farr", "@f64[1e309]", "elem.float-too-big"),
			c24T("farr", "@f64x[1p1024]", "elem.float-too-big"), c24T("farr", "@f16[0x1p128]", "elem.float-too-big"), c24T("farr", "@f16x[-1p128]", "elem.float-too-big"),
			c24T("farr", "@f32[0.1]", "elem.float-inexact"), c24T("farr", "@f32[1e-50]", "elem.float-inexact"), c24T("farr", "@f16[3.4e38]", "elem.float-inexact"),
			c24T("farr", "@f64[1e-400]", "elem.float-inexact"), c24T("farr", "@f32[3.4028236e38]", "elem.float-inexact"), c24T("farr", "@f32x[1.000001p0]", "elem.float-tie")}
	},
	// strings: every escape form
	func() []c24Lit {
		out := []c24Lit{c24S(`""`, ""), c24S(`"abc"`, "abc"), c24S(`"a\nb\tc\rd\"e\*f\/g\\h\-i\_j\Nk\Tl\R"`, "a\nb\tc\rd\"e*f/g\\h\u00adi\u00a0j\nk\tl\r"),
			c24S(`"\[41]\[1f600]\[0041]\[1F600]\[e9]"`, "A😀A😀é"), c24S(`"\[0]"`, "\x00"), c24S(`"\[7]\[1b]\[7f]\[9f]"`, "\x07\x1b\x7f\u009f"), c24S(`"\[000000041]"`, "A"),
			c24S(`"\[10ffff]\[d7ff]\[e000]\[fffd]"`, "\U0010ffff\ud7ff\ue000\ufffd"),
			c24S("\"a\\\n   b\"", "ab"), c24S("\"a\\\r\n \t b\"", "ab"), c24S("\"a\\\n\n\n b\"", "ab"), c24S("\"a\\\rb\"", "ab"), c24S("\"a\\\n\"", "a"),
			c24S(`"a\.## x"y\z## b"`, `ax"y\z b`), c24S("\"\\.END\ntext\nEND\"", "text\n"), c24S(`"\.@@ @@z"`, "z"), c24S(`"\.@ a@b@"`, "ab@"),
			c24S("\"\\.A\r\nxA\"", "x"), c24S(`"\.AB xAyAB"`, "xAy"), c24S(`"\.AA xAAA"`, "xA"), c24S("\"\\.@@\t\t@@\"", "\t"), c24S("\"\\.@@ \n@@\"", "\n"),
			c24S(`"\." x""`, "x"), c24S(`"\.\ x\"`, "x"), c24S(`"\.@ é@"`, "é"), c24S("\"a\nb\tc\"", "a\nb\tc"), c24S(`"日本 é 😀"`, "日本 é 😀"),
			c24S(`"\.z9 \n\[41]z9"`, `\n\[41]`)}
		for _, e := range c24NamedOrder {
			l := c24S(`"`+"\\"+string(e)+`"`, c24NamedEscapes[e])
			l.Feats = []string{"str.named." + string(e)}
			out = append(out, l)
		}
		return out
	},
	// strings: verbatim sentinels with non-ASCII characters (CHAR_VERBATIM_SENTINEL includes \p{L}..\p{S})
	func() []c24Lit {
		return []c24Lit{c24S(`"\.é xé"`, "x"), c24S(`"\.日本 x日本"`, "x"), c24S(`"a\.😀 "q"😀b"`, `a"q"b`), c24S(`"\.« »«"`, "»"), c24S(`"\.Ω1 Ω1"`, "")}
	},
	// strings: an empty verbatim sequence after an earlier verbatim sequence (same string)
	func() []c24Lit {
		return []c24Lit{c24S(`"\.@@ @@\.@@ @@x"`, "x"), c24S(`"\.@@ a@@\.# b#\.Z Z"`, "ab"), c24S(`"\.A xA-\.B B"`, "x-")}
	},
	// strings: verbatim contents that are a proper prefix of the sentinel; empty contents with a multi-character sentinel
	func() []c24Lit {
		return []c24Lit{c24S(`"\.AB AAB"`, "A"), c24S(`"\.@@## @@@##"`, "@"), c24S(`"\.END ENEND"`, "EN"), c24S(`"\.'q 'q"`, ""), c24S(`"\.END END"`, ""),
			c24S(`"\." "\""`, `"`), c24S(`"\.@ @@"`, "@")}
	},
	// strings: the same across two strings of one document (context-dependent)
	func() []c24Lit {
		return []c24Lit{c24S(`"\.@@ @@"`, ""), c24S(`"\.@@ @@"`, ""), c24S(`"\.## b##"`, "b"), c24S(`"\.Q Q"`, "")}
	},
	// \[hex] escapes that name no character, and spellings outside the grammar
	func() []c24Lit {
		out := []c24Lit{c24T("str", `"\[d800]"`), c24T("str", `"\[dfff]"`), c24T("str", `"\[110000]"`), c24T("str", `"\[ffffffff]"`), c24T("str", `"\[100000000]"`)}
		for _, t := range []string{"010_", "+1", "0x", "0b2", "0o8", "0x_1", ".5", "1.", "1e", "0x1p", "0x1.p3", "--1", "-nan", `"\q"`, `"\[]"`, `"\[g]"`, `"\."`, "\"\\.@@\rx@@\"",
			"@u8[-1]", "@u8[1.5]", "@u8x[0x10]", "@u8b[2]", "@f32b[1]", "@f32[0b1]", "@f32x[0x1p1]", "@u16[1_]", "@u16x[_1]", "\"a\x01b\""} {
			out = append(out, c24T("outside", t))
		}
		return out
	},
}

func c24NumDirected() int { return len(c24Directed) }

func c24LEHex(v *big.Int, bits int) string {
	x := new(big.Int).Set(v)
	if x.Sign() < 0 {
		x.Add(x, c24Pow2(uint(bits)))
	}
	b := make([]byte, bits/8)
	u := x.Uint64()
	for i := range b {
		b[i] = byte(u >> (8 * uint(i)))
	}
	return hex.EncodeToString(b)
}

func c24DirectedIntArrays(outOfRange bool) []c24Lit {
	var out []c24Lit
	for _, class := range []byte{'i', 'u'} {
		for _, bits := range []int{8, 16, 32, 64} {
			for _, mode := range []byte{0, 'b', 'o', 'x'} {
				a := c24ArrSpec{class, bits, mode}
				lo, hi := c24IntRange(class == 'i', bits)
				base, pre := 10, ""
				switch mode {
				case 'b':
					base = 2
				case 'o':
					base = 8
				case 'x':
					base = 16
				}
				if mode == 0 && bits >= 32 {
					base, pre = 16, "0x" // generic mode also takes prefixed elements
				}
				spell := func(v *big.Int) string {
					t := pre + new(big.Int).Abs(v).Text(base)
					if v.Sign() < 0 {
						t = "-" + t
					}
					return t
				}
				hdr := "@" + a.name() + "["
				if !outOfRange {
					vals := []*big.Int{lo, hi, big.NewInt(0), big.NewInt(1)}
					var ts, hx []string
					for _, v := range vals {
						ts = append(ts, spell(v))
						hx = append(hx, c24LEHex(v, bits))
					}
					if class == 'i' {
						ts = append(ts, "-"+pre+"0")
						hx = append(hx, c24LEHex(big.NewInt(0), bits))
					}
					l := c24A("iarr", hdr+strings.Join(ts, " ")+"]", fmt.Sprintf("%c%d:%s", class, bits, strings.Join(hx, "")))
					l.Feats = []string{"arr." + a.name(), "elem.min", "elem.max"}
					out = append(out, l)
					continue
				}
				over := new(big.Int).Add(hi, big.NewInt(1))
				l := c24T("iarr", hdr+"1 "+spell(over)+"]", "arr."+a.name(), "elem.outofrange.by1")
				out = append(out, l)
				if class == 'i' {
					under := new(big.Int).Sub(lo, big.NewInt(1))
					out = append(out, c24T("iarr", hdr+spell(under)+" 0]", "arr."+a.name(), "elem.outofrange.by1"))
				}
			}
		}
	}
	return out
}

// c24CaseLits returns the literals of case idx (a pure function of the case's PRNG).
func c24CaseLits(c *fw.Ctx, idx int) []c24Lit {
	if idx < len(c24Directed) {
		lits := c24Directed[idx]()
		for i := range lits {
			lits[i].WantArr = strings.ReplaceAll(lits[i].WantArr, " ", "")
		}
		return lits
	}
	s := &c24Speller{r: c.Rng}
	var out []c24Lit
	switch (idx - len(c24Directed)) % 8 {
	case 0:
		for i := 0; i < 24; i++ {
			out = append(out, s.RandomInt())
		}
	case 1:
		for i := 0; i < 24; i++ {
			out = append(out, s.DecFloat())
		}
	case 2:
		for i := 0; i < 24; i++ {
			out = append(out, s.HexFloat())
		}
	case 3:
		for i := 0; i < 14; i++ {
			a := c24ArrSpec{class: "iu"[s.r.Intn(2)], bits: []int{8, 16, 32, 64}[s.r.Intn(4)], mode: []byte{0, 0, 'b', 'o', 'x'}[s.r.Intn(5)]}
			n := []int{0, 1, 2, 3, 5, 9, 17}[s.r.Intn(7)]
			bad := 0
			if i >= 11 && n > 0 {
				bad = 1 + s.r.Intn(2)
			}
			out = append(out, s.IntArray(a, n, bad))
		}
	case 4:
		for i := 0; i < 10; i++ {
			a := c24ArrSpec{class: 'f', bits: []int{16, 32, 64}[s.r.Intn(3)], mode: []byte{0, 'x'}[s.r.Intn(2)]}
			n := []int{0, 1, 2, 3, 5, 9}[s.r.Intn(6)]
			kind := 0
			if i >= 6 && n > 0 {
				kind = 1 + s.r.Intn(3)
			}
			out = append(out, s.FloatArray(a, n, kind))
		}
	case 5:
		for i := 0; i < 14; i++ {
			out = append(out, s.String(1+s.r.Intn(8), []string{"raw", "raw", "named", "codepoint", "continuation", "verbatim"}))
		}
	case 6:
		for i := 0; i < 12; i++ {
			switch s.r.Intn(3) {
			case 0:
				out = append(out, s.String(1+s.r.Intn(4), []string{"verbatim", "verbatim", "raw"}))
			case 1:
				out = append(out, s.String(1+s.r.Intn(12), []string{"named", "codepoint", "continuation"}))
			default:
				out = append(out, s.String(s.r.Intn(3), []string{"raw"}))
			}
		}
	default:
		for i := 0; i < 20; i++ {
			switch s.r.Intn(8) {
			case 0:
				out = append(out, s.Special())
			case 1, 2:
				out = append(out, s.Malformed())
			case 3:
				out = append(out, s.RandomInt())
			case 4:
				out = append(out, s.DecFloat())
			case 5:
				out = append(out, s.HexFloat())
			case 6:
				out = append(out, s.String(1+s.r.Intn(4), []string{"raw", "named", "codepoint", "verbatim"}))
			default:
				a := c24ArrSpec{class: "iuf"[s.r.Intn(3)], bits: []int{16, 32, 64}[s.r.Intn(3)], mode: []byte{0, 'x'}[s.r.Intn(2)]}
				if a.class == 'f' {
					out = append(out, s.FloatArray(a, 1+s.r.Intn(3), 0))
				} else {
					out = append(out, s.IntArray(a, 1+s.r.Intn(3), 0))
				}
			}
		}
	}
	return out
}
