package checks

// C18 snapshot: a canonical, located, deep serialisation of everything reachable from a Go value,
// including unexported fields of library types (big.Int sign and words, big.Float
// prec/mode/acc/form/neg/mant/exp, apd.Decimal form/negative/exponent/coeff, time.Time wall/ext/loc),
// slice len/cap and the elements up to cap, map contents in sorted key order, and the pointer
// identity graph (visit-order ids plus the raw addresses).

import (
	"fmt"
	"math"
	"reflect"
	"sort"
	"strings"
	"time"
)

type c18Line struct {
	Path string
	Val  string
	Ctx  string // innermost enclosing named type + field, e.g. "big.Int.neg"
}

type c18PtrKey struct {
	p uintptr
	t reflect.Type
}

type c18Snap struct {
	Lines []c18Line
	Addrs []uintptr // raw addresses of every pointer / slice / map visited, in visit order
	ids   map[c18PtrKey]int
	named []string
}

var c18TimeType = reflect.TypeOf(time.Time{})
var c18LocPtrType = reflect.TypeOf((*time.Location)(nil))

func c18Snapshot(root interface{}) *c18Snap {
	s := &c18Snap{ids: map[c18PtrKey]int{}}
	s.walk(reflect.ValueOf(root), "")
	return s
}

func (s *c18Snap) emit(path, val string) {
	ctx := ""
	if len(s.named) > 0 {
		ctx = s.named[len(s.named)-1]
	}
	s.Lines = append(s.Lines, c18Line{Path: path, Val: val, Ctx: ctx})
}

func c18ShortType(t reflect.Type) string {
	n := t.String()
	n = strings.ReplaceAll(n, "checks.", "")
	return n
}

// c18KeyString renders a map key without pointer ids (keys are scalars, strings, or arrays/structs of them).
func c18KeyString(v reflect.Value) string {
	switch v.Kind() {
	case reflect.Interface:
		if v.IsNil() {
			return "nil"
		}
		return c18ShortType(v.Elem().Type()) + ":" + c18KeyString(v.Elem())
	case reflect.String:
		return fmt.Sprintf("%q", v.String())
	case reflect.Bool:
		return fmt.Sprint(v.Bool())
	case reflect.Int, reflect.Int8, reflect.Int16, reflect.Int32, reflect.Int64:
		return fmt.Sprintf("%+021d", v.Int())
	case reflect.Uint, reflect.Uint8, reflect.Uint16, reflect.Uint32, reflect.Uint64, reflect.Uintptr:
		return fmt.Sprintf("%020d", v.Uint())
	case reflect.Float32, reflect.Float64:
		return fmt.Sprintf("f%016x", math.Float64bits(v.Float()))
	case reflect.Array:
		var parts []string
		for i := 0; i < v.Len(); i++ {
			parts = append(parts, c18KeyString(v.Index(i)))
		}
		return "[" + strings.Join(parts, ",") + "]"
	case reflect.Struct:
		var parts []string
		for i := 0; i < v.NumField(); i++ {
			parts = append(parts, c18KeyString(v.Field(i)))
		}
		return "{" + strings.Join(parts, ",") + "}"
	case reflect.Ptr:
		return fmt.Sprintf("ptr%x", v.Pointer())
	}
	return fmt.Sprintf("?%v", v.Kind())
}

func (s *c18Snap) identity(v reflect.Value, path, what string) (seen bool) {
	key := c18PtrKey{v.Pointer(), v.Type()}
	s.Addrs = append(s.Addrs, key.p)
	if id, ok := s.ids[key]; ok {
		s.emit(path, fmt.Sprintf("%s -> #%d", what, id))
		return true
	}
	id := len(s.ids) + 1
	s.ids[key] = id
	s.emit(path, fmt.Sprintf("%s #%d", what, id))
	return false
}

func (s *c18Snap) walk(v reflect.Value, path string) {
	if !v.IsValid() {
		s.emit(path, "invalid")
		return
	}
	t := v.Type()
	pushed := false
	if t.PkgPath() != "" && t.Kind() == reflect.Struct {
		s.named = append(s.named, c18ShortType(t))
		pushed = true
	}
	defer func() {
		if pushed {
			s.named = s.named[:len(s.named)-1]
		}
	}()
	if t == c18LocPtrType {
		// a *time.Location is shared process state (lazily initialised): identity and name only
		if v.IsNil() {
			s.emit(path, "loc nil")
		} else {
			s.Addrs = append(s.Addrs, v.Pointer())
			name := "?"
			if v.CanInterface() {
				name = v.Interface().(*time.Location).String()
			}
			s.emit(path, "loc "+name)
		}
		return
	}
	switch v.Kind() {
	case reflect.Bool:
		s.emit(path, fmt.Sprint(v.Bool()))
	case reflect.Int, reflect.Int8, reflect.Int16, reflect.Int32, reflect.Int64:
		s.emit(path, fmt.Sprint(v.Int()))
	case reflect.Uint, reflect.Uint8, reflect.Uint16, reflect.Uint32, reflect.Uint64, reflect.Uintptr:
		s.emit(path, fmt.Sprintf("%#x", v.Uint()))
	case reflect.Float32, reflect.Float64:
		s.emit(path, fmt.Sprintf("float %#016x", math.Float64bits(v.Float())))
	case reflect.Complex64, reflect.Complex128:
		c := v.Complex()
		s.emit(path, fmt.Sprintf("complex %#016x %#016x", math.Float64bits(real(c)), math.Float64bits(imag(c))))
	case reflect.String:
		s.emit(path, fmt.Sprintf("string %d %q", v.Len(), v.String()))
	case reflect.Ptr:
		if v.IsNil() {
			s.emit(path, "nil "+c18ShortType(t))
			return
		}
		if s.identity(v, path, "ptr") {
			return
		}
		s.walk(v.Elem(), path+"/*")
	case reflect.Interface:
		if v.IsNil() {
			s.emit(path, "nil interface")
			return
		}
		s.emit(path, "interface holding "+c18ShortType(v.Elem().Type()))
		s.walk(v.Elem(), path+"/()")
	case reflect.Slice:
		if v.IsNil() {
			s.emit(path, "nil "+c18ShortType(t))
			return
		}
		if s.identity(v, path, fmt.Sprintf("slice len=%d cap=%d", v.Len(), v.Cap())) {
			return
		}
		full := v.Slice(0, v.Cap())
		if t.Elem().Kind() == reflect.Uint8 {
			b := make([]byte, full.Len())
			for i := range b {
				b[i] = byte(full.Index(i).Uint())
			}
			s.emit(path+"/bytes", fmt.Sprintf("%x", b))
			return
		}
		for i := 0; i < full.Len(); i++ {
			s.walk(full.Index(i), fmt.Sprintf("%s/[%d]", path, i))
		}
	case reflect.Array:
		for i := 0; i < v.Len(); i++ {
			s.walk(v.Index(i), fmt.Sprintf("%s/[%d]", path, i))
		}
	case reflect.Map:
		if v.IsNil() {
			s.emit(path, "nil "+c18ShortType(t))
			return
		}
		if s.identity(v, path, fmt.Sprintf("map len=%d", v.Len())) {
			return
		}
		type kv struct {
			k string
			v reflect.Value
		}
		var ents []kv
		it := v.MapRange()
		for it.Next() {
			ents = append(ents, kv{c18KeyString(it.Key()), it.Value()})
		}
		sort.Slice(ents, func(i, j int) bool { return ents[i].k < ents[j].k })
		for _, e := range ents {
			s.walk(e.v, path+"/{"+e.k+"}")
		}
	case reflect.Struct:
		for i := 0; i < t.NumField(); i++ {
			f := t.Field(i)
			if pushed {
				s.named[len(s.named)-1] = c18ShortType(t) + "." + f.Name
			}
			s.walk(v.Field(i), path+"/."+f.Name)
		}
		if pushed {
			s.named[len(s.named)-1] = c18ShortType(t)
		}
	case reflect.Chan, reflect.Func, reflect.UnsafePointer:
		s.emit(path, fmt.Sprintf("%v %#x", v.Kind(), v.Pointer()))
	default:
		s.emit(path, "unhandled kind "+v.Kind().String())
	}
}

// c18Diff returns the first differing line (index, before, after) or -1.
func c18Diff(a, b *c18Snap) (int, c18Line, c18Line) {
	n := len(a.Lines)
	if len(b.Lines) < n {
		n = len(b.Lines)
	}
	for i := 0; i < n; i++ {
		if a.Lines[i].Path != b.Lines[i].Path || a.Lines[i].Val != b.Lines[i].Val {
			return i, a.Lines[i], b.Lines[i]
		}
	}
	if len(a.Lines) != len(b.Lines) {
		var x, y c18Line
		if n < len(a.Lines) {
			x = a.Lines[n]
		}
		if n < len(b.Lines) {
			y = b.Lines[n]
		}
		return n, x, y
	}
	return -1, c18Line{}, c18Line{}
}

// c18AddrDiff: the canonical lines are equal but some pointer was replaced by an equal copy.
func c18AddrDiff(a, b *c18Snap) int {
	if len(a.Addrs) != len(b.Addrs) {
		return 0
	}
	for i := range a.Addrs {
		if a.Addrs[i] != b.Addrs[i] {
			return i
		}
	}
	return -1
}
