package checks

// Reference evaluation of CTE literals for C24 ("CTELiteral" of DESIGN.md 4.4).
//
// Written against the lexer grammar (codegen/cte/CTELexer.g4: token rules PINT_*/NINT_*, FLOAT_DEC,
// FLOAT_HEX, FLOAT_INF.., ARRAY_TYPE_* and the MODE_ARRAY_* element rules, MODE_STRING and its escape
// modes) and the CTE specification's meaning of each form. It does not look at cte/parser.go and does
// not use strconv / big.Float parsing for values: numbers are accumulated digit by digit into big.Int.
//
// c24Eval(text) answers, for one literal in value position:
//   outside  - the text is not a single literal of the grammar (syntax errors are then legitimate)
//   num      - exact value as the canonical string used by ev.Canon ("<coeff>e<exp10>", "-0", "inf")
//   nan      - quiet / signalling
//   str      - the bytes of the string (or "not a character" when a \[hex] escape names no Unicode scalar)
//   arr      - element type and, per element: exact bits | two neighbours (inexact float) | must-reject

import (
	"fmt"
	"math/big"
	"strings"
	"unicode"
	"unicode/utf8"
)

type c24Kind int

const (
	c24Outside c24Kind = iota
	c24Num
	c24NaN
	c24Str
	c24Arr
)

func (k c24Kind) String() string {
	return [...]string{"outside", "num", "nan", "str", "arr"}[k]
}

// c24Elem is the expectation for one array element.
type c24Elem struct {
	Text       string
	Bits       uint64 // the element's bits when Exact; the lower neighbour (by magnitude) otherwise
	Alt        uint64 // upper neighbour (by magnitude) when !Exact
	Exact      bool
	MustReject bool   // the value does not fit the element type
	NaN        string // "q" / "s": compared by kind only
}

type c24Expect struct {
	Kind    c24Kind
	Why     string // for outside: what is wrong
	Num     string
	NaN     string
	Str     []byte
	NotChar string // non-empty: a \[hex] escape that names no Unicode scalar value (property is silent)
	ArrType string // i8..u64, f16, f32, f64
	Mode    byte   // 0 generic, 'b', 'o', 'x'
	Width   int    // element bytes
	Elems   []c24Elem
}

func (e *c24Expect) mustReject() bool {
	for _, x := range e.Elems {
		if x.MustReject {
			return true
		}
	}
	return false
}

func (e *c24Expect) mayReject() bool {
	for _, x := range e.Elems {
		if !x.Exact && x.NaN == "" && !x.MustReject {
			return true
		}
	}
	return false
}

// definite: the literal must be accepted and has exactly one acceptable decoding.
func (e *c24Expect) definite() bool {
	switch e.Kind {
	case c24Num, c24NaN:
		return true
	case c24Str:
		return e.NotChar == ""
	case c24Arr:
		return !e.mustReject() && !e.mayReject()
	}
	return false
}

// ---------------------------------------------------------------------------
// canonical numbers (same normal form as ev.Canon, re-implemented here)

var c24Ten = big.NewInt(10)

func c24CanonDec(neg bool, coeff *big.Int, exp10 int64) string {
	if coeff.Sign() == 0 {
		if neg {
			return "-0"
		}
		return "0"
	}
	s := coeff.String()
	n := len(s)
	for n > 1 && s[n-1] == '0' {
		n--
		exp10++
	}
	out := s[:n] + "e" + fmt.Sprint(exp10)
	if neg {
		out = "-" + out
	}
	return out
}

func c24CanonBin(neg bool, mant *big.Int, exp2 int64) string {
	if mant.Sign() == 0 {
		return c24CanonDec(neg, mant, 0)
	}
	if exp2 >= 0 {
		return c24CanonDec(neg, new(big.Int).Lsh(mant, uint(exp2)), 0)
	}
	p := new(big.Int).Exp(big.NewInt(5), big.NewInt(-exp2), nil)
	return c24CanonDec(neg, p.Mul(p, mant), exp2)
}

// ---------------------------------------------------------------------------
// scanner

type c24scan struct {
	s string
	i int
}

func (p *c24scan) eof() bool { return p.i >= len(p.s) }
func (p *c24scan) peek() byte {
	if p.i < len(p.s) {
		return p.s[p.i]
	}
	return 0
}
func (p *c24scan) acceptAny(set string) bool {
	if p.i < len(p.s) && strings.IndexByte(set, p.s[p.i]) >= 0 {
		p.i++
		return true
	}
	return false
}

// acceptFold accepts word case-insensitively.
func (p *c24scan) acceptFold(word string) bool {
	if len(p.s)-p.i >= len(word) && strings.EqualFold(p.s[p.i:p.i+len(word)], word) {
		p.i += len(word)
		return true
	}
	return false
}

func c24DigitVal(ch byte) int {
	switch {
	case ch >= '0' && ch <= '9':
		return int(ch - '0')
	case ch >= 'a' && ch <= 'f':
		return int(ch-'a') + 10
	case ch >= 'A' && ch <= 'F':
		return int(ch-'A') + 10
	}
	return 99
}

// digits scans DIGITS_<base>: D ('_'* D)*. It returns the accumulated value and the digit count.
func (p *c24scan) digits(base int) (v *big.Int, n int, ok bool) {
	if p.eof() || c24DigitVal(p.peek()) >= base {
		return nil, 0, false
	}
	v = new(big.Int)
	b := big.NewInt(int64(base))
	for {
		d := c24DigitVal(p.peek())
		v.Mul(v, b)
		v.Add(v, big.NewInt(int64(d)))
		n++
		p.i++
		j := p.i
		for j < len(p.s) && p.s[j] == '_' {
			j++
		}
		if j < len(p.s) && c24DigitVal(p.s[j]) < base {
			p.i = j
			continue
		}
		return v, n, true
	}
}

// c24Val is an exact number: (-1)^Neg * Mant * Base^Exp, or a special.
type c24Val struct {
	Special string // "", "inf", "nan", "snan"
	Neg     bool
	Mant    *big.Int
	Base    int // 2 or 10
	Exp     int64
	IsInt   bool // spelled as an integer (no fraction, no exponent)
	Radix   int  // base of the spelling: 2, 8, 10, 16
}

func (v *c24Val) canon() string {
	if v.Special == "inf" {
		if v.Neg {
			return "-inf"
		}
		return "inf"
	}
	if v.Base == 2 {
		return c24CanonBin(v.Neg, v.Mant, v.Exp)
	}
	return c24CanonDec(v.Neg, v.Mant, v.Exp)
}

func (v *c24Val) rat() *big.Rat {
	r := new(big.Rat).SetInt(v.Mant)
	e := v.Exp
	b := big.NewInt(int64(v.Base))
	if e >= 0 {
		r.Mul(r, new(big.Rat).SetInt(new(big.Int).Exp(b, big.NewInt(e), nil)))
	} else {
		r.Quo(r, new(big.Rat).SetInt(new(big.Int).Exp(b, big.NewInt(-e), nil)))
	}
	return r
}

const c24MaxExpDigits = 7 // exponents beyond this are outside the generator's bounds anyway

// exponent scans [+-]? DIGITS_DEC after the exponent letter.
func (p *c24scan) exponent() (int64, bool) {
	neg := false
	if p.acceptAny("+-") {
		neg = p.s[p.i-1] == '-'
	}
	v, _, ok := p.digits(10)
	if !ok {
		return 0, false
	}
	if v.BitLen() > 40 {
		return 0, false
	}
	e := v.Int64()
	if neg {
		e = -e
	}
	return e, true
}

// numberFlags say which forms a context allows.
type c24NumCtx struct {
	neg       bool // NEG? allowed
	prefixed  bool // 0b / 0o / 0x integer prefixes allowed
	binOct    bool // (with prefixed) 0b and 0o allowed, not just 0x
	dec       bool // decimal digits allowed
	bare      int  // >0: un-prefixed digits of this base (explicit-base array modes)
	float     bool // fraction / exponent allowed
	mustFloat bool // fraction or exponent required (scalar FLOAT_*), used together with intOK
	specials  bool // inf / nan / snan
}

// c24Number evaluates text as exactly one numeric token of the context.
func c24Number(text string, ctx c24NumCtx) (*c24Val, string) {
	p := &c24scan{s: text}
	if ctx.specials {
		if p.acceptFold("nan") && p.eof() {
			return &c24Val{Special: "nan"}, ""
		}
		p.i = 0
		if p.acceptFold("snan") && p.eof() {
			return &c24Val{Special: "snan"}, ""
		}
		p.i = 0
		if p.acceptFold("inf") && p.eof() {
			return &c24Val{Special: "inf"}, ""
		}
		p.i = 0
		if p.acceptFold("-inf") && p.eof() {
			return &c24Val{Special: "inf", Neg: true}, ""
		}
		p.i = 0
	}
	v := &c24Val{Base: 10}
	if p.peek() == '-' {
		if !ctx.neg {
			return nil, "sign not allowed here"
		}
		v.Neg = true
		p.i++
	}
	start := p.i
	radix := 0
	if ctx.bare > 0 {
		radix = ctx.bare
	} else if ctx.prefixed && p.peek() == '0' && p.i+1 < len(p.s) && strings.IndexByte("bBoOxX", p.s[p.i+1]) >= 0 {
		switch p.s[p.i+1] {
		case 'b', 'B':
			radix = 2
		case 'o', 'O':
			radix = 8
		default:
			radix = 16
		}
		if radix != 16 && !ctx.binOct {
			return nil, "binary/octal prefix not allowed here"
		}
		p.i += 2
	} else if ctx.dec {
		radix = 10
	} else {
		return nil, "no digits form allowed"
	}
	_ = start
	v.Radix = radix
	ip, _, ok := p.digits(radix)
	if !ok {
		return nil, "expected digits"
	}
	v.Mant = ip
	v.IsInt = true
	if p.eof() {
		if radix != 10 {
			v.Base = 10 // an integer: exponent 0, base irrelevant
		}
		return v, ""
	}
	if !ctx.float || (radix != 10 && radix != 16) {
		return nil, "trailing characters"
	}
	v.IsInt = false
	fracDigits := 0
	if p.peek() == '.' {
		p.i++
		// fraction digits continue the same accumulation
		save := p.i
		fp, n, ok := p.digits(radix)
		if !ok {
			p.i = save
			return nil, "expected fraction digits"
		}
		scale := new(big.Int).Exp(big.NewInt(int64(radix)), big.NewInt(int64(n)), nil)
		v.Mant = new(big.Int).Add(new(big.Int).Mul(ip, scale), fp)
		fracDigits = n
	}
	var exp int64
	if radix == 10 && p.acceptAny("eE") || radix == 16 && p.acceptAny("pP") {
		e, ok := p.exponent()
		if !ok {
			return nil, "bad exponent"
		}
		exp = e
	}
	if !p.eof() {
		return nil, "trailing characters"
	}
	if radix == 10 {
		v.Base = 10
		v.Exp = exp - int64(fracDigits)
	} else {
		v.Base = 2
		v.Exp = exp - 4*int64(fracDigits)
	}
	return v, ""
}

// ---------------------------------------------------------------------------
// scalars

func c24EvalScalar(text string) c24Expect {
	v, why := c24Number(text, c24NumCtx{neg: true, prefixed: true, binOct: true, dec: true, float: true, specials: true})
	if v == nil {
		return c24Expect{Kind: c24Outside, Why: why}
	}
	switch v.Special {
	case "nan":
		return c24Expect{Kind: c24NaN, NaN: "q"}
	case "snan":
		return c24Expect{Kind: c24NaN, NaN: "s"}
	}
	return c24Expect{Kind: c24Num, Num: v.canon()}
}

// ---------------------------------------------------------------------------
// typed arrays

type c24FloatFmt struct {
	p          int // significand bits including the implicit one
	emin, emax int // exponent of the smallest normal / largest finite binade
	width      int // bytes
}

var c24FloatFmts = map[string]c24FloatFmt{
	"f16": {8, -126, 127, 2}, // bfloat16: the upper half of a float32
	"f32": {24, -126, 127, 4},
	"f64": {53, -1022, 1023, 8},
}

// bitsFor encodes magnitude m * 2^q (m < 2^p, q >= emin-(p-1)) in the format; m == 2^p carries.
func (f c24FloatFmt) bitsFor(neg bool, m *big.Int, q int) uint64 {
	mm := new(big.Int).Set(m)
	if mm.BitLen() > f.p {
		mm.Rsh(mm, 1)
		q++
	}
	var bits uint64
	bias := f.emax
	switch {
	case mm.BitLen() < f.p: // subnormal or zero
		bits = mm.Uint64()
	case q+f.p-1 > f.emax:
		bits = uint64(2*bias+1) << uint(f.p-1) // infinity
	default:
		frac := mm.Uint64() &^ (1 << uint(f.p-1))
		bits = uint64(q+f.p-1+bias)<<uint(f.p-1) | frac
	}
	if neg {
		bits |= 1 << uint(f.width*8-1)
	}
	return bits
}

func (f c24FloatFmt) quiet() uint64     { return uint64(2*f.emax+1)<<uint(f.p-1) | 1<<uint(f.p-2) }
func (f c24FloatFmt) signaling() uint64 { return uint64(2*f.emax+1)<<uint(f.p-1) | 1<<uint(f.p-3) }
func (f c24FloatFmt) isNaN(bits uint64) (nan bool, quiet bool) {
	expMask := uint64(2*f.emax+1) << uint(f.p-1)
	fracMask := uint64(1)<<uint(f.p-1) - 1
	if bits&expMask == expMask && bits&fracMask != 0 {
		return true, bits&(1<<uint(f.p-2)) != 0
	}
	return false, false
}

// elem gives the expectation for a float element with exact value v.
func (f c24FloatFmt) elem(v *c24Val) c24Elem {
	switch v.Special {
	case "nan":
		return c24Elem{NaN: "q"}
	case "snan":
		return c24Elem{NaN: "s"}
	case "inf":
		return c24Elem{Exact: true, Bits: f.bitsFor(v.Neg, new(big.Int).Lsh(big.NewInt(1), uint(f.p-1)), f.emax+1-(f.p-1))}
	}
	if v.Mant.Sign() == 0 {
		return c24Elem{Exact: true, Bits: f.bitsFor(v.Neg, new(big.Int), f.emin-(f.p-1))}
	}
	r := v.rat()
	limit := new(big.Rat).SetInt(new(big.Int).Lsh(big.NewInt(1), uint(f.emax+1)))
	if r.Cmp(limit) >= 0 {
		return c24Elem{MustReject: true}
	}
	// E = floor(log2 r)
	E := r.Num().BitLen() - r.Denom().BitLen()
	pow := func(e int) *big.Rat {
		if e >= 0 {
			return new(big.Rat).SetInt(new(big.Int).Lsh(big.NewInt(1), uint(e)))
		}
		return new(big.Rat).SetFrac(big.NewInt(1), new(big.Int).Lsh(big.NewInt(1), uint(-e)))
	}
	if r.Cmp(pow(E)) < 0 {
		E--
	}
	if E < f.emin {
		E = f.emin
	}
	q := E - (f.p - 1)
	scaled := new(big.Rat).Quo(r, pow(q))
	floor := new(big.Int).Quo(scaled.Num(), scaled.Denom())
	if scaled.IsInt() {
		return c24Elem{Exact: true, Bits: f.bitsFor(v.Neg, floor, q)}
	}
	if floor.Sign() == 0 && scaled.Cmp(big.NewRat(1, 2)) <= 0 {
		// a non-zero value at or below half of the smallest subnormal can only be stored as zero: it does not fit the element type
		return c24Elem{MustReject: true}
	}
	return c24Elem{Bits: f.bitsFor(v.Neg, floor, q), Alt: f.bitsFor(v.Neg, new(big.Int).Add(floor, big.NewInt(1)), q)}
}

func c24IntElem(v *c24Val, signed bool, bitsN int) c24Elem {
	x := new(big.Int).Set(v.Mant)
	if v.Neg {
		x.Neg(x)
	}
	var lo, hi *big.Int
	if signed {
		lo = new(big.Int).Neg(new(big.Int).Lsh(big.NewInt(1), uint(bitsN-1)))
		hi = new(big.Int).Sub(new(big.Int).Lsh(big.NewInt(1), uint(bitsN-1)), big.NewInt(1))
	} else {
		lo = new(big.Int)
		hi = new(big.Int).Sub(new(big.Int).Lsh(big.NewInt(1), uint(bitsN)), big.NewInt(1))
	}
	if x.Cmp(lo) < 0 || x.Cmp(hi) > 0 {
		return c24Elem{MustReject: true}
	}
	if x.Sign() < 0 {
		x.Add(x, new(big.Int).Lsh(big.NewInt(1), uint(bitsN)))
	}
	return c24Elem{Exact: true, Bits: x.Uint64()}
}

func c24IsWS(ch byte) bool { return ch == ' ' || ch == '\t' || ch == '\n' || ch == '\r' }

// c24EvalArray evaluates a typed numeric array literal "@<type><mode>[ ... ]".
func c24EvalArray(text string) c24Expect {
	out := func(why string) c24Expect { return c24Expect{Kind: c24Outside, Why: why} }
	p := &c24scan{s: text}
	if !p.acceptAny("@") {
		return out("no @")
	}
	var class byte
	switch {
	case p.acceptAny("iI"):
		class = 'i'
	case p.acceptAny("uU"):
		class = 'u'
	case p.acceptAny("fF"):
		class = 'f'
	default:
		return out("unknown array class")
	}
	bitsN := 0
	for _, w := range []string{"8", "16", "32", "64"} {
		if strings.HasPrefix(p.s[p.i:], w) {
			bitsN = map[string]int{"8": 8, "16": 16, "32": 32, "64": 64}[w]
			p.i += len(w)
			break
		}
	}
	if bitsN == 0 || class == 'f' && bitsN == 8 {
		return out("unknown element width")
	}
	var mode byte
	switch {
	case p.acceptAny("bB"):
		mode = 'b'
	case p.acceptAny("oO"):
		mode = 'o'
	case p.acceptAny("xX"):
		mode = 'x'
	}
	if class == 'f' && (mode == 'b' || mode == 'o') {
		return out("float arrays have no binary/octal form")
	}
	if !p.acceptAny("[") {
		return out("expected [")
	}
	if !strings.HasSuffix(p.s, "]") || len(p.s) <= p.i {
		return out("expected ]")
	}
	body := p.s[p.i : len(p.s)-1]
	exp := c24Expect{Kind: c24Arr, ArrType: fmt.Sprintf("%c%d", class, bitsN), Mode: mode, Width: bitsN / 8}
	var ctx c24NumCtx
	switch {
	case class == 'f' && mode == 0:
		ctx = c24NumCtx{neg: true, prefixed: true, dec: true, float: true, specials: true}
	case class == 'f':
		ctx = c24NumCtx{neg: true, bare: 16, float: true, specials: true}
	case mode == 0:
		ctx = c24NumCtx{neg: class == 'i', prefixed: true, binOct: true, dec: true}
	default:
		ctx = c24NumCtx{neg: class == 'i', bare: map[byte]int{'b': 2, 'o': 8, 'x': 16}[mode]}
	}
	i := 0
	for i < len(body) {
		if c24IsWS(body[i]) {
			i++
			continue
		}
		j := i
		for j < len(body) && !c24IsWS(body[j]) {
			j++
		}
		tok := body[i:j]
		i = j
		v, why := c24Number(tok, ctx)
		if v == nil {
			return out("element " + tok + ": " + why)
		}
		var e c24Elem
		if class == 'f' {
			e = c24FloatFmts[exp.ArrType].elem(v)
		} else {
			e = c24IntElem(v, class == 'i', bitsN)
		}
		e.Text = tok
		exp.Elems = append(exp.Elems, e)
	}
	return exp
}

// ---------------------------------------------------------------------------
// strings

func c24IsStringChar(r rune) bool {
	if r == '\t' || r == '\n' || r == '\r' {
		return true
	}
	return unicode.In(r, unicode.Cf, unicode.L, unicode.M, unicode.N, unicode.P, unicode.S, unicode.Z)
}

func c24IsSentinelChar(r rune) bool {
	return unicode.In(r, unicode.L, unicode.M, unicode.N, unicode.P, unicode.S)
}

// c24StrFeatures records which escape forms a string literal used (filled by c24EvalString).
type c24StrFeatures struct {
	Named              map[byte]int
	Codepoints         int
	Continuation       int
	Verbatim           int
	VerbatimEmpty      int
	VerbatimNonASCII   int // sentinel has a non-ASCII character
	VerbatimPrefix     int // non-empty contents that are a proper prefix of the sentinel
	EmptyAfterVerbatim int // an empty verbatim sequence after an earlier verbatim sequence
	Raw                int
}

// c24EvalString evaluates a quoted string literal (including both quotes).
func c24EvalString(text string) (c24Expect, c24StrFeatures) {
	ft := c24StrFeatures{Named: map[byte]int{}}
	out := func(why string) (c24Expect, c24StrFeatures) { return c24Expect{Kind: c24Outside, Why: why}, ft }
	if !utf8.ValidString(text) {
		return out("invalid UTF-8")
	}
	if len(text) < 2 || text[0] != '"' {
		return out("no opening quote")
	}
	var val []byte
	notChar := ""
	i := 1
	for {
		if i >= len(text) {
			return out("unterminated string")
		}
		r, n := utf8.DecodeRuneInString(text[i:])
		switch {
		case r == '"':
			if i+n != len(text) {
				return out("characters after closing quote")
			}
			return c24Expect{Kind: c24Str, Str: val, NotChar: notChar}, ft
		case r != '\\':
			if !c24IsStringChar(r) {
				return out(fmt.Sprintf("character U+%04X not allowed in a string", r))
			}
			val = append(val, text[i:i+n]...)
			ft.Raw++
			i += n
			continue
		}
		// escape
		i += n
		if i >= len(text) {
			return out("unterminated escape")
		}
		ch := text[i]
		switch ch {
		case 'r', 'R':
			val = append(val, '\r')
		case 'n', 'N':
			val = append(val, '\n')
		case 't', 'T':
			val = append(val, '\t')
		case '"', '*', '/', '\\':
			val = append(val, ch)
		case '_':
			val = utf8.AppendRune(val, 0xa0) // non-breaking space
		case '-':
			val = utf8.AppendRune(val, 0xad) // soft hyphen
		case '\r', '\n':
			// continuation: the line break and all following whitespace vanish
			i++
			for i < len(text) && c24IsWS(text[i]) {
				i++
			}
			ft.Continuation++
			continue
		case '[':
			j := i + 1
			cp := new(big.Int)
			nd := 0
			for j < len(text) && c24DigitVal(text[j]) < 16 {
				cp.Mul(cp, big.NewInt(16)).Add(cp, big.NewInt(int64(c24DigitVal(text[j]))))
				j++
				nd++
			}
			if nd == 0 || j >= len(text) || text[j] != ']' {
				return out("malformed \\[hex] escape")
			}
			if cp.BitLen() > 21 || cp.Int64() > 0x10ffff || (cp.Int64() >= 0xd800 && cp.Int64() <= 0xdfff) {
				notChar = text[i-1 : j+1]
			} else {
				val = utf8.AppendRune(val, rune(cp.Int64()))
			}
			ft.Codepoints++
			i = j + 1
			continue
		case '.':
			j := i + 1
			s0 := j
			for j < len(text) {
				r, n := utf8.DecodeRuneInString(text[j:])
				if !c24IsSentinelChar(r) {
					break
				}
				j += n
			}
			sentinel := text[s0:j]
			if sentinel == "" {
				return out("verbatim sequence without sentinel")
			}
			switch {
			case strings.HasPrefix(text[j:], "\r\n"):
				j += 2
			case j < len(text) && (text[j] == ' ' || text[j] == '\t' || text[j] == '\n'):
				j++
			default:
				return out("verbatim sentinel not followed by a separator")
			}
			k := strings.Index(text[j:], sentinel)
			if k < 0 {
				return out("unterminated verbatim sequence")
			}
			val = append(val, text[j:j+k]...)
			if k > 0 && strings.HasPrefix(sentinel, text[j:j+k]) {
				ft.VerbatimPrefix++
			}
			if k == 0 {
				ft.VerbatimEmpty++
				if ft.Verbatim > 0 {
					ft.EmptyAfterVerbatim++
				}
			}
			ft.Verbatim++
			for _, r := range sentinel {
				if r >= 0x80 {
					ft.VerbatimNonASCII++
					break
				}
			}
			i = j + k + len(sentinel)
			continue
		default:
			return out(fmt.Sprintf("unknown escape \\%c", ch))
		}
		ft.Named[ch]++
		i++
	}
}

// c24Eval dispatches on the first characters of a literal in value position.
func c24Eval(text string) c24Expect {
	switch {
	case text == "":
		return c24Expect{Kind: c24Outside, Why: "empty"}
	case text[0] == '"':
		e, _ := c24EvalString(text)
		return e
	case text[0] == '@':
		return c24EvalArray(text)
	}
	return c24EvalScalar(text)
}
