package checks

import (
	"math/rand"

	"github.com/kstenerud/go-concise-encoding/ce/events"

	"verifharness/ev"
)

// Workload for C11: contents, chunk plans, data-event splits and the event log that is driven into rules.

// c11Chunk is one declared chunk and the bytes delivered while it is the current chunk.
type c11Chunk struct {
	Decl uint64 // declared length in elements
	More bool
	Data []byte
}

type c11Plan struct {
	Kind      *c11Kind
	Ctx       int
	MediaType string
	PreData   []byte // delivered after the begin event, before any chunk (hostile variant)
	Chunks    []c11Chunk
}

const (
	c11CtxTop = iota
	c11CtxList
	c11CtxMapValue
	c11CtxMapKey
	c11CtxMarked
	c11CtxNode
	c11NumCtx
)

var c11CtxNames = []string{"top", "list", "mapvalue", "mapkey", "marked", "node"}

// c11CtxAllowed: contexts in which an array of this kind is structurally allowed (so that any
// rejection concerns the array itself).
func c11CtxAllowed(k *c11Kind, ctx int) bool {
	switch ctx {
	case c11CtxMapKey:
		return k.AT == events.ArrayTypeString || k.AT == events.ArrayTypeResourceID
	case c11CtxMarked:
		return k.AT != events.ArrayTypeReferenceRemote
	}
	return true
}

func c11PickCtx(k *c11Kind, want int) int {
	for i := 0; i < c11NumCtx; i++ {
		ctx := (want + i) % c11NumCtx
		if c11CtxAllowed(k, ctx) {
			return ctx
		}
	}
	return c11CtxTop
}

// Directed string-like contents (hex-free Go literals; every UTF-8 length class, the first and last
// code point of each class, and every kind of ill-formed sequence).
var c11ValidTexts = []string{
	"", "a", "ab", "\x00", "\u00e9", "a\u00e9", "\u00e9a", "\u20ac", "a\u20acb", "\U0001F600", "a\U0001F600", "\u00e9\u20ac",
	"\u65e5\u672c", "\U0010FFFF", "\ud7ff", "\ue000", "\u0080", "\u07ff", "\u0800", "\uffff", "\U00010000", "\u00e9\u00e9\u00e9\u00e9",
	"a\u20acb\u20ac", "\U0001F600\U0001F600", "\u20ac\U0001F600a", "abcdefgh", "\ufeffa",
	"a\u00e9\u20ac\U0001F600", "\u65e5\u672c\u8a9e\u306e\u6587", "The quick brown \U0001F98A jumps",
}

var c11InvalidTexts = []string{
	"\x80", "\xbf", "\xc3", "\xe2\x82", "\xf0\x9f\x98", "\xf0\x9f", "\xf0", "\xc0\x80", "\xc1\xbf", "\xe0\x80\x80", "\xe0\x9f\xbf",
	"\xed\xa0\x80", "\xed\xbf\xbf", "\xf0\x80\x80\x80", "\xf0\x8f\xbf\xbf", "\xf4\x90\x80\x80", "\xf5\x80\x80\x80", "\xf8\x88\x80\x80\x80",
	"\xff", "\xfe", "\xc3\x41", "\xe2\x41\x41", "\xe2\x82\x41", "a\x80", "\xc3\xa9\x80", "a\xc3", "\xe2\x82\xac\xe2\x82", "\xc3\xc3\xa9",
	"\xf0\x9f\x98\x80\x80", "ab\xe2\x82", "\xe2\x82\xac\xff", "\xf0\x9f\x98\x41", "\xe0\xa0", "\xf4\x8f\xbf", "a\xf0\x9f\x98\x80\xe2",
	"abcdefg\xc3", "\xc3\xa9\xc3\xa9\xc3\xa9\xc3", "The quick brown \xf0\x9f\xa6 jumps",
}

var c11MediaTypes = []string{"a/b", "text/plain", "application/x-\u00e9", "\u65e5/\u672c"}
var c11BadMediaTypes = []string{"a/\xff", "\xc3", "text/\xe2\x82", "\xed\xa0\x80/x"}

func c11RandText(r *rand.Rand, maxBytes int) []byte {
	var b []byte
	n := r.Intn(maxBytes + 1)
	for len(b) < n {
		switch r.Intn(6) {
		case 0:
			b = append(b, string(rune(0x80+r.Intn(0x780)))...)
		case 1:
			c := rune(0x800 + r.Intn(0xf800))
			if c >= 0xd800 && c < 0xe000 {
				c = 0x20ac
			}
			b = append(b, string(c)...)
		case 2:
			b = append(b, string(rune(0x10000+r.Intn(0x100000)))...)
		default:
			b = append(b, byte(0x20+r.Intn(0x5f)))
		}
	}
	if len(b) > maxBytes {
		// cut to size: may leave a truncated character (an invalid content)
		b = b[:maxBytes]
	}
	if r.Intn(3) == 0 && len(b) > 0 {
		p := r.Intn(len(b))
		switch r.Intn(4) {
		case 0:
			b[p] ^= 1 << uint(r.Intn(8))
		case 1:
			b = append(b[:p], b[p+1:]...)
		case 2:
			b = append(b[:p], append([]byte{byte(0x80 + r.Intn(0x80))}, b[p:]...)...)
		default:
			b[p] = []byte{0x80, 0xbf, 0xc0, 0xc1, 0xe0, 0xed, 0xf0, 0xf4, 0xf5, 0xff}[r.Intn(10)]
		}
	}
	return b
}

// c11ElemUnit is the number of bytes between two positions at which a chunk may be cut.
func c11ElemUnit(k *c11Kind) int {
	if k.ElemBits <= 8 {
		return 1
	}
	return k.ElemBits / 8
}

// c11Chunking cuts content at the unit boundaries selected by mask (bit i = cut after unit i+1).
// lastBitsShort is subtracted from the element count of the last non-empty chunk of a bit array.
func c11Chunking(k *c11Kind, content []byte, mask uint64, lastBitsShort int) []c11Chunk {
	unit := c11ElemUnit(k)
	units := len(content) / unit // a trailing partial element stays in the last chunk
	var out []c11Chunk
	start := 0
	for u := 1; u <= units; u++ {
		if u == units || (u-1 < 64 && mask&(1<<uint(u-1)) != 0) {
			end := u * unit
			if u == units {
				end = len(content)
			}
			out = append(out, c11Chunk{Decl: c11DeclFor(k, end-start), More: true, Data: content[start:end]})
			start = end
		}
	}
	if len(out) == 0 {
		out = []c11Chunk{{Decl: 0, More: false, Data: content}}
	}
	out[len(out)-1].More = false
	if k.ElemBits == 1 && lastBitsShort > 0 {
		last := &out[len(out)-1]
		if last.Decl >= 8 {
			last.Decl -= uint64(lastBitsShort)
		}
	}
	return out
}

// c11DeclFor gives the element count that exactly covers n bytes (whole elements only).
func c11DeclFor(k *c11Kind, n int) uint64 {
	if k.ElemBits == 1 {
		return uint64(n) * 8
	}
	return uint64(n / (k.ElemBits / 8))
}

// c11HugeDecls: declared lengths whose byte count does not fit 64 bits (or only just) for this element width.
func c11HugeDecls(k *c11Kind, r *rand.Rand) uint64 {
	eb := uint64(k.ElemBits)
	if eb < 8 {
		eb = 8
	}
	// count*ElemBits wraps to a small number of bits
	wrapBits := (uint64(1) << 63) / eb * 2 // 2^64 / ElemBits
	switch r.Intn(4) {
	case 0:
		return wrapBits + 1
	case 1:
		return wrapBits + uint64(1+r.Intn(3))
	case 2:
		return wrapBits*uint64(1+r.Intn(3)) + 1
	default:
		return ^uint64(0) >> uint(r.Intn(3))
	}
}

const (
	c11VarPlain = iota
	c11VarEmptyFinal
	c11VarNotFinal
	c11VarZeroChunk
	c11VarShort
	c11VarLong
	c11VarAfterFinal
	c11VarNoChunk
	c11VarEmptyData
	c11VarHuge
	c11NumVariants
)

var c11VarNames = []string{"plain", "empty-final-chunk", "last-not-final", "zero-length-chunk", "short-data", "long-data",
	"chunk-after-final", "no-chunk", "empty-data-events", "huge-declared-length"}

func c11CloneChunks(in []c11Chunk) []c11Chunk {
	out := make([]c11Chunk, len(in))
	copy(out, in)
	return out
}

// c11ApplyVariant rewrites an exact chunking into the shape named by variant.
func c11ApplyVariant(p *c11Plan, chunks []c11Chunk, variant int, r *rand.Rand) {
	k := p.Kind
	chunks = c11CloneChunks(chunks)
	unit := c11ElemUnit(k)
	switch variant {
	case c11VarEmptyFinal:
		chunks[len(chunks)-1].More = true
		chunks = append(chunks, c11Chunk{Decl: 0, More: false})
	case c11VarNotFinal:
		chunks[len(chunks)-1].More = true
	case c11VarZeroChunk:
		n := 1 + r.Intn(2)
		for i := 0; i < n; i++ {
			pos := r.Intn(len(chunks))
			chunks = append(chunks[:pos], append([]c11Chunk{{Decl: 0, More: true}}, chunks[pos:]...)...)
		}
	case c11VarShort:
		j := r.Intn(len(chunks))
		if r.Intn(2) == 0 || len(chunks[j].Data) == 0 {
			add := uint64(1 + r.Intn(2))
			if k.ElemBits == 1 {
				add *= 8
			}
			chunks[j].Decl += add
		} else {
			cut := 1 + r.Intn(len(chunks[j].Data))
			if unit > 1 && r.Intn(2) == 0 {
				cut = 1 + r.Intn(unit) // less than or exactly one element
				if cut > len(chunks[j].Data) {
					cut = len(chunks[j].Data)
				}
			}
			chunks[j].Data = chunks[j].Data[:len(chunks[j].Data)-cut]
		}
	case c11VarLong:
		j := r.Intn(len(chunks))
		sub := uint64(1 + r.Intn(2))
		if k.ElemBits == 1 {
			sub *= 8
		}
		if r.Intn(2) == 0 && chunks[j].Decl >= sub {
			chunks[j].Decl -= sub
		} else {
			extra := 1 + r.Intn(2*unit)
			d := append([]byte(nil), chunks[j].Data...)
			for i := 0; i < extra; i++ {
				d = append(d, byte('x'))
			}
			chunks[j].Data = d
		}
	case c11VarAfterFinal:
		if r.Intn(2) == 0 {
			chunks = append(chunks, c11Chunk{Decl: 0, More: r.Intn(2) == 0})
		} else {
			chunks = append(chunks, c11Chunk{Decl: c11DeclFor(k, unit), More: false, Data: make([]byte, unit)})
		}
	case c11VarNoChunk:
		chunks = nil
		if r.Intn(2) == 0 {
			p.PreData = []byte("xy")[:1+r.Intn(2)]
		}
	case c11VarHuge:
		j := r.Intn(len(chunks))
		chunks[j].Decl = c11HugeDecls(k, r)
	}
	p.Chunks = chunks
}

// c11InteriorBits is the number of interior cut positions over all chunks' data.
func c11InteriorBits(chunks []c11Chunk) int {
	n := 0
	for _, ch := range chunks {
		if len(ch.Data) > 1 {
			n += len(ch.Data) - 1
		}
	}
	return n
}

// c11Build renders plan p with the data-event split selected by mask (one bit per interior position,
// chunk by chunk) into the log that is driven into the validator. empties > 0 inserts that many
// zero-length data events inside open chunks at positions drawn from r.
func c11Build(buf []ev.Event, p *c11Plan, mask uint64, empties int, r *rand.Rand) (log []ev.Event, first, follow int, midChar bool) {
	log = append(buf, ev.Event{K: ev.BD}, ev.Event{K: ev.VER, U: 0})
	switch p.Ctx {
	case c11CtxList:
		log = append(log, ev.Event{K: ev.LIST})
	case c11CtxMapValue:
		log = append(log, ev.Event{K: ev.MAP}, ev.Event{K: ev.INT, I: 1})
	case c11CtxMapKey:
		log = append(log, ev.Event{K: ev.MAP})
	case c11CtxMarked:
		log = append(log, ev.Event{K: ev.LIST}, ev.Event{K: ev.MARK, B: []byte("m")})
	case c11CtxNode:
		log = append(log, ev.Event{K: ev.NODE})
	}
	first = len(log)
	switch p.Kind.API {
	case c11APIArray:
		log = append(log, ev.Event{K: ev.ABEGIN, AT: p.Kind.AT})
	case c11APICustom:
		log = append(log, ev.Event{K: ev.CBEGIN, AT: p.Kind.AT, U: 7})
	case c11APIMedia:
		log = append(log, ev.Event{K: ev.MBEGIN, S: p.MediaType})
	}
	if len(p.PreData) > 0 {
		log = append(log, ev.Event{K: ev.DATA, B: p.PreData})
	}
	bit := uint(0)
	for _, ch := range p.Chunks {
		log = append(log, ev.Event{K: ev.CHUNK, U: ch.Decl, Flag: ch.More})
		if len(ch.Data) == 0 {
			continue
		}
		start := 0
		for pos := 1; pos <= len(ch.Data); pos++ {
			cut := pos == len(ch.Data)
			if !cut {
				if bit < 64 && mask&(1<<bit) != 0 {
					cut = true
				} else if bit >= 64 && r != nil && r.Intn(3) == 0 {
					cut = true
				}
				bit++
			}
			if cut {
				if empties > 0 && r.Intn(3) == 0 && ch.Decl > 0 {
					log = append(log, ev.Event{K: ev.DATA, B: []byte{}})
					empties--
				}
				if p.Kind.Stringlike && pos < len(ch.Data) && ch.Data[pos]&0xc0 == 0x80 {
					midChar = true
				}
				log = append(log, ev.Event{K: ev.DATA, B: ch.Data[start:pos]})
				start = pos
			}
		}
	}
	follow = len(log)
	switch p.Ctx {
	case c11CtxTop:
	case c11CtxMapKey:
		log = append(log, ev.Event{K: ev.TRUE}, ev.Event{K: ev.END})
	default:
		log = append(log, ev.Event{K: ev.END})
	}
	log = append(log, ev.Event{K: ev.ED})
	return
}

// c11WholeForms renders the whole-array event forms able to carry (kind, content).
func c11WholeForms(p *c11Plan, content []byte, r *rand.Rand) (logs [][]ev.Event, firsts []int) {
	k := p.Kind
	var forms []ev.Event
	switch k.API {
	case c11APIArray:
		n := uint64(len(content))
		exact := n
		if !k.Stringlike {
			if k.ElemBits == 1 {
				exact = n * 8
				if n > 0 {
					exact -= uint64(r.Intn(8))
				}
			} else {
				exact = n / uint64(k.ElemBits/8)
			}
		}
		forms = append(forms, ev.Event{K: ev.ARR, AT: k.AT, U: exact, B: content})
		off := uint64(1 + r.Intn(2))
		if k.ElemBits == 1 {
			off *= 8
		}
		forms = append(forms, ev.Event{K: ev.ARR, AT: k.AT, U: exact + off, B: content})
		if exact >= off {
			forms = append(forms, ev.Event{K: ev.ARR, AT: k.AT, U: exact - off, B: content})
		}
		if !k.Stringlike {
			forms = append(forms, ev.Event{K: ev.ARR, AT: k.AT, U: c11HugeDecls(k, r), B: content})
		}
		if k.Stringlike {
			forms = append(forms, ev.Event{K: ev.STRARR, AT: k.AT, S: string(content)})
		}
	case c11APICustom:
		if k.Stringlike {
			forms = append(forms, ev.Event{K: ev.CUSTT, U: 7, S: string(content)})
		} else {
			forms = append(forms, ev.Event{K: ev.CUSTB, U: 7, B: content})
		}
	case c11APIMedia:
		forms = append(forms, ev.Event{K: ev.MEDIA, S: p.MediaType, B: content})
	}
	for _, f := range forms {
		q := *p
		q.Chunks = nil
		q.PreData = nil
		log, first, _, _ := c11Build(nil, &q, 0, 0, r)
		// replace the begin event by the whole-array event
		log[first] = f
		logs = append(logs, log)
		firsts = append(firsts, first)
	}
	return
}
