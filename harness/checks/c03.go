package checks

import (
	"bytes"
	"fmt"
	"runtime/debug"
	"strings"

	"github.com/cockroachdb/apd/v2"
	compact_time "github.com/kstenerud/go-compact-time"
	"github.com/kstenerud/go-concise-encoding/ce"
	"github.com/kstenerud/go-concise-encoding/configuration"
	"github.com/kstenerud/go-concise-encoding/rules"

	"verifharness/ev"
	"verifharness/fw"
	"verifharness/gen"
)

// convert pipes decoder -> rules -> encoder.
func convert(dec ce.Decoder, doc []byte, enc ce.Encoder, cfg *configuration.Configuration) (out []byte, err error, panicked interface{}, stack string) {
	var buf bytes.Buffer
	enc.PrepareToEncode(&buf)
	func() {
		defer func() {
			if r := recover(); r != nil {
				panicked = r
				stack = string(debug.Stack())
			}
		}()
		err = dec.DecodeDocument(doc, rules.NewRules(enc, cfg))
	}()
	return buf.Bytes(), err, panicked, stack
}

// MutateBytes applies 1-3 random byte-level mutations.
func mutateBytes(c *fw.Ctx, doc []byte) []byte {
	r := c.Rng
	d := append([]byte(nil), doc...)
	n := 1 + r.Intn(3)
	for i := 0; i < n && len(d) > 2; i++ {
		pos := 2 + r.Intn(len(d)-2)
		switch r.Intn(6) {
		case 0:
			d[pos] ^= 1 << uint(r.Intn(8))
		case 1:
			d[pos] = byte(r.Intn(256))
		case 2:
			d = append(d[:pos], d[pos+1:]...)
		case 3:
			d = append(d[:pos], append([]byte{byte(r.Intn(256))}, d[pos:]...)...)
		case 4:
			d[pos] = []byte{0x00, 0x7f, 0x80, 0xff, 0x65, 0x66, 0x9a, 0x9b, 0x99, 0x96, 0x97}[r.Intn(11)]
		default:
			q := 2 + r.Intn(len(d)-2)
			d[pos], d[q] = d[q], d[pos]
		}
	}
	return d
}

func init() {
	fw.Register(&fw.Check{
		ID:    "C03",
		Level: "exploration",
		Rule: "three families: (a) CBE documents produced from generated rules-valid streams; (b) byte-mutants of those that cbe.Decoder+rules still accept; " +
			"(c) CTE documents from generated streams without custom text. Each accepted document is converted decoder->rules->other encoder and back; oracle = every stage accepts and the " +
			"canonical data views of the three recorded event logs are equal (modulo padding / comments; NaN elements of float arrays by kind). Non-trivial = >=1 container and >=3 values; distinct = distinct source documents.",
		Assumptions: []string{"the harness's canonical view defines 'same data'", "mutants are single-document byte edits (1-3 edits)", "custom type codes <= 2^32-1"},
		Cases:       func(tier string) int { return tierN(tier, 4000, 120000) },
		Run:         runC03,
		Floors: func(string) map[string]int64 {
			return map[string]int64{"cbe_docs_converted": 500, "cte_docs_converted": 300, "mutants_accepted": 50}
		},
	})
}

func runC03(c *fw.Ctx, idx int) {
	cfg := configuration.New()
	if idx < 5 {
		// directed probes (also the probes of the known findings)
		switch idx {
		case 0:
			text := []byte("c0\n0x1.23456789abcdef0123p+10")
			if b0 := decodeDoc(ce.NewCTEDecoder(cfg), text, cfg, true); b0.Err == nil && b0.Panic == nil {
				c.Eval()
				c03FromCTE(c, cfg, text, b0.Log)
			}
		case 1, 2, 3, 4:
			e := ev.Event{K: ev.TIME, T: compact_time.NewTime(1, 2, 3, 0, compact_time.TZAtAreaLocation("Mars/Olympus Mons"))}
			if idx == 4 {
				// a zone text that the CTE decoder does not reject but reads as something else
				e = ev.Event{K: ev.TIME, T: compact_time.NewTime(0, 6, 49, 253696000, compact_time.TZAtAreaLocation("/Port-au-Prince"))}
			}
			if idx == 2 {
				e = ev.Event{K: ev.MEDIA, S: "text/plain; charset=utf-8", B: []byte{1, 2}}
			}
			if idx == 3 {
				d := new(apd.Decimal)
				d.Coeff.SetString("189629961522271624219434862811", 10)
				d.Exponent = 53207914
				e = ev.Event{K: ev.BDFLOAT, BD: d}
			}
			stream := []ev.Event{{K: ev.BD}, {K: ev.VER}, e, {K: ev.ED}}
			if idx == 4 {
				// inside a list the text "//Port-au-Prince" up to the line end is read as a comment, and the time as UTC
				stream = []ev.Event{{K: ev.BD}, {K: ev.VER}, {K: ev.LIST}, e, {K: ev.END}, {K: ev.ED}}
			}
			doc, fi, _ := encodeWithRules(ce.NewCBEEncoder(cfg), stream, cfg)
			if b0 := decodeDoc(ce.NewCBEDecoder(cfg), doc, cfg, true); fi < 0 && b0.Err == nil && b0.Panic == nil {
				c.Eval()
				c03FromCBE(c, cfg, doc, b0.Log)
			}
		}
		return
	}
	if idx < 5+len(c01dir) {
		// the boundary and length-sweep streams of C01 (every variable-length scalar at every length 1..130), converted in both directions
		in := c01dir[idx-5]
		if _, rej, _ := throughRules(in, cfg); rej >= 0 {
			return
		}
		c.Inc("directed_length_sweeps")
		if doc, fi, _ := encodeWithRules(ce.NewCBEEncoder(cfg), in, cfg); fi < 0 {
			if b0 := decodeDoc(ce.NewCBEDecoder(cfg), doc, cfg, true); b0.Err == nil && b0.Panic == nil {
				c.Eval()
				c03FromCBE(c, cfg, doc, b0.Log)
			}
		}
		if text, fi, _ := encodeWithRules(ce.NewCTEEncoder(cfg), in, cfg); fi < 0 {
			if b0 := decodeDoc(ce.NewCTEDecoder(cfg), text, cfg, true); b0.Err == nil && b0.Panic == nil {
				c.Eval()
				c03FromCTE(c, cfg, text, b0.Log)
			}
		}
		return
	}
	family := idx % 3
	switch family {
	case 0, 1:
		in := gen.Stream(c.Rng, cbeStreamOpts(c))
		if _, rej, _ := throughRules(in, cfg); rej >= 0 {
			c.Inc("generated_stream_rejected_by_rules")
			return
		}
		doc, fi, _ := encodeWithRules(ce.NewCBEEncoder(cfg), in, cfg)
		if fi >= 0 {
			c.Inc("encode_failed_skipped")
			return
		}
		if family == 1 {
			doc = mutateBytes(c, doc)
			c.Inc("mutants_tried")
		}
		c.Note("cbe %s", hexs(doc))
		b0 := decodeDoc(ce.NewCBEDecoder(cfg), doc, cfg, true)
		if b0.Panic != nil || b0.Err != nil {
			if family == 1 {
				c.Inc("mutants_rejected")
			} else {
				c.Inc("source_doc_rejected_skipped")
			}
			return
		}
		if family == 1 {
			c.Inc("mutants_accepted")
		}
		c.Eval()
		c03FromCBE(c, cfg, doc, b0.Log)
	default:
		o := cteStreamOpts(c)
		o.CustomText = false
		in := gen.Stream(c.Rng, o)
		if _, rej, _ := throughRules(in, cfg); rej >= 0 {
			c.Inc("generated_stream_rejected_by_rules")
			return
		}
		doc, fi, _ := encodeWithRules(ce.NewCTEEncoder(cfg), in, cfg)
		if fi >= 0 {
			c.Inc("encode_failed_skipped")
			return
		}
		if idx%12 == 2 {
			// numbers spelled by hand, in ways the library's own encoder never writes them (many digits, zeros of every length and sign,
			// leading zeros, long fractions, explicit exponents, hexadecimal floats)
			doc = c03SpelledNumbers(c)
			c.Inc("hand_spelled_number_documents")
		}
		c.Note("cte %q", string(doc))
		b0 := decodeDoc(ce.NewCTEDecoder(cfg), doc, cfg, true)
		if b0.Panic != nil || b0.Err != nil {
			c.Inc("source_doc_rejected_skipped")
			return
		}
		c.Eval()
		c03FromCTE(c, cfg, doc, b0.Log)
	}
}

func stageFail(c *fw.Ctx, stage string, src string, err error, p interface{}, stack string, extra map[string]interface{}) {
	d := map[string]interface{}{"source": src, "stage": stage, "err": errStr(err), "panic": ev.PanicString(p), "stack": stack}
	for k, v := range extra {
		d[k] = v
	}
	sig := "stage-reject:" + stage
	if p != nil {
		sig = "stage-escaped-panic:" + stage
	}
	c.Fail(sig, d)
}

func c03FromCBE(c *fw.Ctx, cfg *configuration.Configuration, doc []byte, b0 []ev.Event) {
	src := "cbe:" + hexs(doc)
	text, err, p, st := convert(ce.NewCBEDecoder(cfg), doc, ce.NewCTEEncoder(cfg), cfg)
	if err != nil || p != nil {
		stageFail(c, "cbe->cte", src, err, p, st, map[string]interface{}{"events": ev.LogStrings(b0)})
		return
	}
	b1 := decodeDoc(ce.NewCTEDecoder(cfg), text, cfg, true)
	if b1.Err != nil || b1.Panic != nil {
		stage := "decode-cte"
		if r := notCTEExpressible(b0); r != "" && b1.Panic == nil {
			stage += "@" + r
		}
		stageFail(c, stage, src, b1.Err, b1.Panic, b1.Stack, map[string]interface{}{"cte": string(text), "events": ev.LogStrings(b0)})
		return
	}
	doc2, err, p, st := convert(ce.NewCTEDecoder(cfg), text, ce.NewCBEEncoder(cfg), cfg)
	if err != nil || p != nil {
		stageFail(c, "cte->cbe", src, err, p, st, map[string]interface{}{"cte": string(text)})
		return
	}
	b2 := decodeDoc(ce.NewCBEDecoder(cfg), doc2, cfg, true)
	if b2.Err != nil || b2.Panic != nil {
		stageFail(c, "decode-cbe2", src, b2.Err, b2.Panic, b2.Stack, map[string]interface{}{"cte": string(text), "cbe2": hexs(doc2)})
		return
	}
	o := ev.Opts{DropPadding: true, DropComments: true, FloatArrayNaNKindOnly: true}
	c0, e0 := ev.Canon(b0, o)
	c1, e1 := ev.Canon(b1.Log, o)
	c2, e2 := ev.Canon(b2.Log, o)
	if e0 != nil || e1 != nil || e2 != nil {
		c.Fail("decoded-log-malformed", map[string]interface{}{"source": src, "errs": fmt.Sprint(e0, e1, e2)})
		return
	}
	c.Inc("cbe_docs_converted")
	c.Count("events_compared", int64(len(b0)))
	featureCounts(c, "cbe.", b0)
	if nontrivialStream(b0) {
		c.Distinct(src)
	}
	if path, desc := ev.Diff(c0, c1); path != "" {
		sig := "cbe->cte:" + mismatchSig(c0, c1, path, desc)
		x, y := ev.FindFirstDiffNodes(c0, c1)
		if s := numMismatchSig(b0, x, y); s != "" {
			sig = "cbe->cte:" + s
		}
		if x != nil && x.Tag == "time" && x.Src >= 0 && x.Src < len(b0) {
			// located: the differing time itself has a zone text outside the CTE grammar
			if r := notCTEExpressible(b0[x.Src : x.Src+1]); r != "" {
				sig += "@" + r
			}
		}
		c.Fail(sig, map[string]interface{}{"source": src, "events": ev.LogStrings(b0), "cte": string(text), "path": path, "diff": desc})
		return
	}
	if path, desc := ev.Diff(c1, c2); path != "" {
		c.Fail("cte->cbe:"+mismatchSig(c1, c2, path, desc), map[string]interface{}{"source": src, "cte": string(text), "cbe2": hexs(doc2), "path": path, "diff": desc})
		return
	}
	if c.WantSample() && nontrivialStream(b0) {
		c.Sample(map[string]interface{}{"cbe": hexs(doc), "cte": string(text), "cbe_again": hexs(doc2)})
	}
}

func c03FromCTE(c *fw.Ctx, cfg *configuration.Configuration, text []byte, b0 []ev.Event) {
	src := "cte:" + string(text)
	doc, err, p, st := convert(ce.NewCTEDecoder(cfg), text, ce.NewCBEEncoder(cfg), cfg)
	if err != nil || p != nil {
		stageFail(c, "cte->cbe", src, err, p, st, nil)
		return
	}
	b1 := decodeDoc(ce.NewCBEDecoder(cfg), doc, cfg, true)
	if b1.Err != nil || b1.Panic != nil {
		stageFail(c, "decode-cbe", src, b1.Err, b1.Panic, b1.Stack, map[string]interface{}{"cbe": hexs(doc)})
		return
	}
	o := ev.Opts{DropPadding: true, DropComments: true, FloatArrayNaNKindOnly: true}
	c0, e0 := ev.Canon(b0, o)
	c1, e1 := ev.Canon(b1.Log, o)
	if e0 != nil || e1 != nil {
		c.Fail("decoded-log-malformed", map[string]interface{}{"source": src, "errs": fmt.Sprint(e0, e1)})
		return
	}
	c.Inc("cte_docs_converted")
	c.Count("events_compared", int64(len(b0)))
	if nontrivialStream(b0) {
		c.Distinct(src)
	}
	if path, desc := ev.Diff(c0, c1); path != "" {
		sig := "cte->cbe:" + mismatchSig(c0, c1, path, desc)
		x, y := ev.FindFirstDiffNodes(c0, c1)
		if s := numMismatchSig(b0, x, y); s != "" {
			sig = "cte->cbe:" + s
		}
		c.Fail(sig, map[string]interface{}{"source": src, "cbe": hexs(doc), "path": path, "diff": desc})
	}
}

// c03SpelledNumbers: a CTE list of 1..6 numeric literals spelled in ways the encoder never produces.
func c03SpelledNumbers(c *fw.Ctx) []byte {
	r := c.Rng
	digits := func(n int, zeros bool) string {
		b := make([]byte, n)
		for i := range b {
			b[i] = '0'
			if !zeros {
				b[i] = byte('0' + r.Intn(10))
			}
		}
		return string(b)
	}
	var sb strings.Builder
	sb.WriteString("c0\n[")
	for i, n := 0, 1+r.Intn(6); i < n; i++ {
		sb.WriteByte('\n')
		if r.Intn(2) == 0 {
			sb.WriteByte('-')
		}
		zeros := r.Intn(3) == 0
		switch r.Intn(5) {
		case 0: // integer
			sb.WriteString(digits(1+r.Intn(30), zeros))
		case 1, 2: // decimal with fraction
			sb.WriteString(digits(1+r.Intn(25), zeros || r.Intn(3) == 0))
			sb.WriteByte('.')
			sb.WriteString(digits(1+r.Intn(25), zeros))
		case 3: // decimal with exponent
			sb.WriteString(digits(1+r.Intn(30), zeros))
			if r.Intn(2) == 0 {
				sb.WriteByte('.')
				sb.WriteString(digits(1+r.Intn(10), zeros))
			}
			fmt.Fprintf(&sb, "e%d", r.Intn(600)-300)
		default: // hexadecimal float
			fmt.Fprintf(&sb, "0x%x.%xp%d", r.Intn(16), r.Uint64()>>uint(r.Intn(60)), r.Intn(200)-100)
		}
	}
	sb.WriteString("\n]")
	return []byte(sb.String())
}
