package checks

import (
	"math/rand"
	"unicode"
	"unicode/utf8"
)

// Identifier oracle for C13: "identifiers are non-empty, within the configured length and made of
// valid characters". Valid characters are the documented identifier set: Unicode categories Cf, L, M,
// N and the symbols '_' '.' '-'. Invalid UTF-8 is not made of characters at all.

func c13RuneValid(r rune) bool {
	if r == '_' || r == '.' || r == '-' {
		return true
	}
	return unicode.Is(unicode.Cf, r) || unicode.IsLetter(r) || unicode.IsMark(r) || unicode.IsNumber(r)
}

// c13ClassifyID returns the identifier defect class for the given configured maximum length.
func c13ClassifyID(id []byte, maxLen uint64) uint8 {
	if len(id) == 0 {
		return c10IDEmpty
	}
	runes := 0
	for b := id; len(b) > 0; {
		r, size := utf8.DecodeRune(b)
		if r == utf8.RuneError && size <= 1 {
			return c10IDBadChar
		}
		if !c13RuneValid(r) {
			return c10IDBadChar
		}
		b = b[size:]
		runes++
	}
	if uint64(runes) > maxLen {
		return c10IDTooLong
	}
	if uint64(len(id)) > maxLen {
		return c10IDLenVague // more bytes than the maximum, not more characters: the text does not say which counts
	}
	return c10IDOK
}

var c13ValidRunes = []rune("abcxyzABCXYZ0123456789_.-\u00e9\u03a9\u0436\u4e2d\uff71\u0301\u096b\u2167\u200d\u00ad\U0001d4b3\u00b2\u00df\u3042\ud55c")

var c13InvalidPieces = []string{" ", "!", "\"", "#", "$", "%", "&", "'", "(", ")", "*", "+", ",", "/", ":", ";", "<", "=", ">", "?", "@",
	"[", "\\", "]", "^", "`", "{", "|", "}", "~", "\x00", "\n", "\t", "\x7f", "\u00a0", "\u2028", "\u20ac", "\U0001f600", "\u00b7", "\ufffd",
	"\xff", "\xc3", "\xed\xa0\x80", "\xc0\xaf", "\xe2\x82", "\x80"}

// stable old blocks from which random characters (valid or not) are drawn
var c13Blocks = [][2]rune{{0x20, 0x24f}, {0x370, 0x3ff}, {0x400, 0x4ff}, {0x590, 0x5ff}, {0x2000, 0x206f}, {0x20a0, 0x20ba},
	{0x2190, 0x21ff}, {0x3040, 0x30ff}, {0x4e00, 0x9fa5}}

func c13RandomRune(r *rand.Rand) rune {
	b := c13Blocks[r.Intn(len(c13Blocks))]
	return b[0] + rune(r.Intn(int(b[1]-b[0])+1))
}

// c13ValidID makes a valid identifier of at most maxBytes bytes (maxBytes >= 1).
func c13ValidID(r *rand.Rand, maxBytes int, used map[string]bool) string {
	for try := 0; try < 200; try++ {
		want := 1 + r.Intn(6)
		if r.Intn(8) == 0 {
			want = maxBytes // exactly at the limit
		}
		if want > maxBytes {
			want = maxBytes
		}
		if want > 40 {
			want = 40
		}
		var id []byte
		for len(id) < want {
			var c rune
			if r.Intn(6) == 0 {
				c = c13RandomRune(r)
				if !c13RuneValid(c) {
					continue
				}
			} else {
				c = c13ValidRunes[r.Intn(len(c13ValidRunes))]
			}
			if len(id)+utf8.RuneLen(c) > want {
				if len(id) > 0 && r.Intn(2) == 0 {
					break
				}
				c = rune("abcdefgh"[r.Intn(8)])
			}
			id = utf8.AppendRune(id, c)
		}
		s := string(id)
		if len(s) == 0 || len(s) > maxBytes || used[s] {
			continue
		}
		used[s] = true
		return s
	}
	// fall back to short ASCII names
	for i := 0; ; i++ {
		s := string(rune('a' + i%26))
		for len(s) < maxBytes && used[s] {
			s += string(rune('a' + (i/26)%26))
		}
		if !used[s] && len(s) <= maxBytes {
			used[s] = true
			return s
		}
		if i > 2000 {
			return ""
		}
	}
}

// c13BadID makes an identifier that is empty, too long, of invalid characters, or of vague length.
func c13BadID(r *rand.Rand, maxLen uint64) (string, string) {
	switch r.Intn(8) {
	case 0:
		return "", "empty"
	case 1, 2:
		// too long in characters (ASCII, so also in bytes)
		n := int(maxLen) + 1 + r.Intn(3)
		if n > 3000 {
			n = 3000
		}
		b := make([]byte, n)
		for i := range b {
			b[i] = "abcdefghij_"[r.Intn(11)]
		}
		return string(b), "too-long"
	case 3:
		// bytes above the limit, characters within it
		var id []byte
		for uint64(len(id)) <= maxLen {
			id = utf8.AppendRune(id, []rune("\u00e9\u4e2d\U0001d4b3")[r.Intn(3)])
		}
		return string(id), "vague-length"
	case 4:
		// random character from the blocks, kept only if invalid
		for i := 0; i < 50; i++ {
			c := c13RandomRune(r)
			if !c13RuneValid(c) {
				return "a" + string(c), "bad-char"
			}
		}
	}
	p := c13InvalidPieces[r.Intn(len(c13InvalidPieces))]
	switch r.Intn(3) {
	case 0:
		return p, "bad-char"
	case 1:
		return "ab" + p, "bad-char"
	}
	return p + "z", "bad-char"
}
