package checks

import (
	"bytes"
	"fmt"
	"math"
	"runtime"
	"strings"
	"syscall"

	"github.com/kstenerud/go-concise-encoding/ce"
	"github.com/kstenerud/go-concise-encoding/configuration"
	"github.com/kstenerud/go-concise-encoding/nullevent"
	"github.com/kstenerud/go-concise-encoding/rules"

	"verifharness/fw"
)

type c08Family struct {
	name string
	cte  bool
	make func(n int) []byte // document of roughly n bytes
	base int                // smallest size (0 = tier default)
}

// c08MayReject: families whose documents are invalid on purpose (cut off in the middle); what they cost before being rejected is measured.
var c08MayReject = map[string]bool{"cbe-nested-unfilled-records-of-a-big-type": true}

func c08Uleb(v uint64) []byte {
	var out []byte
	for {
		b := byte(v & 0x7f)
		v >>= 7
		if v != 0 {
			out = append(out, b|0x80)
		} else {
			return append(out, b)
		}
	}
}

// c08Chunked: header, then chunks of k payload bytes each ("more follow"), ended by an empty final chunk, to about n bytes.
func c08Chunked(header []byte, n, k int, fill byte) []byte {
	d := append([]byte{0x81, 0}, header...)
	hdr := c08Uleb(uint64(k)<<1 | 1)
	for len(d) < n {
		d = append(d, hdr...)
		d = append(d, bytes.Repeat([]byte{fill}, k)...)
	}
	return append(d, 0x00)
}

// c08ChunkedElems: the same for typed arrays whose chunk header counts elements (elems per chunk, bytesPerChunk payload bytes).
func c08ChunkedElems(header []byte, n, elems, bytesPerChunk int) []byte {
	d := append([]byte{0x81, 0}, header...)
	hdr := c08Uleb(uint64(elems)<<1 | 1)
	for len(d) < n {
		d = append(d, hdr...)
		d = append(d, bytes.Repeat([]byte{0x55}, bytesPerChunk)...)
	}
	return append(d, 0x00)
}

var c08Families = []c08Family{
	{"cbe-many-small-ints", false, func(n int) []byte {
		d := []byte{0x81, 0, 0x9a}
		for i := 0; len(d) < n; i++ {
			d = append(d, byte(i%100))
		}
		return append(d, 0x9b)
	}, 0},
	{"cbe-long-string", false, func(n int) []byte {
		d := append([]byte{0x81, 0, 0x90}, c08Uleb(uint64(n)<<1)...)
		return append(d, bytes.Repeat([]byte("a"), n)...)
	}, 0},
	{"cbe-many-short-strings", false, func(n int) []byte {
		d := []byte{0x81, 0, 0x9a}
		for len(d) < n {
			d = append(d, 0x85, 'h', 'e', 'l', 'l', 'o')
		}
		return append(d, 0x9b)
	}, 0},
	{"cbe-wide-map", false, func(n int) []byte {
		d := []byte{0x81, 0, 0x99}
		for i := 0; len(d) < n; i++ {
			d = append(d, 0x6c, byte(i), byte(i>>8), byte(i>>16), 1, 0x7d)
		}
		return append(d, 0x9b)
	}, 0},
	{"cbe-nested-lists", false, func(n int) []byte {
		// blocks of nesting depth 500 repeated side by side
		d := []byte{0x81, 0, 0x9a}
		for len(d) < n {
			d = append(d, bytes.Repeat([]byte{0x9a}, 500)...)
			d = append(d, bytes.Repeat([]byte{0x9b}, 500)...)
		}
		return append(d, 0x9b)
	}, 0},
	{"cbe-long-u32-array", false, func(n int) []byte {
		cnt := n / 4
		d := append([]byte{0x81, 0, 0x7f, 0xe4}, c08Uleb(uint64(cnt)<<1)...)
		return append(d, bytes.Repeat([]byte{1, 2, 3, 4}, cnt)...)
	}, 0},
	{"cbe-many-chunks", false, func(n int) []byte {
		d := []byte{0x81, 0, 0x93}
		for len(d) < n {
			d = append(d, 0x03, 0xaa) // chunk of 1 byte, more follow
		}
		return append(d, 0x00)
	}, 0},
	// one array in very many chunks, per array kind that has its own chunk handling in the validator and the builders
	// (sizes from 64 KiB: a quadratic per-chunk cost then needs >= 20 ms at the smallest size and becomes visible to the CPU oracle)
	{"cbe-string-many-1-byte-chunks", false, func(n int) []byte { return c08Chunked([]byte{0x90}, n, 1, 'a') }, 65536},
	{"cbe-string-many-32-byte-chunks", false, func(n int) []byte { return c08Chunked([]byte{0x90}, n, 32, 'a') }, 65536},
	{"cbe-rid-many-chunks", false, func(n int) []byte { return c08Chunked([]byte{0x91}, n, 3, 'a') }, 65536},
	{"cbe-custom-binary-many-chunks", false, func(n int) []byte { return c08Chunked([]byte{0x92, 0x01}, n, 2, 0xaa) }, 65536},
	{"cbe-media-many-chunks", false, func(n int) []byte { return c08Chunked([]byte{0x7f, 0xf3, 0x03, 'a', '/', 'b'}, n, 2, 0xaa) }, 65536},
	{"cbe-u16-array-many-chunks", false, func(n int) []byte { return c08ChunkedElems([]byte{0x7f, 0xe1}, n, 2, 2) }, 65536},
	{"cbe-bit-array-many-chunks", false, func(n int) []byte { return c08ChunkedElems([]byte{0x94}, n, 8, 1) }, 65536},
	// one big array-like value followed by many small ones (a per-value cost that depends on the biggest value seen so far is quadratic here)
	{"cte-big-string-then-small-strings", true, func(n int) []byte {
		var sb strings.Builder
		sb.WriteString("c0 [\"" + strings.Repeat("x", n/2) + "\"")
		for sb.Len() < n {
			sb.WriteString(" \"a\"")
		}
		sb.WriteString("]")
		return []byte(sb.String())
	}, 0},
	{"cte-big-array-then-small-arrays", true, func(n int) []byte {
		var sb strings.Builder
		sb.WriteString("c0 [@u8x[" + strings.Repeat("7f ", n/6) + "]")
		for sb.Len() < n {
			sb.WriteString(" @u8x[1]")
		}
		sb.WriteString("]")
		return []byte(sb.String())
	}, 0},
	{"cbe-big-string-then-small-strings", false, func(n int) []byte {
		d := append([]byte{0x81, 0, 0x9a, 0x90}, c08Uleb(uint64(n/2)<<1)...)
		d = append(d, bytes.Repeat([]byte("x"), n/2)...)
		for len(d) < n {
			d = append(d, 0x81, 'a', 0x90, 0x02, 'b')
		}
		return append(d, 0x9b)
	}, 0},
	{"cbe-big-array-then-small-arrays", false, func(n int) []byte {
		d := append([]byte{0x81, 0, 0x9a, 0x93}, c08Uleb(uint64(n/2)<<1)...)
		d = append(d, bytes.Repeat([]byte{0x55}, n/2)...)
		for len(d) < n {
			d = append(d, 0x93, 0x02, 0x01, 0x7f, 0xe1, 0x02, 0x01, 0x02)
		}
		return append(d, 0x9b)
	}, 0},
	// a record type with many keys, then many records of that type opened inside each other and never filled in (the document
	// just ends): whatever is reserved per open record must not depend on the size of the record type
	{"cbe-nested-unfilled-records-of-a-big-type", false, func(n int) []byte {
		d := []byte{0x81, 0, 0x7f, 0xf1, 0x01, 'r'}
		for i := 0; len(d) < n/2; i++ {
			k := fmt.Sprintf("k%d", i)
			d = append(d, byte(0x80+len(k)))
			d = append(d, k...)
		}
		d = append(d, 0x9b)
		for i := 0; len(d) < n && i < 900; i++ {
			d = append(d, 0x96, 0x01, 'r')
		}
		return d
	}, 0},
	{"cbe-many-markers", false, func(n int) []byte {
		d := []byte{0x81, 0, 0x9a}
		for i := 0; len(d) < n; i++ {
			id := fmt.Sprintf("m%d", i)
			d = append(d, 0x7f, 0xf0, byte(len(id)))
			d = append(d, id...)
			d = append(d, 1, 0x77, byte(len(id)))
			d = append(d, id...)
		}
		return append(d, 0x9b)
	}, 0},
	{"cbe-big-ints", false, func(n int) []byte {
		d := []byte{0x81, 0, 0x9a}
		for len(d) < n {
			d = append(d, 0x66, 40)
			d = append(d, bytes.Repeat([]byte{0xff}, 40)...)
		}
		return append(d, 0x9b)
	}, 0},
	{"cte-many-small-tokens", true, func(n int) []byte {
		var sb strings.Builder
		sb.WriteString("c0 [")
		for i := 0; sb.Len() < n; i++ {
			fmt.Fprintf(&sb, "%d ", i%1000)
		}
		sb.WriteString("]")
		return []byte(sb.String())
	}, 0},
	{"cte-long-string", true, func(n int) []byte {
		return []byte("c0 \"" + strings.Repeat("abcdefghij", n/10) + "\"")
	}, 0},
	{"cte-escapes", true, func(n int) []byte {
		return []byte("c0 \"" + strings.Repeat("\\n\\[41]\\t", n/9) + "\"")
	}, 0},
	{"cte-wide-map", true, func(n int) []byte {
		var sb strings.Builder
		sb.WriteString("c0 {")
		for i := 0; sb.Len() < n; i++ {
			fmt.Fprintf(&sb, "%d=null ", i)
		}
		sb.WriteString("}")
		return []byte(sb.String())
	}, 0},
	{"cte-nested-lists", true, func(n int) []byte {
		var sb strings.Builder
		sb.WriteString("c0 [")
		for sb.Len() < n {
			sb.WriteString(strings.Repeat("[", 200) + strings.Repeat("]", 200) + " ")
		}
		sb.WriteString("]")
		return []byte(sb.String())
	}, 0},
	{"cte-long-u16-array", true, func(n int) []byte {
		var sb strings.Builder
		sb.WriteString("c0 @u16[")
		for i := 0; sb.Len() < n; i++ {
			fmt.Fprintf(&sb, "%d ", i%60000)
		}
		sb.WriteString("]")
		return []byte(sb.String())
	}, 0},
	{"cte-hex-floats", true, func(n int) []byte {
		var sb strings.Builder
		sb.WriteString("c0 [")
		for i := 0; sb.Len() < n; i++ {
			fmt.Fprintf(&sb, "0x1.%xp+%d ", i%4096, i%30)
		}
		sb.WriteString("]")
		return []byte(sb.String())
	}, 0},
	{"cte-many-markers", true, func(n int) []byte {
		var sb strings.Builder
		sb.WriteString("c0 [")
		for i := 0; sb.Len() < n; i++ {
			fmt.Fprintf(&sb, "&m%d:1 $m%d ", i, i)
		}
		sb.WriteString("]")
		return []byte(sb.String())
	}, 0},
	{"cte-line-comments", true, func(n int) []byte {
		var sb strings.Builder
		sb.WriteString("c0 [\n")
		for i := 0; sb.Len() < n; i++ {
			sb.WriteString("// a comment\n1\n")
		}
		sb.WriteString("]")
		return []byte(sb.String())
	}, 0},
	{"cte-adjacent-block-comments", true, func(n int) []byte {
		var sb strings.Builder
		sb.WriteString("c0 [\n")
		for sb.Len() < n {
			sb.WriteString("/* a */ ")
		}
		sb.WriteString("1 ]")
		return []byte(sb.String())
	}, 8192},
	{"cte-long-block-comment", true, func(n int) []byte {
		return []byte("c0 [ /* " + strings.Repeat("x * / ", n/6) + " */ 1 ]")
	}, 0},
	{"cte-many-strings", true, func(n int) []byte {
		var sb strings.Builder
		sb.WriteString("c0 [")
		for i := 0; sb.Len() < n; i++ {
			fmt.Fprintf(&sb, "\"s%d\" ", i)
		}
		sb.WriteString("]")
		return []byte(sb.String())
	}, 0},
	{"cte-block-comments-on-own-lines", true, func(n int) []byte {
		var sb strings.Builder
		sb.WriteString("c0\n[\n")
		for sb.Len() < n {
			sb.WriteString("    /* a */\n")
		}
		sb.WriteString("]")
		return []byte(sb.String())
	}, 150},
	{"cte-block-comments", true, func(n int) []byte {
		var sb strings.Builder
		sb.WriteString("c0 [\n")
		for i := 0; sb.Len() < n; i++ {
			sb.WriteString("/* a */ 1\n")
		}
		sb.WriteString("]")
		return []byte(sb.String())
	}, 0},
}

const c08MemCases = 400

func init() {
	fw.Register(&fw.Check{
		ID:    "C08",
		Level: "exploration",
		Rule: "memory: adversarial CBE documents (<= 64 bytes, or up to 70 KB when real payload follows the header) with an inflated length in every header kind (string/array chunk headers, identifier, media type, big integer, custom type, long ULEB128), decoded under " +
			"MaxArraySizeBytes in {1 KiB, 64 KiB, 1 MiB}; observed: runtime.MemStats.TotalAlloc around one decode (after a warm-up decode, GOMAXPROCS=1, GC forced), process death under RLIMIT_AS 4 GiB; oracle " +
			"TotalAlloc <= 8 MiB + 4096*len(doc) + 8*MaxArraySizeBytes; a fifth of these cases are instead 10-60 byte CBE/CTE documents holding one decimal number (1-25 digit coefficient, exponent +-10^4..10^7) unmarshaled by ce.UnmarshalFrom{CBE,CTE}Document " +
			"into interface{}, float32/64, big.Float (pointer, field, slice) or *apd.Decimal, same bound without the array term. time, restated as bounded scaling: " + fmt.Sprint(len(c08Families)) + " document families (many small tokens, long strings, escapes, wide maps, nesting, long typed arrays, " +
			"many chunks, markers, comments) at sizes n, 2n, 4n, 8n; deterministic oracle: growth exponent log2(X(8n)/X(n))/3 <= 1.5 for X = TotalAlloc and X = Mallocs, and TotalAlloc(8n) <= 8 MiB + 512 (CBE) / 4096 (CTE) bytes per input byte; CPU time (min of 3, getrusage) is a second observable " +
			"that can raise a violation only above 1.6 on documents whose smallest size needs >= 20 ms, twice. Non-trivial = measured document; distinct = distinct (family|header kind, size, limit).",
		Assumptions: []string{"no finite run decides an asymptote: super-linearity that only shows beyond 8n (quick 32 KiB, thorough 512 KiB) is not detected", "allocation counters are deterministic for a single-goroutine decode; CPU time is noisy and only used above a wide threshold"},
		Cases:       func(tier string) int { return c08MemCases + len(c08Families)*tierN(tier, 1, 3) },
		Run:         runC08,
		Procs:       1,
		MemLimit:    4 << 30,
		CPUBudget:   300,
		MaxBatch:    8,
		Floors: func(string) map[string]int64 {
			return map[string]int64{"memory_docs_measured": 300, "families_measured": int64(len(c08Families)), "limit.1024": 50, "limit.65536": 50, "limit.1048576": 50}
		},
	})
}

func c08CPU() float64 {
	var ru syscall.Rusage
	syscall.Getrusage(syscall.RUSAGE_SELF, &ru)
	return float64(ru.Utime.Sec) + float64(ru.Utime.Usec)/1e6 + float64(ru.Stime.Sec) + float64(ru.Stime.Usec)/1e6
}

// c08Measure decodes doc once and returns (TotalAlloc delta, Mallocs delta, cpu seconds, error string).
func c08Measure(doc []byte, cte bool, cfg *configuration.Configuration) (alloc, mallocs uint64, cpu float64, errs string) {
	var dec ce.Decoder
	if cte {
		dec = ce.NewCTEDecoder(cfg)
	} else {
		dec = ce.NewCBEDecoder(cfg)
	}
	rcv := rules.NewRules(nullevent.NewNullEventReceiver(), cfg)
	runtime.GC()
	var m0, m1 runtime.MemStats
	runtime.ReadMemStats(&m0)
	t0 := c08CPU()
	var err error
	p, _ := fw.Guard(func() { err = dec.DecodeDocument(doc, rcv) })
	t1 := c08CPU()
	runtime.ReadMemStats(&m1)
	if p != nil {
		errs = "ESCAPED PANIC " + fmt.Sprint(p)
	} else if err != nil {
		errs = err.Error()
	}
	return m1.TotalAlloc - m0.TotalAlloc, m1.Mallocs - m0.Mallocs, t1 - t0, errs
}

func runC08(c *fw.Ctx, idx int) {
	// warm-up (ANTLR one-time initialisation, type tables)
	wcfg := configuration.New()
	c08Measure([]byte("c0 [1 \"a\" {2=3}]"), true, wcfg)
	c08Measure([]byte{0x81, 0, 0x9a, 1, 0x9b}, false, wcfg)
	if idx < c08MemCases && idx%5 == 4 {
		runC08Number(c, idx/5)
		return
	}
	if idx < c08MemCases {
		limit := []uint64{1024, 65536, 1 << 20}[idx%3]
		cfg := configuration.New()
		cfg.Rules.MaxArraySizeBytes = limit
		doc := c07Inflated(c)
		if idx < 30 {
			// directed: the 8-byte document with a 2^30 string chunk header and the 9-byte media header
			switch idx % 3 {
			case 0:
				doc = []byte{0x81, 0x00, 0x90, 0x80, 0x80, 0x80, 0x80, 0x08}
			case 1:
				doc = []byte{0x81, 0x00, 0x7f, 0xf3, 0xff, 0xff, 0xff, 0xff, 0x0f}
			}
		}
		c.Note("C08 memory limit=%d doc %s", limit, hexs(doc))
		c.Region("memory-inflated-length")
		alloc, mallocs, _, errs := c08Measure(doc, false, cfg)
		c.Eval()
		c.Inc("memory_docs_measured")
		c.Inc(fmt.Sprintf("limit.%d", limit))
		c.Distinct(fmt.Sprintf("%s|%d", hexs(doc), limit))
		bound := uint64(8<<20) + 4096*uint64(len(doc)) + 8*limit
		c.Max("max_alloc_bytes_for_short_document", int64(alloc))
		if alloc > bound {
			c.Fail("allocation-exceeds-bound@inflated-length", map[string]interface{}{"doc": hexs(doc), "len": len(doc), "MaxArraySizeBytes": limit, "TotalAlloc": alloc, "Mallocs": mallocs, "bound": bound, "err": errs})
			return
		}
		if c.WantSample() {
			c.Sample(map[string]interface{}{"doc": hexs(doc), "MaxArraySizeBytes": limit, "TotalAlloc": alloc, "bound": bound, "err": errs})
		}
		return
	}
	fi := (idx - c08MemCases) % len(c08Families)
	rep := (idx - c08MemCases) / len(c08Families)
	fam := c08Families[fi]
	base := 4096
	if c.Tier == "thorough" {
		base = []int{4096, 16384, 65536}[rep%3]
	}
	if fam.base > 0 {
		base = fam.base
	}
	cfg := configuration.New()
	// the marker families grow past the default marker / reference limits: the limits are not what is measured here
	cfg.Rules.MaxLocalReferenceCount = 1 << 40
	cfg.Rules.MaxMarkerCount = 1 << 40
	c.Region("scaling-" + fam.name)
	var allocs, mallocs, cpus [4]float64
	sizes := [4]int{}
	for s := 0; s < 4; s++ {
		doc := fam.make(base << uint(s))
		sizes[s] = len(doc)
		c.Note("C08 scaling %s size %d", fam.name, len(doc))
		best := math.Inf(1)
		for rpt := 0; rpt < 3; rpt++ {
			a, m, t, errs := c08Measure(doc, fam.cte, cfg)
			if errs != "" && !c08MayReject[fam.name] {
				c.Fail("family-document-rejected:"+fam.name, map[string]interface{}{"family": fam.name, "size": len(doc), "err": errs})
				return
			}
			allocs[s], mallocs[s] = float64(a), float64(m)
			if t < best {
				best = t
			}
		}
		cpus[s] = best
		c.Eval()
		c.Distinct(fmt.Sprintf("%s|%d", fam.name, len(doc)))
	}
	expo := func(x [4]float64) float64 {
		if x[0] <= 0 || x[3] <= 0 {
			return 0
		}
		return math.Log2(x[3]/x[0]) / math.Log2(float64(sizes[3])/float64(sizes[0]))
	}
	ea, em, et := expo(allocs), expo(mallocs), expo(cpus)
	c.Inc("families_measured")
	c.Value("alloc_exponent."+fam.name, math.Round(ea*1000)/1000)
	c.Value("mallocs_exponent."+fam.name, math.Round(em*1000)/1000)
	c.Value("cpu_exponent."+fam.name, math.Round(et*1000)/1000)
	c.Value("alloc_bytes_per_input_byte."+fam.name, math.Round(allocs[3]/float64(sizes[3])*10)/10)
	detail := map[string]interface{}{"family": fam.name, "sizes": sizes, "TotalAlloc": allocs, "Mallocs": mallocs, "cpu_s": cpus, "alloc_exponent": ea, "mallocs_exponent": em, "cpu_exponent": et}
	if ea > 1.5 || em > 1.5 {
		c.Fail("superlinear-allocation:"+fam.name, detail)
		return
	}
	// an absolute bound next to the growth exponent: linear growth with an absurd constant is caught here. Honest CBE documents
	// cost < 30 allocated bytes per input byte, CTE documents < 500 (measured, see alloc_bytes_per_input_byte in the evidence);
	// the bounds leave a factor of about 20 and 8.
	perByte := 512.0
	if fam.cte {
		perByte = 4096
	}
	if bound := float64(8<<20) + perByte*float64(sizes[3]); allocs[3] > bound {
		detail["bound"] = bound
		c.Fail("allocation-exceeds-bound@scaling:"+fam.name, detail)
		return
	}
	if et > 1.6 && cpus[0] >= 0.02 {
		// confirm once more
		var again [4]float64
		for s := 0; s < 4; s++ {
			_, _, t, _ := c08Measure(fam.make(base<<uint(s)), fam.cte, cfg)
			again[s] = t
		}
		if expo(again) > 1.6 {
			detail["cpu_s_again"] = again
			c.Fail("superlinear-cpu:"+fam.name, detail)
			return
		}
		c.Inc("inconclusive_cpu")
	} else if et > 1.3 {
		c.Inc("inconclusive_cpu")
	}
	if c.WantSample() {
		c.Sample(detail)
	}
}
