package checks

import (
	"fmt"
	"math"
	"reflect"

	"github.com/kstenerud/go-concise-encoding/configuration"

	"verifharness/fw"
	"verifharness/gen"
)

func init() {
	fw.Register(&fw.Check{
		ID:    "C09",
		Level: "fault_enumeration",
		Rule: "documents = (a) three quarters: ce.MarshalTo{CBE,CTE}Document of generated container values (slices, maps, structs of supported kinds, depth<=3) that unmarshal completely without error; in half of the cases the outermost struct types are registered as record types, so structs travel as records; (b) one quarter: CBE/CTE encodings of generated lists holding marked scalars, marked lists and maps, references to earlier markers and nested lists of the same (untyped destination only); " +
			"for each document EVERY cut k in [1, len-1] is enumerated and doc[:k] is unmarshaled with a nil template and with the value's own type as template. Oracle: err != nil at every cut; " +
			"the returned partial value is a prefix of the full result (list: no longer than full, all but the last element equal, last element recursively a prefix; map/struct: every key present exists in full " +
			"with a prefix value; scalar: equal or zero; string/array: equal, empty or a byte prefix); for top-level lists the number of elements lying wholly before the cut is a lower bound on the partial list's length; for top-level structs (typed template) a field that was delivered equal to its full value at one cut must be delivered unchanged at every later cut. " +
			"Non-trivial = cut lies after the first element started (partial value non-empty); distinct = distinct (document, cut, template).",
		Assumptions: []string{"CBE element encodings are context free, so the end offset of list element i is len(Marshal(list[:i+1]))-1", "values avoid the known-finding regions of C04 (types.Edge, nil containers outside struct fields)"},
		Cases:       func(tier string) int { return tierN(tier, 160, 3000) },
		Run:         runC09,
		Exhaustive:  func(string) bool { return false },
		Floors: func(string) map[string]int64 {
			return map[string]int64{"documents": 60, "cuts_enumerated": 10000, "cuts_with_nonempty_partial": 1000, "lower_bound_comparisons": 500}
		},
		CPUBudget: 60,
	})
}

func c09Unwrap(v reflect.Value) reflect.Value {
	for v.IsValid() && (v.Kind() == reflect.Interface || v.Kind() == reflect.Ptr) {
		if v.IsNil() {
			return reflect.Value{}
		}
		v = v.Elem()
	}
	return v
}

func c09IsZero(v reflect.Value) bool {
	if !v.IsValid() {
		return true
	}
	switch v.Kind() {
	case reflect.Slice, reflect.Map, reflect.String, reflect.Array:
		if v.Kind() != reflect.Array && v.Len() == 0 {
			return true
		}
	}
	return v.IsZero()
}

// c09Prefix reports "" when p is a prefix of f, else the path and reason. last says whether p is the last
// (possibly incomplete) element of its container chain.
// c09Lenient is set for a cut in the middle of a CTE token: the last scalar of the partial value is then
// whatever the truncated token spells (127 cut to 12), which the property cannot hold against the decoder.
var c09Lenient bool

func c09Prefix(p, f reflect.Value, last bool, path string) string {
	p, f = c09Unwrap(p), c09Unwrap(f)
	if !p.IsValid() || c09IsZero(p) {
		return ""
	}
	if last && c09Lenient && c09IsLeaf(p) {
		return ""
	}
	if !f.IsValid() {
		return path + ": partial has a value where the full result has none: " + c09Short(p)
	}
	switch p.Kind() {
	case reflect.Slice, reflect.Array:
		if f.Kind() != reflect.Slice && f.Kind() != reflect.Array {
			return path + ": kind differs"
		}
		if p.Kind() == reflect.Slice && p.Len() > f.Len() {
			return fmt.Sprintf("%s: partial list longer than full (%d > %d)", path, p.Len(), f.Len())
		}
		n := p.Len()
		if f.Len() < n {
			n = f.Len()
		}
		elemKind := p.Type().Elem().Kind()
		scalarElems := elemKind != reflect.Interface && elemKind != reflect.Slice && elemKind != reflect.Map && elemKind != reflect.Struct && elemKind != reflect.Ptr && elemKind != reflect.Array
		for i := 0; i < n; i++ {
			isLast := last && (i == n-1 || p.Kind() == reflect.Array)
			if p.Kind() == reflect.Slice && !isLast || (scalarElems && p.Kind() == reflect.Slice) {
				if pa, _ := gen.ValueEq(p.Index(i).Interface(), f.Index(i).Interface()); pa != "" {
					if !(isLast && (c09Lenient || c09Prefix(p.Index(i), f.Index(i), true, "") == "")) {
						return fmt.Sprintf("%s[%d]: completely decoded element differs: %s vs %s", path, i, c09Short(p.Index(i)), c09Short(f.Index(i)))
					}
				}
				continue
			}
			if r := c09Prefix(p.Index(i), f.Index(i), isLast, fmt.Sprintf("%s[%d]", path, i)); r != "" {
				return r
			}
		}
		return ""
	case reflect.Map:
		if f.Kind() != reflect.Map {
			return path + ": kind differs"
		}
		fk := map[string]reflect.Value{}
		for _, k := range f.MapKeys() {
			fk[c09KeyString(k)] = f.MapIndex(k)
		}
		unknown := 0
		for _, k := range p.MapKeys() {
			fv, ok := fk[c09KeyString(k)]
			if !ok {
				// a cut inside a text token: the truncated token may spell a different key (one entry at most)
				if unknown++; last && c09Lenient && unknown == 1 {
					continue
				}
				return fmt.Sprintf("%s{%s}: key is not in the full result", path, c09KeyString(k))
			}
			if r := c09Prefix(p.MapIndex(k), fv, last, path+"{"+c09KeyString(k)+"}"); r != "" {
				return r
			}
		}
		return ""
	case reflect.Struct:
		if pa, _ := gen.ValueEq(p.Interface(), f.Interface()); pa == "" {
			return ""
		}
		if p.Type() != f.Type() {
			return path + ": struct types differ"
		}
		if p.NumField() > 0 && p.Type().Field(0).PkgPath != "" {
			return path + ": opaque struct differs: " + c09Short(p) + " vs " + c09Short(f)
		}
		for i := 0; i < p.NumField(); i++ {
			if p.Type().Field(i).PkgPath != "" {
				continue
			}
			if r := c09Prefix(p.Field(i), f.Field(i), last, path+"/"+p.Type().Field(i).Name); r != "" {
				return r
			}
		}
		return ""
	case reflect.String:
		if f.Kind() == reflect.String && (p.String() == f.String() || (last && len(p.String()) <= len(f.String()) && f.String()[:len(p.String())] == p.String())) {
			return ""
		}
		return fmt.Sprintf("%s: string %q is not the full %s", path, p.String(), c09Short(f))
	}
	if pa, _ := gen.ValueEq(p.Interface(), f.Interface()); pa != "" {
		if last && c09Lenient {
			return ""
		}
		return fmt.Sprintf("%s: scalar differs: %s vs %s", path, c09Short(p), c09Short(f))
	}
	return ""
}

func c09IsLeaf(v reflect.Value) bool {
	switch v.Type() {
	case gen.TTime, gen.TCTime, gen.TBigInt, gen.TBigFloat, gen.TAPD, gen.TDFloat, gen.TURL, gen.TUID:
		return true
	}
	switch v.Kind() {
	case reflect.Slice, reflect.Map, reflect.Struct, reflect.Array:
		return v.Kind() == reflect.Slice && v.Type().Elem().Kind() == reflect.Uint8
	}
	return true
}

func c09IsSpace(b byte) bool { return b == ' ' || b == '\n' || b == '\t' || b == '\r' }

func c09KeyString(k reflect.Value) string {
	k = c09Unwrap(k)
	if !k.IsValid() {
		return "<nil>"
	}
	switch k.Kind() {
	case reflect.Int, reflect.Int8, reflect.Int16, reflect.Int32, reflect.Int64:
		return fmt.Sprint(k.Int())
	case reflect.Uint, reflect.Uint8, reflect.Uint16, reflect.Uint32, reflect.Uint64:
		return fmt.Sprint(k.Uint())
	case reflect.Float64, reflect.Float32:
		if f := k.Float(); f == math.Trunc(f) {
			return fmt.Sprintf("%.0f", f)
		}
	}
	return fmt.Sprintf("%v", k.Interface())
}

func c09Short(v reflect.Value) string {
	if !v.IsValid() {
		return "<none>"
	}
	return short(fmt.Sprintf("%#v", v.Interface()), 160)
}

func c09Len(v interface{}) (int, bool) {
	rv := c09Unwrap(reflect.ValueOf(v))
	if rv.IsValid() && rv.Kind() == reflect.Slice {
		return rv.Len(), true
	}
	return 0, rv.IsValid() == false
}

func runC09(c *fw.Ctx, idx int) {
	if idx%8 == 4 || idx%8 == 5 {
		runC09Markers(c, idx%2 == 1)
		return
	}
	cfg := configuration.New()
	cte := idx%2 == 1
	codec := "cbe"
	if cte {
		codec = "cte"
	}
	// container type at top level
	var t reflect.Type
	opts := gen.TypeOpts{NoSpecial: true}
	switch c.Rng.Intn(4) {
	case 0, 1:
		t = reflect.SliceOf(gen.RandType(c.Rng, 2, opts))
	case 2:
		t = reflect.MapOf(gen.TString, gen.RandType(c.Rng, 2, opts))
	default:
		t = gen.RandStruct(c.Rng, 3, opts)
	}
	var v reflect.Value
	for tries := 0; ; tries++ {
		v = gen.RandValue(c.Rng, t, 3)
		if (v.Kind() == reflect.Struct || v.Len() > 0) && c04Region(v.Interface(), "") == "general" {
			break
		}
		if tries > 20 {
			c.Inc("skipped_no_suitable_value")
			return
		}
	}
	if v.Kind() == reflect.Slice && isSizedNumericKind(t.Elem().Kind()) {
		// typed arrays are one object; keep them (cuts inside the array) but no lower bound
	}
	if idx%4 >= 2 {
		// struct types written as records (a record type definition up front, then positional values)
		structs := map[reflect.Type]bool{}
		c05CollectStructs(t, structs)
		var names []string
		byName := map[string]reflect.Type{}
		for st := range structs {
			names = append(names, st.String())
			byName[st.String()] = st
		}
		sortStrings(names)
		for i, nme := range names {
			cfg.Iterator.RecordTypes[byName[nme]] = fmt.Sprintf("rec%d", i)
		}
		if len(names) > 0 {
			c.Inc("documents_with_record_types")
			codec += "+records"
		}
	}
	val := v.Interface()
	c.Note("C09 %s type %v value %s", codec, t, short(gen.Render(val), 800))
	doc, err, p, _ := marshalDoc(val, cte, cfg)
	if err != nil || p != nil {
		c.Inc("skipped_marshal_failed")
		return
	}
	templates := []interface{}{nil, reflect.Zero(t).Interface()}
	fulls := make([]interface{}, 2)
	for i, tmpl := range templates {
		out, err, p, _ := unmarshalDoc(doc, tmpl, cte, cfg)
		if err != nil || p != nil {
			c.Inc("skipped_full_document_does_not_unmarshal")
			return
		}
		fulls[i] = out
	}
	c.Inc("documents")
	// element end offsets for top-level generic lists
	var elemEnd []int
	if v.Kind() == reflect.Slice && !isSizedNumericKind(t.Elem().Kind()) && t.Elem().Kind() != reflect.Bool && t.Elem().Kind() != reflect.Int && t.Elem().Kind() != reflect.Uint {
		for i := 0; i < v.Len(); i++ {
			d, err, p, _ := marshalDoc(v.Slice(0, i+1).Interface(), cte, cfg)
			if err != nil || p != nil {
				elemEnd = nil
				break
			}
			end := len(d) - 1 // without the end-container byte
			if cte {
				end = len(d) - 2 + 1 // "...elem\n]" : element text ends at len-2; +1 for the separator that completes it
			}
			elemEnd = append(elemEnd, end)
		}
	}
	n := len(doc)
	if cte {
		// the property's CTE documents end at the closing bracket of the top-level container
		for n > 0 && (doc[n-1] == '\n' || doc[n-1] == ' ') {
			n--
		}
	}
	// fields of a top-level struct (typed template) that have already been seen equal to their full value at an earlier cut:
	// such a field was completely decoded then, so every longer prefix of the document must still deliver it unchanged
	seenWhole := map[int]int{}
	for k := 1; k < n; k++ {
		for ti, tmpl := range templates {
			c.Region(fmt.Sprintf("cut-%s-template%d", codec, ti))
			out, err, p, st := unmarshalDoc(doc[:k], tmpl, cte, cfg)
			c.Eval()
			c.Inc("cuts_enumerated")
			detail := func(extra map[string]interface{}) map[string]interface{} {
				m := map[string]interface{}{"codec": codec, "type": fmt.Sprint(t), "doc": docString(doc, cte), "cut": k, "template": fmt.Sprintf("%T", tmpl), "partial": gen.Render(out), "full": short(gen.Render(fulls[ti]), 1500)}
				for kk, x := range extra {
					m[kk] = x
				}
				return m
			}
			if p != nil {
				c.Fail("escaped-panic-on-truncated", detail(map[string]interface{}{"panic": fmt.Sprint(p), "stack": short(st, 1500)}))
				continue
			}
			if err == nil {
				c.Fail("truncated-document-accepted:"+codec, detail(nil))
				continue
			}
			if out != nil && !c09IsZero(c09Unwrap(reflect.ValueOf(out))) {
				c.Inc("cuts_with_nonempty_partial")
				c.Distinct(fmt.Sprintf("%s|%d|%d|%s", codec, k, ti, docString(doc, cte)))
			}
			c09Lenient = cte && !c09IsSpace(doc[k-1]) && !c09IsSpace(doc[k])
			if c09Lenient {
				c.Inc("dontcare.cut_inside_text_token")
			}
			if r := c09Prefix(reflect.ValueOf(out), reflect.ValueOf(fulls[ti]), true, ""); r != "" {
				c.Fail("partial-not-a-prefix:"+codec, detail(map[string]interface{}{"why": r, "err": err.Error()}))
				continue
			}
			// (not at a cut inside a text token: there a truncated token may happen to spell the full value — "/L" is the
			// abbreviation of "/Local" — and one byte later something else)
			if ti == 1 && v.Kind() == reflect.Struct && !c09Lenient {
				pv := c09Unwrap(reflect.ValueOf(out))
				fv := c09Unwrap(reflect.ValueOf(fulls[ti]))
				if fv.IsValid() && fv.Kind() == reflect.Struct {
					for fi := 0; fi < fv.NumField(); fi++ {
						if fv.Type().Field(fi).PkgPath != "" || c09IsZero(fv.Field(fi)) {
							continue
						}
						eq := pv.IsValid() && pv.Kind() == reflect.Struct
						if eq {
							path, _ := gen.ValueEq(pv.Field(fi).Interface(), fv.Field(fi).Interface())
							eq = path == ""
						}
						if first, ok := seenWhole[fi]; ok && !eq {
							c.Inc("lower_bound_comparisons")
							c.Fail("completely-decoded-field-lost:"+codec, detail(map[string]interface{}{"field": fv.Type().Field(fi).Name, "was_complete_at_cut": first, "err": err.Error()}))
							break
						} else if ok {
							c.Inc("lower_bound_comparisons")
						}
						if eq {
							if _, ok := seenWhole[fi]; !ok {
								seenWhole[fi] = k
							}
						}
					}
				}
			}
			if elemEnd != nil {
				whole := 0
				for _, e := range elemEnd {
					if e <= k {
						whole++
					}
				}
				if whole > 0 {
					c.Inc("lower_bound_comparisons")
					if l, ok := c09Len(out); !ok || l < whole {
						c.Fail("completely-decoded-elements-missing:"+codec, detail(map[string]interface{}{"elements_wholly_before_cut": whole, "partial_len": l, "err": err.Error()}))
					}
				}
			}
		}
	}
	if c.WantSample() {
		c.Sample(map[string]interface{}{"codec": codec, "type": fmt.Sprint(t), "doc": docString(doc, cte), "cuts": n - 1})
	}
}
