package checks

import (
	"bytes"
	"fmt"
	"math"
	"math/big"
	"strings"

	"github.com/cockroachdb/apd/v2"
	compact_float "github.com/kstenerud/go-compact-float"
	"github.com/kstenerud/go-concise-encoding/ce"
	"github.com/kstenerud/go-concise-encoding/ce/events"
	"github.com/kstenerud/go-concise-encoding/configuration"
	"github.com/kstenerud/go-concise-encoding/nullevent"
	"github.com/kstenerud/go-concise-encoding/rules"

	"verifharness/ev"
	"verifharness/fw"
)

// C07 family "extreme-number": one number at the edge of what the formats can express (exponents up to 2^31-1,
// coefficients around 2^63/2^64 and 20/21 decimal digits, huge binary exponents, megabit integers), written as a CBE
// and as a CTE document (scalar and inside a list), unmarshaled into every numeric template kind. A conversion that
// expands 10^exponent or 2^exponent before checking the range shows up as CPU-budget/OOM death of the worker.

type c07NumStruct struct {
	U uint64
	I int16
	F float32
}

func c07NumericTemplates() []interface{} {
	return []interface{}{uint(0), uint8(0), uint16(0), uint32(0), uint64(0), int(0), int8(0), int16(0), int32(0), int64(0),
		float32(0), float64(0), big.Int{}, (*big.Int)(nil), big.Float{}, (*big.Float)(nil), apd.Decimal{}, (*apd.Decimal)(nil),
		compact_float.DFloat{}, []uint16(nil), []float32(nil), []int64(nil), []*big.Int(nil), map[string]uint32(nil), c07NumStruct{}, nil}
}

var c07Exponents = []int64{0, 1, 20, 21, 30, 400, 5000, 100000, 100001, 10000000, 1000000000, math.MaxInt32 - 1, math.MaxInt32}

func c07ExtremeNumber(c *fw.Ctx) (ev.Event, string) {
	r := c.Rng
	exp := c07Exponents[r.Intn(len(c07Exponents))]
	if r.Intn(2) == 0 {
		exp = -exp
	}
	neg := r.Intn(3) == 0
	coeffs := []string{"1", "7", "9223372036854775807", "9223372036854775808", "18446744073709551615", "18446744073709551616",
		"10000000000000000000", "99999999999999999999", "100000000000000000000", "123456789012345678901234567890123456789", "1000000000000000000000000000000"}
	switch r.Intn(6) {
	case 0, 1:
		co, _ := new(big.Int).SetString(coeffs[r.Intn(len(coeffs))], 10)
		d := &apd.Decimal{Negative: neg, Exponent: int32(exp)}
		d.Coeff.Set(co)
		return ev.Event{K: ev.BDFLOAT, BD: d}, fmt.Sprintf("bigdecimal %s%se%d", map[bool]string{true: "-", false: ""}[neg], co, exp)
	case 2:
		co := []int64{1, 7, math.MaxInt64, math.MinInt64 + 1, 1000000000000000000, 999999999999999999}[r.Intn(6)]
		return ev.Event{K: ev.DFLOAT, DF: compact_float.DFloatValue(int32(exp), co)}, fmt.Sprintf("dfloat %de%d", co, exp)
	case 3:
		// binary exponents stay within +-100001 here: beyond that the unmarshal side is the known finding probed by
		// c07BigFloatProbe (decimal formatting of a big.Float is quadratic in its exponent)
		for exp > 100001 || exp < -100001 {
			exp /= 10
		}
		bf := new(big.Float).SetPrec(uint(24+r.Intn(200))).SetMantExp(big.NewFloat(1.5), int(exp))
		if neg {
			bf.Neg(bf)
		}
		return ev.Event{K: ev.BFLOAT, BF: bf}, fmt.Sprintf("bigfloat 1.5p%d neg=%v", exp, neg)
	case 4:
		bits := []uint{63, 64, 65, 127, 128, 1023, 1024, 1025, 16384, 65536, 200000}[r.Intn(11)]
		bi := new(big.Int).Lsh(big.NewInt(1), bits)
		if r.Intn(2) == 0 {
			bi.Sub(bi, big.NewInt(1))
		}
		if neg {
			bi.Neg(bi)
		}
		return ev.Event{K: ev.BINT, BI: bi}, fmt.Sprintf("bigint 2^%d neg=%v", bits, neg)
	default:
		f := []float64{math.MaxFloat64, math.SmallestNonzeroFloat64, 0x1p1023, 0x1p-1074, math.MaxFloat32, 0x1p63, 0x1p64, -0x1p63, 18446744073709549568, 9007199254740993}[r.Intn(10)]
		if neg {
			f = -f
		}
		return ev.Event{K: ev.FLOAT, F: f}, fmt.Sprintf("float %x", f)
	}
}

// c07BigFloatProbe: directed probe of the known finding "a CTE hex float with an extreme exponent makes typed unmarshaling
// spend CPU quadratic in the exponent" (21-byte document, uint template).
func c07BigFloatProbe(c *fw.Ctx) {
	doc := []byte("c0 -0x1.8p-2147483646")
	c.Note("C07 extreme-number probe %s", doc)
	c.Inc("inputs")
	c.Inc("family.extreme-number")
	cfg := configuration.New()
	c.Region("decode-bigfloat-extreme-exponent")
	c07Call(c, "UnmarshalFromCTEDocument(nil)", string(doc), func() (interface{}, error) { return ce.UnmarshalFromCTEDocument(doc, nil, cfg) })
	c07Call(c, "UnmarshalFromCTEDocument(*big.Float)", string(doc), func() (interface{}, error) { return ce.UnmarshalFromCTEDocument(doc, (*big.Float)(nil), cfg) })
	c.Region("unmarshal-bigfloat-extreme-exponent")
	c07Call(c, "UnmarshalFromCTEDocument(uint)", string(doc), func() (interface{}, error) { return ce.UnmarshalFromCTEDocument(doc, uint(0), cfg) })
}

func c07Numbers(c *fw.Ctx) {
	num, desc := c07ExtremeNumber(c)
	cfg := configuration.New()
	var gv interface{}
	switch num.K {
	case ev.BDFLOAT:
		gv = num.BD
	case ev.DFLOAT:
		gv = num.DF
	case ev.BFLOAT:
		gv = num.BF
	case ev.BINT:
		gv = num.BI
	default:
		gv = num.F
	}
	if c.Rng.Intn(3) == 0 {
		gv = []interface{}{gv, 1}
		desc += " in list"
	}
	c.Note("C07 extreme-number %s", desc)
	c.Inc("inputs")
	c.Inc("family.extreme-number")
	c.Distinct("extreme-number:" + desc)
	var docs [2][]byte
	c.Region("marshal-extreme-number-cbe")
	c07Call(c, fmt.Sprintf("MarshalToCBEDocument(%T)", gv), desc, func() (interface{}, error) {
		d, err := ce.MarshalToCBEDocument(gv, cfg)
		if err == nil {
			docs[0] = d
		}
		return d, err
	})
	c.Region("marshal-extreme-number-cte")
	c07Call(c, fmt.Sprintf("MarshalToCTEDocument(%T)", gv), desc, func() (interface{}, error) {
		d, err := ce.MarshalToCTEDocument(gv, cfg)
		if err == nil {
			docs[1] = d
		}
		return d, err
	})
	for di, doc := range docs {
		if doc == nil || len(doc) > 4<<20 {
			continue
		}
		doc := doc
		in := short(hexs(doc), 200)
		for ti, tmpl := range c07NumericTemplates() {
			tmpl := tmpl
			c.Region(fmt.Sprintf("unmarshal-number-doc%d-tmpl%d-%T", di, ti, tmpl))
			if di == 0 {
				c07Call(c, fmt.Sprintf("UnmarshalFromCBEDocument(%T)", tmpl), desc+" "+in, func() (interface{}, error) { return ce.UnmarshalFromCBEDocument(doc, tmpl, cfg) })
			} else {
				c07Call(c, fmt.Sprintf("UnmarshalFromCTEDocument(%T)", tmpl), desc+" "+in, func() (interface{}, error) { return ce.UnmarshalFromCTEDocument(doc, tmpl, cfg) })
			}
			if ti%5 == 0 {
				c07Call(c, fmt.Sprintf("UnmarshalCE(%T)", tmpl), desc+" "+in, func() (interface{}, error) { return ce.UnmarshalCE(bytes.NewReader(doc), tmpl, cfg) })
			}
		}
	}
}

// C07 family "low-limits": documents with real payload (long strings, media types, identifiers, arrays, deep nesting)
// decoded under configurations whose resource limits are far below the defaults, rules on and off: a limit must turn
// into an error, never into a loop or a panic.
func c07LowLimits(c *fw.Ctx) {
	r := c.Rng
	cfg := configuration.New()
	desc := ""
	switch r.Intn(4) {
	case 0:
		cfg.Rules.MaxArraySizeBytes = []uint64{127, 128, 200, 1024, 4096}[r.Intn(5)]
		desc = fmt.Sprintf("MaxArraySizeBytes=%d", cfg.Rules.MaxArraySizeBytes)
	case 1:
		cfg.Rules.MaxIdentifierLength = []uint64{1, 10, 127, 200}[r.Intn(4)]
		cfg.Rules.MaxArraySizeBytes = []uint64{127, 200, 1 << 30}[r.Intn(3)]
		desc = fmt.Sprintf("MaxIdentifierLength=%d MaxArraySizeBytes=%d", cfg.Rules.MaxIdentifierLength, cfg.Rules.MaxArraySizeBytes)
	case 2:
		cfg.Rules.MaxDocumentSizeBytes = []uint64{10, 200, 5000}[r.Intn(3)]
		cfg.Rules.MaxContainerDepth = []uint64{1, 3, 50}[r.Intn(3)]
		desc = fmt.Sprintf("MaxDocumentSizeBytes=%d MaxContainerDepth=%d", cfg.Rules.MaxDocumentSizeBytes, cfg.Rules.MaxContainerDepth)
	default:
		cfg.Rules.MaxObjectCount = []uint64{1, 5, 100}[r.Intn(3)]
		cfg.Rules.MaxLocalReferenceCount = []uint64{0, 1, 3}[r.Intn(3)]
		cfg.Rules.MaxArraySizeBytes = 300
		desc = fmt.Sprintf("MaxObjectCount=%d MaxLocalReferenceCount=%d MaxArraySizeBytes=300", cfg.Rules.MaxObjectCount, cfg.Rules.MaxLocalReferenceCount)
	}
	if r.Intn(3) == 0 {
		cfg.Marshal.EnforceRules = false
		desc += " rules-off"
	}
	n := []int{100, 126, 127, 128, 200, 300, 1000, 5000, 70000}[r.Intn(9)]
	pay := bytes.Repeat([]byte{'a'}, n)
	var doc []byte
	kind := r.Intn(8)
	switch kind {
	case 0: // long string
		doc = append(append([]byte{0x81, 0x00, 0x90}, c08Uleb(uint64(n)<<1)...), pay...)
	case 1: // media with a long media type
		doc = append(append([]byte{0x81, 0x00, 0x7f, 0xf3}, c08Uleb(uint64(n))...), pay...)
		doc = append(doc, 0x02, 0x00)
	case 2: // marker with a long identifier
		doc = append(append([]byte{0x81, 0x00, 0x7f, 0xf0}, c08Uleb(uint64(n))...), pay...)
		doc = append(doc, 0x01)
	case 3: // record type with a long name
		doc = append(append([]byte{0x81, 0x00, 0x7f, 0xf1}, c08Uleb(uint64(n))...), pay...)
		doc = append(doc, 0x9b, 0x7d)
	case 4: // long byte array in chunks
		doc = c08Chunked([]byte{0x93}, n, 100, 0xaa)
	case 5: // long resource id, remote reference
		doc = append(append([]byte{0x81, 0x00, []byte{0x91, 0x7f}[r.Intn(2)]}, c08Uleb(uint64(n)<<1)...), pay...)
	case 6: // deep nesting
		doc = append([]byte{0x81, 0x00}, bytes.Repeat([]byte{0x9a}, n%300)...)
		doc = append(doc, bytes.Repeat([]byte{0x9b}, n%300)...)
	default: // CTE text with long tokens
		doc = []byte("c0 [\"" + string(pay) + "\" &" + string(pay[:min(len(pay), n%100+1)]) + ":1 @\"" + string(pay) + "\"]")
	}
	if r.Intn(4) == 0 && len(doc) > 8 {
		doc = doc[:len(doc)-1-r.Intn(4)]
		desc += " truncated"
	}
	c.Note("C07 low-limits %s kind=%d payload=%d doc=%s", desc, kind, n, short(hexs(doc), 160))
	c.Inc("inputs")
	c.Inc("family.low-limits")
	c.Distinct(fmt.Sprintf("low-limits:%s:%d:%d", desc, kind, n))
	c.Region("low-limits-" + strings.Fields(desc)[0][:strings.Index(desc, "=")])
	in := fmt.Sprintf("%s kind=%d payload=%d", desc, kind, n)
	for _, tmpl := range []interface{}{nil, "", []interface{}(nil), map[string]interface{}(nil)} {
		tmpl := tmpl
		c07Call(c, "UnmarshalFromCEDocument(low-limits)", in, func() (interface{}, error) { return ce.UnmarshalFromCEDocument(doc, tmpl, cfg) })
		c07Call(c, "UnmarshalFromCBEDocument(low-limits)", in, func() (interface{}, error) { return ce.UnmarshalFromCBEDocument(doc, tmpl, cfg) })
		c07Call(c, "UnmarshalFromCTEDocument(low-limits)", in, func() (interface{}, error) { return ce.UnmarshalFromCTEDocument(doc, tmpl, cfg) })
	}
	c07Call(c, "UnmarshalCE(low-limits)", in, func() (interface{}, error) { return ce.UnmarshalCE(bytes.NewReader(doc), nil, cfg) })
	c07Call(c, "UnmarshalCBE(low-limits)", in, func() (interface{}, error) { return ce.UnmarshalCBE(bytes.NewReader(doc), nil, cfg) })
	for _, withRules := range []bool{true, false} {
		withRules := withRules
		mk := func() events.DataEventReceiver {
			if withRules {
				return rules.NewRules(nullevent.NewNullEventReceiver(), cfg)
			}
			return nullevent.NewNullEventReceiver()
		}
		c07Call(c, fmt.Sprintf("NewCBEDecoder.DecodeDocument(low-limits,rules=%v)", withRules), in, func() (interface{}, error) { return nil, ce.NewCBEDecoder(cfg).DecodeDocument(doc, mk()) })
		c07Call(c, fmt.Sprintf("NewCEDecoder.Decode(low-limits,rules=%v)", withRules), in, func() (interface{}, error) { return nil, ce.NewCEDecoder(cfg).Decode(bytes.NewReader(doc), mk()) })
		c07Call(c, fmt.Sprintf("NewCTEDecoder.DecodeDocument(low-limits,rules=%v)", withRules), in, func() (interface{}, error) { return nil, ce.NewCTEDecoder(cfg).DecodeDocument(doc, mk()) })
	}
}

// C07 family "self-referential": documents whose marked container holds a reference to itself (allowed when
// Rules.AllowRecursiveLocalReferences is set, or with rules off), with further references to the same marker landing in
// destinations that cannot hold a container. Building, failing and REPORTING the failure must all terminate: an error
// message that prints a cyclic value with %v recurses until the process dies.
type c07RecA struct {
	A []interface{}
	B int
}
type c07RecB struct {
	A []interface{}
	B string
}
type c07RecC struct {
	A map[string]interface{}
	B float64
	C bool
}
type c07RecD struct {
	A interface{}
	B uint8
	C []int
}

func c07Recursive(c *fw.Ctx) {
	r := c.Rng
	texts := []string{`{"a"=&x:[1 $x] "b"=$x}`, `{"a"=&x:[$x] "b"=$x}`, `{"a"=&x:{"k"=$x "j"=1} "b"=$x "c"=$x}`, `[&x:[$x $x] $x]`, `&x:[$x]`,
		`{"a"=&x:[[$x]] "b"=$x "c"=$x}`, `{"b"=$x "a"=&x:[1 $x]}`, `[&x:{"a"=$x} {"b"=$x}]`, `{"a"=&x:(1 $x) "b"=$x}`}
	text := "c0 " + texts[r.Intn(len(texts))]
	cfg := configuration.New()
	desc := text
	if r.Intn(2) == 0 {
		cfg.Rules.AllowRecursiveLocalReferences = true
		desc += " allow-recursive"
	} else {
		cfg.Marshal.EnforceRules = false
		desc += " rules-off"
	}
	doc := []byte(text)
	if r.Intn(2) == 0 {
		// the CBE twin (converted without a validator in front)
		var buf bytes.Buffer
		enc := ce.NewCBEEncoder(cfg)
		enc.PrepareToEncode(&buf)
		if p, _ := fw.Guard(func() { _ = ce.NewCTEDecoder(cfg).DecodeDocument(doc, enc) }); p == nil && buf.Len() > 2 {
			doc = append([]byte{}, buf.Bytes()...)
			desc += " as-cbe"
		}
	}
	c.Note("C07 self-referential %s", desc)
	c.Inc("inputs")
	c.Inc("family.self-referential")
	c.Distinct("self-referential:" + desc)
	for ti, tmpl := range []interface{}{c07RecA{}, c07RecB{}, c07RecC{}, c07RecD{}, nil, []interface{}(nil), map[string]interface{}(nil), []int(nil), "", 0} {
		tmpl := tmpl
		c.Region(fmt.Sprintf("self-referential-tmpl%d", ti))
		c07Call(c, fmt.Sprintf("UnmarshalFromCEDocument(%T)", tmpl), desc, func() (interface{}, error) { return ce.UnmarshalFromCEDocument(doc, tmpl, cfg) })
		if doc[0] == 0x81 {
			c07Call(c, fmt.Sprintf("UnmarshalFromCBEDocument(%T)", tmpl), desc, func() (interface{}, error) { return ce.UnmarshalFromCBEDocument(doc, tmpl, cfg) })
		} else {
			c07Call(c, fmt.Sprintf("UnmarshalFromCTEDocument(%T)", tmpl), desc, func() (interface{}, error) { return ce.UnmarshalFromCTEDocument(doc, tmpl, cfg) })
		}
	}
}
