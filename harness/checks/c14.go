package checks

import (
	"fmt"
	"io"
	"math"
	"sort"

	"github.com/kstenerud/go-concise-encoding/ce"
	"github.com/kstenerud/go-concise-encoding/configuration"
	"github.com/kstenerud/go-concise-encoding/rules"

	"verifharness/ev"
	"verifharness/fw"
)

// C14 — configured resource limits are enforced exactly.
//
// Monitor: for a document D and one limit X the check runs the real validator (alone, or behind the
// CBE / CTE decoder) under many configurations that differ only in X and records accept / reject.
// From those observations it derives the threshold L* (smallest accepted value, found by an
// exponential + binary search) and then decides with three oracles:
//   (i)   monotone threshold: every observed L <  L* rejected, every observed L >= L* accepted
//         (L*-2..L*+2, smallest legal value, random values on both sides, very large values);
//   (ii)  L* lies in [usage.Lo, usage.Hi] of the independent usage model (c14_model.go); Lo == Hi for
//         the dimensions the property defines unambiguously;
//   (iii) with all limits at the document's usage at once the document is accepted, and with any one of
//         them one below usage (others at usage / usage+1 / default) it is rejected.

type c14Dim int

const (
	c14Depth c14Dim = iota
	c14Objects
	c14Array
	c14Ident
	c14Markers
	c14DocSize
	c14NumDims
)

var c14DimNames = [...]string{"depth", "objects", "array", "identifier", "markers", "docsize"}

func (d c14Dim) String() string { return c14DimNames[d] }

func c14SetLimit(cfg *configuration.Configuration, d c14Dim, v uint64) {
	switch d {
	case c14Depth:
		cfg.Rules.MaxContainerDepth = v
	case c14Objects:
		cfg.Rules.MaxObjectCount = v
	case c14Array:
		cfg.Rules.MaxArraySizeBytes = v
	case c14Ident:
		cfg.Rules.MaxIdentifierLength = v
	case c14Markers:
		cfg.Rules.MaxLocalReferenceCount = v
	case c14DocSize:
		cfg.Rules.MaxDocumentSizeBytes = v
	}
}

func c14GetLimit(cfg *configuration.Configuration, d c14Dim) uint64 {
	switch d {
	case c14Depth:
		return cfg.Rules.MaxContainerDepth
	case c14Objects:
		return cfg.Rules.MaxObjectCount
	case c14Array:
		return cfg.Rules.MaxArraySizeBytes
	case c14Ident:
		return cfg.Rules.MaxIdentifierLength
	case c14Markers:
		return cfg.Rules.MaxLocalReferenceCount
	}
	return cfg.Rules.MaxDocumentSizeBytes
}

// c14DomainMin is the smallest value of a limit that is swept. MaxArraySizeBytes == 0 means
// "unlimited" in the library, so the array limit starts at 1.
func c14DomainMin(d c14Dim) uint64 {
	if d == c14Array {
		return 1
	}
	return 0
}

// c14Target is one way of presenting a document to the validator.
type c14Target struct {
	path    string // rules | cbe | cte
	stream  []ev.Event
	doc     []byte
	decoded []ev.Event // what the decoder+validator delivered under the default configuration
	dims    []c14Dim
	runs    int64
}

type c14Verdict struct {
	accepted bool
	err      string
	escaped  bool // a panic escaped a public decoder entry point
	disagree bool // DecodeDocument and Decode(reader) gave different verdicts for the same document and configuration
}

// c14SlowReader hands a document out in reads of at most step bytes.
type c14SlowReader struct {
	data []byte
	step int
}

func (r *c14SlowReader) Read(p []byte) (int, error) {
	if len(r.data) == 0 {
		return 0, io.EOF
	}
	n := r.step
	if n > len(p) {
		n = len(p)
	}
	if n > len(r.data) {
		n = len(r.data)
	}
	copy(p, r.data[:n])
	r.data = r.data[n:]
	return n, nil
}

func (t *c14Target) run(cfg *configuration.Configuration) c14Verdict {
	t.runs++
	switch t.path {
	case "rules":
		r := rules.NewRules(nil, cfg)
		idx, p := replayAuto(r, t.stream)
		if idx >= 0 {
			return c14Verdict{err: fmt.Sprintf("event %d (%s): %s", idx, t.stream[idx].K, short(ev.PanicString(p), 200))}
		}
		return c14Verdict{accepted: true}
	default:
		var dec ce.Decoder
		if t.path == "cbe" {
			dec = ce.NewCBEDecoder(cfg)
		} else {
			dec = ce.NewCTEDecoder(cfg)
		}
		// both public entry points of the decoder: the whole document, and a reader that hands it out in small reads
		var err, rerr error
		p, _ := fw.Guard(func() { err = dec.DecodeDocument(t.doc, rules.NewRules(nil, cfg)) })
		if p != nil {
			return c14Verdict{err: "escaped panic: " + short(ev.PanicString(p), 200), escaped: true}
		}
		if t.path == "cte" && cfg.Rules.MaxDocumentSizeBytes == c14DefaultDocSize {
			// the CTE parser is two orders of magnitude slower than everything else here: its reader entry point is run
			// where the two entry points differ in what they do (the document size limit), not for every other limit too
			if err != nil {
				return c14Verdict{err: short(err.Error(), 200)}
			}
			return c14Verdict{accepted: true}
		}
		p, _ = fw.Guard(func() {
			rerr = dec.Decode(&c14SlowReader{data: t.doc, step: 1 + int(t.runs%7)*5}, rules.NewRules(nil, cfg))
		})
		if p != nil {
			return c14Verdict{err: "escaped panic (reader): " + short(ev.PanicString(p), 200), escaped: true}
		}
		if (err == nil) != (rerr == nil) {
			return c14Verdict{accepted: err == nil, err: fmt.Sprintf("DecodeDocument: %v / Decode(reader): %v", err, rerr), disagree: true}
		}
		if err != nil {
			return c14Verdict{err: short(err.Error(), 200)}
		}
		return c14Verdict{accepted: true}
	}
}

func (t *c14Target) withLimit(d c14Dim, v uint64) c14Verdict {
	cfg := configuration.New()
	c14SetLimit(cfg, d, v)
	return t.run(cfg)
}

func (t *c14Target) describe() map[string]interface{} {
	m := map[string]interface{}{"path": t.path}
	if t.stream != nil {
		m["stream"] = ev.LogStrings(t.stream)
	}
	if t.decoded != nil {
		m["decoded"] = ev.LogStrings(t.decoded)
	}
	if t.path == "cbe" {
		m["doc_hex"] = hexs(t.doc)
	}
	if t.path == "cte" {
		m["doc_text"] = short(string(t.doc), 8192)
	}
	return m
}

var c14DefaultDocSize = configuration.New().Rules.MaxDocumentSizeBytes

var c14LargeValues = []uint64{1 << 31, 1<<32 + 1, 1 << 62, 1<<63 - 1, 1 << 63, math.MaxUint64}

func c14Bucket(v uint64) string {
	switch {
	case v == 0:
		return "0"
	case v == 1:
		return "1"
	case v <= 3:
		return "2-3"
	case v <= 7:
		return "4-7"
	case v <= 15:
		return "8-15"
	case v <= 63:
		return "16-63"
	case v <= 255:
		return "64-255"
	case v <= 4095:
		return "256-4095"
	}
	return "4096+"
}

// c14Calibrate finds L* for one limit and checks oracles (i) and (ii). It returns L* and ok=false
// if a failure was recorded.
func c14Calibrate(c *fw.Ctx, t *c14Target, d c14Dim, u c14Usage) (lstar uint64, ok bool) {
	seen := map[uint64]c14Verdict{}
	var disagreeAt []uint64
	probe := func(v uint64) c14Verdict {
		if r, hit := seen[v]; hit {
			return r
		}
		r := t.withLimit(d, v)
		seen[v] = r
		if r.disagree {
			disagreeAt = append(disagreeAt, v)
		}
		return r
	}
	fail := func(sig string, extra map[string]interface{}) {
		det := t.describe()
		det["limit"] = d.String()
		det["usage_lo"], det["usage_hi"] = u.Lo[d], u.Hi[d]
		var obs []string
		var keys []uint64
		for k := range seen {
			keys = append(keys, k)
		}
		sort.Slice(keys, func(i, j int) bool { return keys[i] < keys[j] })
		for _, k := range keys {
			r := seen[k]
			if r.accepted {
				obs = append(obs, fmt.Sprintf("%d:accept", k))
			} else {
				obs = append(obs, fmt.Sprintf("%d:reject(%s)", k, short(r.err, 80)))
			}
		}
		det["observations"] = obs
		for k, v := range extra {
			det[k] = v
		}
		c.Fail("limit:"+t.path+":"+d.String()+":"+sig, det)
	}
	c.Region("C14." + t.path + "." + d.String())
	def := c14GetLimit(configuration.New(), d)
	lo := c14DomainMin(d)
	// exponential search for an accepted value (the default value is known to accept)
	accepted := lo
	if !probe(lo).accepted {
		rejected := lo // largest value known to be rejected
		step := uint64(1)
		for {
			v := lo + step
			if v >= def {
				v = def
			}
			if probe(v).accepted {
				accepted = v
				break
			}
			if v == def {
				fail("rejected-at-default", nil)
				return 0, false
			}
			rejected = v
			step *= 2
		}
		for accepted-rejected > 1 {
			mid := rejected + (accepted-rejected)/2
			if probe(mid).accepted {
				accepted = mid
			} else {
				rejected = mid
			}
		}
	}
	lstar = accepted
	// (i) monotone threshold
	sweep := []uint64{lo, lo + 1, def}
	for k := uint64(0); k <= 2; k++ {
		if lstar >= lo+k {
			sweep = append(sweep, lstar-k)
		}
		sweep = append(sweep, lstar+k)
	}
	if lstar > lo {
		sweep = append(sweep, lo+uint64(c.Rng.Int63n(int64(lstar-lo))))
	}
	sweep = append(sweep, lstar+1+uint64(c.Rng.Int63n(int64(lstar)+10)), lstar+uint64(c.Rng.Int63n(1<<20)))
	sweep = append(sweep, c14LargeValues...)
	sort.Slice(sweep, func(i, j int) bool { return sweep[i] < sweep[j] })
	good := true
	for _, v := range sweep {
		r := probe(v)
		if r.escaped {
			fail("escaped-panic", map[string]interface{}{"at": v, "lstar": lstar})
			return lstar, false
		}
		want := v >= lstar
		if r.accepted != want {
			good = false
			if want {
				cls := "above-threshold"
				if v >= 1<<63 {
					cls = "above-threshold@limit>=2^63"
				}
				fail("rejected-"+cls, map[string]interface{}{"at": fmt.Sprint(v), "lstar": lstar, "error": r.err})
			} else {
				fail("accepted-below-threshold", map[string]interface{}{"at": v, "lstar": lstar})
			}
			break
		}
	}
	c.Count("configs_run."+t.path, int64(len(seen)))
	if len(disagreeAt) > 0 {
		fail("entry-points-disagree", map[string]interface{}{"at": disagreeAt, "lstar": lstar, "verdicts": seen[disagreeAt[0]].err})
		return lstar, false
	}
	if !good {
		return lstar, false
	}
	// (ii) threshold against the usage model
	uLo, uHi := u.Lo[d], u.Hi[d]
	if uLo < lo {
		uLo = lo
	}
	if uHi < lo {
		uHi = lo
	}
	switch {
	case lstar < uLo:
		// a document whose usage exceeds the limit was accepted
		fail("threshold-below-usage", map[string]interface{}{"lstar": lstar})
		return lstar, false
	case lstar > uHi:
		// a document within the limit was rejected
		fail("threshold-above-usage", map[string]interface{}{"lstar": lstar, "error": seen[lstar-1].err})
		return lstar, false
	}
	c.Eval()
	c.Inc("calibrated." + t.path + "." + d.String())
	c.Inc("lstar." + d.String() + "." + c14Bucket(lstar))
	if u.Lo[d] == u.Hi[d] {
		c.Inc("model.exact." + d.String())
	} else {
		c.Inc("model.range." + d.String())
	}
	return lstar, true
}

// c14Combos checks oracle (iii): all limits at usage at once -> accepted; one limit below usage and
// the others at usage, usage+1 or default -> rejected.
func c14Combos(c *fw.Ctx, t *c14Target, u c14Usage) bool {
	c.Region("C14." + t.path + ".combos")
	at := func(d c14Dim) uint64 {
		v := u.Hi[d]
		if v < c14DomainMin(d) {
			v = c14DomainMin(d)
		}
		return v
	}
	describeCfg := func(vals map[c14Dim]uint64) map[string]uint64 {
		m := map[string]uint64{}
		for d, v := range vals {
			m[d.String()] = v
		}
		return m
	}
	runWith := func(vals map[c14Dim]uint64) c14Verdict {
		cfg := configuration.New()
		for d, v := range vals {
			c14SetLimit(cfg, d, v)
		}
		return t.run(cfg)
	}
	all := map[c14Dim]uint64{}
	for _, d := range t.dims {
		all[d] = at(d)
	}
	if r := runWith(all); !r.accepted {
		det := t.describe()
		det["config"] = describeCfg(all)
		det["error"] = r.err
		c.Fail("limit:"+t.path+":all-at-usage:rejected", det)
		return false
	}
	c.Eval()
	c.Inc("combo.all-at-usage." + t.path)
	for k := 0; k < 3; k++ {
		vals := map[c14Dim]uint64{}
		for _, d := range t.dims {
			switch c.Rng.Intn(3) {
			case 0:
				vals[d] = at(d)
			case 1:
				vals[d] = at(d) + 1
			}
		}
		// candidates for "one below usage": need Lo-1 inside the domain
		var cands []c14Dim
		for _, d := range t.dims {
			if u.Lo[d] > c14DomainMin(d) {
				cands = append(cands, d)
			}
		}
		below := c14Dim(-1)
		if len(cands) > 0 && k < 2 {
			below = cands[c.Rng.Intn(len(cands))]
			vals[below] = u.Lo[below] - 1
		}
		r := runWith(vals)
		if r.disagree {
			det := t.describe()
			det["config"] = describeCfg(vals)
			det["verdicts"] = r.err
			c.Fail("limit:"+t.path+":combo:entry-points-disagree", det)
			return false
		}
		if r.escaped {
			det := t.describe()
			det["config"] = describeCfg(vals)
			det["error"] = r.err
			c.Fail("limit:"+t.path+":combo:escaped-panic", det)
			return false
		}
		if below >= 0 && r.accepted {
			det := t.describe()
			det["config"] = describeCfg(vals)
			det["below"] = below.String()
			det["usage_lo"] = u.Lo[below]
			c.Fail("limit:"+t.path+":combo:"+below.String()+":accepted-below-usage", det)
			return false
		}
		if below < 0 && !r.accepted {
			det := t.describe()
			det["config"] = describeCfg(vals)
			det["error"] = r.err
			c.Fail("limit:"+t.path+":combo:rejected-within-limits", det)
			return false
		}
		c.Eval()
		if below >= 0 {
			c.Inc("combo.one-below." + t.path + "." + below.String())
		} else {
			c.Inc("combo.within." + t.path)
		}
	}
	return true
}

var c14RulesDims = []c14Dim{c14Depth, c14Objects, c14Array, c14Ident, c14Markers}
var c14DecoderDims = []c14Dim{c14Depth, c14Objects, c14Array, c14Ident, c14Markers, c14DocSize}

func c14RunTarget(c *fw.Ctx, t *c14Target, u c14Usage) {
	okAll := true
	for _, d := range t.dims {
		if _, ok := c14Calibrate(c, t, d, u); !ok {
			okAll = false
		}
	}
	if okAll {
		c14Combos(c, t, u)
	}
	c.Count("library_runs."+t.path, t.runs)
}

func init() {
	fw.Register(&fw.Check{
		ID:    "C14",
		Level: "exploration",
		Rule: "case = one document (directed documents first, then PRNG-generated rules-valid event streams with containers, nodes/edges, record types, markers/references, chunked and whole arrays, " +
			"media, custom types, comments and padding, optionally wrapped in extra containers) presented three ways: as events to rules.NewRules, and encoded to CBE / CTE and given to " +
			"ce.NewCBEDecoder/ce.NewCTEDecoder(cfg).DecodeDocument(doc, rules.NewRules(nil,cfg)) and .Decode(reader handing out 1..31 bytes per read, rules) — the two entry points must agree under every configuration (for CTE, whose parser dominates the cost, the reader entry point is run whenever the document size limit is not the default); " +
			"one CTE document in three gets trailing white space and top-level scalars are among the directed documents, so a document cut at the limit can still be well-formed. For each limit (MaxContainerDepth, MaxObjectCount, MaxArraySizeBytes, MaxIdentifierLength, " +
			"MaxLocalReferenceCount as the marker limit, and MaxDocumentSizeBytes for the decoders) with all other limits at default, the smallest accepted value L* is found by exponential+binary search and " +
			"L*-2..L*+2, the smallest legal value, random values on both sides, the default and 2^31..2^64-1 are run. Oracle: (i) rejected below L*, accepted from L* on; (ii) L* equals the usage computed by an " +
			"independent model from the (decoded) event log: max nesting of list/map/node/edge/record/record type, largest array payload in bytes (chunks summed, bit arrays rounded up), longest identifier in bytes, " +
			"number of markers, document length in bytes; object count only within [#value objects, #all events that introduce an object, pseudo-object or invisible object]; (iii) all limits at usage at once -> accepted, " +
			"any one limit one below usage with the others at usage / usage+1 / default -> rejected. One evaluation = one (document, path, limit) calibration or one combined configuration. " +
			"Non-trivial = document has >=1 container and >=3 values; distinct = distinct rendered event logs.",
		Assumptions: []string{"markers are limited by Rules.MaxLocalReferenceCount (Rules.MaxMarkerCount is not read by the library; reported, not asserted)",
			"identifier length is measured in bytes", "MaxArraySizeBytes=0 means unlimited and is not swept",
			"where the property does not say whether something counts (markers, references, record types and their keys, comments, padding for the object count; media type bytes and comment text for the array size) the model gives a range and only the range is asserted",
			"documents for the decoder paths are produced by the library's own encoders and used only if they decode under the default configuration",
			"generator bounds: depth<=30, <=300 values, arrays <=5000 elements, identifiers <=300 bytes, <=30 markers"},
		Cases:    func(tier string) int { return tierN(tier, 1200, 16000) },
		Run:      runC14,
		MaxBatch: 40,
		Floors: func(string) map[string]int64 {
			m := map[string]int64{"docs.rules": 300, "docs.cbe": 200, "docs.cte": 100, "feature.chunked-array": 1, "feature.node": 1, "feature.edge": 1, "feature.record": 1,
				"feature.rectype": 1, "feature.media": 1, "feature.bit-array": 1, "feature.marker": 1, "feature.multibyte-identifier": 1}
			for _, p := range []string{"rules", "cbe", "cte"} {
				for _, d := range c14DecoderDims {
					if p == "rules" && d == c14DocSize {
						continue
					}
					m["calibrated."+p+"."+d.String()] = 50
				}
				m["combo.all-at-usage."+p] = 50
			}
			for _, d := range c14DecoderDims {
				m["model.exact."+d.String()] = 50
			}
			return m
		},
	})
}

func runC14(c *fw.Ctx, idx int) {
	cs := c14MakeCase(c, idx)
	if cs.stream != nil {
		c.Note("stream %s", ev.LogString(cs.stream))
		// rules path
		c.Region("C14.rules.default")
		t := &c14Target{path: "rules", stream: cs.stream, dims: c14RulesDims}
		if v := t.run(configuration.New()); !v.accepted {
			c.Inc("skipped.rules.rejected-at-default")
			if idx < c14Directed {
				c.Fail("harness:directed-document-rejected", map[string]interface{}{"stream": ev.LogStrings(cs.stream), "error": v.err})
			}
			c.Inc("skipped_reason." + c15SanitizeKey(short(v.err, 40)))
		} else {
			u := c14Model(cs.stream, 0)
			c.Inc("docs.rules")
			c14Features(c, cs.stream)
			if nontrivialStream(cs.stream) {
				c.Distinct(ev.LogString(cs.stream))
			}
			c14RunTarget(c, t, u)
			if c.WantSample() && nontrivialStream(cs.stream) && len(cs.stream) < 60 {
				c.Sample(map[string]interface{}{"stream": ev.LogStrings(cs.stream), "usage_lo": u.Lo, "usage_hi": u.Hi})
			}
			// informational: the library never reads Rules.MaxMarkerCount
			if u.Lo[c14Markers] > 0 {
				cfg := configuration.New()
				cfg.Rules.MaxMarkerCount = 0
				if t.run(cfg).accepted {
					c.Inc("observed.MaxMarkerCount-ignored")
				} else {
					c.Inc("observed.MaxMarkerCount-enforced")
				}
			}
		}
	}
	for _, path := range []string{"cbe", "cte"} {
		doc := cs.cbe
		if path == "cte" {
			doc = cs.cte
		}
		if doc == nil {
			continue
		}
		c.Note("%s doc %s", path, hexs(doc))
		c.Region("C14." + path + ".default")
		cfg := configuration.New()
		var dec ce.Decoder
		if path == "cbe" {
			dec = ce.NewCBEDecoder(cfg)
		} else {
			dec = ce.NewCTEDecoder(cfg)
		}
		res := decodeDoc(dec, doc, cfg, true)
		if res.Panic != nil {
			c.Fail("limit:"+path+":default:escaped-panic", map[string]interface{}{"doc_hex": hexs(doc), "panic": ev.PanicString(res.Panic), "stack": res.Stack})
			continue
		}
		if res.Err != nil {
			c.Inc("skipped." + path + ".rejected-at-default")
			if cs.stream == nil {
				c.Fail("harness:hand-written-document-rejected", map[string]interface{}{"doc_hex": hexs(doc), "error": res.Err.Error()})
			}
			continue
		}
		u := c14Model(res.Log, len(doc))
		c.Inc("docs." + path)
		t := &c14Target{path: path, doc: doc, decoded: res.Log, dims: c14DecoderDims}
		c14RunTarget(c, t, u)
	}
}
