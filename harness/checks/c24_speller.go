package checks

// CTE literal speller for C24: renders chosen exact values in many spellings. Every literal carries
// the value the speller intended (Want*), computed from the pieces before rendering; the check
// cross-checks it against the reference evaluation of the rendered text (c24_literal.go), so a bug
// in either is reported as a harness failure rather than blamed on the library.

import (
	"encoding/hex"
	"fmt"
	"math/big"
	"math/rand"
	"strings"
	"unicode/utf8"
)

type c24Lit struct {
	Text  string
	Cat   string   // int, dfloat, hfloat, special, iarr, farr, str, outside
	Feats []string // features for the coverage histogram
	// intent (empty when the speller makes no claim, e.g. deliberately malformed text)
	WantNum string
	WantStr []byte
	WantArr string // "<type>:<little-endian hex of all elements>" for arrays whose elements are all exact
	HasWant bool
}

func (l *c24Lit) feat(f string) { l.Feats = append(l.Feats, f) }

type c24Speller struct {
	r       *rand.Rand
	leadOne bool // the next integer element is written with exactly one leading zero
}

func (s *c24Speller) chance(p float64) bool    { return s.r.Float64() < p }
func (s *c24Speller) pick(xs ...string) string { return xs[s.r.Intn(len(xs))] }

// digits renders mag in base with optional leading zeros, random letter case and '_' separators.
type c24DigitStyle struct {
	lead  int     // leading zeros to add
	sep   float64 // probability of a separator run between two digits
	multi bool    // separator runs may be longer than one
	upper float64 // probability of an upper-case letter digit
}

func (s *c24Speller) style(l *c24Lit) c24DigitStyle {
	st := c24DigitStyle{}
	switch s.r.Intn(6) {
	case 0:
		st.lead = 1 + s.r.Intn(3)
		l.feat("leadzero")
	case 1:
		st.sep = 0.3
		l.feat("sep")
	case 2:
		st.sep = 0.4
		st.multi = true
		st.lead = s.r.Intn(2)
		l.feat("sep")
		l.feat("multisep")
		if st.lead > 0 {
			l.feat("leadzero")
		}
	}
	st.upper = []float64{0, 0, 1, 0.5}[s.r.Intn(4)]
	return st
}

func (s *c24Speller) digitString(ds string, st c24DigitStyle) string {
	ds = strings.Repeat("0", st.lead) + ds
	var sb strings.Builder
	for i := 0; i < len(ds); i++ {
		ch := ds[i]
		if ch >= 'a' && ch <= 'f' && s.chance(st.upper) {
			ch -= 32
		}
		sb.WriteByte(ch)
		if i+1 < len(ds) && st.sep > 0 && s.chance(st.sep) {
			n := 1
			if st.multi {
				n += s.r.Intn(3)
			}
			sb.WriteString(strings.Repeat("_", n))
		}
	}
	return sb.String()
}

func (s *c24Speller) digits(mag *big.Int, base int, st c24DigitStyle) string {
	return s.digitString(mag.Text(base), st)
}

func (s *c24Speller) prefix(base int) string {
	switch base {
	case 2:
		return s.pick("0b", "0B")
	case 8:
		return s.pick("0o", "0O")
	case 16:
		return s.pick("0x", "0X")
	}
	return ""
}

func c24Pow2(k uint) *big.Int { return new(big.Int).Lsh(big.NewInt(1), k) }

// intMagnitude picks a magnitude: small, around a power of two, random 64-bit, or big.
func (s *c24Speller) intMagnitude() *big.Int {
	switch s.r.Intn(8) {
	case 0:
		return big.NewInt(int64(s.r.Intn(20)))
	case 1, 2:
		k := []uint{7, 8, 15, 16, 31, 32, 53, 63, 64, 65, 127, 128}[s.r.Intn(12)]
		v := c24Pow2(k)
		return v.Add(v, big.NewInt(int64(s.r.Intn(3)-1)))
	case 3:
		v := new(big.Int).Rand(s.r, c24Pow2(uint(65+s.r.Intn(200))))
		return v
	case 4:
		return new(big.Int).SetUint64(s.r.Uint64() >> uint(s.r.Intn(64)))
	}
	return new(big.Int).SetUint64(s.r.Uint64())
}

var c24Bases = []int{2, 8, 10, 16}

func c24BaseName(b int) string { return fmt.Sprintf("base%d", b) }

// Int spells an integer scalar.
func (s *c24Speller) Int(neg bool, mag *big.Int, base int) c24Lit {
	l := c24Lit{Cat: "int"}
	st := s.style(&l)
	l.feat(c24BaseName(base))
	txt := s.prefix(base) + s.digits(mag, base, st)
	if base != 10 && txt[1] >= 'A' && txt[1] <= 'Z' {
		l.feat("upperprefix")
	}
	if neg {
		txt = "-" + txt
		l.feat("neg")
		if mag.Sign() == 0 {
			l.feat("negzero")
		}
	}
	if mag.BitLen() > 64 {
		l.feat("big")
	}
	l.Text = txt
	l.WantNum = c24CanonDec(neg, mag, 0)
	l.HasWant = true
	return l
}

func (s *c24Speller) RandomInt() c24Lit {
	return s.Int(s.chance(0.4), s.intMagnitude(), c24Bases[s.r.Intn(4)])
}

func (s *c24Speller) randDigits(n int, base int) string {
	const hexd = "0123456789abcdef"
	b := make([]byte, n)
	for i := range b {
		b[i] = hexd[s.r.Intn(base)]
	}
	return string(b)
}

// expText renders an exponent value with sign/zero/separator variants.
func (s *c24Speller) expText(l *c24Lit, e int64) string {
	sign := ""
	if e < 0 {
		sign = "-"
		e = -e
	} else if s.chance(0.3) {
		sign = "+"
		l.feat("exp.plus")
	}
	st := c24DigitStyle{}
	if s.chance(0.15) {
		st.lead = 1 + s.r.Intn(2)
		l.feat("exp.leadzero")
	}
	if s.chance(0.1) {
		st.sep = 0.5
		l.feat("exp.sep")
	}
	return sign + s.digitString(fmt.Sprint(e), st)
}

// DecFloat spells a decimal float from pieces.
func (s *c24Speller) DecFloat() c24Lit {
	l := c24Lit{Cat: "dfloat"}
	neg := s.chance(0.35)
	var ip, fp string
	long := s.chance(0.25)
	switch s.r.Intn(5) {
	case 0:
		ip = "0"
	case 1:
		ip = s.randDigits(1+s.r.Intn(3), 10)
	default:
		n := 1 + s.r.Intn(9)
		if long {
			n = 10 + s.r.Intn(30)
		}
		ip = s.randDigits(n, 10)
	}
	hasFrac := s.chance(0.7)
	hasExp := !hasFrac || s.chance(0.5)
	if hasFrac {
		n := 1 + s.r.Intn(9)
		if long {
			n = 5 + s.r.Intn(30)
		}
		fp = s.randDigits(n, 10)
		if s.chance(0.1) {
			fp = strings.Repeat("0", len(fp))
		}
		l.feat("frac")
	}
	if s.chance(0.08) {
		ip = strings.Repeat("0", len(ip))
		if s.chance(0.5) {
			fp = strings.Repeat("0", len(fp))
		}
	}
	var e int64
	st := s.style(&l)
	txt := s.digitString(ip, st)
	ip = strings.Repeat("0", st.lead) + ip
	st.lead = 0
	if hasFrac {
		txt += "." + s.digitString(fp, st)
	}
	if hasExp {
		switch s.r.Intn(6) {
		case 0:
			e = 0
		case 1:
			e = int64(s.r.Intn(6000)) - 3000
			l.feat("exp.large")
		default:
			e = int64(s.r.Intn(700)) - 350
		}
		txt += s.pick("e", "E") + s.expText(&l, e)
		l.feat("exp")
	}
	if len(ip)+len(fp) > 18 {
		l.feat("coeff>18digits")
	} else {
		l.feat("coeff<=18digits")
	}
	coeff, _ := new(big.Int).SetString(ip+fp, 10)
	if neg {
		txt = "-" + txt
		l.feat("neg")
		if coeff.Sign() == 0 {
			l.feat("negzero")
		}
	}
	l.Text = txt
	l.WantNum = c24CanonDec(neg, coeff, e-int64(len(fp)))
	l.HasWant = true
	return l
}

// HexFloat spells a hexadecimal float from pieces. target selects the exponent range.
func (s *c24Speller) HexFloat() c24Lit {
	l := c24Lit{Cat: "hfloat"}
	neg := s.chance(0.35)
	var ip, fp string
	nI := 1 + s.r.Intn(4)
	nF := 0
	hasFrac := s.chance(0.75)
	switch s.r.Intn(5) {
	case 0: // long mantissa (more than a float64 holds)
		nI = 1 + s.r.Intn(10)
		nF = 8 + s.r.Intn(40)
		hasFrac = true
		l.feat("longmant")
	case 1:
		ip = s.pick("0", "1", "00", "01")
	}
	if ip == "" {
		ip = s.randDigits(nI, 16)
	}
	if hasFrac {
		if nF == 0 {
			nF = 1 + s.r.Intn(13)
		}
		fp = s.randDigits(nF, 16)
		if s.chance(0.1) {
			// many leading zeros in the fraction
			z := s.r.Intn(len(fp))
			fp = strings.Repeat("0", z) + fp[z:]
			if s.chance(0.3) {
				ip = "0"
			}
		}
		l.feat("frac")
	}
	if s.chance(0.05) {
		ip, fp = strings.Repeat("0", len(ip)), strings.Repeat("0", len(fp))
	}
	hasExp := !hasFrac || s.chance(0.7)
	var e int64
	if hasExp {
		mant, _ := new(big.Int).SetString(ip+fp, 16)
		msb := int64(mant.BitLen()) - 4*int64(len(fp)) // value is in [2^(msb-1), 2^msb) for e = 0
		switch s.r.Intn(7) {
		case 0:
			e = 0
		case 1: // subnormal float64 range
			e = -1022 - int64(s.r.Intn(54)) - msb + 1
			l.feat("exp.subnormal64")
		case 2: // just below the smallest subnormal
			e = -1075 - int64(s.r.Intn(10)) - msb + 1
			l.feat("exp.below-subnormal64")
		case 3: // around float64 overflow
			e = 1020 + int64(s.r.Intn(10)) - msb
			l.feat("exp.near-max64")
		case 4:
			e = int64(s.r.Intn(8000)) - 4000
			l.feat("exp.large")
		default:
			e = int64(s.r.Intn(200)) - 100
		}
		l.feat("exp")
	}
	st := s.style(&l)
	txt := s.pick("0x", "0X") + s.digitString(ip, st)
	st.lead = 0
	if hasFrac {
		txt += "." + s.digitString(fp, st)
	}
	if hasExp {
		txt += s.pick("p", "P") + s.expText(&l, e)
	}
	mant, _ := new(big.Int).SetString(ip+fp, 16)
	if neg {
		txt = "-" + txt
		l.feat("neg")
		if mant.Sign() == 0 {
			l.feat("negzero")
		}
	}
	l.Text = txt
	l.WantNum = c24CanonBin(neg, mant, e-4*int64(len(fp)))
	l.HasWant = true
	return l
}

func (s *c24Speller) randCase(w string) string {
	b := []byte(w)
	for i := range b {
		if b[i] >= 'a' && b[i] <= 'z' && s.chance(0.5) {
			b[i] -= 32
		}
	}
	return string(b)
}

func (s *c24Speller) Special() c24Lit {
	l := c24Lit{Cat: "special", HasWant: false}
	w := s.pick("inf", "-inf", "nan", "snan")
	l.feat(w)
	l.Text = s.randCase(w)
	return l
}

// Malformed renders spellings just outside the grammar (the oracle only counts what happens).
func (s *c24Speller) Malformed() c24Lit {
	l := c24Lit{Cat: "outside"}
	base := s.pick("12", "0x1f", "0b101", "0o17", "1.5", "1e5", "0x1.8p3")
	switch s.r.Intn(12) {
	case 0:
		l.Text = base + "_"
	case 1:
		l.Text = "+" + base
	case 2:
		l.Text = s.pick("0x", "0b", "0o", "0x.", "0x.8p1", ".5", "1.", "1.e5", "1e", "1e+", "0x1p", "0x1.p3")
	case 3:
		l.Text = s.pick("0b2", "0b12", "0o8", "0o18", "0xg", "0x1g", "1a", "0b1.1", "0o1.1", "0b1e1")
	case 4:
		l.Text = s.pick("0x_1", "0b_1", "1_.5", "1._5", "1e_5", "1_e5", "_1", "0_x1")
	case 5:
		l.Text = s.pick("--1", "-", "- 1", "-+1", "0x-1", "-nan", "-snan", "+inf", "infinity", "na", "NaN1")
	case 6:
		l.Text = `"` + s.pick(`\q`, `\a`, `\0`, `\x41`, `\u0041`, `\[]`, `\[g]`, `\[41`, `\[4 1]`, `\.`, `\. x `, `\.@@x@@`, `\.@@ x@`, "\\.@@\rx@@") + `"`
	case 7:
		l.Text = s.pick("@u8[-1]", "@u8[1.5]", "@u8x[0x10]", "@u8b[2]", "@u8o[8]", "@i8x[g]", "@u8[1,2]", "@u8[1 2", "@u7[1]", "@f8[1]",
			"@f32b[1]", "@f32o[1]", "@f32[0b1]", "@f32x[0x1p1]", "@f32[1e]", "@f32[-nan]", "@i8[+1]", "@u16[1_]", "@u16x[_1]", "@i8[- 1]")
	case 8:
		l.Text = "\"a\x01b\"" // raw control character
	default:
		l.Text = base + s.pick("x", "p", "e", ".", "..1", "e5e5", "p1p1")
	}
	return l
}

// ---------------------------------------------------------------------------
// typed arrays

var c24WS = []string{" ", " ", " ", "  ", "\n", "\t", "\r\n", " \n\t "}

type c24ArrSpec struct {
	class byte // 'i', 'u', 'f'
	bits  int
	mode  byte // 0, 'b', 'o', 'x'
}

func (a c24ArrSpec) name() string {
	n := fmt.Sprintf("%c%d", a.class, a.bits)
	if a.mode != 0 {
		n += string(a.mode)
	}
	return n
}

func (s *c24Speller) header(a c24ArrSpec) string {
	h := fmt.Sprintf("@%c%d", a.class, a.bits)
	if a.mode != 0 {
		h += string(a.mode)
	}
	if s.chance(0.2) {
		h = strings.ToUpper(h)
	}
	return h + "["
}

// intElem spells one integer element for the array mode.
func (s *c24Speller) intElem(l *c24Lit, a c24ArrSpec, neg bool, mag *big.Int) string {
	base := 10
	pre := ""
	switch a.mode {
	case 'b':
		base = 2
	case 'o':
		base = 8
	case 'x':
		base = 16
	default:
		base = c24Bases[s.r.Intn(4)]
		if s.chance(0.5) {
			base = 10
		}
		pre = s.prefix(base)
	}
	st := c24DigitStyle{upper: []float64{0, 1, 0.5}[s.r.Intn(3)]}
	style := s.r.Intn(8)
	if s.leadOne {
		s.leadOne = false
		st.lead = 1
		style = 3 + s.r.Intn(5)
		if s.chance(0.3) {
			st.sep = 0.4
		}
	}
	switch style {
	case 0:
		st.lead = 1 + s.r.Intn(3)
		l.feat("elem.leadzero")
		if base == 10 && a.mode == 0 {
			l.feat("elem.dec-leadzero")
		}
	case 1:
		st.sep = 0.4
		l.feat("elem.sep")
	case 2:
		st.sep = 0.4
		st.multi = true
		l.feat("elem.multisep")
	}
	l.feat(fmt.Sprintf("elem.base%d", base))
	t := pre + s.digits(mag, base, st)
	if neg {
		t = "-" + t
	}
	return t
}

func (s *c24Speller) joinElems(a c24ArrSpec, elems []string) string {
	var sb strings.Builder
	sb.WriteString(s.header(a))
	if s.chance(0.2) {
		sb.WriteString(c24WS[s.r.Intn(len(c24WS))])
	}
	for i, e := range elems {
		if i > 0 {
			sb.WriteString(c24WS[s.r.Intn(len(c24WS))])
		}
		sb.WriteString(e)
	}
	if s.chance(0.2) {
		sb.WriteString(c24WS[s.r.Intn(len(c24WS))])
	}
	sb.WriteString("]")
	return sb.String()
}

func c24IntRange(signed bool, bits int) (lo, hi *big.Int) {
	if signed {
		return new(big.Int).Neg(c24Pow2(uint(bits - 1))), new(big.Int).Sub(c24Pow2(uint(bits-1)), big.NewInt(1))
	}
	return new(big.Int), new(big.Int).Sub(c24Pow2(uint(bits)), big.NewInt(1))
}

// IntArray spells an integer array. bad: 0 none, 1 one element just outside the range, 2 far outside.
func (s *c24Speller) IntArray(a c24ArrSpec, n int, bad int) c24Lit {
	l := c24Lit{Cat: "iarr"}
	l.feat("arr." + a.name())
	signed := a.class == 'i'
	lo, hi := c24IntRange(signed, a.bits)
	span := new(big.Int).Add(new(big.Int).Sub(hi, lo), big.NewInt(1))
	badAt := -1
	if bad > 0 && n > 0 {
		badAt = s.r.Intn(n)
	}
	var elems []string
	want := ""
	for i := 0; i < n; i++ {
		var v *big.Int
		switch {
		case i == badAt && bad == 1:
			if signed && s.chance(0.5) {
				v = new(big.Int).Sub(lo, big.NewInt(1))
			} else {
				v = new(big.Int).Add(hi, big.NewInt(1))
			}
			l.feat("elem.outofrange.by1")
		case i == badAt:
			v = new(big.Int).Add(hi, new(big.Int).Rand(s.r, c24Pow2(uint(a.bits+1+s.r.Intn(70)))))
			v.Add(v, big.NewInt(1))
			if signed && s.chance(0.5) {
				v.Neg(v)
				v.Sub(v, big.NewInt(1))
			}
			l.feat("elem.outofrange.far")
		case a.mode == 'x' && s.chance(0.2):
			// a hexadecimal element that looks like it starts with a base prefix: one leading zero, then the digit b ("0b1f" is 0x0b1f)
			d := 1 + s.r.Intn(a.bits/4-1)
			v = new(big.Int).Lsh(big.NewInt(0xb), uint(4*(d-1)))
			if d > 1 {
				v.Add(v, new(big.Int).Rand(s.r, c24Pow2(uint(4*(d-1)))))
			}
			if signed && s.chance(0.4) {
				v.Neg(v)
			}
			s.leadOne = true
			l.feat("elem.hex-looks-like-binary-prefix")
		default:
			switch s.r.Intn(6) {
			case 0:
				v = new(big.Int).Set(lo)
				l.feat("elem.min")
			case 1:
				v = new(big.Int).Set(hi)
				l.feat("elem.max")
			case 2:
				v = big.NewInt(int64(s.r.Intn(3)))
			default:
				v = new(big.Int).Add(lo, new(big.Int).Rand(s.r, span))
			}
		}
		neg := v.Sign() < 0
		if v.Sign() == 0 && signed && s.chance(0.3) {
			neg = true
			l.feat("elem.negzero")
		}
		elems = append(elems, s.intElem(&l, a, neg, new(big.Int).Abs(v)))
		if bad == 0 {
			want += c24LEHex(v, a.bits)
		}
	}
	if n == 0 {
		l.feat("arr.empty")
	}
	l.Text = s.joinElems(a, elems)
	if bad == 0 {
		l.WantArr = fmt.Sprintf("%c%d:%s", a.class, a.bits, want)
		l.HasWant = true
	}
	return l
}

// floatBitsValue returns sign, mantissa and binary exponent of a finite element bit pattern.
func c24FloatBitsValue(f c24FloatFmt, bits uint64) (neg bool, mant *big.Int, exp2 int64) {
	neg = bits>>(uint(f.width*8-1))&1 == 1
	fracMask := uint64(1)<<uint(f.p-1) - 1
	frac := bits & fracMask
	be := int64(bits>>uint(f.p-1)) & int64(2*f.emax+1)
	if be == 0 {
		return neg, new(big.Int).SetUint64(frac), int64(f.emin - (f.p - 1))
	}
	return neg, new(big.Int).SetUint64(frac | 1<<uint(f.p-1)), be - int64(f.emax) - int64(f.p-1)
}

// exactHex spells mant*2^exp2 exactly as a hex float element (prefix added by the caller).
func (s *c24Speller) exactHex(l *c24Lit, mant *big.Int, exp2 int64, allowInt bool) string {
	m := new(big.Int).Set(mant)
	e := exp2
	// re-normalise randomly: shift the mantissa left (value unchanged when the exponent drops)
	if sh := s.r.Intn(9); sh > 0 {
		m.Lsh(m, uint(sh))
		e -= int64(sh)
	}
	// strip some trailing zero bits
	for m.Sign() != 0 && m.Bit(0) == 0 && s.chance(0.7) {
		m.Rsh(m, 1)
		e++
	}
	hex := m.Text(16)
	// choose the number of fraction digits k: value = hex / 16^k * 2^(e+4k)
	k := 0
	if len(hex) > 1 && s.chance(0.7) {
		k = 1 + s.r.Intn(len(hex)-1)
		if s.chance(0.5) {
			k = len(hex) - 1
		}
	}
	ip, fp := hex[:len(hex)-k], hex[len(hex)-k:]
	if k > 0 && s.chance(0.15) {
		fp += strings.Repeat("0", 1+s.r.Intn(3)) // trailing zeros change nothing
	}
	pe := e + 4*int64(k)
	st := c24DigitStyle{upper: []float64{0, 1, 0.5}[s.r.Intn(3)]}
	if s.chance(0.15) {
		st.sep = 0.3
		l.feat("elem.sep")
	}
	ipst := st
	if s.chance(0.1) {
		ipst.lead = 1 + s.r.Intn(2)
	}
	t := s.digitString(ip, ipst)
	if k > 0 {
		t += "." + s.digitString(fp, st)
	}
	if pe != 0 || (k == 0 && !allowInt) || s.chance(0.3) {
		t += s.pick("p", "P") + s.expText(l, pe)
	}
	return t
}

// exactDec spells mant*2^exp2 exactly as a decimal element.
func (s *c24Speller) exactDec(l *c24Lit, mant *big.Int, exp2 int64) string {
	coeff := new(big.Int).Set(mant)
	var e10 int64
	if exp2 >= 0 {
		coeff.Lsh(coeff, uint(exp2))
	} else {
		coeff.Mul(coeff, new(big.Int).Exp(big.NewInt(5), big.NewInt(-exp2), nil))
		e10 = exp2
	}
	ds := coeff.String()
	for len(ds) > 1 && ds[len(ds)-1] == '0' && s.chance(0.8) {
		ds = ds[:len(ds)-1]
		e10++
	}
	// place the decimal point: k fraction digits
	k := 0
	if len(ds) > 1 && s.chance(0.6) {
		k = 1 + s.r.Intn(len(ds)-1)
		if s.chance(0.5) {
			k = len(ds) - 1
		}
	}
	if e10 < 0 && -e10 <= 12 && s.chance(0.5) {
		// plain fraction without exponent
		k = int(-e10)
		for len(ds) <= k {
			ds = "0" + ds
		}
	}
	ip, fp := ds[:len(ds)-k], ds[len(ds)-k:]
	pe := e10 + int64(k)
	st := c24DigitStyle{}
	if s.chance(0.15) {
		st.sep = 0.2
		l.feat("elem.sep")
	}
	t := s.digitString(ip, st)
	if k > 0 {
		t += "." + s.digitString(fp, st)
	}
	if pe != 0 || s.chance(0.1) {
		t += s.pick("e", "E") + s.expText(l, pe)
	}
	return t
}

func (s *c24Speller) floatBits(f c24FloatFmt) uint64 {
	expMax := uint64(2*f.emax + 1)
	fracBits := uint(f.p - 1)
	fracMask := uint64(1)<<fracBits - 1
	sign := uint64(s.r.Intn(2)) << uint(f.width*8-1)
	var be, frac uint64
	switch s.r.Intn(10) {
	case 0:
		be, frac = 0, 0 // zero
	case 1:
		be, frac = 0, 1 // smallest subnormal
	case 2:
		be, frac = 0, fracMask // largest subnormal
	case 3:
		be, frac = 1, 0 // smallest normal
	case 4:
		be, frac = expMax-1, fracMask // largest finite
	case 5:
		be, frac = 0, s.r.Uint64()&fracMask // random subnormal
	case 6:
		be, frac = uint64(f.emax), 0 // 1.0
	case 7:
		be, frac = uint64(f.emax)+uint64(s.r.Intn(12)), s.r.Uint64()&fracMask&^(fracMask>>4) // short mantissa, small exponent
	default:
		be, frac = uint64(s.r.Intn(int(expMax-1)))+1, s.r.Uint64()&fracMask
	}
	return sign | be<<fracBits | frac
}

// FloatArray spells a float array. kind: 0 exactly representable elements, 1 with inexact elements,
// 2 with one element beyond the finite range.
func (s *c24Speller) FloatArray(a c24ArrSpec, n int, kind int) c24Lit {
	l := c24Lit{Cat: "farr"}
	l.feat("arr." + a.name())
	f := c24FloatFmts[fmt.Sprintf("f%d", a.bits)]
	special := -1
	if kind > 0 && n > 0 {
		special = s.r.Intn(n)
	}
	var elems []string
	want, wantOK := "", kind == 0
	le := func(bits uint64) string {
		b := make([]byte, f.width)
		for i := range b {
			b[i] = byte(bits >> (8 * uint(i)))
		}
		return hex.EncodeToString(b)
	}
	for i := 0; i < n; i++ {
		if s.chance(0.12) {
			w := s.pick("nan", "snan", "inf", "-inf")
			l.feat("elem." + w)
			elems = append(elems, s.randCase(w))
			switch w {
			case "inf":
				want += le(uint64(2*f.emax+1) << uint(f.p-1))
			case "-inf":
				want += le(uint64(2*f.emax+1)<<uint(f.p-1) | 1<<uint(f.width*8-1))
			default:
				wantOK = false // NaN elements are compared by kind only
			}
			continue
		}
		if i == special && kind == 3 {
			// a non-zero element far below the smallest subnormal, in hexadecimal with e/E/other as its first non-zero digit
			// (in a hexadecimal float e is a digit, not an exponent marker), or in decimal
			q := f.emin - (f.p - 1)
			E := q - 2 - s.r.Intn(300)
			var t string
			if a.mode == 'x' || s.chance(0.7) {
				t = s.pick("0.", "0.0", "0.00", "") + s.pick("e", "E", "e8", "E1", "1", "d8", "0e", "ee") + s.pick("", "8", "f0")
				if !strings.Contains(t, ".") {
					t = t + "." + s.pick("", "8", "e")
					if strings.HasSuffix(t, ".") {
						t += "0"
					}
				}
				t += s.pick("p", "P") + fmt.Sprint(E-8)
				if a.mode == 0 {
					t = s.pick("0x", "0X") + t
				}
				l.feat("elem.hexfloat")
			} else {
				t = fmt.Sprintf("%d.%de-%d", 1+s.r.Intn(9), s.r.Intn(100), 400+s.r.Intn(600))
				l.feat("elem.decfloat")
			}
			if s.chance(0.4) {
				t = "-" + t
			}
			l.feat("elem.float-too-small")
			elems = append(elems, t)
			wantOK = false
			continue
		}
		bits := s.floatBits(f)
		want += le(bits)
		neg, mant, e2 := c24FloatBitsValue(f, bits)
		if i == special && kind == 2 {
			// at or beyond 2^(emax+1)
			mant = new(big.Int).Add(c24Pow2(uint(f.p)), big.NewInt(int64(s.r.Intn(5))))
			e2 = int64(f.emax+1-f.p) + int64(s.r.Intn(3)*s.r.Intn(40))
			l.feat("elem.float-too-big")
		} else if i == special {
			// make it inexact: append extra low bits below the format's precision
			extra := uint(1 + s.r.Intn(6))
			mant = new(big.Int).Lsh(mant, extra)
			add := int64(1 + s.r.Intn(1<<extra-1))
			if s.chance(0.3) {
				add = 1 << (extra - 1) // exactly half way
				l.feat("elem.float-tie")
			}
			mant.Add(mant, big.NewInt(add))
			e2 -= int64(extra)
			l.feat("elem.float-inexact")
		}
		var t string
		hexForm := a.mode == 'x' || s.chance(0.5)
		if a.mode == 0 && mant.BitLen()+int(abs64(e2)) > 1400 {
			hexForm = hexForm || s.chance(0.7) // keep most very long decimal expansions out
		}
		if hexForm {
			t = s.exactHex(&l, mant, e2, true)
			if a.mode == 0 {
				t = s.pick("0x", "0X") + t
			}
			l.feat("elem.hexfloat")
		} else {
			t = s.exactDec(&l, mant, e2)
			l.feat("elem.decfloat")
		}
		if mant.Sign() == 0 && neg {
			l.feat("elem.negzero")
		}
		if bits>>uint(f.p-1)&uint64(2*f.emax+1) == 0 && mant.Sign() != 0 && i != special {
			l.feat("elem.subnormal")
		}
		if neg {
			t = "-" + t
		}
		elems = append(elems, t)
	}
	if n == 0 {
		l.feat("arr.empty")
	}
	l.Text = s.joinElems(a, elems)
	if wantOK {
		l.WantArr = fmt.Sprintf("f%d:%s", a.bits, want)
		l.HasWant = true
	}
	return l
}

func abs64(v int64) int64 {
	if v < 0 {
		return -v
	}
	return v
}

// ---------------------------------------------------------------------------
// strings

var c24RawPool = []string{"a", "b", "Z", "0", "9", " ", " ", ".", ",", "!", "'", "(", "]", "[", "{", "=", "@", "#", "$", "&", "<", ">", "*", "/", "-", "_",
	"é", "ß", "Ω", "日", "本", "\u0301", "\u00a0", "\u00ad", "\u2028", "\u200d", "😀", "𝒳", "€", "«", "—", "\t", "\n"}

var c24SentinelPool = []string{"@", "@@", "#", "##", "END", "A", "AB", "AA", "z9", "'", "\"", "\\", "|", "~~", "*/", "`", "$", "&x", "<<", ".", "=", "q",
	"é", "日本", "«", "Ω1", "😀"}

var c24CodepointPool = []rune{0x41, 0x7a, 0x20, 0x22, 0x5c, 0x9, 0xa, 0xd, 0x7f, 0x80, 0x9f, 0xa0, 0xad, 0xe9, 0x3a9, 0x7ff, 0x800, 0x2028, 0xd7ff, 0xe000,
	0xfeff, 0xfffd, 0xffff, 0x10000, 0x1f600, 0x10ffff, 0x1, 0x7, 0x1b, 0x0}

var c24NamedEscapes = map[byte]string{'r': "\r", 'R': "\r", 'n': "\n", 'N': "\n", 't': "\t", 'T': "\t", '"': "\"", '*': "*", '/': "/", '\\': "\\", '_': "\u00a0", '-': "\u00ad"}
var c24NamedOrder = []byte{'r', 'R', 'n', 'N', 't', 'T', '"', '*', '/', '\\', '_', '-'}

// strSegment appends one segment (text and its meaning) of the given kind.
func (s *c24Speller) strSegment(l *c24Lit, kind string, txt *strings.Builder, val *[]byte) {
	switch kind {
	case "raw":
		n := 1 + s.r.Intn(5)
		for i := 0; i < n; i++ {
			ch := c24RawPool[s.r.Intn(len(c24RawPool))]
			txt.WriteString(ch)
			*val = append(*val, ch...)
		}
		l.feat("str.raw")
	case "named":
		e := c24NamedOrder[s.r.Intn(len(c24NamedOrder))]
		txt.WriteByte('\\')
		txt.WriteByte(e)
		*val = append(*val, c24NamedEscapes[e]...)
		l.feat("str.named." + string(e))
	case "codepoint":
		cp := c24CodepointPool[s.r.Intn(len(c24CodepointPool))]
		if s.chance(0.3) {
			for {
				cp = rune(s.r.Intn(0x110000))
				if cp < 0xd800 || cp > 0xdfff {
					break
				}
			}
		}
		st := c24DigitStyle{upper: []float64{0, 1, 0.5}[s.r.Intn(3)]}
		if s.chance(0.3) {
			st.lead = 1 + s.r.Intn(4)
			l.feat("str.codepoint.leadzero")
		}
		txt.WriteString(`\[` + s.digitString(fmt.Sprintf("%x", cp), st) + "]")
		*val = utf8.AppendRune(*val, cp)
		l.feat("str.codepoint")
		switch {
		case cp >= 0x10000:
			l.feat("str.codepoint.astral")
		case cp < 0x20 || cp == 0x7f:
			l.feat("str.codepoint.control")
		}
	case "continuation":
		txt.WriteByte('\\')
		txt.WriteString(s.pick("\n", "\r\n", "\n", "\r"))
		n := s.r.Intn(4)
		for i := 0; i < n; i++ {
			txt.WriteString(s.pick(" ", "\t", "  ", "\n", "\r\n"))
		}
		// the continuation swallows all following whitespace, so the next character must not be whitespace
		txt.WriteString("c")
		*val = append(*val, 'c')
		l.feat("str.continuation")
	case "verbatim":
		sentinel := c24SentinelPool[s.r.Intn(len(c24SentinelPool))]
		if s.chance(0.2) {
			sentinel += c24SentinelPool[s.r.Intn(len(c24SentinelPool))]
		}
		var content string
		for try := 0; ; try++ {
			var cb strings.Builder
			n := s.r.Intn(6)
			if s.chance(0.15) {
				n = 0
			}
			for i := 0; i < n; i++ {
				switch s.r.Intn(6) {
				case 0:
					cb.WriteString(s.pick("\"", "\\", "\\n", "\\\"", "\n", "\r\n", "\\[41]", "\\.", "\x01"))
				case 1:
					// a proper prefix of the sentinel
					rs := []rune(sentinel)
					cb.WriteString(string(rs[:s.r.Intn(len(rs))]))
				default:
					cb.WriteString(c24RawPool[s.r.Intn(len(c24RawPool))])
				}
			}
			content = cb.String()
			if strings.Index(content+sentinel, sentinel) == len(content) {
				break
			}
			if try > 20 {
				content = ""
				break
			}
		}
		sep := s.pick(" ", " ", "\t", "\n", "\r\n")
		txt.WriteString(`\.` + sentinel + sep + content + sentinel)
		*val = append(*val, content...)
		l.feat("str.verbatim")
		if content == "" {
			l.feat("str.verbatim.empty")
		}
		for _, r := range sentinel {
			if r >= 0x80 {
				l.feat("str.verbatim.nonascii-sentinel")
				break
			}
		}
	}
}

// String spells a string literal made of n segments drawn from kinds.
func (s *c24Speller) String(n int, kinds []string) c24Lit {
	l := c24Lit{Cat: "str"}
	var txt strings.Builder
	var val []byte
	txt.WriteByte('"')
	for i := 0; i < n; i++ {
		s.strSegment(&l, kinds[s.r.Intn(len(kinds))], &txt, &val)
	}
	txt.WriteByte('"')
	l.Text = txt.String()
	l.WantStr = val
	if val == nil {
		l.WantStr = []byte{}
	}
	l.HasWant = true
	return l
}
