//go:build purego

package checks

func init() { c26BuildPurego = true }
