package checks

import (
	"fmt"
	"reflect"

	"github.com/kstenerud/go-concise-encoding/ce"
	"github.com/kstenerud/go-concise-encoding/configuration"

	"verifharness/ev"
	"verifharness/fw"
	"verifharness/gen"
)

// c09MarkerStream: a list whose elements are integers, strings, marked scalars, marked lists and maps, references to
// markers that are already complete, and nested lists of the same — documents the marshaler only writes under recursion
// support, but that every decoder must cut cleanly: a cut may fall right after a marker identifier, inside a marked
// container, or between a marked value and its reference.
func c09MarkerStream(c *fw.Ctx) []ev.Event {
	r := c.Rng
	str := func(x string) ev.Event { return ev.Event{K: ev.STRARR, AT: 1, S: x} }
	nextID := 0
	var done []string
	var elems func(depth int) []ev.Event
	elems = func(depth int) []ev.Event {
		var out []ev.Event
		n := 2 + r.Intn(5)
		for i := 0; i < n; i++ {
			mark := func() ev.Event {
				id := fmt.Sprintf("m%d", nextID)
				nextID++
				return ev.Event{K: ev.MARK, B: []byte(id)}
			}
			switch k := r.Intn(8); {
			case k == 0:
				out = append(out, ev.Event{K: ev.PINT, U: uint64(r.Intn(1000))})
			case k == 1:
				out = append(out, str(fmt.Sprintf("s%d", r.Intn(100))))
			case k == 2:
				m := mark()
				out = append(out, m, ev.Event{K: ev.PINT, U: uint64(1000 + r.Intn(1000))})
				done = append(done, string(m.B))
			case k == 3:
				m := mark()
				out = append(out, m, str(fmt.Sprintf("marked-%d", r.Intn(100))))
				done = append(done, string(m.B))
			case k == 4:
				m := mark()
				out = append(out, m, ev.Event{K: ev.LIST})
				for j := r.Intn(4); j > 0; j-- {
					out = append(out, ev.Event{K: ev.PINT, U: uint64(r.Intn(50))})
				}
				out = append(out, ev.Event{K: ev.END})
				done = append(done, string(m.B))
			case k == 5:
				m := mark()
				out = append(out, m, ev.Event{K: ev.MAP}, str("k"), ev.Event{K: ev.PINT, U: uint64(r.Intn(50))}, str("l"), ev.Event{K: ev.TRUE}, ev.Event{K: ev.END})
				done = append(done, string(m.B))
			case k == 6 && len(done) > 0:
				out = append(out, ev.Event{K: ev.REF, B: []byte(done[r.Intn(len(done))])})
			case depth < 2:
				out = append(out, ev.Event{K: ev.LIST})
				out = append(out, elems(depth+1)...)
				out = append(out, ev.Event{K: ev.END})
			default:
				out = append(out, ev.Event{K: ev.NULL})
			}
		}
		return out
	}
	body := append([]ev.Event{{K: ev.BD}, {K: ev.VER}, {K: ev.LIST}}, elems(0)...)
	return append(body, ev.Event{K: ev.END}, ev.Event{K: ev.ED})
}

// runC09Markers enumerates every cut of one marker document (untyped destination).
func runC09Markers(c *fw.Ctx, cte bool) {
	cfg := configuration.New()
	codec := "cbe+markers"
	if cte {
		codec = "cte+markers"
	}
	stream := c09MarkerStream(c)
	c.Note("C09 %s stream %s", codec, short(ev.LogString(stream), 1500))
	var doc []byte
	var fi int
	if cte {
		doc, fi, _ = encodeWithRules(ce.NewCTEEncoder(cfg), stream, cfg)
	} else {
		doc, fi, _ = encodeWithRules(ce.NewCBEEncoder(cfg), stream, cfg)
	}
	if fi >= 0 {
		c.Inc("skipped_marshal_failed")
		return
	}
	full, err, p, _ := unmarshalDoc(doc, nil, cte, cfg)
	if err != nil || p != nil {
		c.Inc("skipped_full_document_does_not_unmarshal")
		return
	}
	c.Inc("documents")
	c.Inc("documents_with_markers")
	n := len(doc)
	if cte {
		for n > 0 && (doc[n-1] == '\n' || doc[n-1] == ' ') {
			n--
		}
	}
	for k := 1; k < n; k++ {
		c.Region("cut-" + codec)
		out, err, p, st := unmarshalDoc(doc[:k], nil, cte, cfg)
		c.Eval()
		c.Inc("cuts_enumerated")
		c.Inc("cuts_enumerated.markers")
		detail := func(extra map[string]interface{}) map[string]interface{} {
			m := map[string]interface{}{"codec": codec, "stream": short(ev.LogString(stream), 1500), "doc": docString(doc, cte), "cut": k, "partial": gen.Render(out), "full": short(gen.Render(full), 1500)}
			for kk, x := range extra {
				m[kk] = x
			}
			return m
		}
		if p != nil {
			c.Fail("escaped-panic-on-truncated", detail(map[string]interface{}{"panic": fmt.Sprint(p), "stack": short(st, 1500)}))
			continue
		}
		if err == nil {
			c.Fail("truncated-document-accepted:"+codec, detail(nil))
			continue
		}
		if out != nil && !c09IsZero(c09Unwrap(reflect.ValueOf(out))) {
			c.Inc("cuts_with_nonempty_partial")
			c.Distinct(fmt.Sprintf("%s|%d|%s", codec, k, docString(doc, cte)))
		}
		c09Lenient = cte && !c09IsSpace(doc[k-1]) && !c09IsSpace(doc[k])
		if c09Lenient {
			c.Inc("dontcare.cut_inside_text_token")
		}
		if r := c09Prefix(reflect.ValueOf(out), reflect.ValueOf(full), true, ""); r != "" {
			c.Fail("partial-not-a-prefix:"+codec, detail(map[string]interface{}{"why": r, "err": err.Error()}))
		}
	}
}
