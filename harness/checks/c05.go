package checks

import (
	"encoding/binary"
	"fmt"
	"math"
	"reflect"
	"strings"
	"unicode"

	compact_float "github.com/kstenerud/go-compact-float"
	compact_time "github.com/kstenerud/go-compact-time"
	"github.com/kstenerud/go-concise-encoding/ce/events"
	"github.com/kstenerud/go-concise-encoding/configuration"
	"github.com/kstenerud/go-concise-encoding/iterator"
	"github.com/kstenerud/go-concise-encoding/rules"

	"math/big"
	"net/url"
	"time"

	"github.com/cockroachdb/apd/v2"
	"github.com/kstenerud/go-concise-encoding/types"

	"verifharness/ev"
	"verifharness/fw"
	"verifharness/gen"
)

// c05Describe is the reference description of a Go value as a canonical tree: a second, much simpler
// statement of what the marshaler should say about the value (written from the documentation of the
// supported kinds, not from iterator/iterators.go).
type c05Describer struct {
	cfg     *configuration.Configuration
	records map[reflect.Type]string
}

func strNode(s string) *ev.Node {
	return ev.ArrayNode(events.ArrayTypeString, uint64(len(s)), []byte(s))
}

func c05SnakeCase(name string) string {
	// FooBar -> foo_bar ; only used on the generator's unambiguous CamelCase names
	var sb strings.Builder
	for i, r := range name {
		if unicode.IsUpper(r) {
			if i > 0 {
				sb.WriteByte('_')
			}
			sb.WriteRune(unicode.ToLower(r))
		} else {
			sb.WriteRune(r)
		}
	}
	return sb.String()
}

func c05IsEmpty(v reflect.Value) bool {
	switch v.Kind() {
	case reflect.Interface, reflect.Ptr:
		return v.IsNil()
	case reflect.Map, reflect.Slice:
		return v.IsNil() || v.Len() == 0
	case reflect.Array, reflect.String:
		return v.Len() == 0
	}
	return false
}

func floatNode(f float64) *ev.Node {
	if math.IsNaN(f) {
		if math.Float64bits(f)&(1<<51) != 0 {
			return &ev.Node{Tag: "nan", Val: "q"}
		}
		return &ev.Node{Tag: "nan", Val: "s"}
	}
	return &ev.Node{Tag: "num", Val: ev.NumFloat64(f)}
}

var null = &ev.Node{Tag: "null"}

func (d *c05Describer) describe(v reflect.Value) *ev.Node {
	if !v.IsValid() {
		return null
	}
	switch x := v.Interface().(type) {
	case time.Time:
		return timeNode(compact_time.AsCompactTime(x))
	case compact_time.Time:
		if x.IsZeroValue() {
			return null
		}
		return timeNode(x)
	case big.Int:
		return &ev.Node{Tag: "num", Val: ev.NumBigInt(&x)}
	case *big.Int:
		if x == nil {
			return null
		}
		return &ev.Node{Tag: "num", Val: ev.NumBigInt(x)}
	case big.Float:
		return &ev.Node{Tag: "num", Val: ev.NumBigFloat(&x)}
	case *big.Float:
		if x == nil {
			return null
		}
		return &ev.Node{Tag: "num", Val: ev.NumBigFloat(x)}
	case apd.Decimal:
		if n := c05APDNaN(&x); n != nil {
			return n
		}
		return &ev.Node{Tag: "num", Val: ev.NumAPD(&x)}
	case *apd.Decimal:
		if x == nil {
			return null
		}
		if n := c05APDNaN(x); n != nil {
			return n
		}
		return &ev.Node{Tag: "num", Val: ev.NumAPD(x)}
	case compact_float.DFloat:
		return &ev.Node{Tag: "num", Val: ev.NumDFloat(x)}
	case url.URL:
		s := x.String()
		return ev.ArrayNode(events.ArrayTypeResourceID, uint64(len(s)), []byte(s))
	case *url.URL:
		if x == nil {
			return null
		}
		s := x.String()
		return ev.ArrayNode(events.ArrayTypeResourceID, uint64(len(s)), []byte(s))
	case types.UID:
		return &ev.Node{Tag: "uid", Val: fmt.Sprintf("%x", x[:])}
	case types.Media:
		return &ev.Node{Tag: "media", Val: fmt.Sprintf("%q:%x", x.MediaType, x.Data)}
	case types.Node:
		n := &ev.Node{Tag: "node"}
		n.Kids = append(n.Kids, d.describe(reflect.ValueOf(x.Value)))
		for _, c := range x.Children {
			n.Kids = append(n.Kids, d.describe(reflect.ValueOf(c)))
		}
		return n
	case types.Edge:
		return &ev.Node{Tag: "edge", Kids: []*ev.Node{d.describe(reflect.ValueOf(x.Source)), d.describe(reflect.ValueOf(x.Description)), d.describe(reflect.ValueOf(x.Destination))}}
	}
	switch v.Kind() {
	case reflect.Bool:
		return &ev.Node{Tag: "bool", Val: fmt.Sprint(v.Bool())}
	case reflect.Int, reflect.Int8, reflect.Int16, reflect.Int32, reflect.Int64:
		return &ev.Node{Tag: "num", Val: ev.NumInt(v.Int())}
	case reflect.Uint, reflect.Uint8, reflect.Uint16, reflect.Uint32, reflect.Uint64:
		return &ev.Node{Tag: "num", Val: ev.NumUint(v.Uint(), false)}
	case reflect.Float32, reflect.Float64:
		return floatNode(v.Float())
	case reflect.String:
		return strNode(v.String())
	case reflect.Ptr, reflect.Interface:
		if v.IsNil() {
			return null
		}
		return d.describe(v.Elem())
	case reflect.Slice, reflect.Array:
		if at, w, ok := c05TypedArrayKind(v.Type().Elem().Kind()); ok {
			// a nil numeric slice is described as an empty typed array (nil and empty are alike in the properties)
			return c05TypedArray(v, at, w)
		}
		if v.Kind() == reflect.Slice && v.IsNil() {
			return null
		}
		n := &ev.Node{Tag: "list"}
		for i := 0; i < v.Len(); i++ {
			n.Kids = append(n.Kids, d.describe(v.Index(i)))
		}
		return n
	case reflect.Map:
		if v.IsNil() {
			return null
		}
		n := &ev.Node{Tag: "map"}
		for _, k := range v.MapKeys() {
			n.Kids = append(n.Kids, &ev.Node{Tag: "entry", Kids: []*ev.Node{d.describe(k), d.describe(v.MapIndex(k))}})
		}
		return n
	case reflect.Struct:
		_, isRecord := d.records[v.Type()]
		n := &ev.Node{Tag: "map"}
		// fields of anonymously embedded structs are promoted into the embedding struct, in declaration order
		type fieldVal struct {
			f  reflect.StructField
			fv reflect.Value
		}
		var flat []fieldVal
		var flatten func(sv reflect.Value)
		flatten = func(sv reflect.Value) {
			for i := 0; i < sv.NumField(); i++ {
				f := sv.Type().Field(i)
				if f.PkgPath != "" {
					continue
				}
				if f.Anonymous && f.Type.Kind() == reflect.Struct {
					flatten(sv.Field(i))
					continue
				}
				flat = append(flat, fieldVal{f, sv.Field(i)})
			}
		}
		flatten(v)
		for _, x := range flat {
			f, fv := x.f, x.fv
			if !isRecord {
				switch d.cfg.Iterator.DefaultFieldOmitBehavior {
				case configuration.OmitFieldEmpty, configuration.OmitFieldChooseDefault:
					if c05IsEmpty(fv) {
						continue
					}
				case configuration.OmitFieldZero:
					if fv.IsZero() || c05IsEmpty(fv) {
						continue
					}
				}
			}
			name := f.Name
			if d.cfg.Iterator.FieldNameStyle == configuration.FieldNameSnakeCase {
				name = c05SnakeCase(name)
			}
			n.Kids = append(n.Kids, &ev.Node{Tag: "entry", Kids: []*ev.Node{strNode(name), d.describe(fv)}})
		}
		return n
	}
	return &ev.Node{Tag: "?unsupported", Val: v.Type().String()}
}

// c05APDNaN: the description of a decimal NaN (quiet or signalling), nil for any other decimal.
func c05APDNaN(d *apd.Decimal) *ev.Node {
	switch d.Form {
	case apd.NaN:
		return &ev.Node{Tag: "nan", Val: "q"}
	case apd.NaNSignaling:
		return &ev.Node{Tag: "nan", Val: "s"}
	}
	return nil
}

func timeNode(t compact_time.Time) *ev.Node {
	n, _ := ev.Canon([]ev.Event{{K: ev.BD}, {K: ev.VER}, {K: ev.TIME, T: t}, {K: ev.ED}}, ev.Opts{})
	return n.Kids[0]
}

func c05TypedArrayKind(k reflect.Kind) (events.ArrayType, int, bool) {
	switch k {
	case reflect.Uint8:
		return events.ArrayTypeUint8, 1, true
	case reflect.Uint16:
		return events.ArrayTypeUint16, 2, true
	case reflect.Uint32:
		return events.ArrayTypeUint32, 4, true
	case reflect.Uint64, reflect.Uint:
		return events.ArrayTypeUint64, 8, true
	case reflect.Int8:
		return events.ArrayTypeInt8, 1, true
	case reflect.Int16:
		return events.ArrayTypeInt16, 2, true
	case reflect.Int32:
		return events.ArrayTypeInt32, 4, true
	case reflect.Int64, reflect.Int:
		return events.ArrayTypeInt64, 8, true
	case reflect.Float32:
		return events.ArrayTypeFloat32, 4, true
	case reflect.Float64:
		return events.ArrayTypeFloat64, 8, true
	case reflect.Bool:
		return events.ArrayTypeBit, 0, true
	}
	return 0, 0, false
}

func c05TypedArray(v reflect.Value, at events.ArrayType, w int) *ev.Node {
	n := v.Len()
	if at == events.ArrayTypeBit {
		data := make([]byte, (n+7)/8)
		for i := 0; i < n; i++ {
			if v.Index(i).Bool() {
				data[i/8] |= 1 << uint(i%8)
			}
		}
		return ev.ArrayNode(at, uint64(n), data)
	}
	data := make([]byte, n*w)
	for i := 0; i < n; i++ {
		e := v.Index(i)
		var bits uint64
		switch e.Kind() {
		case reflect.Float32:
			bits = uint64(math.Float32bits(float32(e.Float())))
		case reflect.Float64:
			bits = math.Float64bits(e.Float())
		case reflect.Int, reflect.Int8, reflect.Int16, reflect.Int32, reflect.Int64:
			bits = uint64(e.Int())
		default:
			bits = e.Uint()
		}
		var tmp [8]byte
		binary.LittleEndian.PutUint64(tmp[:], bits)
		copy(data[i*w:], tmp[:w])
	}
	return ev.ArrayNode(at, uint64(n), data)
}

// c05CollectStructs lists the struct types reachable in a type (for record registration).
func c05CollectStructs(t reflect.Type, out map[reflect.Type]bool) {
	switch t {
	case gen.TTime, gen.TCTime, gen.TBigInt, gen.TBigFloat, gen.TAPD, gen.TDFloat, gen.TURL, gen.TMedia, gen.TNode, gen.TEdge:
		return
	}
	if gen.IsRecursiveType(t) {
		// a recursive type contains itself: whether the inner occurrences of a registered type are written as records
		// is the same don't-care as below, so these types are never registered (and the walk must not loop)
		return
	}
	switch t.Kind() {
	case reflect.Ptr, reflect.Slice, reflect.Array:
		c05CollectStructs(t.Elem(), out)
	case reflect.Map:
		c05CollectStructs(t.Elem(), out)
	case reflect.Struct:
		// Only the outermost struct type is registered: whether a registered struct type nested in another
		// registered one is written as a record depends on the (map-ordered) registration order, and the
		// property does not say which is right.
		out[t] = true
	}
}

func init() {
	fw.Register(&fw.Check{
		ID:    "C05",
		Level: "exploration",
		Rule: "case = (Go type built with reflect to depth<=4, value, configuration: record types registered for its struct types or not x RecursionSupport on/off x default omit behaviour Empty/Never/Zero x field name style). " +
			"The real iterator is driven into rules.NewRules(recorder): (1) rules must accept every event; (2) the canonical view of the recorded log (maps unordered, references resolved, records as maps) must equal " +
			"an independent reference description of the value (each element/entry/kept field once, typed arrays element-exact, []bool as bit array with exact count); (3) ce.MarshalTo{CBE,CTE}Document output must decode through rules without error. " +
			"Non-trivial = composite type; distinct = distinct (type, value, configuration).",
		Assumptions: []string{"the reference description (c05Describer) defines 'describes exactly the value'", "struct field names are unambiguous CamelCase words", "big.Float values are float64-exact", "types.Edge values lie in a known finding"},
		Cases:       func(tier string) int { return 2*len(c04dir) + tierN(tier, 4000, 100000) },
		Run:         runC05,
		Floors: func(string) map[string]int64 {
			return map[string]int64{"described": 1000, "cfg.records": 100, "cfg.recursion": 100, "bool_slices_longer_than_8": 5, "documents_redecoded": 2000}
		},
	})
}

func runC05(c *fw.Ctx, idx int) {
	var v interface{}
	var t reflect.Type
	if idx < 2*len(c04dir) {
		v = c04dir[idx/2]
		t = reflect.TypeOf(v)
	} else {
		depth := 1 + c.Rng.Intn(4)
		t = gen.RandType(c.Rng, depth, gen.TypeOpts{})
		v = gen.RandValue(c.Rng, t, depth).Interface()
	}
	cfg := configuration.New()
	d := &c05Describer{cfg: cfg, records: map[reflect.Type]string{}}
	cfgDesc := ""
	if idx%2 == 1 {
		structs := map[reflect.Type]bool{}
		c05CollectStructs(t, structs)
		i := 0
		// deterministic names: by type string order
		var names []string
		byName := map[string]reflect.Type{}
		for st := range structs {
			names = append(names, st.String())
			byName[st.String()] = st
		}
		sortStrings(names)
		for _, nme := range names {
			id := fmt.Sprintf("rec%d", i)
			i++
			cfg.Iterator.RecordTypes[byName[nme]] = id
			d.records[byName[nme]] = id
		}
		if len(names) > 0 {
			c.Inc("cfg.records")
			cfgDesc += "records "
		}
	}
	if c.Rng.Intn(3) == 0 {
		cfg.Iterator.RecursionSupport = true
		c.Inc("cfg.recursion")
		cfgDesc += "recursion "
	}
	switch c.Rng.Intn(4) {
	case 0:
		cfg.Iterator.DefaultFieldOmitBehavior = configuration.OmitFieldNever
		cfgDesc += "omit-never "
	case 1:
		cfg.Iterator.DefaultFieldOmitBehavior = configuration.OmitFieldZero
		cfgDesc += "omit-zero "
	}
	if c.Rng.Intn(3) == 0 {
		cfg.Iterator.FieldNameStyle = configuration.FieldNameCamelCase
		cfgDesc += "camel "
	}
	c.Note("C05 cfg[%s] type %v value %s", cfgDesc, t, short(gen.Render(v), 1200))
	detail := func(extra map[string]interface{}) map[string]interface{} {
		m := map[string]interface{}{"config": cfgDesc, "type": fmt.Sprint(t), "value": gen.Render(v)}
		for k, x := range extra {
			m[k] = x
		}
		return m
	}
	region := c04Region(v, "")
	if region == "nil-container-outside-struct-field" {
		region = "general" // nil containers are described as null, which is what the iterator says
	}
	rec := &ev.Recorder{}
	c.Region("iterate")
	c.Eval()
	p, st := fw.Guard(func() {
		sess := iterator.NewSession(nil, cfg)
		sess.NewIterator(rules.NewRules(rec, cfg)).Iterate(v)
	})
	if p != nil {
		sig := "events-rejected-or-panic"
		if ev.IsRuntimePanic(p) {
			sig = "iterator-runtime-panic"
		}
		c.Fail(sig+"@"+region, detail(map[string]interface{}{"panic": fmt.Sprint(p), "events_so_far": ev.LogStrings(rec.Log), "stack": short(st, 1500)}))
		return
	}
	got, err := ev.Canon(rec.Log, ev.Opts{UnorderedMaps: true, ResolveRefs: true, RecordsAsMaps: true})
	if err != nil {
		c.Fail("recorded-log-malformed@"+region, detail(map[string]interface{}{"events": ev.LogStrings(rec.Log), "err": err.Error()}))
		return
	}
	want := &ev.Node{Tag: "doc", Val: "0", Kids: []*ev.Node{d.describe(reflect.ValueOf(v))}}
	sortMaps(want)
	c.Inc("described")
	c.Count("events_compared", int64(len(rec.Log)))
	if t.Kind() == reflect.Slice && t.Elem().Kind() == reflect.Bool && reflect.ValueOf(v).Len() > 8 {
		c.Inc("bool_slices_longer_than_8")
	}
	switch t.Kind() {
	case reflect.Slice, reflect.Array, reflect.Map, reflect.Struct, reflect.Ptr:
		c.Distinct(cfgDesc + fmt.Sprint(t) + gen.Render(v))
	}
	if path, desc := ev.Diff(want, got); path != "" {
		c.Fail("description-mismatch@"+region, detail(map[string]interface{}{"events": ev.LogStrings(rec.Log), "path": path, "diff": desc}))
		return
	}
	// (3) every marshaled document decodes
	for _, cte := range []bool{false, true} {
		doc, err, p, st := marshalDoc(v, cte, cfg)
		if p != nil {
			c.Fail("marshal-escaped-panic", detail(map[string]interface{}{"panic": fmt.Sprint(p), "stack": st}))
			return
		}
		if err != nil {
			c.Fail("marshal-error@"+region+":"+errClass(err), detail(map[string]interface{}{"err": err.Error()}))
			return
		}
		var res decodeResult
		if cte {
			res = decodeDoc(newCTEDecoder(cfg), doc, cfg, true)
		} else {
			res = decodeDoc(newCBEDecoder(cfg), doc, cfg, true)
		}
		c.Inc("documents_redecoded")
		if res.Panic != nil || res.Err != nil {
			c.Fail("marshaled-document-rejected@"+region, detail(map[string]interface{}{"doc": docString(doc, cte), "err": errStr(res.Err), "panic": ev.PanicString(res.Panic)}))
			return
		}
	}
	if c.WantSample() && t.Kind() == reflect.Struct {
		c.Sample(detail(map[string]interface{}{"events": ev.LogStrings(rec.Log)}))
	}
}

func sortMaps(n *ev.Node) {
	for _, k := range n.Kids {
		sortMaps(k)
	}
	if n.Tag == "map" {
		sortNodes(n.Kids)
	}
}
