package checks

import (
	"bytes"
	"fmt"
	"math"
	"math/big"

	"github.com/kstenerud/go-concise-encoding/ce"
	"github.com/kstenerud/go-concise-encoding/ce/events"
	"github.com/kstenerud/go-concise-encoding/configuration"

	"verifharness/ev"
	"verifharness/fw"
	"verifharness/gen"
)

func ulebLen(v uint64) int {
	n := 1
	for v >= 0x80 {
		v >>= 7
		n++
	}
	return n
}

// c22IntSize: minimal CBE size of an integer of the given magnitude (written from the format description,
// not from the encoder): small int 1; 8/16/32-bit 2/3/5; variable length 2+bytes; 64-bit 9; beyond 64 bits 1+uleb(bytes)+bytes.
func c22IntSize(mag *big.Int, neg bool) int {
	bits := mag.BitLen()
	nb := (bits + 7) / 8
	switch {
	case bits <= 64 && mag.Uint64() <= 100 && !(neg && mag.Sign() == 0):
		return 1
	case bits <= 8:
		return 2
	case bits <= 16:
		return 3
	case bits <= 32:
		return 5
	case bits <= 64:
		if 2+nb < 9 {
			return 2 + nb
		}
		return 9
	}
	return 1 + ulebLen(uint64(nb)) + nb
}

func c22FloatSize(f float64) int {
	f32 := float32(f)
	if float64(f32) == f {
		if math.Float32bits(f32)&0xffff == 0 {
			return 3
		}
		return 5
	}
	return 9
}

var c22ShortForm = map[events.ArrayType]bool{events.ArrayTypeUint16: true, events.ArrayTypeUint32: true, events.ArrayTypeUint64: true,
	events.ArrayTypeInt8: true, events.ArrayTypeInt16: true, events.ArrayTypeInt32: true, events.ArrayTypeInt64: true,
	events.ArrayTypeFloat16: true, events.ArrayTypeFloat32: true, events.ArrayTypeFloat64: true, events.ArrayTypeUID: true}

func c22ArraySize(at events.ArrayType, count uint64, nbytes int) int {
	if at == events.ArrayTypeString {
		if count <= 15 {
			return 1 + nbytes
		}
		return 1 + ulebLen(count<<1) + nbytes
	}
	if c22ShortForm[at] && count <= 15 {
		return 2 + nbytes
	}
	hdr := 2
	if at == events.ArrayTypeUint8 || at == events.ArrayTypeBit || at == events.ArrayTypeResourceID {
		hdr = 1
	}
	return hdr + ulebLen(count<<1) + nbytes
}

func c22Encode(e []ev.Event) ([]byte, interface{}) {
	log := append([]ev.Event{{K: ev.BD}, {K: ev.VER}}, e...)
	log = append(log, ev.Event{K: ev.ED})
	doc, fi, p := encodeEvents(ce.NewCBEEncoder(configuration.New()), log)
	if fi >= 0 {
		return nil, p
	}
	return doc, nil
}

const c22Directed = 600

// c22ExtraLens: element counts beyond 0..40 — around every power of 256 and of 128 (the count's low byte / low 7 bits
// start again from 0 there), where a header that keeps only part of the count would look like a short one.
var c22ExtraLens = []int{127, 128, 129, 143, 255, 256, 257, 260, 271, 272, 300, 511, 512, 527, 528, 1024, 1030, 4096, 4100, 16383, 16384, 16385, 16399, 65536, 65540}

func init() {
	fw.Register(&fw.Check{
		ID:    "C22",
		Level: "exploration",
		Rule: "part 1: single value events (integers exhaustively +-3 around every width boundary 2^k and the small-int limit in every event form, all 65536 bfloat16 patterns, " +
			"float32/float64 samples, strings and typed arrays of every length 0..40 and of 25 lengths around 128, 256, 512, 1024, 4096, 16384 and 65536 in whole and single-final-chunk form) are encoded by cbe.Encoder and the byte length is compared with an " +
			"independent minimal-size model; part 2: generated rules-valid streams are encoded, decoded and re-encoded and the bytes must be identical. " +
			"Non-trivial = value at or next to a form boundary, or stream with a container; distinct = distinct (event, size) / distinct documents.",
		Assumptions: []string{"the size model in c22.go is written from the CBE format description (type code tables), not from the encoder", "multi-chunk layouts chosen by the caller are preserved by the encoder and therefore not size-asserted"},
		Cases:       func(tier string) int { return c22Directed + tierN(tier, 3000, 120000) },
		Run:         runC22,
		Floors: func(string) map[string]int64 {
			return map[string]int64{"size_checked.int": 2000, "size_checked.float": 60000, "size_checked.array": 500, "idempotence_checked": 500,
				"sizeclass.int.1": 1, "sizeclass.int.2": 1, "sizeclass.int.3": 1, "sizeclass.int.5": 1, "sizeclass.int.7": 1, "sizeclass.int.8": 1, "sizeclass.int.9": 1, "sizeclass.int.big": 1,
				"sizeclass.float.3": 1, "sizeclass.float.5": 1, "sizeclass.float.9": 1}
		},
	})
}

func c22CheckSize(c *fw.Ctx, kind string, e []ev.Event, want int, boundary bool) {
	doc, p := c22Encode(e)
	c.Eval()
	if p != nil {
		c.Fail("encode-panic:"+kind, map[string]interface{}{"events": ev.LogStrings(e), "panic": ev.PanicString(p)})
		return
	}
	got := len(doc) - 2
	c.Inc("size_checked." + kind)
	cls := fmt.Sprint(want)
	if kind == "int" && want > 9 {
		cls = "big"
	}
	if kind != "array" {
		c.Inc("sizeclass." + kind + "." + cls)
	}
	if boundary {
		c.Distinct(fmt.Sprintf("%s|%d", ev.LogString(e), got))
	}
	if got != want {
		c.Fail("not-minimal:"+kind, map[string]interface{}{"events": ev.LogStrings(e), "doc": hexs(doc), "size": got, "minimal": want})
		return
	}
	if c.WantSample() && boundary {
		c.Sample(map[string]interface{}{"event": ev.LogString(e), "cbe": hexs(doc), "payload_size": got})
	}
}

func c22IntForms(mag *big.Int, neg bool) []ev.Event {
	var out []ev.Event
	v := new(big.Int).Set(mag)
	if neg {
		v.Neg(v)
	}
	out = append(out, ev.Event{K: ev.BINT, BI: v})
	if mag.IsUint64() {
		if neg {
			out = append(out, ev.Event{K: ev.NINT, U: mag.Uint64()})
		} else {
			out = append(out, ev.Event{K: ev.PINT, U: mag.Uint64()})
		}
	}
	if v.IsInt64() {
		out = append(out, ev.Event{K: ev.INT, I: v.Int64()})
	}
	return out
}

func runC22(c *fw.Ctx, idx int) {
	switch {
	case idx < 80:
		// integers: +-3 around 2^k for k = idx (0..79) and around 100
		k := idx
		base := new(big.Int).Lsh(big.NewInt(1), uint(k))
		if k == 79 {
			base = big.NewInt(100)
		}
		for d := int64(-3); d <= 3; d++ {
			mag := new(big.Int).Add(base, big.NewInt(d))
			if mag.Sign() < 0 {
				continue
			}
			for _, neg := range []bool{false, true} {
				if neg && mag.Sign() == 0 {
					continue
				}
				for _, e := range c22IntForms(mag, neg) {
					c22CheckSize(c, "int", []ev.Event{e}, c22IntSize(mag, neg), true)
				}
			}
		}
	case idx < 80+256:
		// all bfloat16 patterns with high byte = idx-80
		hi := uint32(idx - 80)
		for lo := uint32(0); lo < 256; lo++ {
			f := float64(math.Float32frombits((hi<<8 | lo) << 16))
			if math.IsNaN(f) || math.IsInf(f, 0) || f == 0 {
				continue
			}
			c22CheckSize(c, "float", []ev.Event{{K: ev.FLOAT, F: f}}, c22FloatSize(f), lo < 2)
			// the neighbours that no longer fit bfloat16 / float32
			g := float64(math.Float32frombits((hi<<8|lo)<<16 | 1))
			if !math.IsNaN(g) && !math.IsInf(g, 0) && g != 0 {
				c22CheckSize(c, "float", []ev.Event{{K: ev.FLOAT, F: g}}, c22FloatSize(g), lo < 2)
				h := math.Float64frombits(math.Float64bits(g) | 1)
				c22CheckSize(c, "float", []ev.Event{{K: ev.FLOAT, F: h}}, c22FloatSize(h), lo < 2)
				bf := new(big.Float).SetFloat64(g)
				c22CheckSize(c, "float", []ev.Event{{K: ev.BFLOAT, BF: bf}}, c22FloatSize(g), false)
				// a big.Float that is exactly a float64 using all 53 significand bits, at several precisions
				c22BigFloatLikeFloat(c, h)
			}
		}
	case idx < 80+256+41+len(c22ExtraLens):
		// arrays and strings of length n in whole and single-final-chunk form
		n := idx - 336
		if n > 40 {
			n = c22ExtraLens[n-41]
		}
		ats := []events.ArrayType{events.ArrayTypeString, events.ArrayTypeResourceID, events.ArrayTypeBit, events.ArrayTypeUint8, events.ArrayTypeUint16, events.ArrayTypeUint32,
			events.ArrayTypeUint64, events.ArrayTypeInt8, events.ArrayTypeInt16, events.ArrayTypeInt32, events.ArrayTypeInt64, events.ArrayTypeFloat16,
			events.ArrayTypeFloat32, events.ArrayTypeFloat64, events.ArrayTypeUID}
		for _, at := range ats {
			var nb int
			if at.ElementSize() == 1 {
				nb = (n + 7) / 8
			} else {
				nb = n * at.ElementSize() / 8
			}
			data := bytes.Repeat([]byte{'a'}, nb)
			want := c22ArraySize(at, uint64(n), nb)
			near := n >= 14 && n <= 17
			c22CheckSize(c, "array", []ev.Event{{K: ev.ARR, AT: at, U: uint64(n), B: data}}, want, near)
			if at == events.ArrayTypeString || at == events.ArrayTypeResourceID {
				c22CheckSize(c, "array", []ev.Event{{K: ev.STRARR, AT: at, S: string(data)}}, want, near)
			}
			chunked := []ev.Event{{K: ev.ABEGIN, AT: at}, {K: ev.CHUNK, U: uint64(n), Flag: false}}
			if nb > 0 {
				chunked = append(chunked, ev.Event{K: ev.DATA, B: data})
			}
			c22CheckSize(c, "array", chunked, want, near)
		}
	case idx < c22Directed:
		// random integers and floats
		for i := 0; i < 40; i++ {
			mag := gen.Magnitude(c.Rng)
			neg := c.Rng.Intn(2) == 0 && mag.Sign() != 0
			c22CheckSize(c, "int", []ev.Event{gen.IntEvent(c.Rng, neg, mag)}, c22IntSize(mag, neg), false)
			f := gen.Float64Value(c.Rng)
			if !math.IsInf(f, 0) && f != 0 {
				c22CheckSize(c, "float", []ev.Event{{K: ev.FLOAT, F: f}}, c22FloatSize(f), false)
				c22BigFloatLikeFloat(c, f)
				c22BigFloatLikeFloat(c, math.Float64frombits(math.Float64bits(f)|1))
			}
		}
	default:
		c22Idempotence(c)
	}
}

// c22BigFloatLikeFloat: a big.Float event whose value is exactly the float64 f must be written like the float event
// for f (same minimal form, same bytes), whatever precision the big.Float carries.
func c22BigFloatLikeFloat(c *fw.Ctx, f float64) {
	if math.IsNaN(f) || math.IsInf(f, 0) || f == 0 {
		return
	}
	want, p := c22Encode([]ev.Event{{K: ev.FLOAT, F: f}})
	if p != nil {
		return
	}
	for _, prec := range []uint{53, 64, 113, 200} {
		bf := new(big.Float).SetPrec(prec).SetFloat64(f)
		e := []ev.Event{{K: ev.BFLOAT, BF: bf}}
		c22CheckSize(c, "float", e, c22FloatSize(f), false)
		got, p := c22Encode(e)
		c.Inc("bigfloat_vs_float_compared")
		if p == nil && !bytes.Equal(got, want) {
			c.Fail("not-canonical:bigfloat-differs-from-float", map[string]interface{}{"float": fmt.Sprintf("%x", f), "precision": prec, "as_float": hexs(want), "as_bigfloat": hexs(got)})
			return
		}
	}
}

func c22Idempotence(c *fw.Ctx) {
	cfg := configuration.New()
	in := gen.Stream(c.Rng, cbeStreamOpts(c))
	if _, rej, _ := throughRules(in, cfg); rej >= 0 {
		c.Inc("generated_stream_rejected_by_rules")
		return
	}
	e1, fi, _ := encodeWithRules(ce.NewCBEEncoder(cfg), in, cfg)
	if fi >= 0 {
		c.Inc("encode_failed_skipped")
		return
	}
	c.Note("e1 %s", hexs(e1))
	c.Eval()
	e2, err, p, st := convert(ce.NewCBEDecoder(cfg), e1, ce.NewCBEEncoder(cfg), cfg)
	if err != nil || p != nil {
		c.Fail("idempotence:re-encode-failed", map[string]interface{}{"e1": hexs(e1), "err": errStr(err), "panic": ev.PanicString(p), "stack": st})
		return
	}
	c.Inc("idempotence_checked")
	c.Count("idempotence_bytes", int64(len(e1)))
	if nontrivialStream(in) {
		c.Distinct(hexs(e1))
	}
	if !bytes.Equal(e1, e2) {
		at := 0
		for at < len(e1) && at < len(e2) && e1[at] == e2[at] {
			at++
		}
		c.Fail("idempotence:bytes-differ", map[string]interface{}{"stream": ev.LogStrings(in), "e1": hexs(e1), "e2": hexs(e2), "first_diff_offset": at})
	}
}
