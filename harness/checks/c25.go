package checks

// C25 - every CTE array-format setting produces readable CTE.
//
// The format x kind table (8 formats x 11 numeric array kinds) is enumerated completely; each cell
// is exercised with directed element sets (boundary, negative, subnormal, inf, NaN, zeros, empty,
// one element, 17 elements) and then with seeded random arrays. The array is encoded by the CTE
// encoder under that configuration (whole OnArray, or chunked with data events split anywhere) and
// decoded by the CTE decoder + rules; oracle: same array type, same element count, element-exact
// bytes (NaN elements by quiet/signalling kind only).

import (
	"bytes"
	"encoding/binary"
	"fmt"
	"math/rand"

	"github.com/kstenerud/go-concise-encoding/ce"
	"github.com/kstenerud/go-concise-encoding/ce/events"
	"github.com/kstenerud/go-concise-encoding/configuration"

	"verifharness/ev"
	"verifharness/fw"
)

type c25Kind struct {
	name  string
	at    events.ArrayType
	width int
	class byte // 'i', 'u', 'f'
	set   func(a *configuration.CTEEncoderDefaultArrayFormats, f configuration.CTENumericFormat)
}

var c25Kinds = []c25Kind{
	{"i8", events.ArrayTypeInt8, 1, 'i', func(a *configuration.CTEEncoderDefaultArrayFormats, f configuration.CTENumericFormat) { a.Int8 = f }},
	{"i16", events.ArrayTypeInt16, 2, 'i', func(a *configuration.CTEEncoderDefaultArrayFormats, f configuration.CTENumericFormat) { a.Int16 = f }},
	{"i32", events.ArrayTypeInt32, 4, 'i', func(a *configuration.CTEEncoderDefaultArrayFormats, f configuration.CTENumericFormat) { a.Int32 = f }},
	{"i64", events.ArrayTypeInt64, 8, 'i', func(a *configuration.CTEEncoderDefaultArrayFormats, f configuration.CTENumericFormat) { a.Int64 = f }},
	{"u8", events.ArrayTypeUint8, 1, 'u', func(a *configuration.CTEEncoderDefaultArrayFormats, f configuration.CTENumericFormat) { a.Uint8 = f }},
	{"u16", events.ArrayTypeUint16, 2, 'u', func(a *configuration.CTEEncoderDefaultArrayFormats, f configuration.CTENumericFormat) { a.Uint16 = f }},
	{"u32", events.ArrayTypeUint32, 4, 'u', func(a *configuration.CTEEncoderDefaultArrayFormats, f configuration.CTENumericFormat) { a.Uint32 = f }},
	{"u64", events.ArrayTypeUint64, 8, 'u', func(a *configuration.CTEEncoderDefaultArrayFormats, f configuration.CTENumericFormat) { a.Uint64 = f }},
	{"f16", events.ArrayTypeFloat16, 2, 'f', func(a *configuration.CTEEncoderDefaultArrayFormats, f configuration.CTENumericFormat) { a.Float16 = f }},
	{"f32", events.ArrayTypeFloat32, 4, 'f', func(a *configuration.CTEEncoderDefaultArrayFormats, f configuration.CTENumericFormat) { a.Float32 = f }},
	{"f64", events.ArrayTypeFloat64, 8, 'f', func(a *configuration.CTEEncoderDefaultArrayFormats, f configuration.CTENumericFormat) { a.Float64 = f }},
}

type c25Format struct {
	name string
	f    configuration.CTENumericFormat
}

// the eight settings: decimal, binary, octal, hexadecimal, each optionally zero-filled
var c25Formats = []c25Format{
	{"decimal", configuration.CTEEncodingFormatDecimal},
	{"decimal-zerofilled", configuration.CTEEncodingFormatDecimal | configuration.CTEEncodingFormatFlagZeroFilled},
	{"binary", configuration.CTEEncodingFormatBinary},
	{"binary-zerofilled", configuration.CTEEncodingFormatBinaryZeroFilled},
	{"octal", configuration.CTEEncodingFormatOctal},
	{"octal-zerofilled", configuration.CTEEncodingFormatOctalZeroFilled},
	{"hexadecimal", configuration.CTEEncodingFormatHexadecimal},
	{"hexadecimal-zerofilled", configuration.CTEEncodingFormatHexadecimalZeroFilled},
}

const c25DirectedSets = 12

func c25Cells() int { return len(c25Kinds) * len(c25Formats) }

func init() {
	fw.Register(&fw.Check{
		ID:    "C25",
		Level: "exploration",
		Rule: "the table {decimal, binary, octal, hexadecimal} x {plain, zero-filled} (8 values of configuration.CTENumericFormat) x 11 numeric array kinds " +
			"(cfg.Encoder.CTE.DefaultNumericFormats.Array.<Kind>) is enumerated completely (every run visits all 88 cells, that is what 'exhaustive' refers to); each cell gets 12 directed " +
			"element sets (empty, one element, boundary values, negative/high-bit values, 17 elements, all-zero bytes, all-ones bytes; for floats +-0, subnormals, +-inf, quiet/signalling NaNs, " +
			"largest/smallest normals) and then seeded random arrays (0..40 elements, random bit patterns mixed with boundary patterns). case = one array, encoded by ce.NewCTEEncoder(cfg) " +
			"(whole OnArray, or OnArrayBegin/Chunk/Data with data events split at random byte positions) and decoded by ce.NewCTEDecoder(cfg)+rules into a recorder; oracle = the decoded " +
			"document is exactly one array of the same type with element-exact bytes (NaN elements compared by quiet/signalling kind only). Non-trivial = array with >=1 element; " +
			"distinct = distinct (kind, format, bytes).",
		Assumptions: []string{"format values outside the eight defined settings (2, 3, >= 10) are not configurations in the property's sense and are not exercised",
			"float16 is the library's bfloat16", "element sets per cell are sampled (directed + random), only the format x kind table is exhaustive"},
		Exhaustive: func(string) bool { return true },
		Cases:      func(tier string) int { return c25Cells() * tierN(tier, 40, 4000) },
		Run:        runC25,
		Floors: func(string) map[string]int64 {
			m := map[string]int64{"compared": 1000, "form.whole": 100, "form.chunked": 100}
			for _, k := range c25Kinds {
				for _, f := range c25Formats {
					m["cell."+k.name+"."+f.name] = c25DirectedSets
				}
			}
			for _, s := range []string{"empty", "one", "boundary", "negative", "seventeen", "float.zeros", "float.subnormal", "float.inf", "float.nan", "float.extremes"} {
				m["set."+s] = 1
			}
			return m
		},
	})
}

func c25Put(dst []byte, width int, v uint64) []byte {
	switch width {
	case 1:
		return append(dst, byte(v))
	case 2:
		return binary.LittleEndian.AppendUint16(dst, uint16(v))
	case 4:
		return binary.LittleEndian.AppendUint32(dst, uint32(v))
	}
	return binary.LittleEndian.AppendUint64(dst, v)
}

type c25FloatLayout struct{ expBits, fracBits uint }

func c25Layout(width int) c25FloatLayout {
	switch width {
	case 2:
		return c25FloatLayout{8, 7}
	case 4:
		return c25FloatLayout{8, 23}
	}
	return c25FloatLayout{11, 52}
}

func (l c25FloatLayout) bits(sign, exp, frac uint64) uint64 {
	return sign<<(l.expBits+l.fracBits) | exp<<l.fracBits | frac
}

// c25Elements returns the element bit patterns of directed set number n (or a random set) and its name.
func c25Elements(r *rand.Rand, k c25Kind, n int) (string, []uint64) {
	bitsN := uint(k.width * 8)
	mask := ^uint64(0) >> (64 - bitsN)
	l := c25Layout(k.width)
	expMax := uint64(1)<<l.expBits - 1
	fracMask := uint64(1)<<l.fracBits - 1
	randElem := func() uint64 {
		v := r.Uint64() & mask
		switch r.Intn(8) {
		case 0:
			v >>= uint(r.Intn(int(bitsN)))
		case 1:
			v = []uint64{0, 1, mask, mask >> 1, mask>>1 + 1, mask - 1}[r.Intn(6)]
		case 2:
			if k.class == 'f' {
				v = l.bits(uint64(r.Intn(2)), []uint64{0, 0, expMax, expMax, 1, expMax - 1}[r.Intn(6)], []uint64{0, 1, fracMask, r.Uint64() & fracMask}[r.Intn(4)])
			}
		case 3:
			if k.class == 'f' { // short mantissas around 1.0: values that print as small integers / short fractions
				v = l.bits(uint64(r.Intn(2)), expMax/2+uint64(r.Intn(12)), (r.Uint64()&fracMask)&^(fracMask>>uint(1+r.Intn(5))))
			}
		}
		return v
	}
	switch n {
	case 0:
		return "empty", nil
	case 1:
		return "one", []uint64{randElem()}
	case 2: // boundary: min, max, 0, 1, -1 / all ones
		return "boundary", []uint64{mask>>1 + 1, mask >> 1, 0, 1, mask, mask - 1, mask>>1 - 1, mask>>1 + 2}
	case 3: // negative (signed) / high bit set (unsigned) / negative floats
		var out []uint64
		for i := 0; i < 8; i++ {
			v := randElem() | (mask>>1 + 1)
			if k.class == 'f' && (v>>l.fracBits)&expMax == expMax {
				v &^= 1 << l.fracBits // keep it finite
			}
			out = append(out, v)
		}
		return "negative", out
	case 4:
		var out []uint64
		for i := 0; i < 17; i++ {
			out = append(out, randElem())
		}
		return "seventeen", out
	case 5:
		return "zerobytes", []uint64{0, 0, 0}
	case 6:
		if k.class == 'f' {
			return "float.zeros", []uint64{l.bits(0, 0, 0), l.bits(1, 0, 0), l.bits(1, 0, 0), l.bits(0, 0, 0)}
		}
		return "onesbytes", []uint64{mask, mask}
	case 7:
		if k.class == 'f' {
			return "float.subnormal", []uint64{l.bits(0, 0, 1), l.bits(1, 0, 1), l.bits(0, 0, fracMask), l.bits(1, 0, fracMask), l.bits(0, 0, r.Uint64()&fracMask|1), l.bits(1, 0, fracMask>>1+1)}
		}
		return "powers", []uint64{1, 2, 4, 8, 16, 64, 128 & mask, (mask>>1 + 1) >> 1}
	case 8:
		if k.class == 'f' {
			return "float.inf", []uint64{l.bits(0, expMax, 0), l.bits(1, expMax, 0), l.bits(0, expMax/2, 0)}
		}
		return "small", []uint64{7, 8, 9, 10, 15, 16, 17, 63 & mask, 100 & mask}
	case 9:
		if k.class == 'f' {
			q := uint64(1) << (l.fracBits - 1)
			return "float.nan", []uint64{l.bits(0, expMax, q), l.bits(0, expMax, q>>1), l.bits(1, expMax, q|1), l.bits(1, expMax, 1), l.bits(0, expMax, fracMask), l.bits(0, expMax, q-1)}
		}
		return "random", []uint64{randElem(), randElem(), randElem()}
	case 10:
		if k.class == 'f' {
			return "float.extremes", []uint64{l.bits(0, expMax-1, fracMask), l.bits(1, expMax-1, fracMask), l.bits(0, 1, 0), l.bits(1, 1, 0), l.bits(0, expMax/2, 0), l.bits(0, expMax/2+1, fracMask>>1+1),
				l.bits(0, expMax/2+62, 0), l.bits(0, expMax/2+63, 0), l.bits(1, expMax/2+63, 0), l.bits(0, expMax/2+64, 0), l.bits(0, expMax/2+53, 1)}
		}
		return "random", []uint64{randElem(), randElem(), randElem(), randElem(), randElem()}
	case 11:
		var out []uint64
		for i := 0; i < 40; i++ {
			out = append(out, randElem())
		}
		return "forty", out
	}
	cnt := []int{0, 1, 2, 3, 5, 8, 17, 40}[r.Intn(8)]
	var out []uint64
	for i := 0; i < cnt; i++ {
		out = append(out, randElem())
	}
	return "random", out
}

func c25Region(k c25Kind, f c25Format) string {
	if k.class == 'f' {
		switch f.f {
		case configuration.CTEEncodingFormatBinary, configuration.CTEEncodingFormatBinaryZeroFilled, configuration.CTEEncodingFormatOctal, configuration.CTEEncodingFormatOctalZeroFilled:
			return "float-array@binary-or-octal-format"
		}
	}
	return k.name + "@" + f.name
}

func runC25(c *fw.Ctx, idx int) {
	cell := idx % c25Cells()
	round := idx / c25Cells()
	k := c25Kinds[cell%len(c25Kinds)]
	f := c25Formats[cell/len(c25Kinds)]
	setName, elems := c25Elements(c.Rng, k, round)
	var data []byte
	for _, e := range elems {
		data = c25Put(data, k.width, e)
	}
	cfg := configuration.New()
	k.set(&cfg.Encoder.CTE.DefaultNumericFormats.Array, f.f)

	// the event stream: whole array, or chunked with data events split anywhere
	in := []ev.Event{{K: ev.BD}, {K: ev.VER, U: 0}}
	chunked := round >= 3 && c.Rng.Intn(3) == 0
	if chunked {
		in = append(in, ev.Event{K: ev.ABEGIN, AT: k.at})
		rest := len(elems)
		pos := 0
		for {
			n := rest
			if rest > 1 && c.Rng.Intn(2) == 0 {
				n = 1 + c.Rng.Intn(rest)
			}
			if c.Rng.Intn(6) == 0 && rest > 0 {
				n = 0 // an empty chunk in the middle
			}
			rest -= n
			in = append(in, ev.Event{K: ev.CHUNK, U: uint64(n), Flag: rest > 0})
			b := data[pos : pos+n*k.width]
			pos += n * k.width
			for len(b) > 0 {
				cut := len(b)
				if c.Rng.Intn(2) == 0 {
					cut = 1 + c.Rng.Intn(len(b))
				}
				in = append(in, ev.Event{K: ev.DATA, B: b[:cut]})
				b = b[cut:]
			}
			if rest == 0 {
				break
			}
		}
		c.Inc("form.chunked")
	} else {
		in = append(in, ev.Event{K: ev.ARR, AT: k.at, U: uint64(len(elems)), B: data})
		c.Inc("form.whole")
	}
	in = append(in, ev.Event{K: ev.ED})

	desc := fmt.Sprintf("%s %s %x", k.name, f.name, data)
	c.Note("C25 %s set=%s chunked=%v", desc, setName, chunked)
	c.Eval()
	c.Inc("cell." + k.name + "." + f.name)
	c.Inc("set." + setName)
	if len(elems) > 0 {
		c.Distinct(desc)
	}
	region := c25Region(k, f)
	detail := map[string]interface{}{"kind": k.name, "format": f.name, "format_value": int(f.f), "set": setName, "elements_le_hex": hexs(data), "stream": ev.LogStrings(in)}

	var buf bytes.Buffer
	enc := ce.NewCTEEncoder(cfg)
	if c.Rng.Intn(2) == 1 {
		// a destination that is only an io.Writer: strings then go through the encoder's own adapter and scratch buffer
		enc.PrepareToEncode(c16PlainWriter{&buf})
		c.Inc("destination.plain-writer")
	} else {
		enc.PrepareToEncode(&buf)
		c.Inc("destination.bytes-buffer")
	}
	if fi, p := replayAuto(enc, in); fi >= 0 {
		detail["event"], detail["panic"] = fi, ev.PanicString(p)
		c.Fail("encode-panic:"+region, detail)
		return
	}
	doc := buf.Bytes()
	detail["cte"] = string(doc)
	res := decodeDoc(ce.NewCTEDecoder(cfg), doc, cfg, true)
	if res.Panic != nil {
		detail["panic"], detail["stack"] = ev.PanicString(res.Panic), res.Stack
		c.Fail("decode-escaped-panic:"+region, detail)
		return
	}
	if res.Err != nil {
		detail["err"] = res.Err.Error()
		c.Fail("decode-reject:"+region, detail)
		return
	}
	want, err := ev.Canon(in, ev.Opts{FloatArrayNaNKindOnly: true})
	if err != nil {
		c.Fail("harness-canon-input", map[string]interface{}{"stream": ev.LogStrings(in), "err": err.Error()})
		return
	}
	got, err := ev.Canon(res.Log, ev.Opts{FloatArrayNaNKindOnly: true})
	if err != nil {
		detail["decoded"], detail["err"] = ev.LogStrings(res.Log), err.Error()
		c.Fail("decoded-log-malformed:"+region, detail)
		return
	}
	c.Inc("compared")
	c.Count("elements_compared", int64(len(elems)))
	if path, d := ev.Diff(want, got); path != "" {
		detail["decoded"], detail["path"], detail["diff"] = ev.LogStrings(res.Log), path, d
		c.Fail("mismatch:"+region, detail)
		return
	}
	if c.WantSample() && len(elems) > 0 && len(elems) < 9 {
		c.Sample(map[string]interface{}{"kind": k.name, "format": f.name, "elements_le_hex": hexs(data), "cte": string(doc)})
	}
}
