package checks

import (
	"bytes"
	"fmt"
	"math"
	"math/big"
	"math/rand"
	"reflect"
	"sort"
	"strings"

	"github.com/kstenerud/go-concise-encoding/ce"
	"github.com/kstenerud/go-concise-encoding/ce/events"
	"github.com/kstenerud/go-concise-encoding/configuration"
	"github.com/kstenerud/go-concise-encoding/rules"

	"verifharness/ev"
	"verifharness/fw"
)

// C13 part B — "When a typed or untyped value is built, every reference is replaced by the marked value."
//
// Template-first workload: pick a Go type T from a small family, make a value v of T with deliberately
// repeated sub-values, and write v as an event stream in which repeated sub-values are shared through
// markers and references (backward and forward, on scalars, containers, map keys). Substituting every
// reference by its marked value gives back v by construction, so v (or its untyped form) is the
// expected result of unmarshaling into a T (or nil) template.

// ---------------------------------------------------------------------------
// type families

type c13S1 struct {
	A int64
	B string
	C []int64
	D map[string]int64
	E *int64
	F []string
}

type c13S2 struct {
	X string
	Y string
	Z [][]int64
	W *c13S3
	V *c13S3
}

type c13S3 struct {
	P int64
	Q []string
}

var c13Ints = []int64{1, 2, 3, 300, -7}
var c13Strs = []string{"a", "b", "hello", "k"}

func c13Int(r *rand.Rand) int64  { return c13Ints[r.Intn(len(c13Ints))] }
func c13Str(r *rand.Rand) string { return c13Strs[r.Intn(len(c13Strs))] }

func c13IntSlice(r *rand.Rand) []int64 {
	n := r.Intn(4)
	out := make([]int64, n)
	for i := range out {
		out[i] = c13Ints[r.Intn(3)]
	}
	return out
}

func c13StrSlice(r *rand.Rand) []string {
	n := r.Intn(4)
	out := make([]string, n)
	for i := range out {
		out[i] = c13Strs[r.Intn(3)]
	}
	return out
}

func c13StrIntMap(r *rand.Rand) map[string]int64 {
	out := map[string]int64{}
	for i, n := 0, r.Intn(4); i < n; i++ {
		out[c13Str(r)] = c13Int(r)
	}
	return out
}

func c13Generic(r *rand.Rand, depth int) interface{} {
	k := r.Intn(12)
	if depth >= 3 && k >= 8 {
		k = r.Intn(8)
	}
	switch k {
	case 0, 1:
		return c13Int(r)
	case 2, 3:
		return c13Str(r)
	case 4:
		return r.Intn(2) == 0
	case 5:
		return []float64{1.5, -0.25, 1e100}[r.Intn(3)]
	case 6:
		return nil
	case 7:
		return c13Str(r)
	case 8, 9:
		n := r.Intn(4)
		out := make([]interface{}, n)
		for i := range out {
			out[i] = c13Generic(r, depth+1)
		}
		return out
	}
	out := map[interface{}]interface{}{}
	for i, n := 0, r.Intn(4); i < n; i++ {
		var key interface{}
		if r.Intn(2) == 0 {
			key = c13Str(r)
		} else {
			key = c13Int(r)
		}
		out[key] = c13Generic(r, depth+1)
	}
	return out
}

type c13Family struct {
	name string
	make func(r *rand.Rand) interface{}
}

var c13Families = []c13Family{
	{"[]int64", func(r *rand.Rand) interface{} {
		out := make([]int64, 2+r.Intn(5))
		for i := range out {
			out[i] = c13Int(r)
		}
		return out
	}},
	{"[]string", func(r *rand.Rand) interface{} {
		out := make([]string, 2+r.Intn(5))
		for i := range out {
			out[i] = c13Str(r)
		}
		return out
	}},
	{"[][]int64", func(r *rand.Rand) interface{} {
		out := make([][]int64, 2+r.Intn(4))
		for i := range out {
			out[i] = c13IntSlice(r)
		}
		return out
	}},
	{"map[string]int64", func(r *rand.Rand) interface{} { return c13StrIntMap(r) }},
	{"map[string][]string", func(r *rand.Rand) interface{} {
		out := map[string][]string{}
		for i, n := 0, 1+r.Intn(4); i < n; i++ {
			out[c13Str(r)] = c13StrSlice(r)
		}
		return out
	}},
	{"map[int64]string", func(r *rand.Rand) interface{} {
		out := map[int64]string{}
		for i, n := 0, 1+r.Intn(4); i < n; i++ {
			out[c13Int(r)] = c13Str(r)
		}
		return out
	}},
	{"map[string]string", func(r *rand.Rand) interface{} {
		out := map[string]string{}
		for i, n := 0, 2+r.Intn(3); i < n; i++ {
			out[c13Str(r)] = c13Str(r)
		}
		return out
	}},
	{"[]map[string]int64", func(r *rand.Rand) interface{} {
		out := make([]map[string]int64, 2+r.Intn(3))
		for i := range out {
			out[i] = c13StrIntMap(r)
		}
		return out
	}},
	{"[]*int64", func(r *rand.Rand) interface{} {
		out := make([]*int64, 2+r.Intn(4))
		for i := range out {
			v := c13Int(r)
			out[i] = &v
		}
		return out
	}},
	{"[]*[]string", func(r *rand.Rand) interface{} {
		out := make([]*[]string, 2+r.Intn(3))
		for i := range out {
			v := c13StrSlice(r)
			out[i] = &v
		}
		return out
	}},
	{"[]float64", func(r *rand.Rand) interface{} {
		out := make([]float64, 2+r.Intn(4))
		for i := range out {
			out[i] = []float64{1.5, -0.25, 1e100}[r.Intn(3)]
		}
		return out
	}},
	{"struct1", func(r *rand.Rand) interface{} {
		e := c13Int(r)
		return c13S1{A: c13Int(r), B: c13Str(r), C: c13IntSlice(r), D: c13StrIntMap(r), E: &e, F: c13StrSlice(r)}
	}},
	{"struct2", func(r *rand.Rand) interface{} {
		z := make([][]int64, 1+r.Intn(3))
		for i := range z {
			z[i] = c13IntSlice(r)
		}
		q := c13StrSlice(r)
		w := &c13S3{P: c13Int(r), Q: q}
		v := &c13S3{P: c13Int(r), Q: c13StrSlice(r)}
		if r.Intn(2) == 0 {
			v = &c13S3{P: w.P, Q: append([]string{}, q...)}
		}
		return c13S2{X: c13Str(r), Y: c13Str(r), Z: z, W: w, V: v}
	}},
	{"[]struct3", func(r *rand.Rand) interface{} {
		out := make([]c13S3, 2+r.Intn(3))
		for i := range out {
			out[i] = c13S3{P: c13Ints[r.Intn(2)], Q: c13StrSlice(r)}
			if i > 0 && r.Intn(2) == 0 {
				out[i] = c13S3{P: out[0].P, Q: append([]string{}, out[0].Q...)}
			}
		}
		return out
	}},
	{"[]interface{}", func(r *rand.Rand) interface{} {
		out := make([]interface{}, 2+r.Intn(5))
		for i := range out {
			out[i] = c13Generic(r, 1)
		}
		return out
	}},
	{"map[interface{}]interface{}", func(r *rand.Rand) interface{} {
		out := map[interface{}]interface{}{}
		for i, n := 0, 2+r.Intn(4); i < n; i++ {
			var key interface{} = c13Str(r)
			if r.Intn(3) == 0 {
				key = c13Int(r)
			}
			out[key] = c13Generic(r, 1)
		}
		return out
	}},
	{"map[string]interface{}", func(r *rand.Rand) interface{} {
		out := map[string]interface{}{}
		for i, n := 0, 2+r.Intn(4); i < n; i++ {
			out[c13Str(r)] = c13Generic(r, 1)
		}
		return out
	}},
}

// ---------------------------------------------------------------------------
// occurrences of sub-values in emission order

type c13Occ struct {
	v       reflect.Value // the sub-value (pointers and interfaces already dereferenced)
	isNil   bool
	isKey   bool
	group   string // static type + canonical contents
	end     int    // index one past the last occurrence of this subtree
	kids    []int
	fieldOf string // struct field name when this occurrence is a struct field value (written after the key)
}

type c13Doc struct {
	occs         []c13Occ
	markAt       map[string]int // group -> occurrence carrying the marker
	ids          map[string]string
	log          []ev.Event
	letters      []c10Sym
	keyCls       map[string]uint8
	idIdx        map[string]uint8
	feat         map[string]int
	defined      map[string]bool
	skipModel    bool
	fwdFieldRefs map[string]bool // struct field names whose value was written as a forward reference
}

func c13Deref(v reflect.Value) (reflect.Value, bool) {
	for v.IsValid() && (v.Kind() == reflect.Ptr || v.Kind() == reflect.Interface) {
		if v.IsNil() {
			return v, true
		}
		v = v.Elem()
	}
	if !v.IsValid() {
		return v, true
	}
	return v, false
}

// c13Repr is a canonical rendering of a value's contents (maps sorted), used to find equal sub-values.
func c13Repr(v reflect.Value) string {
	v, isNil := c13Deref(v)
	if isNil {
		return "nil"
	}
	switch v.Kind() {
	case reflect.Int, reflect.Int8, reflect.Int16, reflect.Int32, reflect.Int64:
		return fmt.Sprintf("i%d", v.Int())
	case reflect.Uint, reflect.Uint8, reflect.Uint16, reflect.Uint32, reflect.Uint64:
		return fmt.Sprintf("i%d", v.Uint())
	case reflect.Float32, reflect.Float64:
		return fmt.Sprintf("f%x", math.Float64bits(v.Float()))
	case reflect.String:
		return fmt.Sprintf("s%q", v.String())
	case reflect.Bool:
		return fmt.Sprintf("b%v", v.Bool())
	case reflect.Slice, reflect.Array:
		parts := make([]string, v.Len())
		for i := range parts {
			parts[i] = c13Repr(v.Index(i))
		}
		return "[" + strings.Join(parts, ",") + "]"
	case reflect.Map:
		var parts []string
		for _, k := range v.MapKeys() {
			parts = append(parts, c13Repr(k)+"="+c13Repr(v.MapIndex(k)))
		}
		sort.Strings(parts)
		return "{" + strings.Join(parts, ",") + "}"
	case reflect.Struct:
		var parts []string
		for i := 0; i < v.NumField(); i++ {
			parts = append(parts, v.Type().Field(i).Name+"="+c13Repr(v.Field(i)))
		}
		return "S{" + strings.Join(parts, ",") + "}"
	}
	panic("c13: unsupported kind " + v.Kind().String())
}

func c13SortedKeys(v reflect.Value) []reflect.Value {
	keys := v.MapKeys()
	sort.Slice(keys, func(i, j int) bool { return c13Repr(keys[i]) < c13Repr(keys[j]) })
	return keys
}

// collect lists the occurrences of v's subtree in emission (pre-)order.
func (d *c13Doc) collect(v reflect.Value, isKey bool, r *rand.Rand) int {
	staticType := "nil"
	if v.IsValid() {
		staticType = v.Type().String()
	}
	dv, isNil := c13Deref(v)
	idx := len(d.occs)
	d.occs = append(d.occs, c13Occ{v: dv, isNil: isNil, isKey: isKey})
	if isNil {
		d.occs[idx].group = "nil"
		d.occs[idx].end = len(d.occs)
		return idx
	}
	// values of interface type share by contents only; others by static type + contents
	if v.Kind() == reflect.Interface || (v.Kind() == reflect.Ptr && false) {
		staticType = "interface"
	}
	if isKey {
		staticType = "key:" + dv.Type().String()
	}
	d.occs[idx].group = staticType + "|" + c13Repr(dv)
	var kids []int
	switch dv.Kind() {
	case reflect.Slice, reflect.Array:
		for i := 0; i < dv.Len(); i++ {
			kids = append(kids, d.collect(dv.Index(i), false, r))
		}
	case reflect.Map:
		keys := c13SortedKeys(dv)
		r.Shuffle(len(keys), func(i, j int) { keys[i], keys[j] = keys[j], keys[i] })
		for _, k := range keys {
			kids = append(kids, d.collect(k, true, r))
			kids = append(kids, d.collect(dv.MapIndex(k), false, r))
		}
	case reflect.Struct:
		for i := 0; i < dv.NumField(); i++ {
			k := d.collect(dv.Field(i), false, r)
			d.occs[k].fieldOf = strings.ToLower(dv.Type().Field(i).Name)
			kids = append(kids, k)
		}
	}
	d.occs[idx].kids = kids
	d.occs[idx].end = len(d.occs)
	return idx
}

func c13Keyable(v reflect.Value) bool {
	switch v.Kind() {
	case reflect.Int, reflect.Int8, reflect.Int16, reflect.Int32, reflect.Int64, reflect.Uint, reflect.Uint8, reflect.Uint16,
		reflect.Uint32, reflect.Uint64, reflect.String, reflect.Bool:
		return true
	}
	return false
}

// plan chooses, for some groups of equal sub-values, the occurrence that carries the marker.
// Keys may share with non-key occurrences of the same contents (a reference used as a key).
func (d *c13Doc) plan(r *rand.Rand, shareProb float64) {
	groups := map[string][]int{}
	var order []string
	add := func(g string, i int) {
		if _, ok := groups[g]; !ok {
			order = append(order, g)
		}
		groups[g] = append(groups[g], i)
	}
	for i := range d.occs {
		o := &d.occs[i]
		g := o.group
		if o.isNil {
			add(g, i)
			continue
		}
		// merge key and value occurrences of the same keyable contents into one group: contents only
		if c13Keyable(o.v) && (o.isKey || strings.HasPrefix(g, "interface|") || true) {
			g = "scalar|" + c13Repr(o.v)
			o.group = g
		}
		add(g, i)
	}
	d.markAt = map[string]int{}
	d.ids = map[string]string{}
	used := map[string]bool{}
	for _, g := range order {
		occ := groups[g]
		if len(occ) < 2 && r.Intn(6) != 0 {
			continue // a lone marker now and then
		}
		if r.Float64() > shareProb || len(d.markAt) >= 12 {
			continue
		}
		d.markAt[g] = occ[r.Intn(len(occ))]
		d.ids[g] = c13ValidID(r, 12, used)
	}
}

func (d *c13Doc) letterID(id string) uint8 {
	if i, ok := d.idIdx[id]; ok {
		return i
	}
	i := uint8(len(d.idIdx))
	d.idIdx[id] = i
	return i
}

func (d *c13Doc) keyClass(repr string) uint8 {
	if c, ok := d.keyCls[repr]; ok {
		return c
	}
	c := uint8(len(d.keyCls))
	d.keyCls[repr] = c
	return c
}

func (d *c13Doc) put(k c10Kind, id uint8, e ev.Event) {
	d.log = append(d.log, e)
	d.letters = append(d.letters, c10Sym{L: c10Letter{K: k, ID: id}, Name: e.String(), Ev: []ev.Event{e}})
}

func c13StringEvent(s string) ev.Event {
	return ev.Event{K: ev.STRARR, AT: events.ArrayTypeString, S: s}
}

// emit writes occurrence i, sharing it through a marker / reference when planned.
func (d *c13Doc) emit(i int) {
	o := &d.occs[i]
	if o.fieldOf != "" {
		d.put(c10KEY, d.keyClass(fmt.Sprintf("s%q", o.fieldOf)), c13StringEvent(o.fieldOf))
	}
	if at, ok := d.markAt[o.group]; ok {
		id := d.ids[o.group]
		if at == i {
			d.put(c10MARK, d.letterID(id), ev.Event{K: ev.MARK, B: []byte(id)})
			d.defined[id] = true
			d.feat["marker"]++
			switch {
			case o.isKey:
				d.feat["marked_key"]++
			case !o.isNil && !c13Keyable(o.v) && o.v.Kind() != reflect.Float64:
				d.feat["marked_container"]++
			}
		} else {
			// a reference must not swallow a subtree that holds another group's marker
			holds := false
			for _, m := range d.markAt {
				if m > i && m < o.end {
					holds = true
				}
			}
			if !holds {
				d.put(c10REF, d.letterID(id), ev.Event{K: ev.REF, B: []byte(id)})
				dir := "backward"
				if !d.defined[id] {
					dir = "forward"
				}
				if o.fieldOf != "" && dir == "forward" {
					if d.fwdFieldRefs == nil {
						d.fwdFieldRefs = map[string]bool{}
					}
					d.fwdFieldRefs[o.fieldOf] = true
					d.feat["ref_forward_in_struct_field"]++
				}
				if o.isKey {
					d.feat["keyref"]++
					d.feat["keyref_"+dir]++
				} else {
					d.feat["ref_"+dir]++
				}
				if o.isNil {
					d.feat["ref_to_null"]++
				}
				return
			}
		}
	}
	if o.isNil {
		d.put(c10NULL, 0, ev.Event{K: ev.NULL})
		return
	}
	v := o.v
	switch v.Kind() {
	case reflect.Int, reflect.Int8, reflect.Int16, reflect.Int32, reflect.Int64:
		e := ev.Event{K: ev.PINT, U: uint64(v.Int())}
		if v.Int() < 0 {
			e = ev.Event{K: ev.NINT, U: uint64(-v.Int())}
		}
		d.put(c10KEY, d.keyClass(c13Repr(v)), e)
	case reflect.String:
		d.put(c10KEY, d.keyClass(c13Repr(v)), c13StringEvent(v.String()))
	case reflect.Bool:
		e := ev.Event{K: ev.FALSE}
		if v.Bool() {
			e = ev.Event{K: ev.TRUE}
		}
		d.put(c10KEY, d.keyClass(c13Repr(v)), e)
	case reflect.Float64, reflect.Float32:
		d.put(c10NONKEY, 0, ev.Event{K: ev.FLOAT, F: v.Float()})
	case reflect.Slice, reflect.Array:
		d.put(c10LIST, 0, ev.Event{K: ev.LIST})
		for _, k := range o.kids {
			d.emit(k)
		}
		d.put(c10END, 0, ev.Event{K: ev.END})
	case reflect.Map, reflect.Struct:
		d.put(c10MAP, 0, ev.Event{K: ev.MAP})
		for _, k := range o.kids {
			d.emit(k)
		}
		d.put(c10END, 0, ev.Event{K: ev.END})
	default:
		panic("c13: cannot emit " + v.Kind().String())
	}
}

func c13BuildDoc(r *rand.Rand, value interface{}, shareProb float64) *c13Doc {
	d := &c13Doc{keyCls: map[string]uint8{}, idIdx: map[string]uint8{}, feat: map[string]int{}, defined: map[string]bool{}}
	d.collect(reflect.ValueOf(value), false, r)
	d.plan(r, shareProb)
	d.put(c10BD, 0, ev.Event{K: ev.BD})
	d.put(c10V, 0, ev.Event{K: ev.VER})
	d.emit(0)
	d.put(c10ED, 0, ev.Event{K: ev.ED})
	return d
}

// modelValid checks the document against the reference acceptor: every letter plainly accepted.
func (d *c13Doc) modelValid() (bool, string) {
	if len(d.keyCls) > 31 || len(d.idIdx) > 31 {
		return false, "too many classes"
	}
	m := newC10Model()
	for i, s := range d.letters {
		if v := m.Step(s.L); v.V != vAccept {
			return false, fmt.Sprintf("letter %d (%s): %s %s", i, s.Name, c10VerdictNames[v.V], c10ClauseNames[v.Clause])
		}
	}
	return true, ""
}

// ---------------------------------------------------------------------------
// structural comparison of Go values

func c13Num(v reflect.Value) (*big.Float, bool) {
	switch v.Kind() {
	case reflect.Int, reflect.Int8, reflect.Int16, reflect.Int32, reflect.Int64:
		return new(big.Float).SetInt64(v.Int()), true
	case reflect.Uint, reflect.Uint8, reflect.Uint16, reflect.Uint32, reflect.Uint64:
		return new(big.Float).SetUint64(v.Uint()), true
	case reflect.Float32, reflect.Float64:
		if math.IsNaN(v.Float()) || math.IsInf(v.Float(), 0) {
			return nil, false
		}
		return big.NewFloat(v.Float()), true
	}
	return nil, false
}

// c13Diff returns "" when want and got denote the same data, else the path and a description of the
// first difference. Pointers and interfaces are looked through; nil and empty containers are equal;
// numbers compare by exact value whatever their Go kind; structs match maps keyed by lower-cased field name.
func c13Diff(want, got reflect.Value, path string) string {
	want, wn := c13Deref(want)
	got, gn := c13Deref(got)
	isEmpty := func(v reflect.Value, isNil bool) bool {
		if isNil {
			return true
		}
		switch v.Kind() {
		case reflect.Slice, reflect.Map:
			return v.Len() == 0
		}
		return false
	}
	if wn || gn {
		if isEmpty(want, wn) && isEmpty(got, gn) {
			return ""
		}
		return fmt.Sprintf("%s: want %s, got %s", path, c13Show(want, wn), c13Show(got, gn))
	}
	if wf, ok := c13Num(want); ok {
		gf, ok2 := c13Num(got)
		if !ok2 || wf.Cmp(gf) != 0 {
			return fmt.Sprintf("%s: want %s, got %s", path, c13Show(want, false), c13Show(got, false))
		}
		return ""
	}
	switch want.Kind() {
	case reflect.Float32, reflect.Float64: // NaN / inf
		if (got.Kind() == reflect.Float64 || got.Kind() == reflect.Float32) &&
			(math.IsNaN(want.Float()) && math.IsNaN(got.Float()) || want.Float() == got.Float()) {
			return ""
		}
	case reflect.String:
		if got.Kind() == reflect.String && got.String() == want.String() {
			return ""
		}
	case reflect.Bool:
		if got.Kind() == reflect.Bool && got.Bool() == want.Bool() {
			return ""
		}
	case reflect.Slice, reflect.Array:
		if got.Kind() != reflect.Slice && got.Kind() != reflect.Array {
			break
		}
		if got.Len() != want.Len() {
			return fmt.Sprintf("%s: want %d elements, got %d: want %s, got %s", path, want.Len(), got.Len(), c13Show(want, false), c13Show(got, false))
		}
		for i := 0; i < want.Len(); i++ {
			if d := c13Diff(want.Index(i), got.Index(i), fmt.Sprintf("%s[%d]", path, i)); d != "" {
				return d
			}
		}
		return ""
	case reflect.Map, reflect.Struct:
		wk, wv := c13Entries(want)
		if got.Kind() != reflect.Map && got.Kind() != reflect.Struct {
			break
		}
		gk, gv := c13Entries(got)
		if len(wk) != len(gk) {
			return fmt.Sprintf("%s: want %d entries, got %d: want %s, got %s", path, len(wk), len(gk), c13Show(want, false), c13Show(got, false))
		}
		for i := range wk {
			found := -1
			for j := range gk {
				if c13Diff(wk[i], gk[j], "") == "" {
					found = j
					break
				}
			}
			if found < 0 {
				return fmt.Sprintf("%s: key %s missing: want %s, got %s", path, c13Show(wk[i], false), c13Show(want, false), c13Show(got, false))
			}
			if d := c13Diff(wv[i], gv[found], fmt.Sprintf("%s{%s}", path, c13Show(wk[i], false))); d != "" {
				return d
			}
		}
		return ""
	}
	return fmt.Sprintf("%s: want %s, got %s", path, c13Show(want, false), c13Show(got, false))
}

func c13Entries(v reflect.Value) (keys, vals []reflect.Value) {
	if v.Kind() == reflect.Map {
		for _, k := range c13SortedKeys(v) {
			keys = append(keys, k)
			vals = append(vals, v.MapIndex(k))
		}
		return
	}
	for i := 0; i < v.NumField(); i++ {
		keys = append(keys, reflect.ValueOf(strings.ToLower(v.Type().Field(i).Name)))
		vals = append(vals, v.Field(i))
	}
	return
}

func c13Show(v reflect.Value, isNil bool) string {
	if isNil || !v.IsValid() {
		return "nil"
	}
	return short(fmt.Sprintf("%s(%s)", v.Type(), c13Repr(v)), 300)
}

// ---------------------------------------------------------------------------
// running one document

func c13Encode(log []ev.Event, cte bool) ([]byte, int, interface{}) {
	cfg := configuration.New()
	var enc ce.Encoder
	if cte {
		enc = ce.NewCTEEncoder(cfg)
	} else {
		enc = ce.NewCBEEncoder(cfg)
	}
	var buf bytes.Buffer
	enc.PrepareToEncode(&buf)
	idx, p := replayAuto(rules.NewRules(enc, cfg), log)
	return buf.Bytes(), idx, p
}

// c13FeatureRegion names the marker/reference shape of a document that a failure is attributed to
// (most specific first), so that signatures separate failure classes.
func c13FeatureRegion(feat map[string]int) string {
	switch {
	case feat["keyref_forward"] > 0:
		return "reference-as-map-key(forward)"
	case feat["keyref_backward"] > 0:
		return "reference-as-map-key(backward)"
	case feat["ref_to_null"] > 0:
		return "reference-to-null"
	case feat["ref_forward"] > 0:
		return "forward-reference"
	case feat["ref_backward"] > 0:
		return "backward-reference"
	case feat["marker"] > 0:
		return "marker-only"
	}
	return "no-markers"
}

// c13MismatchRegion narrows the region of a mismatch using the located difference: a difference at a
// field of a struct that is an element of a slice (stored there by value), where the document wrote
// that field's value as a forward reference and the template is typed, is its own class.
func c13MismatchRegion(d *c13Doc, diff string, typed bool, region string) string {
	if !typed {
		return region
	}
	path := diff
	if i := strings.Index(diff, ": "); i >= 0 {
		path = diff[:i]
	}
	for f := range d.fwdFieldRefs {
		suffix := fmt.Sprintf("]{string(s%q)}", f)
		if strings.HasSuffix(path, suffix) {
			idx := path[:len(path)-len(suffix)]
			if j := strings.LastIndex(idx, "["); j >= 0 && c13AllDigits(idx[j+1:]) {
				return "forward-reference-in-field-of-struct-slice-element"
			}
		}
	}
	return region
}

func c13AllDigits(s string) bool {
	if s == "" {
		return false
	}
	for _, r := range s {
		if r < '0' || r > '9' {
			return false
		}
	}
	return true
}

func c13ErrClass(msg string) string {
	// strip positions and identifiers
	if i := strings.Index(msg, ": "); i >= 0 && strings.HasPrefix(msg, "line ") {
		msg = msg[i+2:]
	}
	msg = strings.Map(func(r rune) rune {
		if r >= '0' && r <= '9' {
			return -1
		}
		return r
	}, msg)
	return sanitizeSig(short(msg, 60))
}

func sanitizeSig(s string) string {
	return strings.Map(func(r rune) rune {
		if r == ' ' || r == '\n' || r == '\t' {
			return '_'
		}
		return r
	}, s)
}

// Creating an unmarshaler copies the library's whole builder cache (about 10 ms), so most random cases
// use one unmarshaler per format and process (ordinary library use); directed cases, probes and every
// eighth random case go through the one-shot ce.UnmarshalFrom*Document functions.
var c13CBEUnmarshaler, c13CTEUnmarshaler ce.Unmarshaler

func c13Unmarshal(cte, oneShot bool, doc []byte, tmpl interface{}) (interface{}, error) {
	if oneShot {
		if cte {
			return ce.UnmarshalFromCTEDocument(doc, tmpl, configuration.New())
		}
		return ce.UnmarshalFromCBEDocument(doc, tmpl, configuration.New())
	}
	if cte {
		if c13CTEUnmarshaler == nil {
			c13CTEUnmarshaler = ce.NewCTEUnmarshaler(configuration.New())
		}
		return c13CTEUnmarshaler.UnmarshalFromDocument(doc, tmpl)
	}
	if c13CBEUnmarshaler == nil {
		c13CBEUnmarshaler = ce.NewCBEUnmarshaler(configuration.New())
	}
	return c13CBEUnmarshaler.UnmarshalFromDocument(doc, tmpl)
}

func c13RunDoc(c *fw.Ctx, family string, value interface{}, d *c13Doc, tag string) {
	oneShot := tag != "random" || c.Idx%8 == 0
	api := "reused-unmarshaler"
	if oneShot {
		api = "one-shot"
	}
	detail := func(extra map[string]interface{}) map[string]interface{} {
		m := map[string]interface{}{"family": family, "value": short(c13Repr(reflect.ValueOf(value)), 600), "events": ev.LogStrings(d.log), "kind": tag}
		for k, v := range extra {
			m[k] = v
		}
		return m
	}
	if ok, why := d.modelValid(); !ok && !d.skipModel {
		c.Inc("b.generated_document_not_model_valid")
		c.Fail("harness-b-generator", detail(map[string]interface{}{"model": why}))
		return
	}
	region := c13FeatureRegion(d.feat)
	for k, n := range d.feat {
		c.Count("b.feature."+k, int64(n))
	}
	c.Inc("b.documents")
	c.Inc("b.family." + family)
	typed := reflect.New(reflect.TypeOf(value)).Elem().Interface()
	for _, cte := range []bool{false, true} {
		format := "cbe"
		if cte {
			format = "cte"
		}
		doc, fi, p := c13Encode(d.log, cte)
		if fi >= 0 {
			c.Fail("b:"+format+"-encode-rejects-valid@"+region, detail(map[string]interface{}{"event": fi, "panic": ev.PanicString(p)}))
			continue
		}
		docStr := hexs(doc)
		if cte {
			docStr = string(doc)
		}
		for ti, tmpl := range []interface{}{nil, typed} {
			tname := "nil"
			if ti == 1 {
				tname = "typed"
			}
			c.Note("%s %s template=%s doc=%s", family, format, tname, short(docStr, 1500))
			var got interface{}
			var err error
			pv, stack := fw.Guard(func() {
				got, err = c13Unmarshal(cte, oneShot, doc, tmpl)
			})
			c.Inc("b.api." + api)
			c.Eval()
			c.Inc("b.compared")
			c.Inc("b.template." + tname)
			c.Inc("b.format." + format)
			ex := map[string]interface{}{"format": format, "template": tname, "doc": docStr, "api": api}
			if pv != nil {
				ex["panic"] = ev.PanicString(pv)
				ex["stack"] = short(stack, 1500)
				c.Fail("b:escaped-panic@"+region, detail(ex))
				continue
			}
			if err != nil {
				ex["err"] = err.Error()
				c.Fail("b:unmarshal-error:"+c13ErrClass(err.Error())+"@"+region, detail(ex))
				continue
			}
			if diff := c13Diff(reflect.ValueOf(value), reflect.ValueOf(got), ""); diff != "" {
				ex["diff"] = diff
				ex["got"] = short(fmt.Sprintf("%#v", got), 600)
				c.Fail("b:mismatch@"+c13MismatchRegion(d, diff, ti == 1, region), detail(ex))
				continue
			}
			c.Inc("b.equal")
		}
	}
	if len(d.feat) > 0 && d.feat["marker"] > 0 && (d.feat["ref_backward"]+d.feat["ref_forward"]+d.feat["keyref"]) > 0 {
		c.Distinct("b." + family + "|" + ev.LogString(d.log))
		if c.WantSample() && len(d.log) < 30 && len(d.log) > 10 {
			doc, _, _ := c13Encode(d.log, true)
			c.Sample(map[string]interface{}{"part": "B", "family": family, "cte": string(doc), "expected": short(c13Repr(reflect.ValueOf(value)), 300)})
		}
	}
}

func c13Int64Ptr(v int64) *int64 { return &v }

func c13RandomB(c *fw.Ctx) {
	r := c.Rng
	fam := c13Families[r.Intn(len(c13Families))]
	value := fam.make(r)
	share := []float64{0.3, 0.6, 0.9}[r.Intn(3)]
	d := c13BuildDoc(r, value, share)
	c13RunDoc(c, fam.name, value, d, "random")
}

// c13DirectedB runs one document of every family with maximal sharing, plus pinned probes.
func c13DirectedB(c *fw.Ctx) {
	r := c.Rng
	for _, fam := range c13Families {
		for k := 0; k < 4; k++ {
			value := fam.make(r)
			d := c13BuildDoc(r, value, 1.0)
			c13RunDoc(c, fam.name, value, d, "directed")
		}
	}
	c13ProbesB(c)
}

// c13ProbesB: pinned documents (hand-written events) for the shapes the random part must keep finding.
func c13ProbesB(c *fw.Ctx) {
	S := c13StringEvent
	I := func(i uint64) ev.Event { return ev.Event{K: ev.PINT, U: i} }
	M := func(id string) ev.Event { return ev.Event{K: ev.MARK, B: []byte(id)} }
	R := func(id string) ev.Event { return ev.Event{K: ev.REF, B: []byte(id)} }
	L, E, MP := ev.Event{K: ev.LIST}, ev.Event{K: ev.END}, ev.Event{K: ev.MAP}
	type probe struct {
		name      string
		log       []ev.Event
		value     interface{}
		feat      map[string]int
		fwdFields map[string]bool
	}
	probes := []probe{
		{"keyref-backward", []ev.Event{L, M("x"), S("k"), MP, R("x"), I(1), E, E},
			[]interface{}{"k", map[interface{}]interface{}{"k": int64(1)}}, map[string]int{"marker": 1, "keyref": 1, "keyref_backward": 1}, nil},
		{"keyref-forward", []ev.Event{L, MP, R("x"), I(1), E, M("x"), S("k"), E},
			[]interface{}{map[interface{}]interface{}{"k": int64(1)}, "k"}, map[string]int{"marker": 1, "keyref": 1, "keyref_forward": 1}, nil},
		{"keyref-typed", []ev.Event{MP, S("a"), M("x"), S("b"), R("x"), S("a"), E},
			map[string]string{"a": "b", "b": "a"}, map[string]int{"marker": 1, "keyref": 1, "keyref_backward": 1}, nil},
		{"value-forward-and-backward", []ev.Event{L, R("x"), M("x"), L, I(1), I(2), E, R("x"), E},
			[][]int64{{1, 2}, {1, 2}, {1, 2}}, map[string]int{"marker": 1, "ref_forward": 1, "ref_backward": 1, "marked_container": 1}, nil},
		{"nested-marked", []ev.Event{M("x"), L, M("y"), L, I(1), E, R("y"), E},
			[][]int64{{1}, {1}}, map[string]int{"marker": 2, "ref_backward": 1, "marked_container": 2}, nil},
		{"pointer-field-references-value-field", []ev.Event{MP, S("a"), M("x"), I(2), S("b"), S(""), S("c"), L, E, S("d"), MP, E, S("e"), R("x"), S("f"), L, E, E},
			c13S1{A: 2, C: []int64{}, D: map[string]int64{}, E: c13Int64Ptr(2), F: []string{}}, map[string]int{"marker": 1, "ref_backward": 1}, nil},
		{"forward-reference-in-struct-slice-element", []ev.Event{L, MP, S("p"), R("x"), S("q"), L, E, E, MP, S("p"), M("x"), I(2), S("q"), L, E, E, E},
			[]c13S3{{P: 2, Q: []string{}}, {P: 2, Q: []string{}}}, map[string]int{"marker": 1, "ref_forward": 1, "ref_forward_in_struct_field": 1}, map[string]bool{"p": true}},
	}
	for _, p := range probes {
		log := append(append([]ev.Event{{K: ev.BD}, {K: ev.VER}}, p.log...), ev.Event{K: ev.ED})
		d := &c13Doc{log: log, feat: p.feat, skipModel: true, fwdFieldRefs: p.fwdFields}
		c13RunDoc(c, "probe:"+p.name, p.value, d, "probe")
	}
}
