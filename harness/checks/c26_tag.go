package checks

// set by the build-tagged files c26_tag_purego.go / c26_tag_race.go
var c26BuildPurego, c26BuildRace bool
