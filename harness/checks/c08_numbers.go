package checks

import (
	"fmt"
	"math/big"
	"runtime"

	"github.com/cockroachdb/apd/v2"
	"github.com/kstenerud/go-concise-encoding/ce"
	"github.com/kstenerud/go-concise-encoding/configuration"

	"verifharness/fw"
)

// c08NumberTemplates: destinations a short numeric document may be unmarshaled into. The conversions behind them size
// their result by the number's exponent, which comes straight from the document.
var c08NumberTemplates = []struct {
	name string
	tmpl interface{}
}{
	{"*big.Float", (*big.Float)(nil)}, {"big.Float-field", struct{ F big.Float }{}}, {"[]*big.Float", []*big.Float{}}, {"interface", nil},
	{"float64", float64(0)}, {"*apd.Decimal", (*apd.Decimal)(nil)}, {"float32", float32(0)},
}

// c08NumberDoc: a document of 10..60 bytes holding one decimal number whose coefficient has 1..25 digits and whose
// exponent lies between 10^4 and 10^7 in magnitude (the formats allow +-2^31).
func c08NumberDoc(c *fw.Ctx, k int) (doc []byte, cte bool, desc string) {
	r := c.Rng
	digits := []int{1, 18, 19, 20, 25, 25}[r.Intn(6)]
	coeff := "9223372036854775808123456"[:digits]
	if r.Intn(2) == 0 {
		coeff = "1000000000000000000000000"[:digits]
	}
	exp := []int{10001, 100000, 300000, 1000000, 3000000, 10000000}[k%6]
	if r.Intn(4) == 0 {
		exp = -exp
	}
	if (k/6)%len(c08NumberTemplates) < 3 && k%2 == 0 {
		// towards big.Float destinations: a coefficient past 63 bits, so the value travels as a big decimal in CBE too
		coeff = "9223372036854775808123456"[:19+r.Intn(7)]
		if exp < 0 {
			exp = -exp
		}
	}
	sign := ""
	if r.Intn(2) == 0 {
		sign = "-"
	}
	text := fmt.Sprintf("%s%se%d", sign, coeff, exp)
	desc = text
	cte = r.Intn(2) == 0
	wrap := r.Intn(3) == 0
	if cte {
		if wrap {
			return []byte("c0 [" + text + "]"), true, desc + " in list"
		}
		return []byte("c0 " + text), true, desc
	}
	// (apd's own parser refuses exponents beyond 10^5; the formats do not)
	co, _ := new(big.Int).SetString(coeff, 10)
	d := apd.NewWithBigInt(co, int32(exp))
	d.Negative = sign == "-"
	var gv interface{} = d
	if wrap {
		gv = []interface{}{d}
		desc += " in list"
	}
	out, err := ce.MarshalToCBEDocument(gv, configuration.New())
	if err != nil {
		return nil, false, desc
	}
	return out, false, desc
}

// runC08Number measures what unmarshaling one short numeric document allocates.
func runC08Number(c *fw.Ctx, k int) {
	cfg := configuration.New()
	doc, cte, desc := c08NumberDoc(c, k)
	if doc == nil {
		c.Inc("skipped_number_not_encodable")
		return
	}
	t := c08NumberTemplates[(k/6)%len(c08NumberTemplates)]
	tmpl := t.tmpl
	if desc[len(desc)-1] == 't' { // "... in list"
		switch t.name {
		case "interface", "[]*big.Float":
		default:
			tmpl = nil
		}
	} else if t.name == "[]*big.Float" {
		tmpl = (*big.Float)(nil)
	}
	c.Note("C08 short number %s cte=%v into %s doc %s", desc, cte, t.name, hexs(doc))
	c.Region("memory-short-number")
	runtime.GC()
	var m0, m1 runtime.MemStats
	runtime.ReadMemStats(&m0)
	t0 := c08CPU()
	var err error
	p, _ := fw.Guard(func() {
		if cte {
			_, err = ce.UnmarshalFromCTEDocument(doc, tmpl, cfg)
		} else {
			_, err = ce.UnmarshalFromCBEDocument(doc, tmpl, cfg)
		}
	})
	cpu := c08CPU() - t0
	runtime.ReadMemStats(&m1)
	alloc := m1.TotalAlloc - m0.TotalAlloc
	c.Eval()
	c.Inc("number_docs_measured")
	c.Inc("number_template." + t.name)
	c.Distinct(fmt.Sprintf("%s|%v|%s", desc, cte, t.name))
	c.Max("max_alloc_bytes_for_short_number", int64(alloc))
	bound := uint64(8<<20) + 4096*uint64(len(doc))
	detail := map[string]interface{}{"number": desc, "doc": hexs(doc), "cte": cte, "len": len(doc), "template": t.name, "TotalAlloc": alloc, "bound": bound, "cpu_s": cpu, "err": errStr(err), "panic": fmt.Sprint(p)}
	if alloc > bound {
		c.Fail("allocation-exceeds-bound@short-number:"+t.name, detail)
		return
	}
	if c.WantSample() {
		c.Sample(detail)
	}
}
