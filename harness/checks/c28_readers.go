package checks

import (
	"fmt"
	"io"
	"math/rand"
	"strings"
)

// c28Reader delivers data according to a schedule of deliveries. Everything it does is permitted by the io.Reader
// contract: short reads, (0, nil) reads in bounded runs, and io.EOF returned together with the last bytes.
type c28Reader struct {
	data        []byte
	pos         int
	ops         []int // bytes available per delivery; 0 = a (0, nil) read. After the list: deliver everything that is asked.
	op          int
	half        bool // iotest.HalfReader: deliver (len(p)+1)/2 of what is asked
	eofWithData bool // the delivery that exhausts the data also returns io.EOF (iotest.DataErrReader)
	Calls       int
	ZeroReads   int
	ShortReads  int
	EOFWithData int
}

func (r *c28Reader) Read(p []byte) (int, error) {
	r.Calls++
	if len(p) == 0 {
		return 0, nil
	}
	if r.pos >= len(r.data) {
		return 0, io.EOF
	}
	avail := len(r.data) - r.pos
	n := len(p)
	if r.half {
		n = (n + 1) / 2
	}
	if r.op < len(r.ops) {
		if r.ops[r.op] == 0 {
			r.op++
			r.ZeroReads++
			return 0, nil
		}
		if r.ops[r.op] <= n {
			n = r.ops[r.op]
			r.op++
		} else {
			r.ops[r.op] -= n
		}
	}
	if n > avail {
		n = avail
	}
	if n < len(p) && n < avail {
		r.ShortReads++
	}
	copy(p, r.data[r.pos:r.pos+n])
	r.pos += n
	if r.pos >= len(r.data) && r.eofWithData {
		r.EOFWithData++
		return n, io.EOF
	}
	return n, nil
}

// c28Schedule is a recipe for a c28Reader (so that it can be re-created, varied and written to a replay file).
type c28Schedule struct {
	Shape       string
	Ops         []int
	Half        bool
	EOFWithData bool
}

func (s c28Schedule) Reader(data []byte) *c28Reader {
	return &c28Reader{data: data, ops: append([]int(nil), s.Ops...), half: s.Half, eofWithData: s.EOFWithData}
}

func (s c28Schedule) HasZero() bool {
	for _, o := range s.Ops {
		if o == 0 {
			return true
		}
	}
	return false
}

func (s c28Schedule) String() string {
	var sb strings.Builder
	fmt.Fprintf(&sb, "%s half=%v eof-with-data=%v ops=", s.Shape, s.Half, s.EOFWithData)
	for i, o := range s.Ops {
		if i > 60 {
			sb.WriteString("…")
			break
		}
		fmt.Fprintf(&sb, "%d ", o)
	}
	return sb.String()
}

// WithoutZero / WithoutEOF / Whole are the variations used to attribute a failure to one feature of the schedule.
func (s c28Schedule) WithoutZero() c28Schedule {
	var ops []int
	for _, o := range s.Ops {
		if o != 0 {
			ops = append(ops, o)
		}
	}
	s.Ops = ops
	return s
}

func (s c28Schedule) WithoutEOF() c28Schedule { s.EOFWithData = false; return s }

func (s c28Schedule) WithoutSplits() c28Schedule {
	var ops []int
	for _, o := range s.Ops {
		if o == 0 {
			ops = append(ops, 0)
		}
	}
	// zero reads first, then everything that is asked
	s.Ops = ops
	s.Half = false
	return s
}

// c28Schedules builds the fixed list of schedule shapes plus random ones for a document of length n.
func c28Schedules(r *rand.Rand, n int, randomCount int) []c28Schedule {
	ones := make([]int, n)
	for i := range ones {
		ones[i] = 1
	}
	out := []c28Schedule{
		{Shape: "whole"},
		{Shape: "whole+eof-with-data", EOFWithData: true},
		{Shape: "one-byte", Ops: ones},
		{Shape: "one-byte+eof-with-data", Ops: ones, EOFWithData: true},
		{Shape: "half", Half: true},
		{Shape: "half+eof-with-data", Half: true, EOFWithData: true},
	}
	// a zero-length read before every byte / before the first / before the last
	var z []int
	for i := 0; i < n; i++ {
		z = append(z, 0, 1)
	}
	out = append(out, c28Schedule{Shape: "zero-read-before-every-byte", Ops: z})
	out = append(out, c28Schedule{Shape: "zero-read-first", Ops: []int{0}})
	if n > 1 {
		out = append(out, c28Schedule{Shape: "zero-read-before-last-byte", Ops: []int{n - 1, 0, 1}})
	}
	out = append(out, c28Schedule{Shape: "zero-read-at-end", Ops: []int{n, 0, 0}})
	for i := 0; i < randomCount; i++ {
		s := c28Schedule{Shape: "random-short"}
		maxPart := 1 + r.Intn(8)
		if r.Intn(3) == 0 {
			maxPart = 1 + r.Intn(64)
		}
		zeros := r.Intn(3) == 0
		for left := n; left > 0; {
			if zeros && r.Intn(4) == 0 {
				for k := 1 + r.Intn(3); k > 0; k-- {
					s.Ops = append(s.Ops, 0)
				}
			}
			p := 1 + r.Intn(maxPart)
			if p > left {
				p = left
			}
			s.Ops = append(s.Ops, p)
			left -= p
		}
		if zeros {
			s.Shape = "random-short+zero-reads"
			if r.Intn(2) == 0 {
				s.Ops = append(s.Ops, 0)
			}
		}
		if r.Intn(3) == 0 {
			s.EOFWithData = true
			s.Shape += "+eof-with-data"
		}
		out = append(out, s)
	}
	return out
}

// c28Composition turns bit mask m (bit i set = boundary after byte i+1) into the part sizes of a document of length n.
func c28Composition(n int, m uint32) []int {
	var ops []int
	run := 1
	for i := 0; i < n-1; i++ {
		if m&(1<<uint(i)) != 0 {
			ops = append(ops, run)
			run = 1
		} else {
			run++
		}
	}
	if n > 0 {
		ops = append(ops, run)
	}
	return ops
}
