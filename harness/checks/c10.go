package checks

import (
	"fmt"

	"github.com/kstenerud/go-concise-encoding/configuration"
	"github.com/kstenerud/go-concise-encoding/rules"

	"verifharness/ev"
	"verifharness/fw"
)

// C10 — the validator accepts exactly the structurally well-formed documents.
//
// Oracle: c10Model (c10_model.go), compared ONLINE with rules.NewRules: for every explored prefix and
// every next letter, the validator accepts the letter iff the model does (reject inside a rejection
// window where the text admits two readings of *when*; skip where the text is silent).

// c10Cmp is the online comparator shared by C10 and C13 part A. It accumulates counters locally and
// flushes them into the case context at the end.
type c10Cmp struct {
	c        *fw.Ctx
	prefix   string // counter prefix
	cfg      *configuration.Configuration
	counts   map[string]int64
	cells    [sNumSlots][c10NumKinds][4]int64
	clauses  [clNum][3]int64 // [clause][0 = rejected as demanded, 1 = window hit, 2 = don't-care prune]
	evals    int64
	failed   map[string]int
	runtimeP int64
	reused   *rules.RulesEventReceiver // enumeration only: one validator, Reset() before every replay
	replays  int64
}

func newC10Cmp(c *fw.Ctx, prefix string, cfg *configuration.Configuration) *c10Cmp {
	return &c10Cmp{c: c, prefix: prefix, cfg: cfg, counts: map[string]int64{}, failed: map[string]int{}}
}

func (d *c10Cmp) flush() {
	c := d.c
	c.Evals(d.evals)
	for k, v := range d.counts {
		c.Count(d.prefix+k, v)
	}
	for s := 0; s < int(sNumSlots); s++ {
		for k := 0; k < int(c10NumKinds); k++ {
			for v := 0; v < 4; v++ {
				if n := d.cells[s][k][v]; n > 0 {
					c.Count(fmt.Sprintf("%scell.%s.%s.%s", d.prefix, c10SlotNames[s], c10KindNames[k], c10VerdictNames[v]), n)
				}
			}
		}
	}
	for cl := 1; cl < int(clNum); cl++ {
		if n := d.clauses[cl][0]; n > 0 {
			c.Count(d.prefix+"rejected_by_clause."+c10ClauseNames[cl], n)
		}
		if n := d.clauses[cl][1]; n > 0 {
			c.Count(d.prefix+"window_hit."+c10ClauseNames[cl], n)
		}
		if n := d.clauses[cl][2]; n > 0 {
			c.Count(d.prefix+"dontcare."+c10ClauseNames[cl], n)
		}
	}
	if d.runtimeP > 0 {
		c.Count(d.prefix+"rejections_that_were_go_runtime_errors", d.runtimeP)
	}
}

func (d *c10Cmp) fail(sig string, detail map[string]interface{}) {
	d.failed[sig]++
	if d.failed[sig] <= 3 {
		d.c.Fail(sig, detail)
	} else {
		d.counts["failures_not_written_out"]++
	}
}

// judge compares the model's verdict v (given in slot s for letter l) with what the validator did.
// It returns true when the exploration of this prefix may continue with the advanced model.
func (d *c10Cmp) judge(s uint8, sym c10Sym, v c10Verdict, accepted bool, why interface{}, describe func() map[string]interface{}) bool {
	d.evals++
	d.cells[s][sym.L.K][v.V]++
	if !accepted && ev.IsRuntimePanic(why) {
		d.runtimeP++
	}
	switch v.V {
	case vAccept:
		if accepted {
			return true
		}
		det := describe()
		det["model"] = "accept"
		det["validator"] = "reject: " + short(ev.PanicString(why), 200)
		d.fail("rejects-valid:"+c10KindNames[sym.L.K]+"@"+c10SlotNames[s], det)
		return false
	case vReject:
		if !accepted {
			d.clauses[v.Clause][0]++
			return false
		}
		det := describe()
		det["model"] = "reject (" + c10ClauseNames[v.Clause] + ")"
		det["validator"] = "accept"
		d.fail("accepts-invalid:"+c10ClauseNames[v.Clause]+"@"+c10SlotNames[s], det)
		return false
	case vMay:
		if !accepted {
			d.clauses[v.Clause][1]++
			return false
		}
		d.counts["window_open."+c10ClauseNames[v.Clause]]++
		return true
	}
	// don't-care
	d.clauses[v.Clause][2]++
	if v.Follow && accepted {
		d.counts["dontcare_followed."+c10ClauseNames[v.Clause]]++
		return true
	}
	return false
}

// replayFresh replays prefix+letter into a fresh validator. ok=false means the prefix itself (which
// was accepted before) is now rejected: the validator is not a function of its input.
func (d *c10Cmp) replayFresh(log []ev.Event, prefixLen int) (accepted bool, why interface{}, ok bool) {
	return c10Outcome(rules.NewRules(nil, d.cfg), log, prefixLen)
}

func c10Outcome(r *rules.RulesEventReceiver, log []ev.Event, prefixLen int) (accepted bool, why interface{}, ok bool) {
	idx, p := replayAuto(r, log)
	if idx < 0 {
		return true, nil, true
	}
	if idx < prefixLen {
		return false, p, false
	}
	return false, p, true
}

// replayAccepts is the enumeration's work horse. Allocating a validator per replay costs several
// times the replay itself, so one instance is Reset() and reused; every 64th replay, and every replay
// whose outcome would be reported as a disagreement with the model, is repeated on a fresh instance.
// A difference between the two is reported on its own (the reused instance kept state).
func (d *c10Cmp) replayAccepts(log []ev.Event, prefixLen int, expectAccept, expectReject bool, describe func() map[string]interface{}) (accepted bool, why interface{}, ok bool) {
	if d.reused == nil {
		d.reused = rules.NewRules(nil, d.cfg)
	}
	d.reused.Reset()
	d.replays++
	accepted, why, ok = c10Outcome(d.reused, log, prefixLen)
	surprising := !ok || (expectAccept && !accepted) || (expectReject && accepted)
	if surprising || d.replays%64 == 0 {
		a2, w2, ok2 := d.replayFresh(log, prefixLen)
		d.counts["replays_repeated_on_fresh_validator"]++
		if a2 != accepted || ok2 != ok {
			det := describe()
			det["reused_validator"] = fmt.Sprintf("accepted=%v %s", accepted, ev.PanicString(why))
			det["fresh_validator"] = fmt.Sprintf("accepted=%v %s", a2, ev.PanicString(w2))
			d.fail("reset-validator-differs-from-fresh", det)
		}
		return a2, w2, ok2
	}
	return accepted, why, ok
}

// ---------------------------------------------------------------------------
// exhaustive enumeration

type c10Enum struct {
	d            *c10Cmp
	alpha        []c10Sym
	maxLen       int // letters after the fixed start
	log          []ev.Event
	names        []string
	models       []*c10Model // scratch models per depth
	accepted     []int64     // accepted prefixes per length
	distinctUpTo int
	startLen     int
}

func (e *c10Enum) describe(sym c10Sym) func() map[string]interface{} {
	return func() map[string]interface{} {
		full := append(append([]ev.Event{}, e.log...), sym.Ev...)
		return map[string]interface{}{"prefix": append([]string{}, e.names...), "letter": sym.Name, "events": ev.LogStrings(full)}
	}
}

func (e *c10Enum) describeFull(sym c10Sym, fullLen int) func() map[string]interface{} {
	return func() map[string]interface{} {
		return map[string]interface{}{"prefix": append([]string{}, e.names...), "letter": sym.Name, "events": ev.LogStrings(e.log[:fullLen])}
	}
}

// try evaluates one (prefix, letter) pair; m is the model after the prefix. It returns the advanced
// model if exploration continues below prefix+letter.
func (e *c10Enum) try(m *c10Model, depth int, sym c10Sym) *c10Model {
	m2 := e.models[depth]
	m.cloneInto(m2)
	s, _ := m.slot()
	v := m2.Step(sym.L)
	n := len(e.log)
	e.log = append(e.log, sym.Ev...)
	acc, why, ok := e.d.replayAccepts(e.log, n, v.V == vAccept, v.V == vReject, e.describeFull(sym, len(e.log)))
	e.log = e.log[:n]
	if !ok {
		det := e.describe(sym)()
		det["validator"] = "rejected a prefix it accepted before: " + ev.PanicString(why)
		e.d.fail("validator-not-deterministic", det)
		return nil
	}
	if !e.d.judge(s, sym, v, acc, why, e.describe(sym)) {
		return nil
	}
	return m2
}

func (e *c10Enum) push(sym c10Sym) {
	e.log = append(e.log, sym.Ev...)
	e.names = append(e.names, sym.Name)
}

func (e *c10Enum) pop(sym c10Sym) {
	e.log = e.log[:len(e.log)-len(sym.Ev)]
	e.names = e.names[:len(e.names)-1]
}

func (e *c10Enum) noteAccepted(depth int) {
	e.accepted[depth]++
	if depth <= e.distinctUpTo && depth >= 3 {
		e.d.c.Distinct(e.d.prefix + c10Join(e.names))
	}
}

func c10Join(names []string) string {
	n := 0
	for _, s := range names {
		n += len(s) + 1
	}
	b := make([]byte, 0, n)
	for _, s := range names {
		b = append(b, s...)
		b = append(b, ' ')
	}
	return string(b)
}

// dfs explores all extensions of the current prefix (model m, depth letters long).
func (e *c10Enum) dfs(m *c10Model, depth int) {
	if depth >= e.maxLen {
		return
	}
	for _, sym := range e.alpha {
		m2 := e.try(m, depth, sym)
		if m2 == nil {
			continue
		}
		e.push(sym)
		e.noteAccepted(depth + 1)
		e.dfs(m2, depth+1)
		e.pop(sym)
	}
}

func newC10Enum(d *c10Cmp, alpha []c10Sym, maxLen int, start []c10Sym) (*c10Enum, *c10Model) {
	e := &c10Enum{d: d, alpha: alpha, maxLen: maxLen, distinctUpTo: 4}
	e.accepted = make([]int64, maxLen+2)
	for i := 0; i <= maxLen+1; i++ {
		e.models = append(e.models, newC10Model())
	}
	m := newC10Model()
	for _, s := range start {
		if v := m.Step(s.L); v.V != vAccept {
			panic("c10: start sequence not accepted by the model")
		}
		e.log = append(e.log, s.Ev...)
	}
	e.startLen = len(e.log)
	return e, m
}

// runShard explores the subtree below the given first letters. Evaluations of the shorter prefixes are
// made only by the shard whose remaining letters are all the first letter of the alphabet, so that
// every (prefix, letter) pair is evaluated exactly once over all shards.
func (e *c10Enum) runShard(m *c10Model, first []int) {
	depth := 0
	for i, li := range first {
		sym := e.alpha[li]
		owner := true
		for _, lj := range first[i+1:] {
			if lj != 0 {
				owner = false
			}
		}
		if depth >= e.maxLen {
			return
		}
		var m2 *c10Model
		if owner {
			m2 = e.try(m, depth, sym)
			if m2 != nil {
				// keep a private copy: scratch model of this depth is reused by try
				m2 = m2.clone()
			}
		} else {
			// silent re-walk: same decisions, nothing counted
			mm := m.clone()
			v := mm.Step(sym.L)
			n := len(e.log)
			e.log = append(e.log, sym.Ev...)
			acc, _, _ := e.d.replayFresh(e.log, n)
			e.log = e.log[:n]
			cont := false
			switch v.V {
			case vAccept, vMay:
				cont = acc
			case vDontCare:
				cont = acc && v.Follow
			}
			if cont {
				m2 = mm
			}
		}
		if m2 == nil {
			return
		}
		e.push(sym)
		if owner {
			e.noteAccepted(depth + 1)
		}
		m = m2
		depth++
	}
	e.dfs(m, depth)
}

func (e *c10Enum) flushAccepted(name string) {
	for l, n := range e.accepted {
		if n > 0 {
			e.d.counts[fmt.Sprintf("%s.accepted_prefixes.len%d", name, l)] += n
			e.d.counts[name+".accepted_prefixes.total"] += n
		}
	}
}

// ---------------------------------------------------------------------------
// case layout

type c10Layout struct {
	baseLen, extLen       int
	baseShards, extShards int
	randoms               int
}

const c10ShardLetters = 3

func c10Pow(a, n int) int {
	r := 1
	for i := 0; i < n; i++ {
		r *= a
	}
	return r
}

func c10LayoutFor(tier string) c10Layout {
	l := c10Layout{baseLen: 6, extLen: 5, randoms: 4000}
	if tier == "thorough" {
		l = c10Layout{baseLen: 8, extLen: 6, randoms: 60000}
	}
	l.baseShards = c10Pow(len(c10BaseAlphabet()), c10ShardLetters)
	l.extShards = c10Pow(len(c10ExtAlphabet()), c10ShardLetters)
	return l
}

// c10Spread maps consecutive case numbers to shards spread over the whole range (so that the heavy
// subtrees, which share their first letters, do not land in one worker batch).
func c10Spread(i, n int) int {
	const p = 7919 // prime, coprime to 17^3 and 25^3
	return int((int64(i) * p) % int64(n))
}

func c10ShardLettersOf(shard, alphaLen int) []int {
	out := make([]int, c10ShardLetters)
	for i := c10ShardLetters - 1; i >= 0; i-- {
		out[i] = shard % alphaLen
		shard /= alphaLen
	}
	return out
}

func init() {
	fw.Register(&fw.Check{
		ID:    "C10",
		Level: "exploration",
		Rule: "part 1 (exhaustive): every event sequence after 'BD V0' up to length L over the 17-letter alphabet {ED PAD COM NULL K1(int) K2(string) FLOAT ARRAY LIST MAP NODE EDGE END RT(a) REC(a) MARK(x) REF(x)} " +
			"(quick L=6, thorough L=8), and over a 25-letter alphabet with second identifiers / a second key / BD and versions out of place (quick L=5, thorough L=6), plus all document starts up to length 4; " +
			"depth-first with prefix pruning: a prefix is extended only if validator and model both accept it. part 2: model-generated valid sequences up to ~60 letters (many concrete spellings, chunked arrays) and " +
			"five one-letter corruptions of each. Oracle, online: for every prefix and next letter the real rules validator accepts the letter iff the reference acceptor written from the property text does; " +
			"rejection windows where the text admits two readings of when a sequence becomes invalid; don't-care letters pruned and counted. One evaluation = one (prefix, next letter) comparison. " +
			"distinct_nontrivial = distinct accepted prefixes of length 3..4 of the enumerations plus distinct generated sequences with >=1 container and >=3 letters.",
		Assumptions: []string{
			"keyable = bool, integer, UID, time, string, resource ID; float/NaN, null, typed arrays, media, custom types and containers are not keyable (library documentation)",
			"letters are spelled with fixed events; array contents are valid (array validation is property C11, key equality across encodings C12, limits C14)",
			"don't-care (text silent): padding/comments after the top-level object, before the version or after a marker; reference as top-level object; anything but keyable scalars inside a record type; " +
				"marked remote reference; reference key whose target equals another key; edge source/destination referencing a null",
			"default configuration limits are not reached by sequences of this length",
		},
		Exhaustive: func(string) bool { return true },
		Cases: func(tier string) int {
			l := c10LayoutFor(tier)
			return 1 + l.baseShards + l.extShards + l.randoms
		},
		Run:       runC10,
		CPUBudget: 900,
		Floors: func(tier string) map[string]int64 {
			l := c10LayoutFor(tier)
			f := map[string]int64{
				"base.accepted_prefixes.len1": 13, "base.accepted_prefixes.len2": 50, "base.accepted_prefixes.len3": 500,
				fmt.Sprintf("base.accepted_prefixes.len%d", l.baseLen): 1000000,
				fmt.Sprintf("ext.accepted_prefixes.len%d", l.extLen):   100000,
				"start.accepted_prefixes.total":                        10,
				"random.valid_sequences":                               500,
				"random.corrupted_sequences":                           2000,
				"directed.sequences":                                   20,
			}
			for _, cl := range []c10Clause{clDocIncomplete, clSecondTopLevel, clRecTypeNotBeforeTop, clEndWithoutContainer, clMapKeyNotKeyable,
				clMapKeyWithoutValue, clDupKey, clEdgeNullEndpoint, clEdgeNotThree, clEdgeMoreThanThree, clNodeWithoutValue, clRecordUndeclared,
				clRecordTooFew, clRecordTooMany, clRecTypeDup, clMarkerOnMarker, clMarkerOnReference, clMarkerOnRecType, clMarkerWithoutObject,
				clMarkerDup, clRefUnresolved, clKeyRefNotKeyable, clAfterEnd, clBeginAgain, clVersionAgain, clVersion, clNotBegun} {
				f["rejected_by_clause."+c10ClauseNames[cl]] = 1
			}
			return f
		},
	})
}

func runC10(c *fw.Ctx, idx int) {
	l := c10LayoutFor(c.Tier)
	cfg := configuration.New()
	d := newC10Cmp(c, "", cfg)
	defer d.flush()
	switch {
	case idx == 0:
		c.Region("directed")
		c10Directed(d)
		// document starts: everything from the empty sequence, 4 letters deep
		e, m := newC10Enum(d, c10StartAlphabet(), 4, nil)
		e.distinctUpTo = 0
		e.dfs(m, 0)
		e.flushAccepted("start")
	case idx < 1+l.baseShards:
		c.Region("enumeration-base")
		shard := c10Spread(idx-1, l.baseShards)
		alpha := c10BaseAlphabet()
		e, m := newC10Enum(d, alpha, l.baseLen, []c10Sym{c10SymBD, c10SymV0})
		first := c10ShardLettersOf(shard, len(alpha))
		c.Note("base shard %v", first)
		e.runShard(m, first)
		e.flushAccepted("base")
	case idx < 1+l.baseShards+l.extShards:
		c.Region("enumeration-extended")
		shard := c10Spread(idx-1-l.baseShards, l.extShards)
		alpha := c10ExtAlphabet()
		e, m := newC10Enum(d, alpha, l.extLen, []c10Sym{c10SymBD, c10SymV0})
		first := c10ShardLettersOf(shard, len(alpha))
		c.Note("ext shard %v", first)
		e.runShard(m, first)
		e.flushAccepted("ext")
	default:
		c.Region("random")
		c10Random(d, c10RandomOpts{})
	}
}

// ---------------------------------------------------------------------------
// linear (single pass) online comparison of one letter sequence

// c10RunLinear feeds syms (which must start with BD) to a fresh validator and the model in lock step.
// It returns the number of letters both accepted, and whether the whole sequence was accepted.
func c10RunLinear(d *c10Cmp, syms []c10Sym, tag string) (int, bool) {
	r := rules.NewRules(nil, d.cfg)
	m := newC10Model()
	for i, sym := range syms {
		s, _ := m.slot()
		v := m.Step(sym.L)
		var why interface{}
		accepted := true
		for _, e := range sym.Ev {
			if why = ev.TrySend(r, e); why != nil {
				accepted = false
				break
			}
		}
		i := i
		describe := func() map[string]interface{} {
			return map[string]interface{}{"kind": tag, "prefix": c10Names(syms[:i]), "letter": sym.Name, "events": ev.LogStrings(c10Events(syms[:i+1]))}
		}
		if !d.judge(s, sym, v, accepted, why, describe) {
			return i, false
		}
	}
	return len(syms), true
}

// ---------------------------------------------------------------------------
// directed sequences with hand-written expectations (they also pin the model itself)

type c10DirectedCase struct {
	seq  string // letters after BD V0
	want string // "ok" | "reject@<i>:<clause>" | "dontcare@<i>" | "window"
}

func c10SymByName() map[string]c10Sym {
	m := map[string]c10Sym{}
	for _, s := range append(c10ExtAlphabet(), c10SymV2) {
		m[s.Name] = s
	}
	return m
}

var c10DirectedCases = []c10DirectedCase{
	{"K1 ED", "ok"},
	{"NULL ED", "ok"},
	{"LIST END ED", "ok"},
	{"MAP K1 NULL K2 LIST END END ED", "ok"},
	{"RT(a) K1 K2 END REC(a) NULL FLOAT END ED", "ok"},
	{"RT(a) END REC(a) END ED", "ok"},
	{"EDGE K1 NULL K2 END ED", "ok"},
	{"NODE NULL K1 LIST END END ED", "ok"},
	{"LIST MARK(x) K1 REF(x) END ED", "ok"},
	{"LIST REF(x) MARK(x) MAP END END ED", "ok"},
	{"MARK(x) LIST REF(x) END ED", "ok"},
	{"LIST MARK(x) K1 MAP REF(x) NULL END END ED", "ok"},
	{"LIST MAP REF(x) NULL END MARK(x) K2 END ED", "ok"},
	{"LIST MARK(x) LIST MARK(y) K1 END REF(y) REF(x) END ED", "ok"},
	{"PAD COM LIST PAD COM END ED", "ok"},
	{"ED", "reject@0:document-incomplete"},
	{"K1 K1", "reject@1:second-top-level-object"},
	{"K1 RT(a)", "reject@1:record-type-not-before-top-level"},
	{"LIST RT(a)", "reject@1:record-type-not-before-top-level"},
	{"END", "reject@0:end-without-container"},
	{"LIST ED", "reject@1:document-incomplete"},
	{"MAP NULL", "reject@1:map-key-not-keyable"},
	{"MAP FLOAT", "reject@1:map-key-not-keyable"},
	{"MAP LIST", "reject@1:map-key-not-keyable"},
	{"MAP K1 END", "reject@2:map-key-without-value"},
	{"MAP K1 NULL K1", "reject@3:duplicate-key"},
	{"EDGE NULL", "reject@1:edge-null-endpoint"},
	{"EDGE K1 K1 NULL", "reject@3:edge-null-endpoint"},
	{"EDGE K1 K1 END", "reject@3:edge-fewer-than-three"},
	{"EDGE K1 K1 K1 K1", "reject@4:edge-more-than-three"},
	{"EDGE MARK(x) NULL", "reject@2:edge-null-endpoint"},
	{"NODE END", "reject@1:node-without-value"},
	{"REC(a)", "reject@0:record-type-undeclared"},
	{"RT(a) K1 END REC(a) END", "reject@4:record-too-few-values"},
	{"RT(a) K1 END REC(a) K1 K1", "reject@5:record-too-many-values"},
	{"RT(a) END RT(a) END", "window@2-3:record-type-defined-twice"},
	{"LIST MARK(x) MARK(y)", "reject@2:marker-on-marker"},
	{"LIST MARK(x) REF(x)", "reject@2:marker-on-reference"},
	{"MARK(x) RT(a)", "reject@1:marker-on-record-type"},
	{"LIST MARK(x) END", "reject@2:marker-without-object"},
	{"LIST MARK(x) K1 MARK(x) K1", "window@3-4:marker-defined-twice"},
	{"LIST MARK(x) LIST MARK(x) K1 END", "window@3-5:marker-defined-twice"},
	{"LIST REF(x) END ED", "reject@3:reference-unresolved"},
	{"LIST MARK(x) NULL MAP REF(x)", "reject@4:key-reference-not-keyable"},
	{"LIST MAP REF(x) NULL END MARK(x) LIST END", "window@6-7:key-reference-not-keyable"},
	{"LIST MARK(x) MAP REF(x) NULL END", "window@3-5:key-reference-not-keyable"},
	{"K1 ED ED", "reject@2:after-end-document"},
	{"LIST BD", "reject@1:begin-again"},
	{"LIST V0", "reject@1:version-again"},
	{"REF(x)", "dontcare@0"},
	{"K1 PAD", "dontcare@1"},
	{"RT(a) NULL", "dontcare@1"},
	{"RT(a) MARK(x)", "dontcare@1"},
	{"LIST MARK(x) COM", "dontcare@2"},
	{"LIST MARK(x) K1 MAP REF(x) NULL K1", "dontcare@6"},
	{"LIST MARK(x) NULL EDGE REF(x)", "dontcare@4"},
}

// c10Directed runs the hand-written cases: first the model alone against the expectation (a
// disagreement is a harness failure), then model vs validator online.
func c10Directed(d *c10Cmp) {
	byName := c10SymByName()
	for _, dcase := range c10DirectedCases {
		var syms []c10Sym
		for _, n := range splitFields(dcase.seq) {
			s, ok := byName[n]
			if !ok {
				panic("c10 directed: unknown letter " + n)
			}
			syms = append(syms, s)
		}
		got := c10ModelTrace(syms)
		if got != dcase.want {
			d.c.Fail("harness-model-selftest", map[string]interface{}{"seq": dcase.seq, "want": dcase.want, "model": got})
			continue
		}
		full := append([]c10Sym{c10SymBD, c10SymV0}, syms...)
		c10RunLinear(d, full, "directed")
		d.counts["directed.sequences"]++
	}
	// version and begin handling
	for _, seq := range [][]c10Sym{{c10SymBD, c10SymV1}, {c10SymBD, c10SymV2}, {c10SymV0}, {c10SymBD, c10SymBD}, {c10SymLST}, {c10SymBD, c10SymLST}} {
		c10RunLinear(d, seq, "directed")
		d.counts["directed.sequences"]++
	}
}

func splitFields(s string) []string {
	var out []string
	cur := ""
	for _, r := range s {
		if r == ' ' {
			if cur != "" {
				out = append(out, cur)
			}
			cur = ""
		} else {
			cur += string(r)
		}
	}
	if cur != "" {
		out = append(out, cur)
	}
	return out
}

// c10ModelTrace summarises what the model alone says about a sequence (after BD V0), assuming the
// validator accepts every may-reject point.
func c10ModelTrace(syms []c10Sym) string {
	m := newC10Model()
	m.Step(c10SymBD.L)
	m.Step(c10SymV0.L)
	firstMay := -1
	for i, s := range syms {
		v := m.Step(s.L)
		switch v.V {
		case vReject:
			if firstMay >= 0 {
				return fmt.Sprintf("window@%d-%d:%s", firstMay, i, c10ClauseNames[v.Clause])
			}
			return fmt.Sprintf("reject@%d:%s", i, c10ClauseNames[v.Clause])
		case vDontCare:
			return fmt.Sprintf("dontcare@%d", i)
		case vMay:
			if firstMay < 0 {
				firstMay = i
			}
		}
	}
	if firstMay >= 0 {
		return "window-open"
	}
	return "ok"
}
