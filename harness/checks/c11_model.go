package checks

import (
	"math/bits"

	"github.com/kstenerud/go-concise-encoding/ce/events"

	"verifharness/ev"
)

// Reference model "Arrays" for property C11, written from the property text only:
//
//   The validator accepts an array exactly when the data delivered matches the declared chunk
//   lengths, the last chunk is final, and string-like contents (strings, resource IDs, remote
//   references, custom text, media types) are valid UTF-8 with every chunk ending on a
//   character boundary.
//
// The model walks the array events that were actually driven into the validator (begin, chunk,
// data, or one whole-array event). It never looks at how the data is divided among data events
// except to locate the event at which a violation becomes logically determined.

// c11Kind is one array type as seen through the event API.
type c11Kind struct {
	Name       string
	AT         events.ArrayType
	API        int // 0 = OnArrayBegin/OnArray, 1 = OnCustomBegin/OnCustomText|Binary, 2 = OnMediaBegin/OnMedia
	Stringlike bool
	ElemBits   int // element width in bits as laid down by the format: bit 1, (u)int8 8, ... uid 128; byte-wise kinds 8
}

const (
	c11APIArray = iota
	c11APICustom
	c11APIMedia
)

var c11Kinds = []c11Kind{
	{"string", events.ArrayTypeString, c11APIArray, true, 8},
	{"rid", events.ArrayTypeResourceID, c11APIArray, true, 8},
	{"remoteref", events.ArrayTypeReferenceRemote, c11APIArray, true, 8},
	{"customtext", events.ArrayTypeCustomText, c11APICustom, true, 8},
	{"custombinary", events.ArrayTypeCustomBinary, c11APICustom, false, 8},
	{"media", events.ArrayTypeMedia, c11APIMedia, false, 8},
	{"bit", events.ArrayTypeBit, c11APIArray, false, 1},
	{"uint8", events.ArrayTypeUint8, c11APIArray, false, 8},
	{"uint16", events.ArrayTypeUint16, c11APIArray, false, 16},
	{"uint32", events.ArrayTypeUint32, c11APIArray, false, 32},
	{"uint64", events.ArrayTypeUint64, c11APIArray, false, 64},
	{"int8", events.ArrayTypeInt8, c11APIArray, false, 8},
	{"int16", events.ArrayTypeInt16, c11APIArray, false, 16},
	{"int32", events.ArrayTypeInt32, c11APIArray, false, 32},
	{"int64", events.ArrayTypeInt64, c11APIArray, false, 64},
	{"float16", events.ArrayTypeFloat16, c11APIArray, false, 16},
	{"float32", events.ArrayTypeFloat32, c11APIArray, false, 32},
	{"float64", events.ArrayTypeFloat64, c11APIArray, false, 64},
	{"uid", events.ArrayTypeUID, c11APIArray, false, 128},
}

func c11KindOf(at events.ArrayType) *c11Kind {
	for i := range c11Kinds {
		if c11Kinds[i].AT == at {
			return &c11Kinds[i]
		}
	}
	return nil
}

// c11ElemBytes converts an element count to the byte count the format lays down for it
// (bits are packed 8 to a byte, the last byte may be partial). Saturates at 2^64-1.
func c11ElemBytes(elemBits int, count uint64) uint64 {
	if elemBits == 1 {
		n := count / 8
		if count%8 != 0 {
			n++
		}
		return n
	}
	hi, lo := bits.Mul64(count, uint64(elemBits/8))
	if hi != 0 {
		return ^uint64(0)
	}
	return lo
}

// UTF-8 per RFC 3629 / Unicode table 3-7, written out (no library decoder).

const (
	c11U8Complete = iota // b is a sequence of complete well-formed characters
	c11U8Partial         // ... followed by a proper prefix of a well-formed character
	c11U8Invalid         // contains a byte that no well-formed continuation can repair
)

// c11SecondRange gives the allowed range of the second byte after lead byte b0 and the total
// length of the character; n == 0 means b0 cannot start a character.
func c11SecondRange(b0 byte) (n int, lo, hi byte) {
	switch {
	case b0 <= 0x7f:
		return 1, 0, 0
	case b0 >= 0xc2 && b0 <= 0xdf:
		return 2, 0x80, 0xbf
	case b0 == 0xe0:
		return 3, 0xa0, 0xbf
	case b0 >= 0xe1 && b0 <= 0xec:
		return 3, 0x80, 0xbf
	case b0 == 0xed:
		return 3, 0x80, 0x9f
	case b0 == 0xee || b0 == 0xef:
		return 3, 0x80, 0xbf
	case b0 == 0xf0:
		return 4, 0x90, 0xbf
	case b0 >= 0xf1 && b0 <= 0xf3:
		return 4, 0x80, 0xbf
	case b0 == 0xf4:
		return 4, 0x80, 0x8f
	}
	return 0, 0, 0
}

// c11ScanUTF8 classifies b. For c11U8Partial, have/need describe the trailing incomplete
// character: have bytes present, need bytes still missing.
func c11ScanUTF8(b []byte) (state, have, need int) {
	i := 0
	for i < len(b) {
		n, lo, hi := c11SecondRange(b[i])
		if n == 0 {
			return c11U8Invalid, 0, 0
		}
		if n == 1 {
			i++
			continue
		}
		for j := 1; j < n; j++ {
			if i+j >= len(b) {
				return c11U8Partial, j, n - j
			}
			c := b[i+j]
			if j == 1 {
				if c < lo || c > hi {
					return c11U8Invalid, 0, 0
				}
			} else if c < 0x80 || c > 0xbf {
				return c11U8Invalid, 0, 0
			}
		}
		i += n
	}
	return c11U8Complete, 0, 0
}

func c11ValidUTF8(b []byte) bool {
	s, _, _ := c11ScanUTF8(b)
	return s == c11U8Complete
}

// c11Verdict is the model's answer for one driven array.
type c11Verdict struct {
	Accept   bool
	Reason   string // violation class of the first logically determined violation
	Earliest int    // first event index at which the rejection may come (the prefix before it can still be completed to an acceptable array)
	Latest   int    // last event index at which it may come
	DontCare string // non-empty: the property text does not decide this case
}

// c11Judge walks log[first:follow]: log[first] is the begin or whole-array event, log[follow] the first
// event after the array events. limit is the configured maximum array size in bytes (an array declared
// larger than that is rejected for another reason, possibly before its data is short).
func c11Judge(log []ev.Event, first, follow int, limit uint64) c11Verdict {
	e := log[first]
	whole := func(ok bool, reason string) c11Verdict {
		if ok {
			return c11Verdict{Accept: true}
		}
		return c11Verdict{Reason: reason, Earliest: first, Latest: first}
	}
	switch e.K {
	case ev.ARR:
		k := c11KindOf(e.AT)
		if k.Stringlike {
			if e.U != uint64(len(e.B)) {
				return c11Verdict{DontCare: "element count of a whole string-like array differs from its byte length"}
			}
			return whole(c11ValidUTF8(e.B), "utf8-invalid")
		}
		if c11ElemBytes(k.ElemBits, e.U) != uint64(len(e.B)) {
			if limit > 0 && c11ElemBytes(k.ElemBits, e.U) > limit {
				return whole(false, "huge-declared-length")
			}
			if c11ElemBytes(k.ElemBits, e.U) > uint64(len(e.B)) {
				return whole(false, "short-data")
			}
			return whole(false, "overflow")
		}
		return whole(true, "")
	case ev.STRARR:
		return whole(c11ValidUTF8([]byte(e.S)), "utf8-invalid")
	case ev.MEDIA:
		return whole(c11ValidUTF8([]byte(e.S)), "media-type-utf8-invalid")
	case ev.CUSTB:
		return whole(true, "")
	case ev.CUSTT:
		return whole(c11ValidUTF8([]byte(e.S)), "utf8-invalid")
	}

	var k *c11Kind
	switch e.K {
	case ev.ABEGIN, ev.CBEGIN:
		k = c11KindOf(e.AT)
	case ev.MBEGIN:
		k = c11KindOf(events.ArrayTypeMedia)
	default:
		return c11Verdict{DontCare: "not an array event"}
	}

	v := c11Verdict{Accept: true}
	acctBroken := false
	violate := func(reason string, at int, acct bool) {
		if acct {
			acctBroken = true
		}
		if v.Accept {
			v.Accept = false
			v.Reason = reason
			v.Earliest = at
		}
	}
	if e.K == ev.MBEGIN && !c11ValidUTF8([]byte(e.S)) {
		violate("media-type-utf8-invalid", first, false)
	}

	open := false        // a chunk with bytes still to come
	finished := false    // a final chunk has been completed
	more := false        // flag of the current chunk
	var remaining uint64 // bytes still to come in the open chunk
	var total uint64     // declared bytes so far
	var tail []byte      // bytes of the incomplete trailing character (string-like kinds)

	for i := first + 1; i < follow; i++ {
		x := log[i]
		switch x.K {
		case ev.CHUNK:
			if open {
				violate("short-data", i, true)
			} else if finished {
				violate("chunk-after-final", i, true)
			}
			if k.ElemBits == 1 && x.Flag && x.U%8 != 0 {
				return c11Verdict{DontCare: "non-final bit-array chunk that is not a whole number of bytes"}
			}
			expected := c11ElemBytes(k.ElemBits, x.U)
			if total+expected < total {
				total = ^uint64(0)
			} else {
				total += expected
			}
			if limit > 0 && total > limit {
				violate("huge-declared-length", i, true)
			}
			remaining = expected
			more = x.Flag
			open = remaining > 0
			if !open && !more {
				finished = true
			}
		case ev.DATA:
			n := uint64(len(x.B))
			if !open {
				if n == 0 {
					return c11Verdict{DontCare: "empty data event outside a chunk"}
				}
				violate("data-outside-chunk", i, true)
				continue
			}
			if n > remaining {
				violate("overflow", i, true)
				open = false
				continue
			}
			remaining -= n
			if k.Stringlike {
				tail = append(tail, x.B...)
				state, _, need := c11ScanUTF8(tail)
				switch state {
				case c11U8Invalid:
					violate("utf8-invalid", i, false)
					tail = tail[:0]
				case c11U8Complete:
					tail = tail[:0]
				case c11U8Partial:
					// keep only the incomplete character
					tail = append(tail[:0], tail[len(tail)-c11PartialLen(tail):]...)
					if uint64(need) > remaining {
						violate("char-boundary", i, false)
					}
				}
			}
			if remaining == 0 {
				open = false
				if k.Stringlike {
					tail = tail[:0]
				}
				if !more {
					finished = true
				}
			}
		default:
			return c11Verdict{DontCare: "foreign event inside the array"}
		}
	}
	if open {
		violate("short-data", follow, true)
	} else if !finished {
		violate("not-final", follow, true)
	}
	if !v.Accept {
		if acctBroken {
			v.Latest = follow
		} else {
			v.Latest = follow - 1
		}
	}
	return v
}

// c11PartialLen returns the length of the trailing incomplete character of b (b scans as partial).
func c11PartialLen(b []byte) int {
	_, have, _ := c11ScanUTF8(b)
	return have
}
