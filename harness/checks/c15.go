package checks

import (
	"bytes"
	"fmt"
	"math"
	"math/big"
	"strings"

	"github.com/cockroachdb/apd/v2"
	compact_float "github.com/kstenerud/go-compact-float"
	compact_time "github.com/kstenerud/go-compact-time"
	"github.com/kstenerud/go-concise-encoding/ce/events"
	"github.com/kstenerud/go-concise-encoding/configuration"
	"github.com/kstenerud/go-concise-encoding/rules"

	"verifharness/ev"
	"verifharness/fw"
	"verifharness/gen"
)

// C15 — the validator passes accepted events through unchanged.
//
// Monitor: a recorder (deep-copying) sits directly behind rules.NewRules. The oracle is written
// from the property text only:
//   expected(forwarded) = rewrite(input[0:n])   with n = number of events the validator accepted,
//   rewrite = identity, except  nil *big.Int / *big.Float / *apd.Decimal  -> OnNull
//                               NaN as float64 / DFloat / *apd.Decimal     -> OnNan(same kind)
// compared by exact sequence equality of (kind, arguments): no canonical view is involved.

const c15Directed = 12

func init() {
	fw.Register(&fw.Check{
		ID:    "C15",
		Level: "exploration",
		Rule: "case = event stream driven into rules.NewRules(recorder, cfg): (a) directed streams holding every event form and every rewrite the property allows, " +
			"(b) PRNG-generated rules-valid streams with all generator features on (comments, padding, chunked arrays, OnArray vs OnStringlikeArray, media, custom binary/text, markers, records, " +
			"nil big numbers, NaN as float/decimal/big decimal, occasional OnError), (c) mutants of those (event deleted / duplicated / swapped / inserted / argument damaged / truncated, or a tightened limit) " +
			"which the validator rejects part-way. Every fourth stream is delivered by a producer that reuses one buffer (4-8 KiB, spare capacity behind every argument) for the byte argument of every event, " +
			"the others with a fresh slice per event; every fifth validator has first been driven with another stream (whole or cut short) and Reset(). Oracle = the recorder's log equals, event by event and argument by argument (floats by bits, big numbers by value, sign and precision, " +
			"decimals field-wise, times field-wise, byte slices and strings byte-wise), the input events up to (not including) the rejected one after applying only the two rewrites of the property. " +
			"Non-trivial = >=1 container and >=3 value events; distinct = distinct rendered input logs.",
		Assumptions: []string{"a nil byte slice and an empty byte slice are the same argument", "the kind of a float64 NaN is its quiet bit (bit 51)",
			"after the validator rejected an event the stream is abandoned (nothing further is sent)", "generator bounds: depth<=8, <=260 values, arrays <=5000 elements"},
		Cases: func(tier string) int { return tierN(tier, 40000, 1200000) },
		Run:   runC15,
		Floors: func(string) map[string]int64 {
			m := map[string]int64{"delivery.shared-buffer": 5000, "delivery.after-reset": 4000, "streams_accepted": 3000, "streams_rejected_partway": 500, "events_compared": 50000,
				"rewrite.nil.bint": 1, "rewrite.nil.bfloat": 1, "rewrite.nil.bdfloat": 1,
				"rewrite.nan.float.quiet": 1, "rewrite.nan.float.signaling": 1, "rewrite.nan.dfloat.quiet": 1, "rewrite.nan.dfloat.signaling": 1,
				"rewrite.nan.bdfloat.quiet": 1, "rewrite.nan.bdfloat.signaling": 1}
			for k := ev.BD; k < ev.NumKinds; k++ {
				m["fwd.ev."+k.String()] = 1
			}
			return m
		},
	})
}

// c15Rewrite applies the two rewrites the property allows to one input event.
func c15Rewrite(e ev.Event) (out ev.Event, what string) {
	switch e.K {
	case ev.BINT:
		if e.BI == nil {
			return ev.Event{K: ev.NULL}, "nil.bint"
		}
	case ev.BFLOAT:
		if e.BF == nil {
			return ev.Event{K: ev.NULL}, "nil.bfloat"
		}
	case ev.BDFLOAT:
		if e.BD == nil {
			return ev.Event{K: ev.NULL}, "nil.bdfloat"
		}
		if e.BD.Form == apd.NaN {
			return ev.Event{K: ev.NAN, Flag: false}, "nan.bdfloat.quiet"
		}
		if e.BD.Form == apd.NaNSignaling {
			return ev.Event{K: ev.NAN, Flag: true}, "nan.bdfloat.signaling"
		}
	case ev.FLOAT:
		if e.F != e.F {
			if math.Float64bits(e.F)&(1<<51) != 0 {
				return ev.Event{K: ev.NAN, Flag: false}, "nan.float.quiet"
			}
			return ev.Event{K: ev.NAN, Flag: true}, "nan.float.signaling"
		}
	case ev.DFLOAT:
		if e.DF == compact_float.QuietNaN() {
			return ev.Event{K: ev.NAN, Flag: false}, "nan.dfloat.quiet"
		}
		if e.DF == compact_float.SignalingNaN() {
			return ev.Event{K: ev.NAN, Flag: true}, "nan.dfloat.signaling"
		}
	}
	return e, ""
}

func c15BigIntEq(a, b *big.Int) bool {
	if a == nil || b == nil {
		return a == nil && b == nil
	}
	return a.Cmp(b) == 0
}

func c15BigFloatEq(a, b *big.Float) bool {
	if a == nil || b == nil {
		return a == nil && b == nil
	}
	return a.Prec() == b.Prec() && a.Signbit() == b.Signbit() && a.IsInf() == b.IsInf() && a.Cmp(b) == 0
}

func c15APDEq(a, b *apd.Decimal) bool {
	if a == nil || b == nil {
		return a == nil && b == nil
	}
	return a.Form == b.Form && a.Negative == b.Negative && a.Exponent == b.Exponent && a.Coeff.Cmp(&b.Coeff) == 0
}

func c15TimeEq(a, b compact_time.Time) bool {
	za, zb := a.Timezone, b.Timezone
	return a.Type == b.Type && a.Year == b.Year && a.Month == b.Month && a.Day == b.Day && a.Hour == b.Hour && a.Minute == b.Minute &&
		a.Second == b.Second && a.Nanosecond == b.Nanosecond && za.Type == zb.Type && za.ShortAreaLocation == zb.ShortAreaLocation &&
		za.LongAreaLocation == zb.LongAreaLocation && za.LatitudeHundredths == zb.LatitudeHundredths &&
		za.LongitudeHundredths == zb.LongitudeHundredths && za.MinutesOffsetFromUTC == zb.MinutesOffsetFromUTC
}

// c15EventEq is the exact comparator: same kind and, for that kind, the same arguments.
// It returns the name of the first differing argument ("" when equal).
func c15EventEq(a, b ev.Event) string {
	if a.K != b.K {
		return "kind"
	}
	ne := func(cond bool, name string) string {
		if cond {
			return name
		}
		return ""
	}
	switch a.K {
	case ev.BD, ev.ED, ev.PAD, ev.NULL, ev.TRUE, ev.FALSE, ev.LIST, ev.MAP, ev.EDGE, ev.NODE, ev.END, ev.ERR:
		return ""
	case ev.VER, ev.PINT, ev.NINT:
		return ne(a.U != b.U, "value")
	case ev.COM:
		if a.Flag != b.Flag {
			return "multiline"
		}
		return ne(!bytes.Equal(a.B, b.B), "contents")
	case ev.BOOL, ev.NAN:
		return ne(a.Flag != b.Flag, "flag")
	case ev.INT:
		return ne(a.I != b.I, "value")
	case ev.BINT:
		return ne(!c15BigIntEq(a.BI, b.BI), "value")
	case ev.FLOAT:
		return ne(math.Float64bits(a.F) != math.Float64bits(b.F), "bits")
	case ev.BFLOAT:
		return ne(!c15BigFloatEq(a.BF, b.BF), "value")
	case ev.DFLOAT:
		return ne(a.DF != b.DF, "value")
	case ev.BDFLOAT:
		return ne(!c15APDEq(a.BD, b.BD), "value")
	case ev.UID, ev.RECTYPE, ev.RECORD, ev.MARK, ev.REF, ev.DATA:
		return ne(!bytes.Equal(a.B, b.B), "bytes")
	case ev.TIME:
		return ne(!c15TimeEq(a.T, b.T), "time")
	case ev.ARR:
		if a.AT != b.AT {
			return "arraytype"
		}
		if a.U != b.U {
			return "elementcount"
		}
		return ne(!bytes.Equal(a.B, b.B), "bytes")
	case ev.STRARR:
		if a.AT != b.AT {
			return "arraytype"
		}
		return ne(a.S != b.S, "string")
	case ev.MEDIA:
		if a.S != b.S {
			return "mediatype"
		}
		return ne(!bytes.Equal(a.B, b.B), "bytes")
	case ev.CUSTB:
		if a.U != b.U {
			return "customtype"
		}
		return ne(!bytes.Equal(a.B, b.B), "bytes")
	case ev.CUSTT:
		if a.U != b.U {
			return "customtype"
		}
		return ne(a.S != b.S, "string")
	case ev.ABEGIN:
		return ne(a.AT != b.AT, "arraytype")
	case ev.MBEGIN:
		return ne(a.S != b.S, "mediatype")
	case ev.CBEGIN:
		if a.AT != b.AT {
			return "arraytype"
		}
		return ne(a.U != b.U, "customtype")
	case ev.CHUNK:
		if a.U != b.U {
			return "length"
		}
		return ne(a.Flag != b.Flag, "morechunks")
	}
	return "unknown-kind"
}

func c15Opts(c *fw.Ctx) gen.StreamOpts {
	r := c.Rng
	o := gen.StreamOpts{Comments: true, Padding: true, CustomBinary: true, CustomText: true, RemoteRef: true, Markers: true, Records: true,
		Media: true, Chunked: true, MaxDepth: 2 + r.Intn(6), Size: 5 + r.Intn(60), MaxArrayLen: 40, MaxComments: 6}
	if c.Tier == "thorough" && r.Intn(12) == 0 {
		o.MaxArrayLen = 5000
		o.Size = 200
	}
	if r.Intn(5) == 0 {
		o.MaxDepth = 1
		o.Size = 3
	}
	return o
}

// c15GenStream draws streams until one has a container at top level (the shared generator makes a
// scalar-only document 6 times out of 7); one case in 8 keeps whatever comes first.
func c15GenStream(c *fw.Ctx) []ev.Event {
	keepAny := c.Rng.Intn(8) == 0
	var in []ev.Event
	for try := 0; try < 8; try++ {
		in = gen.Stream(c.Rng, c15Opts(c))
		if keepAny || nontrivialStream(in) {
			break
		}
	}
	return in
}

func c15Doc(body ...ev.Event) []ev.Event {
	out := []ev.Event{{K: ev.BD}, {K: ev.VER}}
	out = append(out, body...)
	return append(out, ev.Event{K: ev.ED})
}

// c15DirectedStream returns the fixed streams that guarantee every event kind and every rewrite is seen.
func c15DirectedStream(idx int) ([]ev.Event, *configuration.Configuration) {
	cfg := configuration.New()
	S, R, U8, BIT := events.ArrayTypeString, events.ArrayTypeResourceID, events.ArrayTypeUint8, events.ArrayTypeBit
	nanF := func(bits uint64) ev.Event { return ev.Event{K: ev.FLOAT, F: math.Float64frombits(bits)} }
	apdForm := func(f apd.Form, neg bool) ev.Event {
		d := new(apd.Decimal)
		d.Form = f
		d.Negative = neg
		return ev.Event{K: ev.BDFLOAT, BD: d}
	}
	bf := new(big.Float).SetPrec(77).SetMantExp(big.NewFloat(0.75), -300)
	negz := new(big.Float).SetPrec(9).Neg(new(big.Float))
	bd, _, _ := apd.NewFromString("-1234567890123456789012345.6789e-77")
	bdz := new(apd.Decimal)
	bdz.Negative = true
	bdz.Exponent = -4
	switch idx {
	case 0: // every rewrite, quiet and signalling, inside a list
		return c15Doc(ev.Event{K: ev.LIST}, ev.Event{K: ev.BINT}, ev.Event{K: ev.BFLOAT}, ev.Event{K: ev.BDFLOAT},
			nanF(0x7ff8000000000000), nanF(0x7ff0000000000001), nanF(0xfff8000000000123), nanF(0xfff4000000000000), nanF(0x7ff7ffffffffffff), nanF(0x7fffffffffffffff),
			ev.Event{K: ev.DFLOAT, DF: compact_float.QuietNaN()}, ev.Event{K: ev.DFLOAT, DF: compact_float.SignalingNaN()},
			apdForm(apd.NaN, false), apdForm(apd.NaNSignaling, false), apdForm(apd.NaN, true), apdForm(apd.NaNSignaling, true),
			ev.Event{K: ev.NAN, Flag: true}, ev.Event{K: ev.NAN, Flag: false}, ev.Event{K: ev.NULL}, ev.Event{K: ev.END}), cfg
	case 1: // every scalar form with awkward values
		return c15Doc(ev.Event{K: ev.LIST}, ev.Event{K: ev.BOOL, Flag: true}, ev.Event{K: ev.BOOL}, ev.Event{K: ev.TRUE}, ev.Event{K: ev.FALSE},
			ev.Event{K: ev.PINT, U: math.MaxUint64}, ev.Event{K: ev.NINT, U: 0}, ev.Event{K: ev.NINT, U: math.MaxUint64}, ev.Event{K: ev.INT, I: math.MinInt64},
			ev.Event{K: ev.BINT, BI: new(big.Int).Lsh(big.NewInt(-3), 200)}, ev.Event{K: ev.BINT, BI: new(big.Int)},
			ev.Event{K: ev.FLOAT, F: math.Copysign(0, -1)}, ev.Event{K: ev.FLOAT, F: math.Inf(-1)}, ev.Event{K: ev.FLOAT, F: math.SmallestNonzeroFloat64},
			ev.Event{K: ev.BFLOAT, BF: bf}, ev.Event{K: ev.BFLOAT, BF: negz}, ev.Event{K: ev.BFLOAT, BF: new(big.Float).SetInf(true)},
			ev.Event{K: ev.DFLOAT, DF: compact_float.NegativeZero()}, ev.Event{K: ev.DFLOAT, DF: compact_float.NegativeInfinity()}, ev.Event{K: ev.DFLOAT, DF: compact_float.DFloatValue(-399, math.MinInt64+1)},
			ev.Event{K: ev.BDFLOAT, BD: bd}, ev.Event{K: ev.BDFLOAT, BD: bdz}, apdForm(apd.Infinite, true),
			ev.Event{K: ev.UID, B: []byte{0, 1, 2, 3, 4, 5, 6, 7, 8, 9, 10, 11, 12, 13, 14, 255}},
			ev.Event{K: ev.TIME, T: compact_time.NewTimestamp(-9999, 12, 31, 23, 59, 60, 999999999, compact_time.TZAtLatLong(-9000, 18000))},
			ev.Event{K: ev.TIME, T: compact_time.NewTime(0, 0, 0, 0, compact_time.TZAtAreaLocation("E/Berlin"))},
			ev.Event{K: ev.TIME, T: compact_time.NewDate(2000, 2, 29)}, ev.Event{K: ev.END}), cfg
	case 2: // every array form
		return c15Doc(ev.Event{K: ev.LIST},
			ev.Event{K: ev.ARR, AT: S, U: 3, B: []byte("a\x00\n")}, ev.Event{K: ev.STRARR, AT: S, S: "日本 */ \U0001F600"}, ev.Event{K: ev.STRARR, AT: S, S: ""},
			ev.Event{K: ev.ARR, AT: S, U: 0, B: nil}, ev.Event{K: ev.ARR, AT: R, U: 5, B: []byte("x:y z")}, ev.Event{K: ev.STRARR, AT: R, S: "https://example.com/é"},
			ev.Event{K: ev.STRARR, AT: events.ArrayTypeReferenceRemote, S: "ref#1"}, ev.Event{K: ev.ARR, AT: events.ArrayTypeReferenceRemote, U: 1, B: []byte("r")},
			ev.Event{K: ev.ARR, AT: BIT, U: 11, B: []byte{0xff, 0x07}}, ev.Event{K: ev.ARR, AT: events.ArrayTypeUint16, U: 2, B: []byte{1, 2, 3, 4}},
			ev.Event{K: ev.ARR, AT: events.ArrayTypeFloat64, U: 1, B: []byte{1, 0, 0, 0, 0, 0, 0xf0, 0x7f}}, ev.Event{K: ev.ARR, AT: events.ArrayTypeUID, U: 1, B: bytes.Repeat([]byte{0xab}, 16)},
			ev.Event{K: ev.MEDIA, S: "a/b", B: []byte{0, 1, 2}}, ev.Event{K: ev.MEDIA, S: "text/plain; charset=utf-8", B: []byte{}},
			ev.Event{K: ev.CUSTB, U: math.MaxUint32, B: []byte{9, 8}}, ev.Event{K: ev.CUSTT, U: 0, S: "custom ü"},
			ev.Event{K: ev.ABEGIN, AT: S}, ev.Event{K: ev.CHUNK, U: 4, Flag: true}, ev.Event{K: ev.DATA, B: []byte("a\xe6")}, ev.Event{K: ev.DATA, B: []byte("\x97\xa5")},
			ev.Event{K: ev.CHUNK, U: 0, Flag: true}, ev.Event{K: ev.CHUNK, U: 1, Flag: false}, ev.Event{K: ev.DATA, B: []byte("z")},
			ev.Event{K: ev.ABEGIN, AT: BIT}, ev.Event{K: ev.CHUNK, U: 8, Flag: true}, ev.Event{K: ev.DATA, B: []byte{0x55}}, ev.Event{K: ev.CHUNK, U: 3, Flag: false}, ev.Event{K: ev.DATA, B: []byte{0x05}},
			ev.Event{K: ev.ABEGIN, AT: U8}, ev.Event{K: ev.CHUNK, U: 0, Flag: false},
			ev.Event{K: ev.MBEGIN, S: "image/png"}, ev.Event{K: ev.CHUNK, U: 2, Flag: false}, ev.Event{K: ev.DATA, B: []byte{1}}, ev.Event{K: ev.DATA, B: []byte{2}},
			ev.Event{K: ev.CBEGIN, AT: events.ArrayTypeCustomBinary, U: 300}, ev.Event{K: ev.CHUNK, U: 1, Flag: false}, ev.Event{K: ev.DATA, B: []byte{7}},
			ev.Event{K: ev.CBEGIN, AT: events.ArrayTypeCustomText, U: 1}, ev.Event{K: ev.CHUNK, U: 2, Flag: false}, ev.Event{K: ev.DATA, B: []byte("é")},
			ev.Event{K: ev.END}), cfg
	case 3: // containers, record types, markers, references, comments, padding, error
		return c15Doc(ev.Event{K: ev.COM, Flag: true, B: []byte("top\ncomment")}, ev.Event{K: ev.PAD},
			ev.Event{K: ev.RECTYPE, B: []byte("ключ.1")}, ev.Event{K: ev.STRARR, AT: S, S: "k1"}, ev.Event{K: ev.COM, B: []byte("in type")}, ev.Event{K: ev.PINT, U: 2}, ev.Event{K: ev.END},
			ev.Event{K: ev.PAD}, ev.Event{K: ev.MAP},
			ev.Event{K: ev.MARK, B: []byte("key-1")}, ev.Event{K: ev.STRARR, AT: S, S: "k"}, ev.Event{K: ev.COM, B: []byte{}}, ev.Event{K: ev.REF, B: []byte("fwd_1")},
			ev.Event{K: ev.REF, B: []byte("key-1")}, ev.Event{K: ev.MARK, B: []byte("fwd_1")}, ev.Event{K: ev.LIST}, ev.Event{K: ev.MARK, B: []byte("in")}, ev.Event{K: ev.NULL}, ev.Event{K: ev.ERR}, ev.Event{K: ev.END},
			ev.Event{K: ev.INT, I: -1}, ev.Event{K: ev.RECORD, B: []byte("ключ.1")}, ev.Event{K: ev.PAD}, ev.Event{K: ev.BINT}, ev.Event{K: ev.NODE}, ev.Event{K: ev.TRUE}, ev.Event{K: ev.END}, ev.Event{K: ev.END},
			ev.Event{K: ev.UID, B: make([]byte, 16)}, ev.Event{K: ev.EDGE}, ev.Event{K: ev.STRARR, AT: R, S: "a"}, ev.Event{K: ev.BFLOAT}, ev.Event{K: ev.PINT, U: 1}, ev.Event{K: ev.END},
			ev.Event{K: ev.END}, ev.Event{K: ev.ED}), cfg
	case 4: // nil big int as map key is rewritten to null, which a map key cannot be: rejected, nothing forwarded for it
		return c15Doc(ev.Event{K: ev.MAP}, ev.Event{K: ev.BINT}, ev.Event{K: ev.TRUE}, ev.Event{K: ev.END}), cfg
	case 5: // NaN float as map key
		return c15Doc(ev.Event{K: ev.MAP}, nanF(0x7ff8000000000000), ev.Event{K: ev.TRUE}, ev.Event{K: ev.END}), cfg
	case 6: // object-count limit hit by the rewritten event
		cfg.Rules.MaxObjectCount = 3
		return c15Doc(ev.Event{K: ev.LIST}, ev.Event{K: ev.BDFLOAT}, ev.Event{K: ev.TRUE}, apdForm(apd.NaN, false), ev.Event{K: ev.END}), cfg
	case 7: // array limit hit on a later chunk
		cfg.Rules.MaxArraySizeBytes = 5
		return c15Doc(ev.Event{K: ev.ABEGIN, AT: U8}, ev.Event{K: ev.CHUNK, U: 3, Flag: true}, ev.Event{K: ev.DATA, B: []byte{1, 2, 3}}, ev.Event{K: ev.CHUNK, U: 3, Flag: false}, ev.Event{K: ev.DATA, B: []byte{4, 5, 6}}), cfg
	case 8: // invalid UTF-8 arriving in the second data event
		return c15Doc(ev.Event{K: ev.ABEGIN, AT: S}, ev.Event{K: ev.CHUNK, U: 4, Flag: false}, ev.Event{K: ev.DATA, B: []byte("ab")}, ev.Event{K: ev.DATA, B: []byte{0xff, 0x41}}), cfg
	case 9: // unresolved forward reference: the end-of-document event is the rejected one
		return c15Doc(ev.Event{K: ev.LIST}, ev.Event{K: ev.REF, B: []byte("nowhere")}, ev.Event{K: ev.END}), cfg
	case 10: // duplicate key
		return c15Doc(ev.Event{K: ev.MAP}, ev.Event{K: ev.PINT, U: 1}, ev.Event{K: ev.NULL}, ev.Event{K: ev.INT, I: 1}, ev.Event{K: ev.NULL}, ev.Event{K: ev.END}), cfg
	default: // top-level scalar only
		return c15Doc(nanF(0xfff0000000000001)), cfg
	}
}

var c15InsertPool = []ev.Event{{K: ev.END}, {K: ev.NULL}, {K: ev.LIST}, {K: ev.MAP}, {K: ev.NODE}, {K: ev.EDGE}, {K: ev.ED}, {K: ev.BD}, {K: ev.VER, U: 1},
	{K: ev.REF, B: []byte("nope")}, {K: ev.MARK, B: []byte("")}, {K: ev.MARK, B: []byte("bad id")}, {K: ev.RECORD, B: []byte("undefined")}, {K: ev.RECTYPE, B: []byte("late")},
	{K: ev.CHUNK, U: 3}, {K: ev.DATA, B: []byte{1, 2}}, {K: ev.ARR, AT: events.ArrayTypeString, U: 2, B: []byte{0xc3, 0x28}}, {K: ev.STRARR, AT: events.ArrayTypeString, S: "\xff"},
	{K: ev.ARR, AT: events.ArrayTypeUint32, U: 2, B: []byte{1, 2, 3}}, {K: ev.ARR, AT: events.ArrayTypeMedia, U: 0}, {K: ev.ABEGIN, AT: events.ArrayTypeCustomText},
	{K: ev.CBEGIN, AT: events.ArrayTypeUint8, U: 1}, {K: ev.BINT}, {K: ev.BFLOAT}, {K: ev.BDFLOAT}, {K: ev.FLOAT, F: math.Float64frombits(0x7ff0000000000400)},
	{K: ev.DFLOAT, DF: compact_float.QuietNaN()}, {K: ev.MEDIA, S: "\xfe/x", B: []byte{1}}, {K: ev.MBEGIN, S: "a/\xc0"}, {K: ev.COM, B: []byte("extra")}, {K: ev.PAD},
	{K: ev.TRUE}, {K: ev.PINT, U: 7}, {K: ev.UID, B: make([]byte, 16)}, {K: ev.ABEGIN, AT: events.ArrayTypeString}}

// c15Mutate damages a valid stream (1-2 edits) or tightens one limit.
func c15Mutate(c *fw.Ctx, in []ev.Event, cfg *configuration.Configuration) ([]ev.Event, string) {
	r := c.Rng
	log := make([]ev.Event, len(in))
	for i := range in {
		log[i] = in[i].Clone()
	}
	what := ""
	n := 1 + r.Intn(2)
	for k := 0; k < n && len(log) > 3; k++ {
		pos := r.Intn(len(log))
		switch r.Intn(8) {
		case 0:
			log = append(log[:pos], log[pos+1:]...)
			what += "delete,"
		case 1:
			log = append(log[:pos+1], append([]ev.Event{log[pos].Clone()}, log[pos+1:]...)...)
			what += "duplicate,"
		case 2:
			if pos+1 < len(log) {
				log[pos], log[pos+1] = log[pos+1], log[pos]
			}
			what += "swap,"
		case 3:
			ins := c15InsertPool[r.Intn(len(c15InsertPool))].Clone()
			log = append(log[:pos], append([]ev.Event{ins}, log[pos:]...)...)
			what += "insert,"
		case 4:
			log = append(log[:pos], ev.Event{K: ev.ED})
			what += "truncate,"
		case 5:
			// damage an argument of the first suitable event at or after pos
			done := false
			for j := pos; j < len(log) && !done; j++ {
				e := &log[j]
				done = true
				switch e.K {
				case ev.CHUNK:
					if r.Intn(2) == 0 {
						e.U++
					} else if e.U > 0 {
						e.U--
					} else {
						e.Flag = !e.Flag
					}
				case ev.DATA:
					if len(e.B) > 0 && r.Intn(2) == 0 {
						e.B = e.B[:len(e.B)-1]
					} else {
						e.B = append(e.B, 0xff)
					}
				case ev.MARK, ev.REF, ev.RECORD, ev.RECTYPE:
					e.B = [][]byte{nil, []byte("a b"), []byte("x\xff"), append(append([]byte{}, e.B...), '!'), bytes.Repeat([]byte("i"), 1001)}[r.Intn(5)]
				case ev.ARR:
					if r.Intn(2) == 0 {
						e.U++
					} else {
						e.B = append(e.B, 0xc0)
					}
				case ev.STRARR, ev.CUSTT:
					e.S += "\xf0\x80"
				case ev.VER:
					e.U = 1 + uint64(r.Intn(3))
				case ev.UID:
					e.B = e.B[:15]
				default:
					done = false
				}
			}
			what += "damage,"
		default:
			switch r.Intn(5) {
			case 0:
				cfg.Rules.MaxObjectCount = uint64(r.Intn(12))
			case 1:
				cfg.Rules.MaxContainerDepth = uint64(r.Intn(3))
			case 2:
				cfg.Rules.MaxArraySizeBytes = uint64(1 + r.Intn(8))
			case 3:
				cfg.Rules.MaxIdentifierLength = uint64(r.Intn(4))
			default:
				cfg.Rules.MaxLocalReferenceCount = uint64(r.Intn(2))
			}
			what += "limit,"
		}
	}
	return log, what
}

func runC15(c *fw.Ctx, idx int) {
	var in []ev.Event
	cfg := configuration.New()
	mode := "generated"
	if idx < c15Directed {
		in, cfg = c15DirectedStream(idx)
		mode = "directed"
	} else {
		in = c15GenStream(c)
		if c.Rng.Intn(10) == 0 {
			// OnError is forwarded without validation; it may appear anywhere.
			pos := 1 + c.Rng.Intn(len(in)-1)
			in = append(in[:pos], append([]ev.Event{{K: ev.ERR}}, in[pos:]...)...)
		}
		if idx%3 == 2 {
			var what string
			in, what = c15Mutate(c, in, cfg)
			mode = "mutant"
			c.Inc("mutation." + strings.TrimSuffix(what, ","))
		}
	}
	c.Note("stream %s", ev.LogString(in))
	c.Region("rules")
	rec := &ev.Recorder{}
	r := rules.NewRules(rec, cfg)
	if idx%5 == 3 {
		// a validator that has already seen another document (complete or given up part-way) and was Reset()
		warm := c15GenStream(c)
		if c.Rng.Intn(2) == 0 {
			warm = warm[:1+c.Rng.Intn(len(warm))]
		}
		ev.Replay(r, warm)
		r.Reset()
		rec.Reset()
		mode += "+after-reset"
		c.Inc("delivery.after-reset")
	}
	var rej int
	var why interface{}
	if idx%4 == 1 {
		// the producer reuses one buffer for every byte argument (what a decoder reading into a fixed buffer does)
		rej, why = ev.ReplayScratch(r, in, make([]byte, 4096+c.Rng.Intn(4096)))
		mode += "+shared-buffer"
		c.Inc("delivery.shared-buffer")
	} else {
		rej, why = ev.Replay(r, in)
		c.Inc("delivery.fresh-slices")
	}
	c.Eval()
	n := len(in)
	if rej >= 0 {
		n = rej
		if ev.IsRuntimePanic(why) {
			// a Go runtime error inside the validator is not a deliberate rejection; the forwarding
			// oracle below still applies (nothing may have been forwarded for this event).
			c.Inc("rejected_with_runtime_error")
		}
		c.Inc("streams_rejected_partway")
		c.Inc("rejected." + mode)
		c.Inc("reject_reason." + c15ReasonClass(ev.PanicString(why)))
	} else {
		c.Inc("streams_accepted")
		c.Inc("accepted." + mode)
	}
	expected := make([]ev.Event, 0, n)
	var rewrites []string
	for i := 0; i < n; i++ {
		e, what := c15Rewrite(in[i])
		if what != "" {
			rewrites = append(rewrites, what)
		}
		expected = append(expected, e)
	}
	got := rec.Log
	fail := func(sig string, pos int, arg string) {
		d := map[string]interface{}{"stream": ev.LogStrings(in), "forwarded": ev.LogStrings(got), "rejected_at": rej, "reject_reason": ev.PanicString(why), "position": pos, "argument": arg, "mode": mode}
		if pos >= 0 && pos < len(expected) {
			d["expected_event"] = expected[pos].String()
		}
		if pos >= 0 && pos < len(got) {
			d["forwarded_event"] = got[pos].String()
		}
		c.Fail(sig, d)
	}
	m := len(got)
	if len(expected) < m {
		m = len(expected)
	}
	for i := 0; i < m; i++ {
		if arg := c15EventEq(expected[i], got[i]); arg != "" {
			if arg == "kind" {
				fail(fmt.Sprintf("forwarded-differs:%s->%s", expected[i].K, got[i].K), i, arg)
			} else {
				fail(fmt.Sprintf("forwarded-differs:%s.%s", expected[i].K, arg), i, arg)
			}
			return
		}
	}
	if len(got) < len(expected) {
		fail("event-dropped:"+expected[len(got)].K.String(), len(got), "")
		return
	}
	if len(got) > len(expected) {
		if rej >= 0 {
			fail("forwarded-after-reject:"+got[len(expected)].K.String(), len(expected), "")
		} else {
			fail("event-added:"+got[len(expected)].K.String(), len(expected), "")
		}
		return
	}
	c.Count("events_compared", int64(len(got)))
	for _, w := range rewrites {
		c.Inc("rewrite." + w)
	}
	for _, e := range got {
		c.Inc("fwd.ev." + e.K.String())
	}
	for _, e := range in[:n] {
		switch e.K {
		case ev.ARR, ev.STRARR, ev.ABEGIN:
			form := map[ev.Kind]string{ev.ARR: "whole", ev.STRARR: "string", ev.ABEGIN: "chunked"}[e.K]
			c.Inc(fmt.Sprintf("in.array.%v.%s", e.AT, form))
		}
	}
	if nontrivialStream(in[:n]) {
		c.Distinct(ev.LogString(in))
	}
	if c.WantSample() && nontrivialStream(in[:n]) && (len(rewrites) > 0 || rej >= 0) {
		c.Sample(map[string]interface{}{"stream": ev.LogStrings(in), "forwarded": ev.LogStrings(got), "rejected_at": rej, "rewrites": rewrites})
	}
}

func c15ReasonClass(s string) string {
	for _, k := range []string{"exceeded max object count", "exceeded max container depth", "byte count", "byte length", "identifier", "already exists", "not valid UTF-8",
		"UTF-8", "does not allow", "not allowed", "expected", "no such record type", "Forward local references", "marked object", "marker", "version", "BUG", "runtime error"} {
		if containsStr(s, k) {
			return c15SanitizeKey(k)
		}
	}
	return "other"
}

func c15SanitizeKey(s string) string {
	b := []byte(s)
	for i, ch := range b {
		if !(ch >= 'a' && ch <= 'z' || ch >= 'A' && ch <= 'Z' || ch >= '0' && ch <= '9') {
			b[i] = '_'
		}
	}
	return string(b)
}
