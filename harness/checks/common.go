// Package checks holds one monitor per property (C01..C29).
package checks

import (
	"bytes"
	"encoding/hex"
	"fmt"
	"io"
	"runtime/debug"
	"sort"
	"strings"

	"github.com/kstenerud/go-concise-encoding/builder"
	"github.com/kstenerud/go-concise-encoding/ce"
	"github.com/kstenerud/go-concise-encoding/ce/events"
	"github.com/kstenerud/go-concise-encoding/configuration"
	"github.com/kstenerud/go-concise-encoding/rules"

	"verifharness/ev"
	"verifharness/fw"
)

func tierN(tier string, quick, thorough int) int {
	if tier == "thorough" {
		return thorough
	}
	return quick
}

// throughRules replays log into the real validator and returns what it forwarded, and the
// index/value of the rejection (-1/nil when accepted).
func throughRules(log []ev.Event, cfg *configuration.Configuration) (fwd []ev.Event, rejectIdx int, why interface{}) {
	if cfg == nil {
		cfg = configuration.New()
	}
	rec := &ev.Recorder{}
	r := rules.NewRules(rec, cfg)
	idx, p := ev.Replay(r, log)
	return rec.Log, idx, p
}

// encodeEvents drives an encoder with the log. It returns the bytes, and the event index and
// panic value if the encoder panicked (errors are panics at this API level).
// replayAuto delivers a log the way one of two producers would: with a fresh slice for the byte argument of every event,
// or (for one log in three, chosen by the log's length so that a replay makes the same choice) from one reused 8 KiB buffer
// with spare capacity behind every argument, as a decoder reading into a fixed buffer does. A receiver that keeps or
// extends a slice it was handed shows up as a difference in whatever the check compares.
func replayAuto(rcv events.DataEventReceiver, log []ev.Event) (int, interface{}) {
	if len(log)%3 == 1 {
		return ev.ReplayScratch(rcv, log, make([]byte, 8192))
	}
	return ev.Replay(rcv, log)
}

func encodeEvents(enc ce.Encoder, log []ev.Event) (doc []byte, failIdx int, why interface{}) {
	var buf bytes.Buffer
	enc.PrepareToEncode(&buf)
	idx, p := replayAuto(enc, log)
	return buf.Bytes(), idx, p
}

// encodeWithRules drives rules -> encoder.
func encodeWithRules(enc ce.Encoder, log []ev.Event, cfg *configuration.Configuration) (doc []byte, failIdx int, why interface{}) {
	var buf bytes.Buffer
	enc.PrepareToEncode(&buf)
	r := rules.NewRules(enc, cfg)
	idx, p := replayAuto(r, log)
	return buf.Bytes(), idx, p
}

type decodeResult struct {
	Log   []ev.Event
	Err   error
	Panic interface{}
	Stack string
}

// decodeDoc decodes through rules into a recorder. An escaped panic is captured separately from err.
func decodeDoc(dec ce.Decoder, doc []byte, cfg *configuration.Configuration, withRules bool) (res decodeResult) {
	rec := &ev.Recorder{}
	var rcv events.DataEventReceiver = rec
	if withRules {
		rcv = rules.NewRules(rec, cfg)
	}
	func() {
		defer func() {
			if r := recover(); r != nil {
				res.Panic = r
				res.Stack = string(debug.Stack())
			}
		}()
		res.Err = dec.DecodeDocument(doc, rcv)
	}()
	res.Log = rec.Log
	return
}

func decodeReader(dec ce.Decoder, rd io.Reader, cfg *configuration.Configuration) (res decodeResult) {
	rec := &ev.Recorder{}
	rcv := rules.NewRules(rec, cfg)
	func() {
		defer func() {
			if r := recover(); r != nil {
				res.Panic = r
				res.Stack = string(debug.Stack())
			}
		}()
		res.Err = dec.Decode(rd, rcv)
	}()
	res.Log = rec.Log
	return
}

func hexs(b []byte) string {
	if len(b) > 4096 {
		return hex.EncodeToString(b[:4096]) + "…"
	}
	return hex.EncodeToString(b)
}

func errStr(e error) string {
	if e == nil {
		return ""
	}
	return e.Error()
}

func short(s string, n int) string {
	if len(s) > n {
		return s[:n] + "…"
	}
	return s
}

// featureCounts adds a histogram of event kinds and value classes of a log to the counters.
func featureCounts(c *fw.Ctx, prefix string, log []ev.Event) {
	for _, e := range log {
		c.Inc(prefix + "ev." + e.K.String())
		switch e.K {
		case ev.ARR, ev.STRARR, ev.ABEGIN:
			form := map[ev.Kind]string{ev.ARR: "whole", ev.STRARR: "string", ev.ABEGIN: "chunked"}[e.K]
			c.Inc(fmt.Sprintf("%sarray.%v.%s", prefix, e.AT, form))
		case ev.TIME:
			c.Inc(fmt.Sprintf("%szone.type%d", prefix, e.T.Timezone.Type))
		case ev.PINT, ev.NINT:
			c.Inc(prefix + "intwidth." + widthClass(e.U))
		}
	}
}

func widthClass(u uint64) string {
	switch {
	case u <= 100:
		return "small"
	case u <= 0xff:
		return "8"
	case u <= 0xffff:
		return "16"
	case u <= 0xffffffff:
		return "32"
	case u <= 1<<48-1:
		return "48"
	}
	return "64"
}

func logDescriptor(log []ev.Event) string { return ev.LogString(log) }

// nontrivialStream: has at least one container and at least 3 value events.
func nontrivialStream(log []ev.Event) bool {
	containers, values := 0, 0
	for _, e := range log {
		switch e.K {
		case ev.LIST, ev.MAP, ev.NODE, ev.EDGE, ev.RECORD:
			containers++
		case ev.BD, ev.ED, ev.VER, ev.END, ev.PAD, ev.COM, ev.CHUNK, ev.DATA:
		default:
			values++
		}
	}
	return containers >= 1 && values >= 3
}

func containsStr(s string, subs ...string) bool {
	for _, x := range subs {
		if strings.Contains(s, x) {
			return true
		}
	}
	return false
}

func sortStrings(s []string) { sort.Strings(s) }

func sortNodes(k []*ev.Node) {
	sort.SliceStable(k, func(i, j int) bool { return k[i].String() < k[j].String() })
}

func newCBEDecoder(cfg *configuration.Configuration) ce.Decoder { return ce.NewCBEDecoder(cfg) }
func newCTEDecoder(cfg *configuration.Configuration) ce.Decoder { return ce.NewCTEDecoder(cfg) }

// newUntypedBuilder returns the library's builder event receiver for an untyped (interface{}) destination.
func newUntypedBuilder(cfg *configuration.Configuration) events.DataEventReceiver {
	return builder.NewSession(nil, cfg).NewBuilderFor(nil)
}
