package checks

import (
	"fmt"
	"hash/fnv"
	"math/rand"

	"github.com/kstenerud/go-concise-encoding/configuration"

	"verifharness/fw"
	"verifharness/gen"
)

// C28 — stream decoding does not depend on how the reader delivers bytes.

const c28Directed = 8

func c28ExhaustiveMaxLen(tier string) int { return tierN(tier, 12, 24) }
func c28BlocksPerDoc(tier string) int     { return tierN(tier, 8, 128) }

func init() {
	fw.Register(&fw.Check{
		ID:    "C28",
		Level: "exploration",
		Rule: "documents: valid CBE/CTE documents encoded from generated rules-valid streams, byte-mutants, and truncations of them. For each document the reader-based entry points (ce.UnmarshalCBE/CTE/CE and " +
			"Decode of ce.NewCBEDecoder/NewCTEDecoder/NewCEDecoder, with the validator in front; also without it for valid documents) are fed through wrapping readers and compared with the same entry point decoding " +
			"the same bytes from memory (UnmarshalFrom*Document / DecodeDocument): same error nil-ness and same rendered value / recorded event log. Reader schedules: whole, one byte per call, iotest.HalfReader-like, " +
			"random short reads, (0,nil) reads in runs of at most 3 (before every byte, first, before the last byte, at the end, random), io.EOF returned together with the last data (iotest.DataErrReader-like), and combinations. " +
			"In addition every composition of the document length into read sizes is enumerated for small documents (<= 12 bytes quick, <= 24 bytes thorough; CTE and universal entry points <= 10/12). " +
			"A failing schedule is re-run with its zero-length reads, its EOF-with-data and its splits removed in turn to attribute the failure to one feature (that feature is the signature's region). " +
			"Non-trivial = document of >= 4 bytes under a schedule that splits it, has a zero-length read or returns EOF with data; distinct = (document, schedule).",
		Assumptions: []string{"runs of (0,nil) reads are bounded by 3 (a reader that returns (0,nil) forever never ends any decoder)", "results are compared by error nil-ness and rendered value / event log, not by error text",
			"hostile documents are decoded with the validator in front and with array/document size limits of 1 MiB / 16 MiB"},
		Cases:    func(tier string) int { return tierN(tier, 6000, 60000) },
		Run:      runC28,
		MaxBatch: 300,
		MemLimit: 6 << 30,
		Floors: func(tier string) map[string]int64 {
			return map[string]int64{"documents.valid": 300, "documents.mutant": 300, "documents.truncated": 300, "compared.cbe": 5000, "compared.cte": 3000, "compared.ce": 3000,
				"schedule.one-byte": 100, "schedule.half": 100, "schedule.zero-read-before-every-byte": 100, "schedule.whole+eof-with-data": 100, "schedule.random-short": 100,
				"schedule.random-short+zero-reads": 50, "compositions_enumerated": 5000, "reader.zero_reads_delivered": 1000, "reader.eof_with_data_delivered": 1000, "reader.short_reads_delivered": 1000,
				"accepted_via_reader": 1000, "rejected_via_reader": 1000}
		},
	})
}

func c28Hash(seed int64, what string, n int) int64 {
	h := fnv.New64a()
	fmt.Fprintf(h, "%d/%s/%d", seed, what, n)
	return int64(h.Sum64())
}

// c28Attribute finds which feature of the schedule the difference depends on.
func c28Attribute(e c27Entry, doc []byte, base c27Out, s c28Schedule, cfg *configuration.Configuration) string {
	same := func(v c28Schedule) bool { return c27Same(base, c27Call(e, doc, v.Reader(doc), cfg)) }
	var feats []string
	if s.HasZero() && same(s.WithoutZero()) {
		feats = append(feats, "zero-length-read")
	}
	if s.EOFWithData && same(s.WithoutEOF()) {
		feats = append(feats, "eof-with-data")
	}
	if len(feats) == 0 && same(s.WithoutSplits()) {
		feats = append(feats, "short-read")
	}
	if len(feats) == 0 {
		// no single feature: try removing two
		if same(s.WithoutZero().WithoutEOF()) {
			return "zero-length-read+eof-with-data"
		}
		return "any-reader"
	}
	out := feats[0]
	for _, f := range feats[1:] {
		out += "|" + f
	}
	return out
}

// c28Compare runs one reader-based entry point under one schedule against the from-memory baseline.
func c28Compare(c *fw.Ctx, cfg *configuration.Configuration, e c27Entry, doc []byte, base c27Out, s c28Schedule, count bool) bool {
	rd := s.Reader(doc)
	re := e
	re.Reader = true
	got := c27Call(re, doc, rd, cfg)
	c.Eval()
	if count {
		c.Inc("compared." + e.Format)
		c.Inc("schedule." + s.Shape)
		c.Count("reader.zero_reads_delivered", int64(rd.ZeroReads))
		c.Count("reader.eof_with_data_delivered", int64(rd.EOFWithData))
		c.Count("reader.short_reads_delivered", int64(rd.ShortReads))
		c.Count("reader.calls", int64(rd.Calls))
		if got.ErrNil() {
			c.Inc("accepted_via_reader")
		} else {
			c.Inc("rejected_via_reader")
		}
		if len(doc) >= 4 && (rd.ZeroReads > 0 || rd.EOFWithData > 0 || rd.ShortReads > 0) {
			c.Distinct(string(doc) + "|" + re.Name() + "|" + s.String())
		}
	}
	if got.Panic != nil {
		c.Fail("escaped-panic:"+re.Name(), map[string]interface{}{"doc": hexs(doc), "schedule": s.String(), "panic": fmt.Sprint(got.Panic), "stack": got.Stack})
		return false
	}
	if c27Same(base, got) {
		return true
	}
	what := "value"
	if base.ErrNil() != got.ErrNil() {
		what = "error"
		if base.ErrNil() {
			what = "valid-document-rejected"
		} else {
			what = "invalid-document-accepted"
		}
	}
	c.Fail("split-dependent:"+what+":"+re.Name()+"@"+c28Attribute(re, doc, base, s, cfg), map[string]interface{}{"doc": hexs(doc), "text": short(string(doc), 200), "schedule": s.String(),
		"reader_calls": rd.Calls, "from_memory": base.Brief(), "via_reader": got.Brief()})
	return false
}

// c28Baseline decodes from memory; a panic there is another property's finding (C07/C27) and makes the case unusable here.
func c28Baseline(c *fw.Ctx, cfg *configuration.Configuration, e c27Entry, doc []byte) (c27Out, bool) {
	e.Reader = false
	base := c27Call(e, doc, nil, cfg)
	if base.Panic != nil {
		c.Inc("skipped.baseline_panicked." + e.Format)
		return base, false
	}
	return base, true
}

func c28Entries(format string, hostile bool) []c27Entry {
	var out []c27Entry
	for _, f := range []string{format, "ce"} {
		out = append(out, c27Entry{Format: f, Kind: "unmarshal"}, c27Entry{Format: f, Kind: "decode"})
		if !hostile {
			out = append(out, c27Entry{Format: f, Kind: "decode-norules"})
		}
	}
	return out
}

func c28Document(c *fw.Ctx, cfg *configuration.Configuration, r *rand.Rand, class string) (doc []byte, format string, ok bool) {
	format = []string{"cbe", "cte"}[r.Intn(2)]
	doc, ok = c27GenDoc(c, cfg, format, r)
	if !ok {
		return
	}
	switch class {
	case "mutant":
		doc = c27Mutate(r, doc)
	case "truncated":
		doc = doc[:r.Intn(len(doc))]
	}
	return
}

var c28SmallDocs = []string{"\x81\x00\x01", "\x81\x00\x7a\x01\x02\x7b", "\x81\x00\x82hi", "\x81\x00\x79\x81a\x01\x7b", "\x81\x00\x6a\x00\x01", "\x81\x00\x90\x04ab", "\x81\x00\x68\xe8\x03",
	"\x81\x01\x7d", "\x81\x00\x9a\x04\x01\x02", "\x81\x00\x65\x12\x34\x56\x78\x9a\xbc\xde\xf0\x11\x22", "c0 1", "c0\n[1 2]", "c0 \"a\"", "c0 {\"a\"=1}", "C0 true", "c0 @u8[1 2]", "c1 null"}

// c28SmallDoc: a document of at most maxLen bytes, valid, mutated or truncated.
func c28SmallDoc(c *fw.Ctx, cfg *configuration.Configuration, r *rand.Rand, maxLen int) ([]byte, string) {
	var doc []byte
	format := ""
	// keep the longest of a few generated documents that fits, so that the lengths near maxLen are populated
	for try := 0; try < 10; try++ {
		f := []string{"cbe", "cbe", "cte"}[r.Intn(3)]
		if doc != nil && format == "cte" {
			break
		}
		o := gen.StreamOpts{CustomBinary: true, Markers: true, Records: false, Media: true, Chunked: true, MaxDepth: 1 + r.Intn(2), Size: 1 + r.Intn(2+maxLen/4), MaxArrayLen: 6, Padding: f == "cbe"}
		in := gen.Stream(r, o)
		if _, rej, _ := throughRules(in, cfg); rej >= 0 {
			continue
		}
		var d []byte
		var fi int
		if f == "cbe" {
			d, fi, _ = encodeWithRules(c27NewEncoder("cbe", cfg), in, cfg)
		} else {
			d, fi, _ = encodeWithRules(c27NewEncoder("cte", cfg), in, cfg)
		}
		if fi < 0 && len(d) <= maxLen && (f == "cbe" || len(d) <= 12) && len(d) > len(doc) {
			doc, format = d, f
		}
	}
	if doc == nil {
		for {
			s := c28SmallDocs[r.Intn(len(c28SmallDocs))]
			if len(s) <= maxLen {
				doc = []byte(s)
				break
			}
		}
		format = c27Detect(doc)
	}
	switch r.Intn(4) {
	case 0:
		doc = c27Mutate(r, doc)
		if len(doc) > maxLen {
			doc = doc[:maxLen]
		}
	case 1:
		if len(doc) > 2 {
			doc = doc[:2+r.Intn(len(doc)-2)]
		}
	}
	return doc, format
}

func runC28(c *fw.Ctx, idx int) {
	cfg := c27Config()
	r := c.Rng
	if idx < c28Directed {
		// directed probes of the known reader defects: smallest documents, simplest schedules
		docs := [][]byte{{0x81, 0x00, 0x7a, 0x01, 0x02, 0x7b}, []byte("c0\n[1 2]"), {0x81, 0x00, 0x6a, 0xe8, 0x03}, {0x81, 0x00, 0x9a, 0x02, 0x41, 0x42}}
		doc := docs[idx%len(docs)]
		format := c27Detect(doc)
		for _, e := range c28Entries(format, false) {
			base, ok := c28Baseline(c, cfg, e, doc)
			if !ok {
				continue
			}
			for _, s := range c28Schedules(r, len(doc), 2) {
				c28Compare(c, cfg, e, doc, base, s, true)
			}
		}
		c.Inc("documents.directed")
		return
	}
	j := (idx - c28Directed) / 4
	switch fam := (idx - c28Directed) % 4; fam {
	case 0, 1, 2:
		class := []string{"valid", "mutant", "truncated"}[fam]
		doc, format, ok := c28Document(c, cfg, r, class)
		if !ok {
			return
		}
		c.Note("C28 %s %s doc %x", class, format, doc)
		c.Inc("documents." + class)
		randomCount := tierN(c.Tier, 4, 12)
		scheds := c28Schedules(r, len(doc), randomCount)
		for _, e := range c28Entries(format, class != "valid") {
			re := e
			re.Reader = true
			c.Region(re.Name())
			base, ok := c28Baseline(c, cfg, e, doc)
			if !ok {
				continue
			}
			failed := 0
			for _, s := range scheds {
				// CTE parsing is ~100x dearer than CBE decoding and reads everything before it parses: fewer schedules
				if (e.Format == "cte" || (e.Format == "ce" && format == "cte")) && len(doc) > 200 && s.Shape == "random-short" && r.Intn(2) == 0 {
					continue
				}
				if !c28Compare(c, cfg, e, doc, base, s, true) {
					failed++
					if failed >= 3 {
						break
					}
				}
			}
		}
		if c.WantSample() && class == "valid" && len(doc) < 40 {
			c.Sample(map[string]interface{}{"format": format, "doc": hexs(doc), "schedules": len(scheds), "example_schedule": scheds[len(scheds)-1].String()})
		}
	case 3:
		// every composition of a small document; the document is a function of (seed, group) and the case enumerates one block
		nb := c28BlocksPerDoc(c.Tier)
		group, block := j/nb, j%nb
		dr := rand.New(rand.NewSource(c28Hash(c.Seed, "C28/small/"+c.Tier, group)))
		maxLen := c28ExhaustiveMaxLen(c.Tier)
		if group%3 != 0 {
			maxLen = 4 + group%(maxLen-3) // spread lengths; every third group goes for the maximum
		}
		doc, format := c28SmallDoc(c, cfg, dr, maxLen)
		n := len(doc)
		if n == 0 {
			return
		}
		total := uint64(1) << uint(n-1)
		per := (total + uint64(nb) - 1) / uint64(nb)
		lo, hi := uint64(block)*per, uint64(block+1)*per
		if hi > total {
			hi = total
		}
		if lo >= hi {
			c.Inc("composition_blocks_empty")
			return
		}
		c.Note("C28 compositions doc %x block %d [%d,%d) of %d", doc, block, lo, hi, total)
		entries := []c27Entry{{Format: "cbe", Kind: "decode"}, {Format: "cbe", Kind: "unmarshal"}}
		if format == "cte" {
			entries = []c27Entry{{Format: "cte", Kind: "decode"}}
		}
		if n <= 12 {
			entries = append(entries, c27Entry{Format: "ce", Kind: "decode"}, c27Entry{Format: "ce", Kind: "unmarshal"})
		}
		if block == 0 {
			c.Inc(fmt.Sprintf("exhaustive_docs.len%02d", n))
			c.Inc("exhaustive_docs")
		}
		for ei, e := range entries {
			if n > 16 && ei != int(uint64(group)%2) && e.Format == "cbe" {
				continue // 17..24 bytes: one of decode / unmarshal per document
			}
			re := e
			re.Reader = true
			c.Region(re.Name() + "/compositions")
			base, ok := c28Baseline(c, cfg, e, doc)
			if !ok {
				continue
			}
			failed := 0
			for m := lo; m < hi && failed < 3; m++ {
				if (m-lo)%4096 == 4095 {
					// the supervisor's CPU budget runs between journal entries: a block of 65536 decodes is long, a single decode must not be
					c.Note("C28 compositions progress %d of [%d,%d)", m, lo, hi)
				}
				s := c28Schedule{Shape: "composition", Ops: c28Composition(n, uint32(m)), EOFWithData: false}
				if !c28Compare(c, cfg, e, doc, base, s, false) {
					failed++
				}
				c.Inc("compositions_enumerated")
			}
			c.Inc("compared." + e.Format)
		}
	}
}
