package checks

import (
	"bytes"

	"github.com/kstenerud/go-concise-encoding/ce"
	"github.com/kstenerud/go-concise-encoding/configuration"

	"verifharness/ev"
	"verifharness/fw"
	"verifharness/gen"
)

func init() {
	fw.Register(&fw.Check{
		ID:    "C23",
		Level: "exploration",
		Rule: "metamorphic: a generated rules-valid stream S with whole arrays and 8 re-chunkings S' of it (every array, string, media and custom value rewritten to begin/chunk/data events " +
			"at random element/character-aligned chunk boundaries, zero-length chunks, data events split anywhere incl. mid-element and mid-character) are fed to the CTE encoder; " +
			"oracle text(S) == text(S') byte for byte; then encode(decode(text)) == text. Non-trivial = stream contains an array of >= 2 bytes; distinct = distinct (stream, chunking).",
		Assumptions: []string{"streams come from gen.Stream (bounded depth/size)", "chunk boundaries respect the validator's rules so S' is also rules-valid; both S and S' are confirmed by the real validator"},
		Cases:       func(tier string) int { return tierN(tier, 2500, 60000) },
		Run:         runC23,
		Floors: func(string) map[string]int64 {
			return map[string]int64{"rechunkings_compared": 5000, "reencode_compared": 500, "split_mid_element": 100, "split_mid_character": 20, "zero_length_chunks": 100}
		},
	})
}

func c23HasArray(log []ev.Event) bool {
	for _, e := range log {
		if (e.K == ev.ARR && len(e.B) >= 2) || (e.K == ev.STRARR && len(e.S) >= 2) || e.K == ev.MEDIA || e.K == ev.CUSTB || e.K == ev.CUSTT {
			return true
		}
	}
	return false
}

func c23CountSplits(c *fw.Ctx, log []ev.Event) {
	var elemBytes int
	for _, e := range log {
		switch e.K {
		case ev.ABEGIN:
			elemBytes = e.AT.ElementSize() / 8
			if e.AT.ElementSize() == 8 && (e.AT.String() == "String" || e.AT.String() == "ResourceID" || e.AT.String() == "RemoteReference") {
				elemBytes = -1
			}
		case ev.CBEGIN:
			elemBytes = 1
			if e.AT.String() == "Custom Text" {
				elemBytes = -1
			}
		case ev.MBEGIN:
			elemBytes = 1
		case ev.CHUNK:
			if e.U == 0 {
				c.Inc("zero_length_chunks")
			}
		case ev.DATA:
			if elemBytes > 1 && len(e.B)%elemBytes != 0 {
				c.Inc("split_mid_element")
			}
			if elemBytes == -1 && len(e.B) > 0 && (e.B[len(e.B)-1]&0x80 != 0) {
				// ends inside or at the end of a multi-byte character; count the ones ending inside
				i := len(e.B) - 1
				for i > 0 && e.B[i]&0xc0 == 0x80 {
					i--
				}
				need := 1
				switch {
				case e.B[i]&0xf8 == 0xf0:
					need = 4
				case e.B[i]&0xf0 == 0xe0:
					need = 3
				case e.B[i]&0xe0 == 0xc0:
					need = 2
				}
				if len(e.B)-i < need {
					c.Inc("split_mid_character")
				}
			}
		}
	}
}

func runC23(c *fw.Ctx, idx int) {
	cfg := configuration.New()
	o := cteStreamOpts(c)
	o.Chunked = false
	if c.Rng.Intn(3) == 0 {
		o.MaxArrayLen = 200
	}
	s := gen.Stream(c.Rng, o)
	c.Note("stream %s", ev.LogString(s))
	a, rej, _ := throughRules(s, cfg)
	if rej >= 0 {
		c.Inc("generated_stream_rejected_by_rules")
		return
	}
	base, fi, p := encodeEvents(ce.NewCTEEncoder(cfg), a)
	if fi >= 0 {
		c.Inc("base_encode_failed_skipped")
		_ = p
		return
	}
	c.Eval()
	for k := 0; k < 8; k++ {
		s2 := gen.Rechunk(c.Rng, a, k%2 == 0)
		// S' must itself be rules-valid (the property quantifies over rules-valid streams)
		if _, rej2, why := throughRules(s2, cfg); rej2 >= 0 {
			c.Fail("rechunked-stream-rejected-by-rules", map[string]interface{}{"stream": ev.LogStrings(s2), "event": rej2, "why": ev.PanicString(why)})
			continue
		}
		t2, fi2, p2 := encodeEvents(ce.NewCTEEncoder(cfg), s2)
		if fi2 >= 0 {
			c.Fail("encode-panic-on-rechunked", map[string]interface{}{"stream": ev.LogStrings(s2), "event": fi2, "panic": ev.PanicString(p2)})
			continue
		}
		c.Inc("rechunkings_compared")
		c23CountSplits(c, s2)
		if c23HasArray(a) {
			c.Distinct(ev.LogString(s2))
		}
		if !bytes.Equal(base, t2) {
			c.Fail("text-depends-on-chunking", map[string]interface{}{"whole": ev.LogStrings(a), "rechunked": ev.LogStrings(s2), "text_whole": string(base), "text_rechunked": string(t2)})
			continue
		}
	}
	// re-encode
	again, err, pp, st := convert(ce.NewCTEDecoder(cfg), base, ce.NewCTEEncoder(cfg), cfg)
	if err != nil || pp != nil {
		c.Fail("reencode-failed", map[string]interface{}{"text": string(base), "err": errStr(err), "panic": ev.PanicString(pp), "stack": st})
		return
	}
	c.Inc("reencode_compared")
	if !bytes.Equal(base, again) {
		c.Fail("reencode-differs", map[string]interface{}{"stream": ev.LogStrings(a), "text": string(base), "again": string(again)})
		return
	}
	if c.WantSample() && c23HasArray(a) {
		c.Sample(map[string]interface{}{"stream": ev.LogStrings(a), "text": string(base)})
	}
}
