package checks

import (
	"github.com/kstenerud/go-concise-encoding/ce"
	"github.com/kstenerud/go-concise-encoding/configuration"

	"verifharness/ev"
	"verifharness/fw"
	"verifharness/gen"
)

func cteStreamOpts(c *fw.Ctx) gen.StreamOpts {
	o := gen.StreamOpts{Comments: true, Padding: true, CustomBinary: true, CustomText: true, RemoteRef: true, Markers: true, Records: true,
		Media: true, Chunked: true, MaxDepth: 2 + c.Rng.Intn(6), Size: 5 + c.Rng.Intn(50), MaxArrayLen: 40, MaxComments: 5}
	if c.Tier == "thorough" && c.Rng.Intn(20) == 0 {
		o.MaxArrayLen = 2000
		o.Size = 150
	}
	if c.Rng.Intn(4) == 0 {
		o.MaxDepth = 1
		o.Size = 3
	}
	return o
}

func init() {
	fw.Register(&fw.Check{
		ID:    "C02",
		Level: "exploration",
		Rule: "case = PRNG-generated event stream (valid by construction, confirmed by the real rules validator; strings/resource IDs/custom text from a Unicode torture table; " +
			"comments at every position the grammar allows, <=5 per stream), encoded by the CTE encoder and decoded by the CTE decoder+rules into a recorder; oracle = equality of the " +
			"canonical data views modulo padding, comments compared with text and kind. Non-trivial = >=1 container and >=3 value events; distinct = distinct rendered event logs.",
		Assumptions: []string{"the harness's canonical view (ev.Canon) defines 'same data'", "comment texts avoid '*/' and '/*' (also the ones a leading or trailing '*' or '/' would form with the encoder's delimiters) and line breaks / a trailing CR in line comments: the validator does not constrain comment contents, and CTE has no spelling for these",
			"generator bounds: depth<=8, <=200 values, integers <=4096 bits, arrays <=2000 elements"},
		Cases: func(tier string) int { return tierN(tier, 3000, 80000) },
		Run:   runC02,
		Floors: func(string) map[string]int64 {
			return map[string]int64{"compared": 500, "in.ev.com": 1, "in.ev.custt": 1, "in.ev.time": 1, "in.ev.abegin": 1, "in.ev.mark": 1, "in.ev.record": 1,
				"in.ev.edge": 1, "in.ev.node": 1, "in.ev.media": 1, "in.zone.type4": 1}
		},
	})
}

func runC02(c *fw.Ctx, idx int) {
	cfg := configuration.New()
	o := cteStreamOpts(c)
	o.WideCustomTypes = true // CTE carries 64-bit custom type codes (only the CBE decoder stops at 32 bits)
	in := gen.Stream(c.Rng, o)
	c.Note("stream %s", ev.LogString(in))
	a, rej, why := throughRules(in, cfg)
	if rej >= 0 {
		c.Inc("generated_stream_rejected_by_rules")
		c.Count("rejected_reason."+short(ev.PanicString(why), 40), 1)
		return
	}
	c.Eval()
	var doc []byte
	var fi int
	var p interface{}
	if c.Rng.Intn(2) == 0 {
		doc, fi, p = encodeWithRules(ce.NewCTEEncoder(cfg), in, cfg)
	} else {
		doc, fi, p = encodeEvents(ce.NewCTEEncoder(cfg), a)
	}
	if fi >= 0 {
		c.Fail("encode-panic:"+classifyEncodePanic(ev.PanicString(p)), map[string]interface{}{"stream": ev.LogStrings(in), "event": fi, "at": a[min(fi, len(a)-1)].String(), "panic": ev.PanicString(p)})
		return
	}
	c.Note("cte %q", string(doc))
	res := decodeDoc(ce.NewCTEDecoder(cfg), doc, cfg, true)
	if res.Panic != nil {
		c.Fail("decode-escaped-panic", map[string]interface{}{"stream": ev.LogStrings(in), "cte": string(doc), "panic": ev.PanicString(res.Panic), "stack": res.Stack})
		return
	}
	if res.Err != nil {
		c.Fail("decode-reject", map[string]interface{}{"stream": ev.LogStrings(in), "cte": string(doc), "err": res.Err.Error()})
		return
	}
	ca, err := ev.Canon(a, ev.Opts{DropPadding: true, FloatArrayNaNKindOnly: true})
	if err != nil {
		c.Fail("harness-canon-input", map[string]interface{}{"stream": ev.LogStrings(a), "err": err.Error()})
		return
	}
	cb, err := ev.Canon(res.Log, ev.Opts{DropPadding: true, FloatArrayNaNKindOnly: true})
	if err != nil {
		c.Fail("decoded-log-malformed", map[string]interface{}{"stream": ev.LogStrings(in), "decoded": ev.LogStrings(res.Log), "err": err.Error()})
		return
	}
	c.Count("compared", 1)
	c.Count("events_compared", int64(len(res.Log)))
	featureCounts(c, "in.", a)
	if nontrivialStream(a) {
		c.Distinct(ev.LogString(a))
	}
	if path, desc := ev.Diff(ca, cb); path != "" {
		sig := mismatchSig(ca, cb, path, desc)
		x, y := ev.FindFirstDiffNodes(ca, cb)
		if s := numMismatchSig(a, x, y); s != "" {
			sig = s
		}
		c.Fail(sig, map[string]interface{}{"stream": ev.LogStrings(in), "cte": string(doc), "decoded": ev.LogStrings(res.Log), "path": path, "diff": desc})
		return
	}
	if c.WantSample() && nontrivialStream(a) {
		c.Sample(map[string]interface{}{"stream": ev.LogStrings(a), "cte": string(doc)})
	}
}

func classifyEncodePanic(s string) string {
	if len(s) > 30 {
		s = s[:30]
	}
	return s
}
