package checks

import (
	"encoding/hex"
	"fmt"
	"math/big"
	"math/rand"

	compact_time "github.com/kstenerud/go-compact-time"
	"github.com/kstenerud/go-concise-encoding/ce/events"

	"verifharness/ev"
)

// Reference model "Keys" for property C12, written from the property text:
//
//   No map or record type accepted by the validator contains two keys denoting the same value,
//   regardless of how each key was encoded (small or wide integer form, negative-integer form,
//   big integer, whole or chunked string). Keys that denote different values are never reported
//   as duplicates.
//
// Normal form of a key = (class, exact value). The workload never puts a pair the text leaves
// open (-0 with 0, a string and a resource ID with equal text, times in different zones) into one map.

type c12Key struct {
	Class   byte // 'i' integer, 's' string, 'r' resource ID, 'u' UID, 'b' boolean, 't' time
	Int     *big.Int
	NegZero bool // the integer -0 (only expressible in negative-integer forms)
	Text    string
	UID     []byte
	Bool    bool
	Time    compact_time.Time
}

// NF is the normal form: two keys denote the same value iff their normal forms are equal.
func (k c12Key) NF() string {
	switch k.Class {
	case 'i':
		if k.NegZero {
			return "i:-0"
		}
		return "i:" + k.Int.String()
	case 's':
		return "s:" + k.Text
	case 'r':
		return "r:" + k.Text
	case 'u':
		return "u:" + hex.EncodeToString(k.UID)
	case 'b':
		return fmt.Sprintf("b:%v", k.Bool)
	case 't':
		t := k.Time
		switch t.Type {
		case compact_time.TimeTypeDate:
			return fmt.Sprintf("t:date %d-%d-%d", t.Year, t.Month, t.Day)
		case compact_time.TimeTypeTime:
			return fmt.Sprintf("t:time %d:%d:%d.%d %s", t.Hour, t.Minute, t.Second, t.Nanosecond, c12ZoneNF(t.Timezone))
		default:
			return fmt.Sprintf("t:ts %d-%d-%d %d:%d:%d.%d %s", t.Year, t.Month, t.Day, t.Hour, t.Minute, t.Second, t.Nanosecond, c12ZoneNF(t.Timezone))
		}
	}
	panic("c12: unknown key class")
}

func c12ZoneNF(z compact_time.Timezone) string {
	return fmt.Sprintf("z%d[%s|%s|%d|%d|%d]", z.Type, z.ShortAreaLocation, z.LongAreaLocation, z.LatitudeHundredths, z.LongitudeHundredths, z.MinutesOffsetFromUTC)
}

func (k c12Key) String() string {
	if k.Class == 's' || k.Class == 'r' {
		return fmt.Sprintf("%c:%q", k.Class, k.Text)
	}
	return k.NF()
}

// c12DontCarePair: the property text does not say whether a and b denote the same value.
func c12DontCarePair(a, b c12Key) bool {
	if a.Class == 'i' && b.Class == 'i' {
		za := a.NegZero || a.Int.Sign() == 0
		zb := b.NegZero || b.Int.Sign() == 0
		return za && zb && a.NegZero != b.NegZero
	}
	if (a.Class == 's' && b.Class == 'r') || (a.Class == 'r' && b.Class == 's') {
		return a.Text == b.Text
	}
	if a.Class == 't' && b.Class == 't' && a.Time.Type != compact_time.TimeTypeDate && b.Time.Type != compact_time.TimeTypeDate {
		return c12ZoneNF(a.Time.Timezone) != c12ZoneNF(b.Time.Timezone)
	}
	return false
}

// c12FirstDuplicate returns the index of the first key equal to an earlier one, or -1.
func c12FirstDuplicate(keys []c12Key) int {
	seen := map[string]bool{}
	for i, k := range keys {
		nf := k.NF()
		if seen[nf] {
			return i
		}
		seen[nf] = true
	}
	return -1
}

// ---------------------------------------------------------------------------
// Encodings of one key

// c12Form is one way of delivering a key to the validator.
type c12Form struct {
	Name    string
	Events  []ev.Event // event form (driven straight into rules)
	CBE     []byte     // wire form (driven through cbe.Decoder into rules)
	NEvents int        // number of events the decoder emits for CBE
	Reach   string     // the event form in which the key reaches the validator (pint, nint, int, bint, whole, chunked, ...)
}

func c12ULEB(v uint64) []byte {
	var out []byte
	for {
		b := byte(v & 0x7f)
		v >>= 7
		if v != 0 {
			out = append(out, b|0x80)
		} else {
			return append(out, b)
		}
	}
}

func c12LE(mag *big.Int, n int) []byte {
	be := mag.Bytes()
	out := make([]byte, n)
	for i := 0; i < len(be) && i < n; i++ {
		out[i] = be[len(be)-1-i]
	}
	return out
}

// c12IntEventForms: every event form that can express the integer.
func c12IntEventForms(k c12Key) []c12Form {
	var out []c12Form
	if k.NegZero {
		return []c12Form{{Name: "nint", Reach: "nint", Events: []ev.Event{{K: ev.NINT, U: 0}}}}
	}
	v := k.Int
	out = append(out, c12Form{Name: "bint", Reach: "bint", Events: []ev.Event{{K: ev.BINT, BI: new(big.Int).Set(v)}}})
	if v.IsInt64() {
		out = append(out, c12Form{Name: "int", Reach: "int", Events: []ev.Event{{K: ev.INT, I: v.Int64()}}})
	}
	if v.Sign() >= 0 && v.IsUint64() {
		out = append(out, c12Form{Name: "pint", Reach: "pint", Events: []ev.Event{{K: ev.PINT, U: v.Uint64()}}})
	}
	if v.Sign() < 0 {
		mag := new(big.Int).Neg(v)
		if mag.IsUint64() {
			out = append(out, c12Form{Name: "nint", Reach: "nint", Events: []ev.Event{{K: ev.NINT, U: mag.Uint64()}}})
		}
	}
	return out
}

// c12IntCBEForms: every legal CBE wire form of the integer: small int, every fixed width that holds the
// magnitude (including wider than needed), and the length-prefixed form with the minimal and with
// zero-padded lengths (lengths above 8 bytes reach the validator as big integers).
func c12IntCBEForms(k c12Key) []c12Form {
	var out []c12Form
	neg := k.NegZero
	mag := new(big.Int)
	if !k.NegZero {
		neg = k.Int.Sign() < 0
		mag.Abs(k.Int)
	}
	if !k.NegZero && mag.IsInt64() && mag.Int64() <= 100 {
		v := mag.Int64()
		if neg {
			v = -v
		}
		out = append(out, c12Form{Name: "cbe-small", Reach: "int", CBE: []byte{byte(int8(v))}, NEvents: 1})
	}
	for i, w := range []int{1, 2, 4, 8} {
		if mag.BitLen() <= w*8 {
			code := byte(0x68 + 2*i)
			if neg {
				code++
			}
			reach := "pint"
			if neg {
				reach = "nint"
			}
			out = append(out, c12Form{Name: fmt.Sprintf("cbe-fixed%d", w*8), Reach: reach, CBE: append([]byte{code}, c12LE(mag, w)...), NEvents: 1})
		}
	}
	minLen := (mag.BitLen() + 7) / 8
	if minLen == 0 {
		minLen = 1
	}
	code := byte(0x66)
	if neg {
		code = 0x67
	}
	for _, n := range []int{minLen, minLen + 1, 8, 9, 12, 17} {
		if n < minLen {
			continue
		}
		if k.NegZero && n > 8 {
			continue // a big-integer -0 does not exist: it would be read as 0
		}
		b := append([]byte{code}, c12ULEB(uint64(n))...)
		b = append(b, c12LE(mag, n)...)
		reach := "pint"
		if neg {
			reach = "nint"
		}
		if n > 8 {
			reach = "bint"
		}
		out = append(out, c12Form{Name: fmt.Sprintf("cbe-var%d(min%d)", n, minLen), Reach: reach, CBE: b, NEvents: 1})
	}
	// drop duplicates (e.g. minLen == 8 listed twice)
	seen := map[string]bool{}
	var uniq []c12Form
	for _, f := range out {
		if !seen[string(f.CBE)] {
			seen[string(f.CBE)] = true
			uniq = append(uniq, f)
		}
	}
	return uniq
}

// c12CharCuts returns the offsets (0 < o < len) at which s may be cut between characters.
func c12CharCuts(s string) []int {
	var cuts []int
	for i := range s {
		if i > 0 {
			cuts = append(cuts, i)
		}
	}
	return cuts
}

func c12PickCuts(r *rand.Rand, cand []int, max int) []int {
	var out []int
	for _, c := range cand {
		if len(out) < max && r.Intn(3) == 0 {
			out = append(out, c)
		}
	}
	return out
}

// c12TextEventForms: whole (string and byte forms) and chunked with random chunk and data-event boundaries.
func c12TextEventForms(k c12Key, r *rand.Rand) []c12Form {
	at := events.ArrayTypeString
	if k.Class == 'r' {
		at = events.ArrayTypeResourceID
	}
	out := []c12Form{
		{Name: "strarr", Reach: "whole", Events: []ev.Event{{K: ev.STRARR, AT: at, S: k.Text}}},
		{Name: "arr", Reach: "whole", Events: []ev.Event{{K: ev.ARR, AT: at, U: uint64(len(k.Text)), B: []byte(k.Text)}}},
	}
	for variant := 0; variant < 2; variant++ {
		evs := []ev.Event{{K: ev.ABEGIN, AT: at}}
		cuts := c12PickCuts(r, c12CharCuts(k.Text), 4)
		if variant == 0 {
			cuts = nil
		}
		start := 0
		bounds := append(append([]int{}, cuts...), len(k.Text))
		for ci, end := range bounds {
			last := ci == len(bounds)-1
			more := !last
			if last && r.Intn(4) == 0 {
				more = true // finish with an empty final chunk
			}
			evs = append(evs, ev.Event{K: ev.CHUNK, U: uint64(end - start), Flag: more})
			// data events: anywhere, including inside a character
			pos := start
			for pos < end {
				n := end - pos
				if variant == 1 && n > 1 && r.Intn(2) == 0 {
					n = 1 + r.Intn(n-1)
				}
				evs = append(evs, ev.Event{K: ev.DATA, B: []byte(k.Text[pos : pos+n])})
				pos += n
			}
			if last && more {
				evs = append(evs, ev.Event{K: ev.CHUNK, U: 0, Flag: false})
			}
			start = end
		}
		name := "chunked-1"
		if variant == 1 {
			name = "chunked-n"
		}
		out = append(out, c12Form{Name: name, Reach: "chunked", Events: evs})
	}
	return out
}

// c12TextCBEForms: short form (strings up to 15 bytes) and the chunked form with one and with several chunks.
func c12TextCBEForms(k c12Key, r *rand.Rand) []c12Form {
	var out []c12Form
	n := len(k.Text)
	if k.Class == 's' && n <= 15 {
		out = append(out, c12Form{Name: "cbe-short", Reach: "whole", CBE: append([]byte{byte(0x80 + n)}, k.Text...), NEvents: 1})
	}
	code := byte(0x90)
	if k.Class == 'r' {
		code = 0x91
	}
	for variant := 0; variant < 2; variant++ {
		cuts := c12PickCuts(r, c12CharCuts(k.Text), 4)
		if variant == 0 {
			cuts = nil
		}
		b := []byte{code}
		ne := 1
		start := 0
		bounds := append(append([]int{}, cuts...), n)
		for ci, end := range bounds {
			last := ci == len(bounds)-1
			more := uint64(1)
			emptyFinal := last && variant == 1 && r.Intn(4) == 0
			if last && !emptyFinal {
				more = 0
			}
			b = append(b, c12ULEB(uint64(end-start)<<1|more)...)
			b = append(b, k.Text[start:end]...)
			ne++
			if end > start {
				ne++
			}
			if emptyFinal {
				b = append(b, 0)
				ne++
			}
			start = end
		}
		name := "cbe-chunked-1"
		if variant == 1 {
			name = "cbe-chunked-n"
		}
		out = append(out, c12Form{Name: name, Reach: "chunked", CBE: b, NEvents: ne})
	}
	return out
}

func c12Forms(k c12Key, cbe bool, r *rand.Rand) []c12Form {
	switch k.Class {
	case 'i':
		if cbe {
			return c12IntCBEForms(k)
		}
		return c12IntEventForms(k)
	case 's', 'r':
		if cbe {
			return c12TextCBEForms(k, r)
		}
		return c12TextEventForms(k, r)
	case 'u':
		if cbe {
			return []c12Form{{Name: "cbe-uid", CBE: append([]byte{0x65}, k.UID...), NEvents: 1}}
		}
		return []c12Form{{Name: "uid", Events: []ev.Event{{K: ev.UID, B: k.UID}}}}
	case 'b':
		if cbe {
			code := byte(0x78)
			if k.Bool {
				code = 0x79
			}
			return []c12Form{{Name: "cbe-bool", CBE: []byte{code}, NEvents: 1}}
		}
		named := ev.Event{K: ev.FALSE}
		if k.Bool {
			named = ev.Event{K: ev.TRUE}
		}
		return []c12Form{{Name: "true/false", Events: []ev.Event{named}}, {Name: "boolean", Events: []ev.Event{{K: ev.BOOL, Flag: k.Bool}}}}
	case 't':
		if cbe {
			t := k.Time
			buf := make([]byte, t.EncodedSize()+8)
			n := t.EncodeToBytes(buf)
			code := byte(0x7a + int(t.Type))
			return []c12Form{{Name: "cbe-time", CBE: append([]byte{code}, buf[:n]...), NEvents: 1}}
		}
		return []c12Form{{Name: "time", Events: []ev.Event{{K: ev.TIME, T: k.Time}}}}
	}
	panic("c12: unknown key class")
}
