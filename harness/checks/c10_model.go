package checks

// Reference acceptor for properties C10 (structure) and C13 part A (markers / references).
//
// It is written from the property texts, not from the validator's code:
//
//   C10: "... a well-formed document: begin, version 0, optional record types only before the single
//         top-level object, then end; containers properly nested and closed; map entries alternate a
//         keyable key with a value; edges have exactly three parts with a non-null source and
//         destination; nodes have a value; records supply exactly as many values as their type declares,
//         and no record type is defined twice. Every other sequence is rejected at the first event that
//         makes it invalid."
//   C13: "... each local reference names a marker that appears somewhere in the document (earlier or
//         later), no marker identifier is defined twice, a reference used as a map key points to a
//         keyable object, markers are not placed on markers, references or record types, and
//         identifiers are non-empty, within the configured length and made of valid characters."
//   C12 (used only for literal keys of one fixed event form): no map or record type contains two keys
//         denoting the same value.
//
// The model works on abstract letters. For every letter it answers accept / reject / may-reject /
// don't-care:
//   * may-reject is a point of a *rejection window*: the texts do not say whether e.g. a duplicate marker
//     is invalid at its marker event or when the marked object is complete, so the validator may reject
//     at any point of the window and must reject at its last point (which is a plain reject).
//   * don't-care is returned where the texts are silent (DESIGN.md appendix A). With Follow set the
//     letter is a no-op / well-defined continuation if the validator happens to accept it; otherwise the
//     exploration of this prefix stops.

type c10Kind uint8

const (
	c10BD c10Kind = iota
	c10V          // ID = version number
	c10ED
	c10PAD
	c10COM
	c10NULL
	c10KEY    // keyable scalar; ID = value class (distinct classes denote distinct values)
	c10NONKEY // non-keyable scalar (float, nan)
	c10ARR    // non-keyable array-like scalar (typed array, media, custom); ID=1: remote reference
	c10LIST
	c10MAP
	c10NODE
	c10EDGE
	c10END
	c10RT   // ID = record type index
	c10REC  // ID = record type index
	c10MARK // ID = marker index
	c10REF  // ID = marker index
	c10NumKinds
)

var c10KindNames = [...]string{"BD", "V", "ED", "PAD", "COM", "NULL", "KEY", "NONKEY", "ARR", "LIST", "MAP", "NODE", "EDGE", "END", "RT", "REC", "MARK", "REF"}

// identifier defects (C13)
const (
	c10IDOK       = 0
	c10IDEmpty    = 1
	c10IDTooLong  = 2 // longer than the configured maximum both in bytes and in characters
	c10IDBadChar  = 3
	c10IDLenVague = 4 // byte length above the maximum, character count within it: the text does not say which counts
)

type c10Letter struct {
	K   c10Kind
	ID  uint8
	Bad uint8
}

type c10Clause uint8

const (
	clNone c10Clause = iota
	clNotBegun
	clVersion
	clAfterEnd
	clBeginAgain
	clVersionAgain
	clDocIncomplete
	clSecondTopLevel
	clRecTypeNotBeforeTop
	clEndWithoutContainer
	clMapKeyNotKeyable
	clMapKeyWithoutValue
	clDupKey
	clEdgeNullEndpoint
	clEdgeNotThree
	clEdgeMoreThanThree
	clNodeWithoutValue
	clRecordUndeclared
	clRecordTooFew
	clRecordTooMany
	clRecTypeDup
	clMarkerOnMarker
	clMarkerOnReference
	clMarkerOnRecType
	clMarkerWithoutObject
	clMarkerDup
	clRefUnresolved
	clKeyRefNotKeyable
	clIDEmpty
	clIDTooLong
	clIDBadChar
	// don't-care reasons
	dcPadBeforeVersion
	dcAfterTopPseudo
	dcPseudoAfterMarker
	dcRefAtTop
	dcRecTypeContent
	dcRemoteRefMarked
	dcRefKeySameValue
	dcEdgeRefToNull
	dcIDLenVague
	clNum
)

var c10ClauseNames = [...]string{"", "not-begun", "version-not-0", "after-end-document", "begin-again", "version-again",
	"document-incomplete", "second-top-level-object", "record-type-not-before-top-level", "end-without-container",
	"map-key-not-keyable", "map-key-without-value", "duplicate-key", "edge-null-endpoint", "edge-fewer-than-three",
	"edge-more-than-three", "node-without-value", "record-type-undeclared", "record-too-few-values", "record-too-many-values",
	"record-type-defined-twice", "marker-on-marker", "marker-on-reference", "marker-on-record-type", "marker-without-object",
	"marker-defined-twice", "reference-unresolved", "key-reference-not-keyable", "identifier-empty", "identifier-too-long",
	"identifier-bad-character",
	"pseudo-before-version", "pseudo-after-top-level", "pseudo-after-marker", "reference-at-top-level", "record-type-content",
	"remote-reference-marked", "reference-key-same-value", "edge-endpoint-reference-to-null", "identifier-length-bytes-vs-chars"}

const (
	vAccept uint8 = iota
	vReject
	vMay // rejection window point that is not the last one
	vDontCare
)

var c10VerdictNames = [...]string{"accept", "reject", "may-reject", "dont-care"}

type c10Verdict struct {
	V      uint8
	Follow bool // for vDontCare: the model state is valid if the validator accepted the letter
	Clause c10Clause
}

// frame kinds
const (
	fList uint8 = iota
	fMap
	fNode
	fEdge
	fRecType
	fRecord
	fMarker
)

// slots (the position the next object would occupy)
const (
	sStart uint8 = iota
	sVersion
	sTop
	sAfterTop
	sEnded
	sList
	sMapKey
	sMapVal
	sRecType
	sRecord
	sRecordFull
	sEdgeSrc
	sEdgeDesc
	sEdgeDst
	sEdgeFull
	sNodeVal
	sNodeChild
	sNumSlots
)

var c10SlotNames = [...]string{"start", "afterBD", "top", "afterTop", "ended", "list", "mapKey", "mapVal", "rectype", "record",
	"recordFull", "edgeSrc", "edgeDesc", "edgeDst", "edgeFull", "nodeVal", "nodeChild"}

// marked-object types
const (
	tUnknown uint8 = iota
	tNull
	tKey
	tNonKey
	tContainer
	tRef
)

type c10Frame struct {
	Kind     uint8
	ID       uint8
	Dup      bool // marker / record type: a second definition of an identifier
	Doom     bool // marker: its completion is the last point of a key-reference window
	Count    int32
	Expected int32
	LitKeys  uint32
	RefKeys  uint32
}

type c10Marker struct {
	State uint8 // 0 undefined, 1 object in progress, 2 complete
	Type  uint8
	Class uint8
}

type c10RefMap struct{ Lit, Refs uint32 }

const (
	pStart uint8 = iota
	pVersion
	pTop
	pAfterTop
	pEnded
)

const c10MaxIDs = 32

type c10Model struct {
	phase       uint8
	frames      []c10Frame
	markers     [c10MaxIDs]c10Marker
	dupIDs      uint32 // marker ids with more than one definition (document is doomed)
	refd        uint32
	refdKey     uint32
	refdNonNull uint32
	recTypes    [c10MaxIDs]int32 // -1 = undefined
	closedMaps  []c10RefMap      // closed maps that had references as keys
}

func newC10Model() *c10Model {
	m := &c10Model{}
	for i := range m.recTypes {
		m.recTypes[i] = -1
	}
	return m
}

func (m *c10Model) cloneInto(d *c10Model) {
	fr, cm := d.frames[:0], d.closedMaps[:0]
	*d = *m
	d.frames = append(fr, m.frames...)
	d.closedMaps = append(cm, m.closedMaps...)
}

func (m *c10Model) clone() *c10Model {
	d := &c10Model{}
	m.cloneInto(d)
	return d
}

// slot returns the current slot and the index of the frame that owns it (-1: document level).
func (m *c10Model) slot() (uint8, int) {
	i := len(m.frames) - 1
	if i >= 0 && m.frames[i].Kind == fMarker {
		i--
	}
	if i < 0 {
		switch m.phase {
		case pStart:
			return sStart, -1
		case pVersion:
			return sVersion, -1
		case pTop:
			return sTop, -1
		case pAfterTop:
			return sAfterTop, -1
		}
		return sEnded, -1
	}
	f := &m.frames[i]
	switch f.Kind {
	case fList:
		return sList, i
	case fMap:
		if f.Count%2 == 0 {
			return sMapKey, i
		}
		return sMapVal, i
	case fRecType:
		return sRecType, i
	case fRecord:
		if f.Count >= f.Expected {
			return sRecordFull, i
		}
		return sRecord, i
	case fEdge:
		switch f.Count {
		case 0:
			return sEdgeSrc, i
		case 1:
			return sEdgeDesc, i
		case 2:
			return sEdgeDst, i
		}
		return sEdgeFull, i
	case fNode:
		if f.Count == 0 {
			return sNodeVal, i
		}
		return sNodeChild, i
	}
	panic("c10 model: bad frame")
}

func (m *c10Model) marked() bool {
	n := len(m.frames)
	return n > 0 && m.frames[n-1].Kind == fMarker
}

func rej(c c10Clause) c10Verdict { return c10Verdict{V: vReject, Clause: c} }
func dc(c c10Clause, follow bool) c10Verdict {
	return c10Verdict{V: vDontCare, Clause: c, Follow: follow}
}

// worse combines two verdicts about the same letter: reject > don't-care > may-reject > accept.
func worse(a, b c10Verdict) c10Verdict {
	rank := func(v uint8) int {
		switch v {
		case vReject:
			return 3
		case vDontCare:
			return 2
		case vMay:
			return 1
		}
		return 0
	}
	if rank(b.V) > rank(a.V) {
		return b
	}
	return a
}

// Step gives the verdict for the next letter and, unless the verdict is reject (or a don't-care that
// cannot be followed), advances the model as if the letter had been accepted.
func (m *c10Model) Step(l c10Letter) c10Verdict {
	s, pi := m.slot()
	// document-level framing
	switch s {
	case sStart:
		if l.K == c10BD {
			m.phase = pVersion
			return c10Verdict{}
		}
		return rej(clNotBegun)
	case sVersion:
		if l.K == c10V {
			if l.ID == 0 {
				m.phase = pTop
				return c10Verdict{}
			}
			return rej(clVersion)
		}
		if l.K == c10PAD || l.K == c10COM {
			return dc(dcPadBeforeVersion, false)
		}
		return rej(clVersion)
	case sEnded:
		return rej(clAfterEnd)
	}
	switch l.K {
	case c10BD:
		return rej(clBeginAgain)
	case c10V:
		return rej(clVersionAgain)
	case c10ED:
		if s != sAfterTop {
			return rej(clDocIncomplete)
		}
		if m.unresolved() != 0 {
			return rej(clRefUnresolved)
		}
		m.phase = pEnded
		return c10Verdict{}
	case c10PAD, c10COM:
		if m.marked() {
			return dc(dcPseudoAfterMarker, true)
		}
		if s == sAfterTop {
			return dc(dcAfterTopPseudo, true)
		}
		return c10Verdict{}
	case c10END:
		return m.end()
	case c10RT:
		if m.marked() {
			return rej(clMarkerOnRecType)
		}
		if s == sRecType {
			return dc(dcRecTypeContent, false)
		}
		if s != sTop {
			return rej(clRecTypeNotBeforeTop)
		}
		if l.Bad != c10IDOK {
			// identifiers of record types are outside C13's wording: never demanded
			return dc(dcIDLenVague, false)
		}
		f := c10Frame{Kind: fRecType, ID: l.ID}
		v := c10Verdict{}
		if m.recTypes[l.ID] >= 0 {
			f.Dup = true
			v = c10Verdict{V: vMay, Clause: clRecTypeDup}
		}
		m.frames = append(m.frames, f)
		return v
	case c10MARK:
		return m.mark(l, s)
	}
	// object letters
	return m.object(l, s, pi)
}

func idVerdict(bad uint8) (c10Verdict, bool) {
	switch bad {
	case c10IDEmpty:
		return rej(clIDEmpty), true
	case c10IDTooLong:
		return rej(clIDTooLong), true
	case c10IDBadChar:
		return rej(clIDBadChar), true
	case c10IDLenVague:
		return dc(dcIDLenVague, false), true
	}
	return c10Verdict{}, false
}

func (m *c10Model) unresolved() uint32 {
	var defined uint32
	for i := range m.markers {
		if m.markers[i].State != 0 {
			defined |= 1 << uint(i)
		}
	}
	return m.refd &^ defined
}

// slotAdmits says whether an object (or a marker introducing one) may start in slot s at all.
func slotAdmits(s uint8) c10Verdict {
	switch s {
	case sAfterTop:
		return rej(clSecondTopLevel)
	case sRecordFull:
		return rej(clRecordTooMany)
	case sEdgeFull:
		return rej(clEdgeMoreThanThree)
	}
	return c10Verdict{}
}

func (m *c10Model) mark(l c10Letter, s uint8) c10Verdict {
	if m.marked() {
		return rej(clMarkerOnMarker)
	}
	if v := slotAdmits(s); v.V == vReject {
		return v
	}
	if v, bad := idVerdict(l.Bad); bad {
		return v
	}
	if s == sRecType {
		return dc(dcRecTypeContent, false)
	}
	f := c10Frame{Kind: fMarker, ID: l.ID}
	v := c10Verdict{}
	mk := &m.markers[l.ID]
	if mk.State != 0 {
		f.Dup = true
		m.dupIDs |= 1 << l.ID
		v = c10Verdict{V: vMay, Clause: clMarkerDup}
	} else {
		mk.State = 1
		mk.Type = tUnknown
	}
	m.frames = append(m.frames, f)
	return v
}

func (m *c10Model) end() c10Verdict {
	n := len(m.frames)
	if n == 0 {
		return rej(clEndWithoutContainer)
	}
	f := m.frames[n-1]
	v := c10Verdict{}
	switch f.Kind {
	case fMarker:
		return rej(clMarkerWithoutObject)
	case fMap:
		if f.Count%2 != 0 {
			return rej(clMapKeyWithoutValue)
		}
	case fNode:
		if f.Count == 0 {
			return rej(clNodeWithoutValue)
		}
	case fEdge:
		if f.Count != 3 {
			return rej(clEdgeNotThree)
		}
	case fRecord:
		if f.Count != f.Expected {
			return rej(clRecordTooFew)
		}
	case fRecType:
		m.frames = m.frames[:n-1]
		if f.Dup {
			return rej(clRecTypeDup) // last point of the window
		}
		m.recTypes[f.ID] = f.Count
		return v
	}
	m.frames = m.frames[:n-1]
	if f.Kind == fMap && f.RefKeys != 0 {
		m.closedMaps = append(m.closedMaps, c10RefMap{f.LitKeys, f.RefKeys})
	}
	return m.complete(tContainer, 0, 0)
}

// object handles NULL, KEY, NONKEY, ARR, LIST, MAP, NODE, EDGE, REC, REF in slot s owned by frame pi.
func (m *c10Model) object(l c10Letter, s uint8, pi int) c10Verdict {
	marked := m.marked()
	v := slotAdmits(s)
	if marked && l.K == c10REF {
		v = worse(v, rej(clMarkerOnReference))
	}
	isContainer := l.K == c10LIST || l.K == c10MAP || l.K == c10NODE || l.K == c10EDGE || l.K == c10REC
	switch s {
	case sTop:
		if l.K == c10REF {
			v = worse(v, dc(dcRefAtTop, false))
		}
	case sMapKey:
		if l.K != c10KEY && l.K != c10REF {
			v = worse(v, rej(clMapKeyNotKeyable))
		}
	case sRecType:
		if l.K != c10KEY {
			v = worse(v, dc(dcRecTypeContent, false))
		}
	case sEdgeSrc, sEdgeDst:
		if l.K == c10NULL {
			v = worse(v, rej(clEdgeNullEndpoint))
		}
	}
	if l.K == c10REC {
		if l.Bad != c10IDOK {
			v = worse(v, dc(dcIDLenVague, false))
		} else if m.recTypes[l.ID] < 0 {
			v = worse(v, rej(clRecordUndeclared))
		}
	}
	if l.K == c10REF {
		if iv, bad := idVerdict(l.Bad); bad {
			v = worse(v, iv)
		}
	}
	if (s == sMapKey || s == sRecType) && l.K == c10KEY && pi >= 0 && m.frames[pi].LitKeys&(1<<l.ID) != 0 {
		v = worse(v, rej(clDupKey))
	}
	if marked && l.K == c10ARR && l.ID == 1 {
		v = worse(v, dc(dcRemoteRefMarked, false))
	}
	if v.V == vReject || v.V == vDontCare {
		return v
	}
	// the letter is structurally admissible: advance
	if l.K == c10REF {
		bit := uint32(1) << l.ID
		m.refd |= bit
		mk := m.markers[l.ID]
		switch s {
		case sMapKey:
			m.refdKey |= bit
			if mk.State != 0 && mk.Type != tUnknown && mk.Type != tKey {
				switch {
				case m.dupIDs&bit != 0:
					v = worse(v, c10Verdict{V: vMay, Clause: clKeyRefNotKeyable})
				case mk.State == 2:
					return rej(clKeyRefNotKeyable)
				default:
					// the marked object is still open (we are inside it): window until it completes
					for i := range m.frames {
						if m.frames[i].Kind == fMarker && m.frames[i].ID == l.ID {
							m.frames[i].Doom = true
						}
					}
					v = worse(v, c10Verdict{V: vMay, Clause: clKeyRefNotKeyable})
				}
			}
		case sEdgeSrc, sEdgeDst:
			m.refdNonNull |= bit
			if mk.State == 2 && mk.Type == tNull {
				return dc(dcEdgeRefToNull, false)
			}
		}
		return worse(v, m.complete(tRef, l.ID, 0))
	}
	if isContainer {
		if marked {
			v = worse(v, m.markerTypeKnown(tContainer))
		}
		f := c10Frame{ID: l.ID}
		switch l.K {
		case c10LIST:
			f.Kind = fList
		case c10MAP:
			f.Kind = fMap
		case c10NODE:
			f.Kind = fNode
		case c10EDGE:
			f.Kind = fEdge
		case c10REC:
			f.Kind = fRecord
			f.Expected = m.recTypes[l.ID]
		}
		m.frames = append(m.frames, f)
		return v
	}
	t := tNonKey
	switch l.K {
	case c10NULL:
		t = tNull
	case c10KEY:
		t = tKey
	}
	return worse(v, m.complete(t, 0, l.ID))
}

// markerTypeKnown is called when the object of the marker frame on top of the stack starts as a
// container: its type is known but it is not complete yet.
func (m *c10Model) markerTypeKnown(t uint8) c10Verdict {
	f := &m.frames[len(m.frames)-1]
	bit := uint32(1) << f.ID
	if !f.Dup {
		m.markers[f.ID].Type = t
	}
	if m.refdKey&bit != 0 && t != tKey {
		f.Doom = true
		return c10Verdict{V: vMay, Clause: clKeyRefNotKeyable}
	}
	return c10Verdict{}
}

// complete is called when an object of type t has just been completed in the current position.
// refID is the referenced marker for tRef, class the value class for tKey.
func (m *c10Model) complete(t uint8, refID uint8, class uint8) c10Verdict {
	v := c10Verdict{}
	if n := len(m.frames); n > 0 && m.frames[n-1].Kind == fMarker {
		f := m.frames[n-1]
		m.frames = m.frames[:n-1]
		bit := uint32(1) << f.ID
		mk := &m.markers[f.ID]
		if f.Dup {
			outerOpen := false
			for i := range m.frames {
				if m.frames[i].Kind == fMarker && m.frames[i].ID == f.ID {
					m.frames[i].Dup = true
					outerOpen = true
				}
			}
			if outerOpen {
				v = worse(v, c10Verdict{V: vMay, Clause: clMarkerDup})
			} else {
				return rej(clMarkerDup) // last point of the window
			}
		} else {
			mk.State = 2
			mk.Type = t
			mk.Class = class
		}
		if f.Doom {
			return rej(clKeyRefNotKeyable) // last point of the window
		}
		if m.refdKey&bit != 0 && t != tKey {
			if m.dupIDs&bit != 0 {
				v = worse(v, c10Verdict{V: vMay, Clause: clKeyRefNotKeyable})
			} else {
				return rej(clKeyRefNotKeyable)
			}
		}
		if m.refdNonNull&bit != 0 && t == tNull {
			return dc(dcEdgeRefToNull, false)
		}
	}
	// notify the owner of the position
	n := len(m.frames)
	if n == 0 {
		m.phase = pAfterTop
	} else {
		f := &m.frames[n-1]
		if (f.Kind == fMap && f.Count%2 == 0) || f.Kind == fRecType {
			switch t {
			case tKey:
				f.LitKeys |= 1 << class
			case tRef:
				if f.RefKeys&(1<<refID) != 0 {
					return dc(dcRefKeySameValue, false)
				}
				f.RefKeys |= 1 << refID
			}
		}
		f.Count++
	}
	if m.refKeyAmbiguous() {
		return dc(dcRefKeySameValue, false)
	}
	return v
}

// refKeyAmbiguous reports whether some map has a reference key whose (known) target value equals
// another key of the same map: whether that is a duplicate key is not decided by the property texts.
func (m *c10Model) refKeyAmbiguous() bool {
	check := func(lit, refs uint32) bool {
		if refs == 0 {
			return false
		}
		seen := lit
		for id := 0; id < c10MaxIDs; id++ {
			if refs&(1<<uint(id)) == 0 {
				continue
			}
			mk := m.markers[id]
			if mk.State == 2 && mk.Type == tKey {
				if seen&(1<<mk.Class) != 0 {
					return true
				}
				seen |= 1 << mk.Class
			}
		}
		return false
	}
	for i := range m.frames {
		if m.frames[i].Kind == fMap && check(m.frames[i].LitKeys, m.frames[i].RefKeys) {
			return true
		}
	}
	for _, c := range m.closedMaps {
		if check(c.Lit, c.Refs) {
			return true
		}
	}
	return false
}

// depth is the number of open containers (markers excluded).
func (m *c10Model) depth() int {
	d := 0
	for i := range m.frames {
		if m.frames[i].Kind != fMarker {
			d++
		}
	}
	return d
}
