package checks

import (
	"bytes"
	"fmt"
	"reflect"
	"regexp"
	"runtime"
	"sync"
	"sync/atomic"
	"time"

	"github.com/kstenerud/go-concise-encoding/builder"
	"github.com/kstenerud/go-concise-encoding/ce"
	"github.com/kstenerud/go-concise-encoding/configuration"
	"github.com/kstenerud/go-concise-encoding/iterator"
	"github.com/kstenerud/go-concise-encoding/rules"
	"github.com/kstenerud/go-concise-encoding/verifhook"

	"verifharness/ev"
	"verifharness/fw"
	"verifharness/gen"
)

func init() {
	fw.Register(&fw.Check{
		ID:       "C17",
		Level:    "exploration",
		Variants: []string{"race", ""},
		Rule: "case = one concurrent round: G in {2,8,32} goroutines at GOMAXPROCS in {1,2,4,16}, each with its own marshaler/unmarshaler/encoder/decoder/validator (mode own), or sharing ONE iterator.Session and ONE builder.Session " +
			"(mode shared), or calling the one-shot ce.* functions (mode oneshot); every round uses struct types never seen before by the process (round-unique field names) so all goroutines race on the first-use path of the " +
			"sync.Map type caches, with verifhook failpoints (Gosched / short sleeps between LoadOrStore and Store) widening the placeholder window. Oracles: (1) the Go race detector (binary built with -race; every report is a violation, " +
			"de-duplicated by the innermost frames of both accesses), (2) differential: each call's output/result/error equals the value computed sequentially afterwards on fresh instances. " +
			"The list of cases runs once under the race build and once under the normal build. Non-trivial = round in which at least one goroutine lost the cache race or waited on a placeholder; distinct = distinct (mode, G, procs, types).",
		Assumptions: []string{"the race detector reports races only on executed paths with the schedules that occurred; hook counters in the evidence show that the placeholder path was taken",
			"outputs are compared as canonical decoded data (maps unordered)"},
		Cases:     func(tier string) int { return tierN(tier, 120, 3000) },
		Run:       runC17,
		Procs:     16,
		CPUBudget: 120,
		MaxBatch:  10,
		Floors: func(string) map[string]int64 {
			return map[string]int64{"rounds": 100, "calls_compared": 2000, "hook.iterator.cache.miss": 50, "hook.builder.cache.miss": 50, "placeholder_or_lost_race": 5, "mode.own": 20, "mode.shared": 20, "mode.oneshot": 20}
		},
	})
}

type c17Job struct {
	v    interface{}
	tmpl interface{}
	cte  bool
	// respell: the unmarshal step reads the marshaled CTE document with every key written in a spelling that only matches its
	// field after case/underscore normalisation, a different spelling per goroutine (flat struct jobs only)
	respell bool
}

var c17KeyRe = regexp.MustCompile(`"([A-Za-z0-9_]+)" = `)

// c17Respell rewrites the keys of a flat struct's CTE document: letters in alternating case (phase g), underscores doubled.
func c17Respell(doc []byte, g int) []byte {
	return c17KeyRe.ReplaceAllFunc(doc, func(m []byte) []byte {
		name := m[1 : len(m)-4]
		var out []byte
		for i, ch := range name {
			switch {
			case ch == '_':
				out = append(out, '_', '_')
			case (i+g)%2 == 0:
				out = append(out, bytes.ToUpper([]byte{ch})...)
			default:
				out = append(out, bytes.ToLower([]byte{ch})...)
			}
		}
		return append(append([]byte{'"'}, out...), []byte(`" = `)...)
	})
}

type c17Result struct {
	doc   []byte
	merr  string
	out   interface{}
	uerr  string
	panic string
}

func c17Canon(doc []byte, cte bool) string {
	return c16CanonDoc(doc, cte, nil)
}

func c17Same(a, b c17Result, cte bool) string {
	if a.panic != "" || b.panic != "" {
		return "escaped panic: " + a.panic + b.panic
	}
	if a.merr != b.merr {
		return fmt.Sprintf("marshal error differs: concurrent %q vs sequential %q", a.merr, b.merr)
	}
	if a.merr == "" && !bytes.Equal(a.doc, b.doc) {
		if ca := c17Canon(a.doc, cte); ca == "" || ca != c17Canon(b.doc, cte) {
			return fmt.Sprintf("marshal output differs: concurrent %s vs sequential %s", short(docString(a.doc, cte), 300), short(docString(b.doc, cte), 300))
		}
	}
	if a.uerr != b.uerr {
		return fmt.Sprintf("unmarshal error differs: concurrent %q vs sequential %q", a.uerr, b.uerr)
	}
	if a.uerr == "" {
		if p, d := gen.ValueEq(a.out, b.out); p != "" {
			return "unmarshal result differs at " + p + ": " + d
		}
	}
	return ""
}

func errS(e error) string {
	if e == nil {
		return ""
	}
	return e.Error()
}

// c17Do performs marshal + unmarshal for one job in the given mode.
func c17Do(mode int, j c17Job, cfg *configuration.Configuration, isess *iterator.Session, bsess *builder.Session, g int) (r c17Result) {
	readDoc := func(doc []byte) []byte {
		if j.respell && g >= 0 {
			return c17Respell(doc, g)
		}
		return doc
	}
	defer func() {
		if p := recover(); p != nil {
			r.panic = fmt.Sprint(p)
		}
	}()
	switch mode {
	case 0: // own instances
		var m ce.Marshaler
		var u ce.Unmarshaler
		if j.cte {
			m, u = ce.NewCTEMarshaler(cfg), ce.NewCTEUnmarshaler(cfg)
		} else {
			m, u = ce.NewCBEMarshaler(cfg), ce.NewCBEUnmarshaler(cfg)
		}
		doc, err := m.MarshalToDocument(j.v)
		r.doc, r.merr = doc, errS(err)
		if err == nil {
			out, err := u.UnmarshalFromDocument(readDoc(doc), j.tmpl)
			r.out, r.uerr = out, errS(err)
		}
	case 1: // shared sessions, own codecs
		var enc ce.Encoder
		var dec ce.Decoder
		if j.cte {
			enc, dec = ce.NewCTEEncoder(cfg), ce.NewCTEDecoder(cfg)
		} else {
			enc, dec = ce.NewCBEEncoder(cfg), ce.NewCBEDecoder(cfg)
		}
		var buf bytes.Buffer
		enc.PrepareToEncode(&buf)
		func() {
			defer func() {
				if p := recover(); p != nil {
					r.merr = fmt.Sprint(p)
				}
			}()
			isess.NewIterator(rules.NewRules(enc, cfg)).Iterate(j.v)
		}()
		r.doc = buf.Bytes()
		if r.merr == "" {
			b := bsess.NewBuilderFor(j.tmpl)
			err := dec.DecodeDocument(readDoc(r.doc), rules.NewRules(b, cfg))
			r.uerr = errS(err)
			if err == nil {
				r.out = b.GetBuiltObject()
			}
		}
	default: // one-shot API
		var doc []byte
		var err error
		if j.cte {
			doc, err = ce.MarshalToCTEDocument(j.v, cfg)
		} else {
			doc, err = ce.MarshalToCBEDocument(j.v, cfg)
		}
		r.doc, r.merr = doc, errS(err)
		if err == nil {
			var out interface{}
			if j.cte {
				out, err = ce.UnmarshalFromCTEDocument(readDoc(doc), j.tmpl, cfg)
			} else {
				out, err = ce.UnmarshalFromCBEDocument(doc, j.tmpl, cfg)
			}
			r.out, r.uerr = out, errS(err)
		}
	}
	return
}

func runC17(c *fw.Ctx, idx int) {
	mode := idx % 3
	G := []int{2, 8, 32}[(idx/3)%3]
	procs := []int{1, 2, 4, 16}[(idx/9)%4]
	modeName := []string{"own", "shared", "oneshot"}[mode]
	c.Note("C17 round mode=%s G=%d procs=%d variant=%q", modeName, G, procs, c.Variant)
	c.Region("round-" + modeName)
	// fresh types + values
	salt := fmt.Sprintf("R%dS%d%s", idx, c.Seed, c.Variant)
	var jobs []c17Job
	nTypes := 2 + c.Rng.Intn(3)
	for k := 0; k < nTypes; k++ {
		t := gen.RandStruct(c.Rng, 2, gen.TypeOpts{NoSpecial: true, Salt: fmt.Sprintf("%sT%d", salt, k)})
		if c.Rng.Intn(3) == 0 {
			t = reflect.SliceOf(t)
		} else if c.Rng.Intn(4) == 0 {
			t = reflect.MapOf(gen.TString, t)
		}
		for tries := 0; tries < 10; tries++ {
			v := gen.RandValue(c.Rng, t, 3).Interface()
			if c04Region(v, "") == "general" {
				jobs = append(jobs, c17Job{v: v, tmpl: reflect.Zero(t).Interface(), cte: c.Rng.Intn(2) == 0})
				break
			}
		}
	}
	if c.Rng.Intn(4) == 0 {
		jobs = append(jobs, c17Job{v: make(chan int), tmpl: nil, cte: false}) // unsupported type raced too
	}
	if c.Rng.Intn(2) == 0 {
		// a flat struct whose document keys are re-spelled differently by every goroutine (case and underscores)
		var sf []reflect.StructField
		perm := c.Rng.Perm(len(gen.FieldNames))
		for i := 0; i < 2+c.Rng.Intn(4); i++ {
			sf = append(sf, reflect.StructField{Name: gen.FieldNames[perm[i]] + salt + "F", Type: []reflect.Type{gen.TInt64, gen.TString, gen.TBool, gen.TFloat64}[c.Rng.Intn(4)]})
		}
		t := reflect.StructOf(sf)
		v := reflect.New(t).Elem()
		for i := 0; i < v.NumField(); i++ {
			switch v.Field(i).Kind() {
			case reflect.Int64:
				v.Field(i).SetInt(int64(1 + c.Rng.Intn(1000)))
			case reflect.String:
				v.Field(i).SetString("s" + gen.TextValue(c.Rng, 6, true))
			case reflect.Bool:
				v.Field(i).SetBool(true)
			default:
				v.Field(i).SetFloat(float64(1+c.Rng.Intn(100)) / 4)
			}
		}
		jobs = append(jobs, c17Job{v: v.Interface(), tmpl: reflect.Zero(t).Interface(), cte: true, respell: true})
		c.Inc("jobs.respelled-keys")
	}
	if len(jobs) == 0 {
		return
	}
	cfg := configuration.New()
	if c.Rng.Intn(2) == 0 {
		// recursion support: marker ids are generated while iterating; every goroutine marshals values with shared pointers
		cfg.Iterator.RecursionSupport = true
		c.Inc("rounds.recursion-support")
		for k := 0; k < 2; k++ {
			n := &c20N{V: 1 + k}
			a, b := &c20N{V: 20 + k}, &c20N{V: 30 + k}
			n.S = []*c20N{a, b, a, b, a}
			n.M = map[string]*c20N{"x": b}
			a.P = b // sharing only, no cycle (results are compared structurally)
			jobs = append(jobs, c17Job{v: n, tmpl: (*c20N)(nil), cte: c.Rng.Intn(2) == 0})
		}
	}
	isess := iterator.NewSession(nil, cfg)
	bsess := builder.NewSession(nil, cfg)

	// failpoints: widen the window between LoadOrStore and Store
	var hits int64
	verifhook.SetCallback(func(name string) {
		n := atomic.AddInt64(&hits, 1)
		switch name {
		case "iterator.cache.miss", "builder.cache.miss":
			if n%3 == 0 {
				time.Sleep(200 * time.Microsecond)
			} else {
				runtime.Gosched()
			}
		case "iterator.cache.generated", "builder.cache.generated":
			runtime.Gosched()
		}
	})
	before := verifhook.Counters()
	prev := runtime.GOMAXPROCS(procs)
	results := make([][]c17Result, G)
	var wg sync.WaitGroup
	start := make(chan struct{})
	for g := 0; g < G; g++ {
		wg.Add(1)
		go func(g int) {
			defer wg.Done()
			<-start
			res := make([]c17Result, len(jobs))
			for k := range jobs {
				kk := (k + g) % len(jobs)
				res[kk] = c17Do(mode, jobs[kk], cfg, isess, bsess, g)
			}
			results[g] = res
		}(g)
	}
	close(start)
	wg.Wait()
	runtime.GOMAXPROCS(prev)
	verifhook.SetCallback(nil)
	after := verifhook.Counters()
	lost := int64(0)
	for k, v := range after {
		d := v - before[k]
		c.Count("hook."+k, d)
		if k == "iterator.placeholder.wait" || k == "builder.placeholder.wait" || k == "iterator.cache.lost-race" || k == "builder.cache.lost-race" {
			lost += d
		}
	}
	c.Count("placeholder_or_lost_race", lost)
	c.Inc("rounds")
	c.Inc("mode." + modeName)
	c.Inc(fmt.Sprintf("G.%d", G))
	c.Inc(fmt.Sprintf("procs.%d", procs))
	c.Count("fresh_types_raced", int64(nTypes))
	c.Eval()
	// sequential reference on fresh instances
	for k, j := range jobs {
		wcfg := configuration.New()
		wcfg.Iterator.RecursionSupport = cfg.Iterator.RecursionSupport
		want := c17Do(0, j, wcfg, nil, nil, -1)
		for g := 0; g < G; g++ {
			c.Inc("calls_compared")
			if why := c17Same(results[g][k], want, j.cte); why != "" {
				c.Fail("concurrent-differs-from-sequential:"+modeName, map[string]interface{}{"mode": modeName, "G": G, "procs": procs, "goroutine": g, "type": fmt.Sprintf("%T", j.v), "value": gen.Render(j.v), "why": why})
				return
			}
		}
	}
	if lost > 0 {
		c.Distinct(fmt.Sprintf("%s|%d|%d|%s", modeName, G, procs, salt))
	}
	if c.WantSample() && lost > 0 {
		c.Sample(map[string]interface{}{"mode": modeName, "G": G, "GOMAXPROCS": procs, "jobs": len(jobs), "lost_race_or_placeholder_waits": lost, "first_type": fmt.Sprintf("%T", jobs[0].v)})
	}
	_ = ev.BD
}
