package checks

import (
	"math/rand"
)

// Model-guided generator of valid letter sequences and one-letter corruptions of them (C10 part 2,
// C13 part A). The generator never consults the validator: it picks letters the *model* accepts.

type c10RandomOpts struct {
	markerHeavy bool
	pool        *c10Pool
	target      int
	tag         string
}

type c10Gen struct {
	r       *rand.Rand
	p       *c10Pool
	m       *c10Model
	seq     []c10Sym
	target  int
	heavy   bool
	scratch *c10Model
	stuck   bool
}

func (g *c10Gen) accepts(s c10Sym) bool {
	g.m.cloneInto(g.scratch)
	return g.scratch.Step(s.L).V == vAccept
}

func (g *c10Gen) emit(s c10Sym) bool {
	if !g.accepts(s) {
		return false
	}
	g.m.Step(s.L)
	g.seq = append(g.seq, s)
	return true
}

// need estimates how many more letters are required to close everything that is open.
func (g *c10Gen) need() int {
	n := 0
	for i := range g.m.frames {
		f := &g.m.frames[i]
		switch f.Kind {
		case fMarker:
			n++
		case fMap:
			n += 1 + int(f.Count%2)
		case fEdge:
			n += 1 + int(3-f.Count)
		case fRecord:
			n += 1 + int(f.Expected-f.Count)
		case fNode:
			n++
			if f.Count == 0 {
				n++
			}
		default:
			n++
		}
	}
	return n
}

func (g *c10Gen) unresolvedIDs() []uint8 {
	u := g.m.unresolved()
	var out []uint8
	for i := 0; i < c10MaxIDs; i++ {
		if u&(1<<uint(i)) != 0 {
			out = append(out, uint8(i))
		}
	}
	return out
}

// scalar emits some accepted scalar (keyable preferred when wantKey).
func (g *c10Gen) scalar(wantKey bool) bool {
	for try := 0; try < 40; try++ {
		var s c10Sym
		switch k := g.r.Intn(10); {
		case wantKey || k < 5:
			s = c10Pick(g.r, g.p.keys)
		case k < 6:
			s = c10Pick(g.r, g.p.nulls)
		case k < 8:
			s = c10Pick(g.r, g.p.nonkeys)
		default:
			s = c10Pick(g.r, g.p.arrs)
		}
		if g.emit(s) {
			return true
		}
	}
	for _, s := range g.p.keys {
		if g.emit(s) {
			return true
		}
	}
	for _, s := range []c10Sym{c10SymNUL, c10SymNK} {
		if g.emit(s) {
			return true
		}
	}
	return false
}

// forwardOK: forward references are generated only while the outermost container can still take
// more objects at its end (list, or node), so that the marker can be supplied before it closes.
func (g *c10Gen) forwardOK() bool {
	if len(g.m.frames) == 0 {
		return false
	}
	k := g.m.frames[0].Kind
	return k == fList || k == fNode
}

func (g *c10Gen) step() {
	m := g.m
	s, _ := m.slot()
	remaining := g.target - len(g.seq)
	closing := remaining <= g.need()+2*len(g.unresolvedIDs())
	if s == sAfterTop {
		if !g.emit(c10SymED) {
			g.stuck = true
		}
		return
	}
	if m.marked() {
		// the marker needs its object
		id := m.frames[len(m.frames)-1].ID
		wantKey := m.refdKey&(1<<id) != 0 || s == sMapKey
		if !closing && !wantKey && g.r.Intn(3) == 0 {
			if g.emit(c10Pick(g.r, []c10Sym{c10SymLST, c10SymMAP, c10SymNOD, c10SymEDG})) {
				return
			}
		}
		if !g.scalar(wantKey) {
			g.stuck = true
		}
		return
	}
	if closing {
		un := g.unresolvedIDs()
		if len(un) > 0 && len(m.frames) == 1 && (s == sList || s == sNodeChild) {
			if g.emit(g.p.marks[un[0]]) {
				return
			}
		}
		if len(un) == 0 || len(m.frames) > 1 {
			if g.emit(c10SymEND) {
				return
			}
		}
		if !g.scalar(s == sMapKey || s == sRecType) {
			if !g.emit(c10SymEND) {
				g.stuck = true
			}
		}
		return
	}
	// free choice
	for try := 0; try < 30; try++ {
		var c c10Sym
		w := g.r.Intn(100)
		if g.heavy {
			// more markers / references
			switch {
			case w < 22:
				c = c10Pick(g.r, g.p.marks)
			case w < 46:
				c = c10Pick(g.r, g.p.refs)
			default:
				w = (w - 46) * 100 / 54
				c = g.plain(w)
			}
		} else {
			c = g.plain(w)
		}
		if c.L.K == c10REF && m.markers[c.L.ID].State == 0 && !g.forwardOK() {
			continue
		}
		if c.L.K == c10RT && s != sTop {
			continue
		}
		if s == sTop && len(g.seq) <= 2 && c.L.K != c10RT && c.L.K != c10LIST && c.L.K != c10MAP && c.L.K != c10NODE && g.r.Intn(4) != 0 {
			continue // mostly start with record types or a container
		}
		if g.emit(c) {
			return
		}
	}
	if !g.scalar(s == sMapKey || s == sRecType) && !g.emit(c10SymEND) {
		g.stuck = true
	}
}

func (g *c10Gen) plain(w int) c10Sym {
	switch {
	case w < 4:
		return c10SymPAD
	case w < 8:
		return c10SymCOM
	case w < 13:
		return c10Pick(g.r, g.p.nulls)
	case w < 33:
		return c10Pick(g.r, g.p.keys)
	case w < 39:
		return c10Pick(g.r, g.p.nonkeys)
	case w < 47:
		return c10Pick(g.r, g.p.arrs)
	case w < 55:
		return c10SymLST
	case w < 63:
		return c10SymMAP
	case w < 67:
		return c10SymNOD
	case w < 71:
		return c10SymEDG
	case w < 80:
		return c10SymEND
	case w < 85:
		return c10Pick(g.r, g.p.rts)
	case w < 90:
		return c10Pick(g.r, g.p.recs)
	case w < 95:
		return c10Pick(g.r, g.p.marks)
	}
	return c10Pick(g.r, g.p.refs)
}

// c10GenValid returns a model-valid letter sequence BD V0 ... ED, or nil when generation got stuck.
func c10GenValid(r *rand.Rand, p *c10Pool, target int, heavy bool) []c10Sym {
	g := &c10Gen{r: r, p: p, m: newC10Model(), target: target, heavy: heavy, scratch: newC10Model()}
	g.emit(c10SymBD)
	g.emit(c10SymV0)
	for len(g.seq) < target+60 && !g.stuck {
		if g.m.phase == pEnded {
			return g.seq
		}
		g.step()
	}
	return nil
}

// c10Corrupt applies one random edit at letter level.
func c10Corrupt(r *rand.Rand, p *c10Pool, seq []c10Sym) ([]c10Sym, string) {
	out := append([]c10Sym{}, seq...)
	n := len(out)
	switch r.Intn(5) {
	case 0:
		i := 2 + r.Intn(n-2)
		return append(out[:i], out[i+1:]...), "drop"
	case 1:
		i := 2 + r.Intn(n-2)
		out = append(out[:i+1], out[i:]...)
		return out, "duplicate"
	case 2:
		if n >= 4 {
			i := 2 + r.Intn(n-3)
			out[i], out[i+1] = out[i+1], out[i]
			return out, "swap"
		}
		fallthrough
	case 3:
		i := 2 + r.Intn(n-1)
		out = append(out[:i], append([]c10Sym{p.anyLetter(r)}, out[i:]...)...)
		return out, "insert"
	}
	i := 2 + r.Intn(n-2)
	out[i] = p.anyLetter(r)
	return out, "replace"
}

func c10NontrivialSeq(seq []c10Sym) bool {
	containers := 0
	for _, s := range seq {
		switch s.L.K {
		case c10LIST, c10MAP, c10NODE, c10EDGE, c10REC:
			containers++
		}
	}
	return containers >= 1 && len(seq) >= 5
}

// c10Random is one random case: a valid sequence, checked online, then five corruptions of it.
func c10Random(d *c10Cmp, o c10RandomOpts) {
	r := d.c.Rng
	p := o.pool
	if p == nil {
		p = c10NewPool([]string{"x", "y", "zed", "é中_1"}, []string{"a", "b", "rec-3"})
	}
	target := o.target
	if target == 0 {
		switch r.Intn(4) {
		case 0:
			target = 4 + r.Intn(8)
		case 1:
			target = 10 + r.Intn(20)
		default:
			target = 25 + r.Intn(36)
		}
	}
	heavy := o.markerHeavy || r.Intn(3) == 0
	seq := c10GenValid(r, p, target, heavy)
	if seq == nil {
		d.counts["random.generator_stuck"]++
		return
	}
	d.c.Note("seq %s", c10NamesStr(seq))
	tag := o.tag
	if tag == "" {
		tag = "random"
	}
	n, ok := c10RunLinear(d, seq, tag+"-valid")
	d.counts["random.valid_sequences"]++
	d.counts["random.valid_letters"] += int64(len(seq))
	d.c.Max("max_random_length", int64(len(seq)))
	if !ok {
		_ = n
		return
	}
	if c10NontrivialSeq(seq) {
		d.c.Distinct(d.prefix + c10NamesStr(seq))
	}
	if d.c.WantSample() && len(seq) > 12 && len(seq) < 30 {
		d.c.Sample(map[string]interface{}{"valid_sequence": c10Names(seq)})
	}
	for k := 0; k < 5; k++ {
		cs, op := c10Corrupt(r, p, seq)
		d.c.Note("corrupt(%s) %s", op, c10NamesStr(cs))
		at, whole := c10RunLinear(d, cs, tag+"-"+op)
		d.counts["random.corrupted_sequences"]++
		d.counts["random.corruption."+op]++
		if whole {
			d.counts["random.corrupted_still_valid"]++
		} else if at < len(cs)-1 {
			d.counts["random.corrupted_stopped_before_last_letter"]++
		}
		if c10NontrivialSeq(cs) {
			d.c.Distinct(d.prefix + c10NamesStr(cs))
		}
	}
}
