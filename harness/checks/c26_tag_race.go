//go:build race

package checks

func init() { c26BuildRace = true }
