package checks

import (
	"fmt"
	"github.com/cockroachdb/apd/v2"
	"math/big"
	"reflect"
	"regexp"

	"github.com/kstenerud/go-concise-encoding/ce"
	"github.com/kstenerud/go-concise-encoding/configuration"
	"github.com/kstenerud/go-concise-encoding/types"

	"verifharness/fw"
	"verifharness/gen"
)

// c04Directed lists boundary values: every numeric slice/array kind at lengths around the short-form
// limit and in chunked form, bool slices around byte boundaries, big numbers at width limits, special types.
func c04Directed() []interface{} {
	var out []interface{}
	lens := []int{0, 1, 15, 16, 17, 1000}
	mk := func(t reflect.Type, n int) interface{} {
		s := reflect.MakeSlice(reflect.SliceOf(t), n, n)
		for i := 0; i < n; i++ {
			e := s.Index(i)
			switch t.Kind() {
			case reflect.Bool:
				e.SetBool(i%3 == 0 || i%7 == 1)
			case reflect.Float32, reflect.Float64:
				e.SetFloat(float64(i) + 0.5)
			case reflect.Int, reflect.Int8, reflect.Int16, reflect.Int32, reflect.Int64:
				e.SetInt(int64(i%100) - 50)
			default:
				e.SetUint(uint64(i%200) + 1)
			}
		}
		return s.Interface()
	}
	for _, t := range []reflect.Type{gen.TUint8, gen.TUint16, gen.TUint32, gen.TUint64, gen.TUint, gen.TInt8, gen.TInt16, gen.TInt32, gen.TInt64, gen.TInt, gen.TFloat32, gen.TFloat64} {
		for _, n := range lens {
			out = append(out, mk(t, n))
		}
	}
	for _, n := range []int{0, 1, 7, 8, 9, 64, 1000} {
		out = append(out, mk(gen.TBool, n))
	}
	out = append(out, [17]uint16{1, 2, 3, 65535}, [3]bool{true, false, true}, [20]float32{1.5}, [0]int32{}, [16]int64{-1})
	for _, s := range []string{"9223372036854775807", "9223372036854775808", "-9223372036854775808", "-9223372036854775809", "18446744073709551615", "18446744073709551616", "-18446744073709551615", "-18446744073709551616", "0", "-1"} {
		b, _ := new(big.Int).SetString(s, 10)
		out = append(out, b, *b, []*big.Int{b}, map[string]*big.Int{"k": b})
		// the same whole numbers held as decimals (exponent 0): both codecs write them as integers, so they come back
		// through the integer -> decimal conversions of the builder
		d := apd.NewWithBigInt(b, 0)
		out = append(out, d, *d, []apd.Decimal{*d, *apd.New(-5, 0)}, struct{ D apd.Decimal }{*d}, map[string]*apd.Decimal{"k": d})
	}
	out = append(out, types.Edge{Source: "a", Description: int64(1), Destination: "b"}, types.Node{Value: "root", Children: []interface{}{int64(1), "x", types.Node{Value: true}}},
		types.Media{MediaType: "text/plain", Data: []byte("hi")}, types.UID{1, 2, 3}, []types.Edge{{Source: int64(1), Description: "d", Destination: int64(2)}},
		map[string]interface{}{"e": types.Edge{Source: "s", Description: nil, Destination: "d"}},
		struct {
			A []uint32
			B []bool
			C map[int8][]int16
		}{A: make([]uint32, 40), B: make([]bool, 20), C: map[int8][]int16{-1: make([]int16, 33)}})
	// probes of the nil-container known finding
	var nilMap map[string]int
	out = append(out, []string(nil), [][]string{{"a"}, nil}, map[string]map[int]int{"k": nil}, &nilMap)
	return out
}

var c04dir = c04Directed()

func init() {
	fw.Register(&fw.Check{
		ID:    "C04",
		Level: "exploration",
		Rule: "case = (Go type built with reflect to depth<=4 from the supported kinds incl. reflect.StructOf structs, value of that type with boundary magnitudes, nil/empty containers, long typed arrays; codec CBE or CTE); " +
			"directed cases first (every numeric slice kind at lengths 0,1,15,16,17,1000, []bool at 0,1,7,8,9,64,1000, big.Int and whole-number apd.Decimal (pointer, value, slice, field, map) at +-2^63/2^64, Edge/Node/Media/UID). The value is marshaled with ce.MarshalTo*Document and unmarshaled " +
			"into a zero template of the same type; oracle = no error and ValueEq (NaN==NaN, times by Equal, big numbers by value, nil==empty, numbers inside interface{} by exact value). " +
			"Non-trivial = type is composite (slice/array/map/struct/pointer); distinct = distinct (type, rendered value, codec).",
		Assumptions: []string{"big.Float values are limited to float64-exact ones (others are rounded by the encoders: known finding of C01/C03)", "time.Time values use UTC or IANA zones present in the image's tzdata", "map keys are ints, uints, strings, bools, UIDs"},
		Cases:       func(tier string) int { return 2*len(c04dir) + tierN(tier, 4000, 150000) },
		Run:         runC04,
		Floors: func(string) map[string]int64 {
			return map[string]int64{"roundtrips_compared": 1000, "kind.struct": 50, "kind.map": 50, "kind.slice": 50, "kind.ptr": 20, "kind.array": 20}
		},
	})
}

var c04ErrClassRe = regexp.MustCompile(`[0-9]+|"[^"]*"|\[[^\]]*\]`)

func errClass(err error) string {
	s := err.Error()
	s = c04ErrClassRe.ReplaceAllString(s, "#")
	if len(s) > 70 {
		s = s[:70]
	}
	return s
}

func marshalDoc(v interface{}, cte bool, cfg *configuration.Configuration) (doc []byte, err error, p interface{}, st string) {
	p, st = fw.Guard(func() {
		if cte {
			doc, err = ce.MarshalToCTEDocument(v, cfg)
		} else {
			doc, err = ce.MarshalToCBEDocument(v, cfg)
		}
	})
	return
}

func unmarshalDoc(doc []byte, template interface{}, cte bool, cfg *configuration.Configuration) (out interface{}, err error, p interface{}, st string) {
	p, st = fw.Guard(func() {
		if cte {
			out, err = ce.UnmarshalFromCTEDocument(doc, template, cfg)
		} else {
			out, err = ce.UnmarshalFromCBEDocument(doc, template, cfg)
		}
	})
	return
}

func docString(doc []byte, cte bool) string {
	if cte {
		return short(string(doc), 3000)
	}
	return hexs(doc)
}

func runC04(c *fw.Ctx, idx int) {
	var v interface{}
	var t reflect.Type
	cte := idx%2 == 1
	if idx < 2*len(c04dir) {
		v = c04dir[idx/2]
		t = reflect.TypeOf(v)
		c.Inc("directed_cases")
	} else {
		depth := 1 + c.Rng.Intn(4)
		t = gen.RandType(c.Rng, depth, gen.TypeOpts{})
		v = gen.RandValue(c.Rng, t, depth).Interface()
	}
	codec := "cbe"
	if cte {
		codec = "cte"
	}
	c.Note("C04 %s type %v value %s", codec, t, short(gen.Render(v), 1500))
	cfg := configuration.New()
	c.Region("marshal")
	doc, err, p, st := marshalDoc(v, cte, cfg)
	c.Eval()
	detail := func(extra map[string]interface{}) map[string]interface{} {
		d := map[string]interface{}{"codec": codec, "type": fmt.Sprint(t), "value": gen.Render(v)}
		for k, x := range extra {
			d[k] = x
		}
		return d
	}
	if p != nil {
		c.Fail("marshal-escaped-panic", detail(map[string]interface{}{"panic": fmt.Sprint(p), "stack": st}))
		return
	}
	if err != nil {
		c.Fail("marshal-error:"+errClass(err), detail(map[string]interface{}{"err": err.Error()}))
		return
	}
	template := reflect.Zero(t).Interface()
	c.Region("unmarshal")
	out, err, p, st := unmarshalDoc(doc, template, cte, cfg)
	if p != nil {
		c.Fail("unmarshal-escaped-panic", detail(map[string]interface{}{"doc": docString(doc, cte), "panic": fmt.Sprint(p), "stack": st}))
		return
	}
	if err != nil {
		if r := c04Region(v, ""); r != "general" {
			c.Fail("unmarshal-error@"+r, detail(map[string]interface{}{"doc": docString(doc, cte), "err": err.Error()}))
			return
		}
		c.Fail("unmarshal-error:"+errClass(err), detail(map[string]interface{}{"doc": docString(doc, cte), "err": err.Error()}))
		return
	}
	c.Inc("roundtrips_compared")
	c.Inc("kind." + t.Kind().String())
	c.Inc("codec." + codec)
	switch t.Kind() {
	case reflect.Slice, reflect.Array, reflect.Map, reflect.Struct, reflect.Ptr:
		c.Distinct(codec + fmt.Sprint(t) + gen.Render(v))
	}
	if path, desc := gen.ValueEq(v, out); path != "" {
		c.Fail("value-mismatch:"+c04Region(v, path), detail(map[string]interface{}{"doc": docString(doc, cte), "result": gen.Render(out), "path": path, "diff": desc}))
		return
	}
	if c.WantSample() && (t.Kind() == reflect.Struct || t.Kind() == reflect.Map) {
		c.Sample(detail(map[string]interface{}{"doc": docString(doc, cte)}))
	}
}

// c04Region names the known-defect region a value lies in ("general" if none).
func c04Region(v interface{}, path string) string {
	rv := reflect.ValueOf(v)
	if valueContains(rv, isEdgeValue, false) {
		return "contains-edge"
	}
	if hasNilContainerOutsideField(rv, false) {
		return "nil-container-outside-struct-field"
	}
	return "general"
}

func isEdgeValue(v reflect.Value) bool { return v.Type() == gen.TEdge }

// valueContains walks everything reachable from v (through interfaces and pointers).
func valueContains(v reflect.Value, pred func(reflect.Value) bool, _ bool) bool {
	if !v.IsValid() {
		return false
	}
	if pred(v) {
		return true
	}
	switch v.Kind() {
	case reflect.Interface, reflect.Ptr:
		if v.IsNil() {
			return false
		}
		return valueContains(v.Elem(), pred, false)
	case reflect.Slice, reflect.Array:
		for i := 0; i < v.Len(); i++ {
			if valueContains(v.Index(i), pred, false) {
				return true
			}
		}
	case reflect.Map:
		for _, k := range v.MapKeys() {
			if valueContains(k, pred, false) || valueContains(v.MapIndex(k), pred, false) {
				return true
			}
		}
	case reflect.Struct:
		if v.Type() == gen.TTime || v.Type() == gen.TBigInt || v.Type() == gen.TBigFloat || v.Type() == gen.TAPD || v.Type() == gen.TURL {
			return false
		}
		for i := 0; i < v.NumField(); i++ {
			if v.Type().Field(i).PkgPath == "" && valueContains(v.Field(i), pred, false) {
				return true
			}
		}
	}
	return false
}

func isSizedNumericKind(k reflect.Kind) bool {
	switch k {
	case reflect.Uint8, reflect.Uint16, reflect.Uint32, reflect.Uint64, reflect.Int8, reflect.Int16, reflect.Int32, reflect.Int64, reflect.Float32, reflect.Float64:
		return true
	}
	return false
}

// hasNilContainerOutsideField: a nil map, or a nil slice of a kind that has no typed-array builder, in a position
// where it is marshaled as null (top level, element, map value, pointer target) rather than omitted (struct field).
func hasNilContainerOutsideField(v reflect.Value, isField bool) bool {
	if !v.IsValid() {
		return false
	}
	switch v.Kind() {
	case reflect.Interface, reflect.Ptr:
		if v.IsNil() {
			return false
		}
		return hasNilContainerOutsideField(v.Elem(), false)
	case reflect.Slice:
		if v.IsNil() {
			return !isField && !isSizedNumericKind(v.Type().Elem().Kind())
		}
		for i := 0; i < v.Len(); i++ {
			if hasNilContainerOutsideField(v.Index(i), false) {
				return true
			}
		}
	case reflect.Array:
		for i := 0; i < v.Len(); i++ {
			if hasNilContainerOutsideField(v.Index(i), false) {
				return true
			}
		}
	case reflect.Map:
		if v.IsNil() {
			return !isField
		}
		for _, k := range v.MapKeys() {
			if hasNilContainerOutsideField(v.MapIndex(k), false) {
				return true
			}
		}
	case reflect.Struct:
		if v.Type() == gen.TTime || v.Type() == gen.TBigInt || v.Type() == gen.TBigFloat || v.Type() == gen.TAPD || v.Type() == gen.TURL || v.Type() == gen.TNode || v.Type() == gen.TEdge {
			return false
		}
		for i := 0; i < v.NumField(); i++ {
			if v.Type().Field(i).PkgPath == "" && hasNilContainerOutsideField(v.Field(i), true) {
				return true
			}
		}
	}
	return false
}
