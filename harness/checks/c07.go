package checks

import (
	"bytes"
	"fmt"
	"io"
	"reflect"
	"strings"

	"github.com/kstenerud/go-concise-encoding/ce"
	"github.com/kstenerud/go-concise-encoding/ce/events"
	"github.com/kstenerud/go-concise-encoding/configuration"
	"github.com/kstenerud/go-concise-encoding/nullevent"
	"github.com/kstenerud/go-concise-encoding/rules"

	"verifharness/ev"
	"verifharness/fw"
	"verifharness/gen"
)

const (
	c07OneByteCases = 4   // 256 one-byte inputs, 64 per case
	c07TwoByteCases = 512 // 65536 two-byte inputs, 128 per case
)

func init() {
	fw.Register(&fw.Check{
		ID:    "C07",
		Level: "exploration",
		Rule: "case = a small batch of byte strings, each fed to EVERY public decode/unmarshal/universal entry point (one-shot functions from bytes and from readers, unmarshalers, decoders with receivers " +
			"rules+null, rules+builder and bare builder, Marshal.EnforceRules on and off) with templates nil, []interface{}, map[string]int, struct, *int, string; input families: empty, all 256 one-byte strings, " +
			"two-byte strings (quick: every 16th block, thorough: all 65536) with and without a valid header in front, random bytes, byte-mutated valid CBE/CTE, truncations, inflated length fields in every header kind, " +
			"nesting to 200000 (CBE) / 20000 (CTE) levels, CTE token soup, extreme numbers (exponents to +-(2^31-1), coefficients around 2^63/2^64/10^20, megabit integers) unmarshaled into every numeric template kind, documents with long strings / media types / identifiers / arrays / nesting under configurations with low resource limits (rules on and off), self-referential documents (a marked container holding a reference to itself, further references landing in scalar destinations) with recursive references allowed or rules off; plus marshaling of supported and unsupported Go kinds. Each call runs in a worker process: observed outcomes are normal return (required), " +
			"escaped panic, process death (fatal error / OOM under RLIMIT_AS 4 GiB), runtime deadlock report, CPU budget exceeded. Non-trivial = input of >= 2 bytes that is not accepted; distinct = distinct inputs.",
		Assumptions: []string{"a call that returns (value, error) in any combination is fine; only how it returns is judged", "CPU budget 60 s per batch of calls on one input (inputs are <= 600 KB)"},
		Cases:       func(tier string) int { return c07OneByteCases + c07TwoByteCases + tierN(tier, 1500, 40000) },
		Run:         runC07,
		MemLimit:    4 << 30,
		CPUBudget:   60,
		Floors: func(tier string) map[string]int64 {
			return map[string]int64{"calls": 50000, "inputs": 1500, "family.mutated-cbe": 100, "family.mutated-cte": 100, "family.inflated": 50, "family.deep": 4, "family.marshal": 50, "family.extreme-number": 50, "family.low-limits": 50, "family.self-referential": 20, "outcome.error": 10000, "outcome.value": 1000}
		},
	})
}

type c07Struct struct {
	A int
	B []string
	C map[string]*c07Struct
}

func c07Templates() []interface{} {
	return []interface{}{nil, []interface{}(nil), map[string]int(nil), c07Struct{}, (*int)(nil), ""}
}

// c07Call runs one entry point; name identifies it in signatures.
func c07Call(c *fw.Ctx, name string, input string, f func() (interface{}, error)) {
	var err error
	var out interface{}
	p, st := fw.Guard(func() { out, err = f() })
	c.Inc("calls")
	c.Eval()
	if p != nil {
		c.Fail("escaped-panic:"+name, map[string]interface{}{"entry": name, "input": input, "panic": fmt.Sprint(p), "stack": short(st, 2500)})
		return
	}
	if err != nil {
		c.Inc("outcome.error")
	} else {
		c.Inc("outcome.value")
	}
	_ = out
}

func c07AllEntryPoints(c *fw.Ctx, in []byte, family string) {
	desc := hexs(in)
	if len(in) > 64 && !strings.HasPrefix(family, "mutated") {
		desc = fmt.Sprintf("%s… (%d bytes)", hexs(in[:64]), len(in))
	}
	c.Note("C07 %s input %s", family, desc)
	c.Inc("inputs")
	c.Inc("family." + family)
	if c.WantSample() && len(in) >= 2 {
		c.Sample(map[string]interface{}{"family": family, "input_hex": desc, "entry_points_called": "all (see rule)"})
	}
	if len(in) >= 2 {
		c.Distinct(string(in))
	}
	cfgs := []*configuration.Configuration{configuration.New(), configuration.New()}
	cfgs[1].Marshal.EnforceRules = false
	tmpls := c07Templates()
	pick := c.Rng.Intn(len(tmpls))
	for ci, cfg := range cfgs {
		for ti, tmpl := range tmpls {
			// every template with the default configuration, one with rules off (cost)
			if ci == 1 && ti != pick && ti != 0 {
				continue
			}
			tag := fmt.Sprintf("cfg%d.tmpl%d", ci, ti)
			c.Region("unmarshal-" + tag)
			tmpl := tmpl
			cfg := cfg
			c07Call(c, "UnmarshalFromCEDocument", desc, func() (interface{}, error) { return ce.UnmarshalFromCEDocument(in, tmpl, cfg) })
			c07Call(c, "UnmarshalFromCBEDocument", desc, func() (interface{}, error) { return ce.UnmarshalFromCBEDocument(in, tmpl, cfg) })
			c07Call(c, "UnmarshalFromCTEDocument", desc, func() (interface{}, error) { return ce.UnmarshalFromCTEDocument(in, tmpl, cfg) })
			if ti == pick || ti == 0 {
				c07Call(c, "UnmarshalCE", desc, func() (interface{}, error) { return ce.UnmarshalCE(bytes.NewReader(in), tmpl, cfg) })
				c07Call(c, "UnmarshalCBE", desc, func() (interface{}, error) { return ce.UnmarshalCBE(bytes.NewReader(in), tmpl, cfg) })
				c07Call(c, "UnmarshalCTE", desc, func() (interface{}, error) { return ce.UnmarshalCTE(bytes.NewReader(in), tmpl, cfg) })
			}
		}
	}
	cfg := configuration.New()
	decs := map[string]func() ce.Decoder{"CE": func() ce.Decoder { return ce.NewCEDecoder(cfg) }, "CBE": func() ce.Decoder { return ce.NewCBEDecoder(cfg) }, "CTE": func() ce.Decoder { return ce.NewCTEDecoder(cfg) }}
	for _, dn := range []string{"CE", "CBE", "CTE"} {
		mk := decs[dn]
		rcvs := map[string]func() events.DataEventReceiver{
			"rules+null":    func() events.DataEventReceiver { return rules.NewRules(nullevent.NewNullEventReceiver(), cfg) },
			"rules+builder": func() events.DataEventReceiver { return rules.NewRules(c07Builder(cfg), cfg) },
			"bare-builder":  func() events.DataEventReceiver { return c07Builder(cfg) },
			"recorder":      func() events.DataEventReceiver { return &ev.Recorder{} },
		}
		for _, rn := range []string{"rules+null", "rules+builder", "bare-builder", "recorder"} {
			mkr := rcvs[rn]
			c.Region("decode-" + dn + "-" + rn)
			c07Call(c, "New"+dn+"Decoder.DecodeDocument("+rn+")", desc, func() (interface{}, error) { return nil, mk().DecodeDocument(in, mkr()) })
			c07Call(c, "New"+dn+"Decoder.Decode("+rn+")", desc, func() (interface{}, error) { return nil, mk().Decode(bytes.NewReader(in), mkr()) })
		}
	}
}

func c07Builder(cfg *configuration.Configuration) events.DataEventReceiver {
	// the builder the unmarshalers use, reached through the public unmarshaler API only indirectly; here via a marshaler-free path
	return newUntypedBuilder(cfg)
}

func c07Inflated(c *fw.Ctx) []byte {
	r := c.Rng
	huge := [][]byte{{0xfe, 0xff, 0xff, 0xff, 0x0f}, {0x80, 0x80, 0x80, 0x80, 0x08}, {0xfe, 0xff, 0xff, 0xff, 0xff, 0xff, 0xff, 0xff, 0x7f}, {0xfe, 0xff, 0xff, 0xff, 0xff, 0xff, 0xff, 0xff, 0xff, 0x01},
		{0x80, 0x80, 0x80, 0x80, 0x80, 0x80, 0x80, 0x80, 0x80, 0x80, 0x80, 0x80, 0x01}, {0xfe, 0xff, 0x3f}, {0xfe, 0xff, 0xff, 0x7f}}
	h := huge[r.Intn(len(huge))]
	pre := []byte{0x81, 0x00}
	var body []byte
	switch r.Intn(12) {
	case 0:
		body = append([]byte{0x90}, h...) // string
	case 1:
		body = append([]byte{0x91}, h...) // rid
	case 2:
		body = append([]byte{0x93}, h...) // u8 array
	case 3:
		body = append([]byte{0x94}, h...) // bit array
	case 4:
		body = append([]byte{0x7f, byte(0xe0 + r.Intn(11))}, h...) // typed arrays plane 7f
	case 5:
		body = append([]byte{0x7f, 0xf3}, h...) // media type length
	case 6:
		body = append(append([]byte{0x7f, 0xf3, 0x03, 'a', '/', 'b'}, h...)) // media data chunk
	case 7:
		body = append([]byte{0x66}, h...) // big int length
	case 8:
		body = append(append([]byte{0x92}, 0x01), h...) // custom type chunk
	case 9:
		body = append([]byte{0x7f, 0xf0}, h...) // marker identifier length
	case 10:
		body = append([]byte{0x96}, h...) // record identifier length
	default:
		body = append([]byte{0x7f, 0xf2}, h...) // remote ref
	}
	doc := append(pre, body...)
	doc = append(doc, gen.RandBytes(r, r.Intn(8))...)
	if r.Intn(3) == 0 {
		// real payload behind the lying length, so that the reader's buffer fills up once or several times before the input ends
		n := []int{100, 126, 127, 128, 129, 200, 255, 256, 1000, 5000, 70000}[r.Intn(11)]
		doc = append(append(pre[:2:2], body...), bytes.Repeat([]byte{'a'}, n)...)
	}
	if r.Intn(3) == 0 {
		doc = append([]byte{0x81, 0x00, 0x9a}, append(body, 0x9b)...)
	}
	return doc
}

func c07Deep(c *fw.Ctx, which int) []byte {
	switch which {
	case 0:
		n := 200000
		return append([]byte{0x81, 0x00}, bytes.Repeat([]byte{0x9a}, n)...)
	case 1:
		n := 100000
		d := append([]byte{0x81, 0x00}, bytes.Repeat([]byte{0x99, 0x01}, n)...)
		return d
	case 2:
		return []byte("c0 " + strings.Repeat("[", 20000))
	case 3:
		return []byte("c0 " + strings.Repeat("{1=", 10000))
	case 4:
		return []byte("c0 " + strings.Repeat("(1 ", 10000))
	default:
		return append([]byte{0x81, 0x00}, bytes.Repeat([]byte{0x98, 0x01}, 100000)...)
	}
}

var c07Tokens = []string{"c0", "C0", "c1", " ", "\n", "[", "]", "{", "}", "(", ")", "<", ">", "=", "@", "&a:", "$a", "$\"", "\"", "\\", "\\.", "\\[", "1", "-", "0x", "0b", "0o", "1.5", "e+", "nan", "snan", "inf", "-inf", "null", "true", "false",
	"@u8[", "@u16x[", "@f32[", "@b[", "@uid[", "@a/b[", "@\"", "2000-01-01", "12:00:00", "/E/Paris", "/1.5/2", "+0100", "//", "/*", "*/", "|", "a", "_", "é", "\x00", "\xff", "00000000-0000-0000-0000-000000000000", "@a<", "@a{", "@("}

func runC07(c *fw.Ctx, idx int) {
	switch {
	case idx < c07OneByteCases:
		if idx == 0 {
			c07AllEntryPoints(c, []byte{}, "empty")
			c07AllEntryPoints(c, nil, "empty")
		}
		for b := idx * 64; b < idx*64+64; b++ {
			c07AllEntryPoints(c, []byte{byte(b)}, "one-byte")
		}
		return
	case idx < c07OneByteCases+c07TwoByteCases:
		blk := idx - c07OneByteCases
		if c.Tier != "thorough" && blk%16 != int(c.Seed)%16 {
			return
		}
		for k := blk * 128; k < blk*128+128; k++ {
			in := []byte{byte(k >> 8), byte(k)}
			c07AllEntryPoints(c, in, "two-byte")
			if k%16 == 0 {
				c07AllEntryPoints(c, append([]byte{0x81, 0x00}, in...), "cbe-header+two-byte")
				c07AllEntryPoints(c, append([]byte("c0 "), in...), "cte-header+two-byte")
			}
		}
		return
	}
	r := c.Rng
	cfg := configuration.New()
	validDoc := func(cte bool) []byte {
		for tries := 0; tries < 5; tries++ {
			o := cbeStreamOpts(c)
			if cte {
				o = cteStreamOpts(c)
				o.MaxComments = 2
			}
			o.Size = 5 + r.Intn(25)
			o.MaxArrayLen = 20
			in := gen.Stream(r, o)
			var doc []byte
			var fi int
			if cte {
				doc, fi, _ = encodeWithRules(ce.NewCTEEncoder(cfg), in, cfg)
			} else {
				doc, fi, _ = encodeWithRules(ce.NewCBEEncoder(cfg), in, cfg)
			}
			if fi < 0 && len(doc) <= 512 {
				return doc
			}
		}
		if cte {
			return []byte("c0\n[1 2 3]")
		}
		return []byte{0x81, 0x00, 0x9a, 0x01, 0x9b}
	}
	switch k := (idx - c07OneByteCases - c07TwoByteCases) % 12; k {
	case 0:
		n := r.Intn(64)
		c07AllEntryPoints(c, gen.RandBytes(r, n), "random")
		c07AllEntryPoints(c, append([]byte{0x81, 0x00}, gen.RandBytes(r, n)...), "random-after-cbe-header")
		c07AllEntryPoints(c, append([]byte("c0 "), gen.RandBytes(r, n)...), "random-after-cte-header")
	case 1, 2:
		c07AllEntryPoints(c, mutateBytes(c, validDoc(false)), "mutated-cbe")
	case 3, 4:
		c07AllEntryPoints(c, mutateBytes(c, validDoc(true)), "mutated-cte")
	case 5:
		d := validDoc(r.Intn(2) == 0)
		if len(d) > 3 {
			c07AllEntryPoints(c, d[:1+r.Intn(len(d)-1)], "truncated")
		}
	case 6:
		c07AllEntryPoints(c, c07Inflated(c), "inflated")
	case 7:
		var sb strings.Builder
		sb.WriteString("c0 ")
		for i := r.Intn(24); i >= 0; i-- {
			sb.WriteString(c07Tokens[r.Intn(len(c07Tokens))])
			if r.Intn(3) == 0 {
				sb.WriteByte(' ')
			}
		}
		c07AllEntryPoints(c, []byte(sb.String()), "cte-token-soup")
	case 8:
		// deep nesting only on a few cases (expensive)
		n := (idx - c07OneByteCases - c07TwoByteCases) / 12
		if n < 6 {
			c07AllEntryPoints(c, c07Deep(c, n), "deep")
		} else {
			c07AllEntryPoints(c, validDoc(r.Intn(2) == 0), "valid")
		}
	case 9:
		if (idx-c07OneByteCases-c07TwoByteCases)/12 == 0 {
			c07BigFloatProbe(c)
			return
		}
		c07Numbers(c)
	case 10:
		if (idx-c07OneByteCases-c07TwoByteCases)/12%3 == 0 {
			c07Recursive(c)
			return
		}
		c07LowLimits(c)
	default:
		c07Marshal(c)
	}
}

type c07Writer struct{ n int }

func (w *c07Writer) Write(p []byte) (int, error) { w.n += len(p); return len(p), nil }

func c07Marshal(c *fw.Ctx) {
	r := c.Rng
	var v interface{}
	desc := ""
	if r.Intn(2) == 0 {
		u := gen.UnsupportedValues()
		k := r.Intn(len(u))
		v = u[k]
		desc = fmt.Sprintf("unsupported#%d %T", k, v)
	} else {
		d := 1 + r.Intn(3)
		t := gen.RandType(r, d, gen.TypeOpts{})
		v = gen.RandValue(r, t, d).Interface()
		desc = short(gen.Render(v), 400)
	}
	c.Note("C07 marshal %s", desc)
	c.Inc("inputs")
	c.Inc("family.marshal")
	c.Distinct("marshal:" + desc)
	for ci := 0; ci < 2; ci++ {
		cfg := configuration.New()
		if ci == 1 {
			cfg.Iterator.RecursionSupport = true
		}
		c.Region(fmt.Sprintf("marshal-cfg%d", ci))
		c07Call(c, "MarshalToCBEDocument", desc, func() (interface{}, error) { return ce.MarshalToCBEDocument(v, cfg) })
		c07Call(c, "MarshalToCTEDocument", desc, func() (interface{}, error) { return ce.MarshalToCTEDocument(v, cfg) })
		c07Call(c, "MarshalCBE", desc, func() (interface{}, error) { return nil, ce.MarshalCBE(v, &c07Writer{}, cfg) })
		c07Call(c, "MarshalCTE", desc, func() (interface{}, error) { return nil, ce.MarshalCTE(v, io.Discard, cfg) })
		c07Call(c, "NewCBEMarshaler.twice", desc, func() (interface{}, error) {
			m := ce.NewCBEMarshaler(cfg)
			m.MarshalToDocument(v)
			return m.MarshalToDocument(v)
		})
		// the same instance used for the value, a pointer to it and what the pointer points to, in both orders
		// (a failed first use must not leave anything behind that blocks or panics the next one)
		rv := reflect.ValueOf(v)
		var alt interface{}
		if rv.Kind() == reflect.Ptr && !rv.IsNil() {
			alt = rv.Elem().Interface()
		} else {
			p := reflect.New(rv.Type())
			p.Elem().Set(rv)
			alt = p.Interface()
		}
		for oi, order := range [][2]interface{}{{v, alt}, {alt, v}} {
			order := order
			c.Region(fmt.Sprintf("marshal-cfg%d-reuse-value-pointer-order%d", ci, oi))
			c07Call(c, "NewCBEMarshaler.value-then-pointer", desc, func() (interface{}, error) {
				m := ce.NewCBEMarshaler(cfg)
				m.MarshalToDocument(order[0])
				return m.MarshalToDocument(order[1])
			})
			c07Call(c, "NewCTEMarshaler.value-then-pointer", desc, func() (interface{}, error) {
				m := ce.NewCTEMarshaler(cfg)
				m.MarshalToDocument(order[0])
				return m.MarshalToDocument(order[1])
			})
			c07Call(c, "NewCBEUnmarshaler.template-value-then-pointer", desc, func() (interface{}, error) {
				u := ce.NewCBEUnmarshaler(cfg)
				u.UnmarshalFromDocument([]byte{0x81, 0x00, 0x99, 0x9b}, order[0])
				return u.UnmarshalFromDocument([]byte{0x81, 0x00, 0x99, 0x9b}, order[1])
			})
			c07Call(c, "NewCTEUnmarshaler.template-value-then-pointer", desc, func() (interface{}, error) {
				u := ce.NewCTEUnmarshaler(cfg)
				u.UnmarshalFromDocument([]byte("c0 {}"), order[0])
				return u.UnmarshalFromDocument([]byte("c0 {}"), order[1])
			})
		}
		c.Region(fmt.Sprintf("marshal-cfg%d", ci))
		// and as a template for unmarshal
		c07Call(c, "UnmarshalFromCBEDocument(template)", desc, func() (interface{}, error) {
			return ce.UnmarshalFromCBEDocument([]byte{0x81, 0x00, 0x9a, 0x01, 0x9b}, v, cfg)
		})
		c07Call(c, "UnmarshalFromCTEDocument(template)", desc, func() (interface{}, error) { return ce.UnmarshalFromCTEDocument([]byte("c0 {\"a\"=1}"), v, cfg) })
	}
}
