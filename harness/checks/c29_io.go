package checks

import (
	"bytes"
	"errors"
	"fmt"
	"io"
)

// Fault-injecting io.Writer / io.Reader wrappers for C29.

var c29ErrInjected = errors.New("verif: injected I/O failure")

// c29Fault fails I/O call number At (counting Write and WriteString, or Read, calls from 0).
type c29Fault struct {
	At   int
	Kind string // "error": (0, err) | "unexpected-eof": (0, io.ErrUnexpectedEOF) | "partial": (n>0 when possible, err) | "short-write": (n<len, io.ErrShortWrite)
}

func (f c29Fault) String() string { return fmt.Sprintf("%s@%d", f.Kind, f.At) }

func (f c29Fault) err() error {
	switch f.Kind {
	case "unexpected-eof":
		return io.ErrUnexpectedEOF
	case "short-write":
		return io.ErrShortWrite
	}
	return c29ErrInjected
}

// c29Plan is a set of faults; Sticky makes every call after the first failing one fail too (a dead device),
// otherwise only the listed calls fail (a transient failure: the harshest case for code that overwrites an error).
type c29Plan struct {
	Faults []c29Fault
	Sticky bool
}

func (p c29Plan) String() string {
	s := ""
	for _, f := range p.Faults {
		s += f.String() + " "
	}
	if p.Sticky {
		s += "sticky"
	} else {
		s += "one-shot"
	}
	return s
}

func (p c29Plan) at(call int) (c29Fault, bool) {
	for _, f := range p.Faults {
		if f.At == call {
			return f, true
		}
	}
	return c29Fault{}, false
}

// c29Writer is an io.Writer that is NOT an io.StringWriter.
type c29Writer struct {
	buf       bytes.Buffer
	plan      c29Plan
	Calls     int
	Triggered int
	dead      error
}

func (w *c29Writer) write(b []byte) (int, error) {
	call := w.Calls
	w.Calls++
	if w.dead != nil {
		w.Triggered++
		return 0, w.dead
	}
	if f, ok := w.plan.at(call); ok {
		w.Triggered++
		if w.plan.Sticky {
			w.dead = f.err()
		}
		n := 0
		if f.Kind == "partial" || f.Kind == "short-write" {
			n = len(b) / 2
			w.buf.Write(b[:n])
		}
		return n, f.err()
	}
	return w.buf.Write(b)
}

func (w *c29Writer) Write(b []byte) (int, error) { return w.write(b) }

// c29StringWriter additionally implements io.StringWriter (the encoders pick that path when it exists).
type c29StringWriter struct {
	c29Writer
	StringCalls int
}

func (w *c29StringWriter) WriteString(s string) (int, error) {
	w.StringCalls++
	return w.write([]byte(s))
}

// c29Reader delivers data in parts of at most chunk bytes (0 = whatever is asked) and fails according to plan.
type c29Reader struct {
	data      []byte
	pos       int
	chunk     int
	plan      c29Plan
	Calls     int
	Triggered int
	dead      error
}

func (r *c29Reader) Read(p []byte) (int, error) {
	call := r.Calls
	r.Calls++
	if r.dead != nil {
		r.Triggered++
		return 0, r.dead
	}
	n := len(p)
	if r.chunk > 0 && n > r.chunk {
		n = r.chunk
	}
	if avail := len(r.data) - r.pos; n > avail {
		n = avail
	}
	if f, ok := r.plan.at(call); ok {
		r.Triggered++
		if r.plan.Sticky {
			r.dead = f.err()
		}
		if f.Kind == "partial" && n > 0 {
			copy(p, r.data[r.pos:r.pos+n])
			r.pos += n
			return n, f.err()
		}
		return 0, f.err()
	}
	if n == 0 && len(p) > 0 {
		return 0, io.EOF
	}
	copy(p, r.data[r.pos:r.pos+n])
	r.pos += n
	return n, nil
}
