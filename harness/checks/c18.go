package checks

// C18 — marshaling never modifies the value being marshaled.
//
// One case = one Go value (directed: every big number of a sign/width table in every kind of
// holder; then PRNG object graphs). The value is snapshotted (c18_snapshot.go), marshaled with
// ce.MarshalToCBEDocument / ce.MarshalToCTEDocument with recursion support off and on, and
// snapshotted again after every call. Oracle: identical snapshots and identical raw addresses.

import (
	"errors"
	"fmt"
	"math"
	"math/big"
	"math/rand"
	"net/url"
	"strings"
	"time"

	"github.com/cockroachdb/apd/v2"
	compact_float "github.com/kstenerud/go-compact-float"
	compact_time "github.com/kstenerud/go-compact-time"
	"github.com/kstenerud/go-concise-encoding/ce"
	"github.com/kstenerud/go-concise-encoding/configuration"
	"github.com/kstenerud/go-concise-encoding/types"

	"verifharness/ev"
	"verifharness/fw"
)

func init() {
	fw.Register(&fw.Check{
		ID:    "C18",
		Level: "exploration",
		Rule: "case = one Go value: directed = each of a table of big.Int (every sign x CBE width class incl. (-2^64,-2^63]), big.Float and apd.Decimal values " +
			"(signs, zero/-0, inf, NaNs, precisions, rounding modes) in each of 12 holders (top-level pointer, pointer field, value field, []*T, []T, []interface{}, " +
			"map[string]interface{}, map[string]*T, interface field, **T, shared pointer twice, top-level value); then PRNG object graphs over a struct with 40 field " +
			"kinds (scalars, strings, big numbers by pointer and by value, times, URLs, UIDs, media, typed slices with spare capacity, arrays, interfaces, maps, " +
			"pointer sharing, cycles when recursion support is on). One evaluation = one ce.MarshalToCBEDocument / ce.MarshalToCTEDocument call " +
			"(RecursionSupport off/on, random field-name style and omit behaviour) bracketed by deep snapshots of everything reachable (unexported fields of " +
			"big.Int/big.Float/apd.Decimal/time.Time included, slices up to cap, maps sorted, pointer identity graph + raw addresses), followed by the same marshal through ce.MarshalCBE/MarshalCTE " +
			"into a writer that fails at byte offset k (directed values: every k up to 96; graphs: three random k), each followed by another snapshot. Oracle: snapshots identical. " +
			"Non-trivial = the value reaches at least one pointer-held big number or at least 5 pointers/slices/maps; distinct = distinct value recipes.",
		Assumptions: []string{
			"only the state after Marshal returns is compared (a modification undone before returning is not observable here)",
			"values contain only kinds the marshaler supports (no chan/func/complex); cyclic graphs are marshaled only with RecursionSupport on",
			"*time.Location contents are process-wide lazily initialised state and are compared by identity only",
		},
		Cases: func(tier string) int { return c18DirectedCount() + tierN(tier, 10000, 150000) },
		Run:   runC18,
		Floors: func(string) map[string]int64 {
			m := map[string]int64{"marshal.ok.cbe": 5000, "marshal.ok.cte": 5000, "recursion.on": 5000, "recursion.off": 5000,
				"snapshot.compared": 20000, "bigint.class.neg-65bit": 24, "bigint.class.neg-64bit": 12, "bigint.class.neg-gt65bit": 12, "bigint.class.pos-65bit": 12,
				"bigfloat.class.not-float64": 12, "bigfloat.class.neg": 12, "bigdec.class.neg": 12, "bigdec.class.special": 12, "graph.cyclic": 50, "graph.shared-pointer": 200}
			for _, h := range c18Holders {
				m["holder."+h] = 30
			}
			return m
		},
	})
}

// ---------------------------------------------------------------------------------------------
// number tables (recipes are strings so that a failing case is self-describing)

type c18Num struct {
	Kind  string // bigint bigfloat bigdec
	Desc  string
	Class string
	Make  func() interface{} // fresh *big.Int / *big.Float / *apd.Decimal
}

func c18BigIntClass(x *big.Int) string {
	sign := "pos"
	if x.Sign() < 0 {
		sign = "neg"
	} else if x.Sign() == 0 {
		return "zero"
	}
	bl := new(big.Int).Abs(x).BitLen()
	// the negative value -2^63 has a 64-bit magnitude and still is an int64; (-2^64,-2^63) is the reported range
	switch {
	case bl <= 63:
		return sign + "-le63bit"
	case bl == 64:
		if sign == "neg" && x.IsInt64() {
			return "neg-64bit"
		}
		if sign == "neg" {
			return "neg-65bit" // needs 65 bits in two's complement: (-2^64, -2^63)
		}
		return "pos-64bit"
	case bl == 65:
		return sign + "-65bit"
	}
	return sign + "-gt65bit"
}

func c18Nums() []c18Num {
	var out []c18Num
	one := big.NewInt(1)
	addInt := func(x *big.Int) {
		c := new(big.Int).Set(x)
		out = append(out, c18Num{"bigint", "big.Int " + c.String(), c18BigIntClass(c), func() interface{} { return new(big.Int).Set(c) }})
	}
	for _, k := range []uint{0, 6, 7, 8, 16, 32, 48, 56, 62, 63, 64, 65, 100, 200} {
		p := new(big.Int).Lsh(one, k)
		for _, d := range []int64{-1, 0, 1} {
			x := new(big.Int).Add(p, big.NewInt(d))
			addInt(x)
			addInt(new(big.Int).Neg(x))
		}
	}
	for _, s := range []string{"100", "101", "-100", "-101", "-9223372036854775809", "-12297829382473034410", "-18446744073709551615", "-18446744073709551614",
		"-13835058055282163712", "-9223372036854775810", "-16045690984503098046", "18446744073709551615", "-340282366920938463463374607431768211455"} {
		x, _ := new(big.Int).SetString(s, 10)
		addInt(x)
	}
	addFloat := func(desc, class string, mk func() *big.Float) {
		out = append(out, c18Num{"bigfloat", "big.Float " + desc, class, func() interface{} { return mk() }})
	}
	parse := func(s string, prec uint, mode big.RoundingMode) func() *big.Float {
		return func() *big.Float {
			f, _, err := big.ParseFloat(s, 0, prec, mode)
			if err != nil {
				panic(err)
			}
			return f
		}
	}
	for _, neg := range []bool{false, true} {
		sg, cl := "", "pos"
		if neg {
			sg, cl = "-", "neg"
		}
		addFloat(sg+"0", cl, func() *big.Float {
			f := new(big.Float)
			if neg {
				f.Neg(f)
			}
			return f
		})
		addFloat(sg+"inf", cl, func() *big.Float { return new(big.Float).SetInf(neg) })
		addFloat(sg+"1.5 prec53", cl, parse(sg+"1.5", 53, big.ToNearestEven))
		addFloat(sg+"1.5 prec2 toZero", cl, parse(sg+"1.5", 2, big.ToZero))
		addFloat(sg+"0x1.23456789abcdef0123p+10 prec80", "not-float64", parse(sg+"0x1.23456789abcdef0123p+10", 80, big.ToNearestEven))
		addFloat(sg+"1/3 prec200 awayFromZero", "not-float64", func() *big.Float {
			f := new(big.Float).SetPrec(200).SetMode(big.AwayFromZero)
			f.Quo(big.NewFloat(1), big.NewFloat(3))
			if neg {
				f.Neg(f)
			}
			return f
		})
		addFloat(sg+"1e-400 prec64", "not-float64", parse(sg+"1e-400", 64, big.ToNearestEven))
		addFloat(sg+"1e400 prec64", "not-float64", parse(sg+"1e400", 64, big.ToPositiveInf))
		addFloat(sg+"2^100 prec1", cl, parse(sg+"0x1p100", 1, big.ToNearestEven))
		addFloat(sg+"9007199254740993 prec64", "not-float64", parse(sg+"9007199254740993", 64, big.ToNearestEven))
		addFloat(sg+"4.9e-324 prec53", cl, parse(sg+"0x1p-1074", 53, big.ToNearestEven))
	}
	addDec := func(desc, class string, mk func() *apd.Decimal) {
		out = append(out, c18Num{"bigdec", "apd.Decimal " + desc, class, func() interface{} { return mk() }})
	}
	dec := func(s string) func() *apd.Decimal {
		return func() *apd.Decimal {
			d, _, err := apd.NewFromString(s)
			if err != nil {
				panic(err)
			}
			return d
		}
	}
	for _, neg := range []bool{false, true} {
		sg, cl := "", "pos"
		if neg {
			sg, cl = "-", "neg"
		}
		for _, s := range []string{"0", "1.5", "1e100", "12345678901234567890123456789.0123456789", "1e-300", "100000000000000000000000000000", "9223372036854775808", "18446744073709551616e5", "0.000", "7e0"} {
			addDec(sg+s, cl, dec(sg+s))
		}
		addDec(sg+"Infinity", "special", dec(sg+"Infinity"))
		addDec(sg+"NaN", "special", dec(sg+"NaN"))
		addDec(sg+"sNaN", "special", dec(sg+"sNaN"))
		// coefficient with trailing zeros and positive exponent, built directly (not normalised by the parser)
		addDec(sg+"coeff 1200 exp 3", cl, func() *apd.Decimal { d := apd.New(1200, 3); d.Negative = neg; return d })
		addDec(sg+"coeff 2^70 exp -2", cl, func() *apd.Decimal {
			d := apd.NewWithBigInt(new(big.Int).Lsh(big.NewInt(1), 70), -2)
			d.Negative = neg
			return d
		})
		// a coefficient that itself holds a negative big.Int (apd leaves the result of arithmetic on it open; marshaling must still leave it alone)
		addDec(sg+"coeff -12345 (negative big.Int) exp -2", cl, func() *apd.Decimal {
			d := apd.New(0, -2)
			d.Coeff.SetInt64(-12345)
			d.Negative = neg
			return d
		})
		addDec(sg+"coeff -2^80 (negative big.Int) exp 1", cl, func() *apd.Decimal {
			d := apd.New(0, 1)
			d.Coeff.Neg(new(big.Int).Lsh(big.NewInt(1), 80))
			d.Negative = neg
			return d
		})
	}
	return out
}

var c18NumTable = c18Nums()

var c18Holders = []string{"top-pointer", "pointer-field", "value-field", "slice-of-pointers", "slice-of-values", "slice-of-interfaces", "map-of-interfaces",
	"map-of-pointers", "interface-field", "pointer-to-pointer", "shared-pointer", "top-value"}

func c18DirectedCount() int { return len(c18NumTable) * len(c18Holders) }

type c18HoldInt struct {
	Name string
	P    *big.Int
	V    big.Int
	Any  interface{}
	PP   **big.Int
	Tail int
}
type c18HoldFloat struct {
	Name string
	P    *big.Float
	V    big.Float
	Any  interface{}
	PP   **big.Float
	Tail int
}
type c18HoldDec struct {
	Name string
	P    *apd.Decimal
	V    apd.Decimal
	Any  interface{}
	PP   **apd.Decimal
	Tail int
}

// c18Hold places a fresh number in a holder and returns the root handed to Marshal.
func c18Hold(n c18Num, holder string) interface{} {
	p := n.Make()
	switch x := p.(type) {
	case *big.Int:
		switch holder {
		case "top-pointer":
			return x
		case "top-value":
			return *x
		case "pointer-field":
			return &c18HoldInt{Name: "a", P: x, Tail: 7}
		case "value-field":
			return &c18HoldInt{Name: "a", V: *x, Tail: 7}
		case "slice-of-pointers":
			return []*big.Int{big.NewInt(1), x, nil, x}
		case "slice-of-values":
			return []big.Int{*big.NewInt(1), *x}
		case "slice-of-interfaces":
			return []interface{}{"s", x, 1}
		case "map-of-interfaces":
			return map[string]interface{}{"k": x, "j": 5}
		case "map-of-pointers":
			return map[string]*big.Int{"k": x, "n": nil}
		case "interface-field":
			return &c18HoldInt{Name: "a", Any: x}
		case "pointer-to-pointer":
			return &c18HoldInt{Name: "a", PP: &x}
		case "shared-pointer":
			return &c18HoldInt{Name: "a", P: x, Any: x, PP: &x}
		}
	case *big.Float:
		switch holder {
		case "top-pointer":
			return x
		case "top-value":
			return *x
		case "pointer-field":
			return &c18HoldFloat{Name: "a", P: x, Tail: 7}
		case "value-field":
			return &c18HoldFloat{Name: "a", V: *x, Tail: 7}
		case "slice-of-pointers":
			return []*big.Float{big.NewFloat(1), x, nil, x}
		case "slice-of-values":
			return []big.Float{*big.NewFloat(1), *x}
		case "slice-of-interfaces":
			return []interface{}{"s", x, 1}
		case "map-of-interfaces":
			return map[string]interface{}{"k": x, "j": 5}
		case "map-of-pointers":
			return map[string]*big.Float{"k": x, "n": nil}
		case "interface-field":
			return &c18HoldFloat{Name: "a", Any: x}
		case "pointer-to-pointer":
			return &c18HoldFloat{Name: "a", PP: &x}
		case "shared-pointer":
			return &c18HoldFloat{Name: "a", P: x, Any: x, PP: &x}
		}
	case *apd.Decimal:
		switch holder {
		case "top-pointer":
			return x
		case "top-value":
			return *x
		case "pointer-field":
			return &c18HoldDec{Name: "a", P: x, Tail: 7}
		case "value-field":
			return &c18HoldDec{Name: "a", V: *x, Tail: 7}
		case "slice-of-pointers":
			return []*apd.Decimal{apd.New(1, 0), x, nil, x}
		case "slice-of-values":
			return []apd.Decimal{*apd.New(1, 0), *x}
		case "slice-of-interfaces":
			return []interface{}{"s", x, 1}
		case "map-of-interfaces":
			return map[string]interface{}{"k": x, "j": 5}
		case "map-of-pointers":
			return map[string]*apd.Decimal{"k": x, "n": nil}
		case "interface-field":
			return &c18HoldDec{Name: "a", Any: x}
		case "pointer-to-pointer":
			return &c18HoldDec{Name: "a", PP: &x}
		case "shared-pointer":
			return &c18HoldDec{Name: "a", P: x, Any: x, PP: &x}
		}
	}
	panic("harness: unknown holder " + holder)
}

// ---------------------------------------------------------------------------------------------
// random object graphs

type c18Node struct {
	B     bool
	I8    int8
	I64   int64
	U16   uint16
	U64   uint64
	F32   float32
	F64   float64
	S     string
	BI    *big.Int
	BF    *big.Float
	BD    *apd.Decimal
	VBI   big.Int
	VBF   big.Float
	VBD   apd.Decimal
	DF    compact_float.DFloat
	T     time.Time
	PT    *time.Time
	CT    compact_time.Time
	PCT   *compact_time.Time
	URL   *url.URL
	VURL  url.URL
	UID   types.UID
	Med   types.Media
	Bytes []byte
	U16s  []uint16
	I32s  []int32
	I64s  []int64
	F32s  []float32
	F64s  []float64
	Bools []bool
	Strs  []string
	Arr   [3]int16
	ArrB  [4]byte
	Any   interface{}
	Anys  []interface{}
	MS    map[string]interface{}
	MI    map[int64]*c18Node
	MBI   map[string]*big.Int
	L     []*c18Node
	P     *c18Node
	PP    **big.Int
	PS    *string
	PI    *int32
	hid   int
}

type c18Gen struct {
	r       *rand.Rand
	bigs    []*big.Int // pool for sharing
	nodes   []*c18Node
	budget  int
	shared  bool
	cyclic  bool
	bigPtrs int
	recipe  strings.Builder
}

func (g *c18Gen) bigInt() *big.Int {
	if len(g.bigs) > 0 && g.r.Intn(4) == 0 {
		g.shared = true
		g.bigPtrs++
		return g.bigs[g.r.Intn(len(g.bigs))]
	}
	var x *big.Int
	switch g.r.Intn(6) {
	case 0:
		x = big.NewInt(int64(g.r.Intn(300) - 150))
	case 1: // (-2^64, -2^63]
		x = new(big.Int).SetUint64(g.r.Uint64() | 1<<63)
		x.Neg(x)
	case 2:
		x = new(big.Int).SetUint64(g.r.Uint64())
		if g.r.Intn(2) == 0 {
			x.Neg(x)
		}
	default:
		x = c19RandBig(g.r, 1+g.r.Intn(200))
		if g.r.Intn(2) == 0 {
			x.Neg(x)
		}
	}
	g.bigs = append(g.bigs, x)
	g.bigPtrs++
	return x
}

func (g *c18Gen) bigFloat() *big.Float {
	g.bigPtrs++
	prec := uint(1 + g.r.Intn(200))
	f := new(big.Float).SetPrec(prec).SetMode(big.RoundingMode(g.r.Intn(6)))
	switch g.r.Intn(6) {
	case 0:
		f.SetInf(g.r.Intn(2) == 0)
	case 1:
		if g.r.Intn(2) == 0 {
			f.Neg(f)
		}
	default:
		m := c19RandBig(g.r, 1+g.r.Intn(150))
		f.SetInt(m)
		f.SetMantExp(f, g.r.Intn(600)-300)
		if g.r.Intn(2) == 0 {
			f.Neg(f)
		}
	}
	return f
}

// compactTime: a third converted from a time.Time, a third built with the package's constructors (every zone kind, dates,
// times, timestamps), a third with the zone struct filled in by hand (only one of the two spellings, both, a spelling with
// another zone type) — marshaling must leave whatever it is given alone.
func (g *c18Gen) compactTime() compact_time.Time {
	r := g.r
	areas := []string{"Europe/Berlin", "America/Argentina/Buenos_Aires", "Asia/Tokyo", "Etc/UTC", "Local", "Zero", "E/Paris", "M/Lima", "UTC", "Z", "L"}
	var tz compact_time.Timezone
	switch r.Intn(3) {
	case 0:
		return compact_time.AsCompactTime(g.timeVal())
	case 1:
		switch r.Intn(5) {
		case 0:
			tz = compact_time.TZAtUTC()
		case 1:
			tz = compact_time.TZLocal()
		case 2:
			tz = compact_time.TZAtAreaLocation(areas[r.Intn(len(areas))])
		case 3:
			tz = compact_time.TZAtLatLong(r.Intn(18001)-9000, r.Intn(36001)-18000)
		default:
			tz = compact_time.TZWithMiutesOffsetFromUTC(r.Intn(2879) - 1439)
		}
	default:
		a := areas[r.Intn(len(areas))]
		tz.Type = []compact_time.TimezoneType{compact_time.TimezoneTypeAreaLocation, compact_time.TimezoneTypeAreaLocation, compact_time.TimezoneTypeLocal,
			compact_time.TimezoneTypeUTC, compact_time.TimezoneTypeLatitudeLongitude, compact_time.TimezoneTypeUTCOffset}[r.Intn(6)]
		switch r.Intn(4) {
		case 0:
			tz.LongAreaLocation = a
		case 1:
			tz.ShortAreaLocation = a
		case 2:
			tz.LongAreaLocation, tz.ShortAreaLocation = a, areas[r.Intn(len(areas))]
		}
		if r.Intn(2) == 0 {
			tz.LatitudeHundredths, tz.LongitudeHundredths, tz.MinutesOffsetFromUTC = int16(r.Intn(18001)-9000), int16(r.Intn(36001)-18000), int16(r.Intn(2879)-1439)
		}
	}
	switch r.Intn(3) {
	case 0:
		return compact_time.NewDate(r.Intn(4000)-1000, 1+r.Intn(12), 1+r.Intn(28))
	case 1:
		return compact_time.NewTime(r.Intn(24), r.Intn(60), r.Intn(60), r.Intn(1000000000), tz)
	}
	return compact_time.NewTimestamp(r.Intn(4000)-1000, 1+r.Intn(12), 1+r.Intn(28), r.Intn(24), r.Intn(60), r.Intn(60), r.Intn(1000000000), tz)
}

func (g *c18Gen) bigDec() *apd.Decimal {
	g.bigPtrs++
	d := apd.NewWithBigInt(c19RandBig(g.r, 1+g.r.Intn(150)), int32(g.r.Intn(80)-40))
	switch g.r.Intn(10) {
	case 0:
		d.Form = apd.Infinite
	case 1:
		d.Form = apd.NaN
	case 2:
		d.Form = apd.NaNSignaling
	case 3:
		d.Coeff.SetInt64(0)
	case 4:
		d.Coeff.Mul(&d.Coeff, big.NewInt(1000))
	case 5:
		if g.r.Intn(3) == 0 {
			d.Coeff.Neg(&d.Coeff)
		}
	}
	d.Negative = g.r.Intn(2) == 0
	return d
}

func (g *c18Gen) timeVal() time.Time {
	locs := []*time.Location{time.UTC, time.Local, time.FixedZone("", 3600*(g.r.Intn(25)-12)), time.FixedZone("X", 1800)}
	return time.Date(1+g.r.Intn(4000), time.Month(1+g.r.Intn(12)), 1+g.r.Intn(28), g.r.Intn(24), g.r.Intn(60), g.r.Intn(60), g.r.Intn(1e9), locs[g.r.Intn(len(locs))])
}

func (g *c18Gen) str() string {
	pool := []string{"", "a", "héllo wörld", "line\nbreak", "quote\"s", "日本語", "tab\there", "x\\y", strings.Repeat("z", 40)}
	return pool[g.r.Intn(len(pool))]
}

// spare makes a slice with len n and extra capacity whose spare elements are non-zero
func c18Spare[T any](r *rand.Rand, n int, gen func() T) []T {
	extra := r.Intn(4)
	s := make([]T, 0, n+extra)
	for i := 0; i < n+extra; i++ {
		s = append(s, gen())
	}
	return s[:n]
}

func (g *c18Gen) any(depth int) interface{} {
	if depth < -2 {
		return g.r.Intn(1000)
	}
	switch g.r.Intn(14) {
	case 0:
		return nil
	case 1:
		return g.r.Intn(2) == 0
	case 2:
		return int(g.r.Int63()) >> uint(g.r.Intn(64))
	case 3:
		return g.r.Uint64() >> uint(g.r.Intn(64))
	case 4:
		return gen64(g.r)
	case 5:
		return g.str()
	case 6:
		return g.bigInt()
	case 7:
		return g.bigFloat()
	case 8:
		return g.bigDec()
	case 9:
		return g.timeVal()
	case 10:
		return c18Spare(g.r, g.r.Intn(20), func() byte { return byte(g.r.Intn(256)) })
	case 11:
		if depth > 0 {
			return g.node(depth - 1)
		}
		return *g.bigInt()
	case 12:
		n := g.r.Intn(4)
		l := make([]interface{}, n)
		for i := range l {
			l[i] = g.any(depth - 1)
		}
		return l
	default:
		m := map[string]interface{}{}
		for i, n := 0, g.r.Intn(4); i < n; i++ {
			m[fmt.Sprintf("k%d", g.r.Intn(10))] = g.any(depth - 1)
		}
		return m
	}
}

func gen64(r *rand.Rand) float64 {
	switch r.Intn(6) {
	case 0:
		return math.Inf(1 - 2*r.Intn(2))
	case 1:
		return math.NaN()
	case 2:
		return math.Copysign(0, -1)
	case 3:
		return float64(r.Intn(1000)) / 8
	}
	f := math.Float64frombits(r.Uint64())
	if f != f {
		return 1.25
	}
	return f
}

func (g *c18Gen) node(depth int) *c18Node {
	g.budget--
	n := &c18Node{hid: g.r.Int()}
	g.nodes = append(g.nodes, n)
	on := func() bool { return g.r.Intn(3) == 0 }
	n.B = on()
	n.I8 = int8(g.r.Intn(256) - 128)
	n.I64 = int64(g.r.Uint64()) >> uint(g.r.Intn(64))
	n.U16 = uint16(g.r.Intn(65536))
	n.U64 = g.r.Uint64() >> uint(g.r.Intn(64))
	n.F32 = float32(gen64(g.r))
	n.F64 = gen64(g.r)
	n.S = g.str()
	if on() {
		n.BI = g.bigInt()
	}
	if on() {
		n.BF = g.bigFloat()
	}
	if on() {
		n.BD = g.bigDec()
	}
	if on() {
		n.VBI = *g.bigInt()
	}
	if on() {
		n.VBF = *g.bigFloat()
	}
	if on() {
		n.VBD = *g.bigDec()
	}
	if on() {
		n.DF = compact_float.DFloat{Exponent: int32(g.r.Intn(40) - 20), Coefficient: int64(g.r.Uint64()) >> uint(g.r.Intn(64))}
	}
	if on() {
		n.T = g.timeVal()
	}
	if on() {
		t := g.timeVal()
		n.PT = &t
	}
	if on() {
		n.CT = g.compactTime()
	}
	if on() {
		t := g.compactTime()
		n.PCT = &t
	}
	if on() {
		u, err := url.Parse("https://user:pw@example.com:8080/a/b?q=1&r=" + fmt.Sprint(g.r.Intn(100)) + "#frag")
		if err == nil {
			n.URL = u
			n.VURL = *u
		}
	}
	if on() {
		g.r.Read(n.UID[:])
	}
	n.Med = types.Media{MediaType: "application/x-test"} // (a media value needs a media type to be marshalable at all)
	if on() {
		n.Med.Data = c18Spare(g.r, g.r.Intn(10), func() byte { return byte(g.r.Intn(256)) })
	}
	if on() {
		n.Bytes = c18Spare(g.r, g.r.Intn(40), func() byte { return byte(g.r.Intn(256)) })
	}
	if on() {
		n.U16s = c18Spare(g.r, g.r.Intn(20), func() uint16 { return uint16(g.r.Intn(65536)) })
	}
	if on() {
		n.I32s = c18Spare(g.r, g.r.Intn(20), func() int32 { return int32(g.r.Uint32()) })
	}
	if on() {
		n.I64s = c18Spare(g.r, g.r.Intn(20), func() int64 { return int64(g.r.Uint64()) })
	}
	if on() {
		n.F32s = c18Spare(g.r, g.r.Intn(20), func() float32 { return float32(gen64(g.r)) })
	}
	if on() {
		n.F64s = c18Spare(g.r, g.r.Intn(20), func() float64 { return gen64(g.r) })
	}
	if on() {
		n.Bools = c18Spare(g.r, g.r.Intn(20), func() bool { return g.r.Intn(2) == 0 })
	}
	if on() {
		n.Strs = c18Spare(g.r, g.r.Intn(5), func() string { return g.str() })
	}
	for i := range n.Arr {
		n.Arr[i] = int16(g.r.Intn(65536))
	}
	g.r.Read(n.ArrB[:])
	if on() {
		n.Any = g.any(depth)
	}
	if on() {
		n.Anys = c18Spare(g.r, g.r.Intn(4), func() interface{} { return g.any(depth) })
	}
	if on() {
		n.MS = map[string]interface{}{}
		for i, k := 0, g.r.Intn(4); i < k; i++ {
			n.MS[g.str()+fmt.Sprint(i)] = g.any(depth)
		}
	}
	if on() {
		n.MBI = map[string]*big.Int{}
		for i, k := 0, g.r.Intn(4); i < k; i++ {
			n.MBI[fmt.Sprint("b", i)] = g.bigInt()
		}
	}
	if on() {
		x := g.bigInt()
		n.PP = &x
	}
	if on() {
		s := g.str()
		n.PS = &s
	}
	if on() {
		i := int32(g.r.Uint32())
		n.PI = &i
	}
	if depth > 0 && g.budget > 0 {
		if on() {
			n.P = g.child(depth)
		}
		if on() {
			n.L = c18Spare(g.r, g.r.Intn(3), func() *c18Node { return g.child(depth) })
		}
		if on() {
			n.MI = map[int64]*c18Node{}
			for i, k := 0, g.r.Intn(3); i < k; i++ {
				n.MI[int64(g.r.Intn(100)-50)] = g.child(depth)
			}
		}
	}
	return n
}

// child returns a new node, or (sometimes) an existing one: a shared pointer, possibly closing a cycle.
func (g *c18Gen) child(depth int) *c18Node {
	if g.cyclic && len(g.nodes) > 0 && g.r.Intn(4) == 0 {
		g.shared = true
		return g.nodes[g.r.Intn(len(g.nodes))]
	}
	if g.budget <= 0 {
		return nil
	}
	return g.node(depth - 1)
}

// c18Reaches reports whether node a reaches itself (a cycle exists somewhere below root).
func c18HasCycle(root *c18Node) bool {
	state := map[*c18Node]int{}
	var visit func(n *c18Node) bool
	var visitAny func(x interface{}) bool
	visitAny = func(x interface{}) bool {
		switch v := x.(type) {
		case *c18Node:
			return visit(v)
		case []interface{}:
			for _, e := range v {
				if visitAny(e) {
					return true
				}
			}
		case map[string]interface{}:
			for _, e := range v {
				if visitAny(e) {
					return true
				}
			}
		}
		return false
	}
	visit = func(n *c18Node) bool {
		if n == nil {
			return false
		}
		switch state[n] {
		case 1:
			return true
		case 2:
			return false
		}
		state[n] = 1
		kids := append([]*c18Node{n.P}, n.L[:cap(n.L)]...)
		for _, k := range n.MI {
			kids = append(kids, k)
		}
		for _, k := range kids {
			if visit(k) {
				return true
			}
		}
		if visitAny(n.Any) {
			return true
		}
		for _, e := range n.Anys[:cap(n.Anys)] {
			if visitAny(e) {
				return true
			}
		}
		for _, e := range n.MS {
			if visitAny(e) {
				return true
			}
		}
		state[n] = 2
		return false
	}
	return visit(root)
}

// ---------------------------------------------------------------------------------------------

type c18Combo struct {
	Codec     string
	Recursion bool
}

var c18Combos = []c18Combo{{"cbe", false}, {"cte", false}, {"cbe", true}, {"cte", true}}

func c18Sig(codec string, l c18Line) string {
	ctx := l.Ctx
	if ctx == "" {
		ctx = "(plain)"
	}
	return "modified:" + ctx + "@" + codec
}

// c18FailingWriter accepts failAt bytes in total and fails the Write that would go beyond (after taking what fits).
type c18FailingWriter struct {
	failAt, n int
}

func (w *c18FailingWriter) Write(p []byte) (int, error) {
	if w.n+len(p) > w.failAt {
		k := w.failAt - w.n
		if k < 0 {
			k = 0
		}
		w.n += k
		return k, errors.New("c18: no space left on device")
	}
	w.n += len(p)
	return len(p), nil
}

func runC18(c *fw.Ctx, idx int) {
	var root interface{}
	var recipe string
	cyclic := false
	nontrivial := false
	var build func() interface{}
	if idx < c18DirectedCount() {
		n := c18NumTable[idx/len(c18Holders)]
		h := c18Holders[idx%len(c18Holders)]
		recipe = n.Desc + " in " + h
		build = func() interface{} { return c18Hold(n, h) }
		c.Inc("holder." + h)
		c.Inc(n.Kind + ".class." + n.Class)
		c.Inc("directed")
		nontrivial = true
	} else {
		seed := c.Rng.Int63()
		wantCycle := c.Rng.Intn(5) == 0
		depth := c.Rng.Intn(4)
		recipe = fmt.Sprintf("graph seed=%d depth=%d cyclic=%v", seed, depth, wantCycle)
		var last *c18Gen
		build = func() interface{} {
			g := &c18Gen{r: rand.New(rand.NewSource(seed)), budget: 12, cyclic: wantCycle}
			last = g
			return g.node(depth)
		}
		root = build()
		cyclic = c18HasCycle(root.(*c18Node))
		if cyclic {
			c.Inc("graph.cyclic")
		}
		if last.shared {
			c.Inc("graph.shared-pointer")
		}
		c.Count("graph.nodes", int64(len(last.nodes)))
		c.Count("graph.pointer-held-big-numbers", int64(last.bigPtrs))
		c.Inc("random")
	}
	if root == nil {
		root = build()
	}
	c.Note("C18 %s", recipe)

	before := c18Snapshot(root)
	c.Count("snapshot.lines", int64(len(before.Lines)))
	c.Max("max_snapshot_lines", int64(len(before.Lines)))
	if idx >= c18DirectedCount() {
		nontrivial = len(before.Addrs) >= 5
	}
	if nontrivial {
		c.Distinct(recipe)
	}

	for _, combo := range c18Combos {
		if cyclic && !combo.Recursion {
			c.Inc("dontcare.cyclic-value-without-recursion-support")
			continue
		}
		cfg := configuration.New()
		cfg.Iterator.RecursionSupport = combo.Recursion
		if c.Rng.Intn(3) == 0 {
			cfg.Iterator.FieldNameStyle = configuration.FieldNameCamelCase
		}
		if c.Rng.Intn(3) == 0 {
			cfg.Iterator.DefaultFieldOmitBehavior = []configuration.FieldOmitBehavior{configuration.OmitFieldNever, configuration.OmitFieldEmpty, configuration.OmitFieldZero}[c.Rng.Intn(3)]
		}
		var doc []byte
		var err error
		p, stack := fw.Guard(func() {
			if combo.Codec == "cbe" {
				doc, err = ce.MarshalToCBEDocument(root, cfg)
			} else {
				doc, err = ce.MarshalToCTEDocument(root, cfg)
			}
		})
		c.Eval()
		if combo.Recursion {
			c.Inc("recursion.on")
		} else {
			c.Inc("recursion.off")
		}
		switch {
		case p != nil:
			// an escaped panic is property C07's finding; C18 still compares the snapshots
			c.Inc("marshal.escaped-panic." + combo.Codec)
			c.Fail("escaped-panic:"+combo.Codec, map[string]interface{}{"value": recipe, "panic": ev.PanicString(p), "stack": stack})
		case err != nil:
			c.Inc("marshal.err." + combo.Codec)
			c.Inc("marshal.err-reason." + short(err.Error(), 50))
		default:
			c.Inc("marshal.ok." + combo.Codec)
			c.Count("marshal.bytes", int64(len(doc)))
		}
		after := c18Snapshot(root)
		c.Inc("snapshot.compared")
		at, x, y := c18Diff(before, after)
		if at >= 0 {
			c.Fail(c18Sig(combo.Codec, x), map[string]interface{}{"value": recipe, "codec": combo.Codec, "recursion": combo.Recursion, "path": x.Path,
				"before": x.Val, "after": y.Path + " = " + y.Val, "marshal_err": errStr(err), "doc": hexs(doc)})
			// continue with a fresh value so that the other combinations are judged on their own
			root = build()
			before = c18Snapshot(root)
			continue
		}
		if ai := c18AddrDiff(before, after); ai >= 0 {
			c.Fail("pointer-replaced@"+combo.Codec, map[string]interface{}{"value": recipe, "codec": combo.Codec, "recursion": combo.Recursion, "address_index": ai})
			root = build()
			before = c18Snapshot(root)
			continue
		}
		// the same marshal into a writer that fails at byte offset k (accepting the bytes before it): the value must be left
		// alone on the failure path too. Directed values: every offset up to 96; random graphs: three offsets.
		if err == nil && p == nil && len(doc) > 0 {
			var offsets []int
			if idx < c18DirectedCount() {
				for k := 0; k <= len(doc) && k <= 96; k++ {
					offsets = append(offsets, k)
				}
			} else {
				offsets = []int{c.Rng.Intn(len(doc) + 1), c.Rng.Intn(len(doc) + 1), c.Rng.Intn(len(doc) + 1)}
			}
			damaged := false
			for _, k := range offsets {
				w := &c18FailingWriter{failAt: k}
				var werr error
				wp, _ := fw.Guard(func() {
					if combo.Codec == "cbe" {
						werr = ce.MarshalCBE(root, w, cfg)
					} else {
						werr = ce.MarshalCTE(root, w, cfg)
					}
				})
				c.Inc("failing-writer.marshals")
				if werr != nil || wp != nil {
					c.Inc("failing-writer.failed-as-expected")
				}
				after := c18Snapshot(root)
				if at, x, y := c18Diff(before, after); at >= 0 {
					c.Fail(c18Sig(combo.Codec, x)+"@writer-fails", map[string]interface{}{"value": recipe, "codec": combo.Codec, "recursion": combo.Recursion, "path": x.Path,
						"before": x.Val, "after": y.Path + " = " + y.Val, "writer_fails_at_byte": k, "document_length": len(doc), "marshal_err": errStr(werr)})
					damaged = true
					break
				}
			}
			if damaged {
				root = build()
				before = c18Snapshot(root)
				continue
			}
		}
		if c.WantSample() && nontrivial && c.Rng.Intn(50) == 0 {
			c.Sample(map[string]interface{}{"value": recipe, "codec": combo.Codec, "recursion": combo.Recursion, "snapshot_lines": len(before.Lines),
				"document": short(string(hexs(doc)), 200), "verdict": "unchanged"})
		}
	}
}
