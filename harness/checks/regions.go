package checks

import (
	"math/big"
	"regexp"

	compact_time "github.com/kstenerud/go-compact-time"

	"github.com/cockroachdb/apd/v2"

	"verifharness/ev"
)

// Region predicates used to give failures narrow signatures (and so to scope known findings).

// bigFloatNotFloat64 reports whether a big.Float cannot be carried exactly by a float64.
func bigFloatNotFloat64(f *big.Float) bool {
	if f == nil || f.IsInf() {
		return false
	}
	_, acc := f.Float64()
	return acc != big.Exact
}

// bigFloatRoundedToDecimal reports whether decoded (a canonical number string) is src correctly
// rounded to d significant decimal digits, for some d not much below what src's precision holds.
// This is the documented lossy big.Float -> decimal conversion of both encoders.
func bigFloatRoundedToDecimal(src *big.Float, decoded string) bool {
	if !bigFloatNotFloat64(src) {
		return false
	}
	minDigits := int(src.Prec())*3/10 - 2
	if minDigits < 1 {
		minDigits = 1
	}
	for d := minDigits; d <= minDigits+80; d++ {
		txt := src.Text('e', d-1)
		dec, _, err := apd.NewFromString(txt)
		if err != nil {
			return false
		}
		if ev.NumAPD(dec) == decoded {
			return true
		}
	}
	return false
}

// numMismatchSig classifies a numeric mismatch between input node x (with source log a) and output node y.
func numMismatchSig(a []ev.Event, x, y *ev.Node) string {
	if x == nil || y == nil || x.Tag != "num" || y.Tag != "num" || x.Src < 0 || x.Src >= len(a) {
		return ""
	}
	src := a[x.Src]
	if src.K == ev.BFLOAT && bigFloatRoundedToDecimal(src.BF, y.Val) {
		return "mismatch:num@bigfloat-rounded-to-decimal"
	}
	return ""
}

var cteAreaLocRe = regexp.MustCompile(`^[A-Z][A-Za-z0-9_./+-]*$`)
var cteMediaTypeRe = regexp.MustCompile("^[a-zA-Z][a-zA-Z0-9!#$%&'*+.^_`|~{}-]*/[a-zA-Z0-9!#$%&'*+.^_`|~{}-]+$")

// notCTEExpressible names the first value in a log that the CTE grammar has no spelling for
// (time zone area/location or media type outside the grammar's character set), or "".
func notCTEExpressible(log []ev.Event) string {
	for _, e := range log {
		switch e.K {
		case ev.TIME:
			z := e.T.Timezone
			if e.T.Type != compact_time.TimeTypeDate && z.Type == compact_time.TimezoneTypeAreaLocation {
				if !cteAreaLocRe.MatchString(z.ShortAreaLocation) || !cteAreaLocRe.MatchString(z.LongAreaLocation) {
					return "tz-arealocation-outside-cte-grammar"
				}
			}
		case ev.MEDIA, ev.MBEGIN:
			if !cteMediaTypeRe.MatchString(e.S) {
				return "media-type-outside-cte-grammar"
			}
		case ev.BDFLOAT:
			// the CTE parser reads long decimal floats with apd.NewFromString, which limits exponents to +-100000
			if e.BD != nil && e.BD.Form == 0 {
				adj := int64(e.BD.Exponent) + e.BD.NumDigits() - 1
				if adj > 99999 || adj < -99999 || e.BD.Exponent > 99999 || e.BD.Exponent < -99999 {
					return "decimal-exponent-beyond-cte-parser-limit"
				}
			}
		}
	}
	return ""
}
