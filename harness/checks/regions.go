package checks

import (
	"math/big"

	"github.com/cockroachdb/apd/v2"

	"verifharness/ev"
)

// Region predicates used to give failures narrow signatures (and so to scope known findings).

// bigFloatNotFloat64 reports whether a big.Float cannot be carried exactly by a float64.
func bigFloatNotFloat64(f *big.Float) bool {
	if f == nil || f.IsInf() {
		return false
	}
	_, acc := f.Float64()
	return acc != big.Exact
}

// bigFloatRoundedToDecimal reports whether decoded (a canonical number string) is src correctly
// rounded to d significant decimal digits, for some d not much below what src's precision holds.
// This is the documented lossy big.Float -> decimal conversion of both encoders.
func bigFloatRoundedToDecimal(src *big.Float, decoded string) bool {
	if !bigFloatNotFloat64(src) {
		return false
	}
	minDigits := int(src.Prec())*3/10 - 2
	if minDigits < 1 {
		minDigits = 1
	}
	for d := minDigits; d <= minDigits+80; d++ {
		txt := src.Text('e', d-1)
		dec, _, err := apd.NewFromString(txt)
		if err != nil {
			return false
		}
		if ev.NumAPD(dec) == decoded {
			return true
		}
	}
	return false
}

// numMismatchSig classifies a numeric mismatch between input node x (with source log a) and output node y.
func numMismatchSig(a []ev.Event, x, y *ev.Node) string {
	if x == nil || y == nil || x.Tag != "num" || y.Tag != "num" || x.Src < 0 || x.Src >= len(a) {
		return ""
	}
	src := a[x.Src]
	if src.K == ev.BFLOAT && bigFloatRoundedToDecimal(src.BF, y.Val) {
		return "mismatch:num@bigfloat-rounded-to-decimal"
	}
	return ""
}
