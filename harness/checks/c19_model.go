package checks

// C19 model: exact numeric values, every event form and hand-written CBE/CTE wire form that
// expresses a value, exact reading of what a builder stored. Nothing here calls the library's
// conversion code; big.Rat is the only arithmetic.

import (
	"encoding/binary"
	"fmt"
	"math"
	"math/big"
	"math/rand"
	"reflect"
	"strings"

	"github.com/cockroachdb/apd/v2"
	compact_float "github.com/kstenerud/go-compact-float"

	"verifharness/ev"
)

type c19Class uint8

const (
	c19Finite c19Class = iota
	c19PosInf
	c19NegInf
	c19QNaN
	c19SNaN
)

var c19ClassNames = [...]string{"finite", "+inf", "-inf", "qnan", "snan"}

// c19Val is an exact mathematical value (or a special).
type c19Val struct {
	Class   c19Class
	NegZero bool     // finite zero carrying a minus sign
	R       *big.Rat // finite value
}

func (v c19Val) String() string {
	if v.Class != c19Finite {
		return c19ClassNames[v.Class]
	}
	if v.NegZero {
		return "-0"
	}
	if v.R.IsInt() {
		n := v.R.Num()
		if n.BitLen() > 80 {
			return fmt.Sprintf("%s0x%s", map[bool]string{true: "-", false: ""}[n.Sign() < 0], new(big.Int).Abs(n).Text(16))
		}
		return n.String()
	}
	s := v.R.String()
	if len(s) > 120 {
		if c, e, ok := c19Decimal(v.R); ok && c.BitLen() < 300 {
			return fmt.Sprintf("%se%d", c.String(), e)
		}
		if m, e, ok := c19Dyadic(v.R); ok {
			return fmt.Sprintf("%s*2^%d", m.String(), e)
		}
		return s[:120] + "…"
	}
	return s
}

func c19Int(i *big.Int) c19Val     { return c19Val{R: new(big.Rat).SetInt(i)} }
func c19Int64(i int64) c19Val      { return c19Val{R: new(big.Rat).SetInt64(i)} }
func c19Special(c c19Class) c19Val { return c19Val{Class: c} }

var c19Two = big.NewInt(2)
var c19Five = big.NewInt(5)
var c19Ten = big.NewInt(10)

func c19Pow(base *big.Int, e int) *big.Int {
	return new(big.Int).Exp(base, big.NewInt(int64(e)), nil)
}

// c19Scaled returns ±coeff * 10^e10 * 2^e2 exactly.
func c19Scaled(coeff *big.Int, e10, e2 int) c19Val {
	r := new(big.Rat).SetInt(coeff)
	mul := func(base *big.Int, e int) {
		if e > 0 {
			r.Mul(r, new(big.Rat).SetInt(c19Pow(base, e)))
		} else if e < 0 {
			r.Quo(r, new(big.Rat).SetInt(c19Pow(base, -e)))
		}
	}
	mul(c19Ten, e10)
	mul(c19Two, e2)
	return c19Val{R: r}
}

// c19Dyadic: r = mant * 2^exp2 with mant odd (or zero).
func c19Dyadic(r *big.Rat) (mant *big.Int, exp2 int, ok bool) {
	den := r.Denom()
	k := int(den.TrailingZeroBits())
	if den.BitLen() != k+1 { // not a power of two
		return nil, 0, false
	}
	mant = new(big.Int).Set(r.Num())
	exp2 = -k
	if mant.Sign() == 0 {
		return mant, 0, true
	}
	if k == 0 {
		tz := int(new(big.Int).Abs(mant).TrailingZeroBits())
		mant.Rsh(mant, uint(tz)) // Rsh on negative rounds toward -inf but the dropped bits are zero
		exp2 = tz
	}
	return mant, exp2, true
}

// c19Decimal: r = coeff * 10^exp10 with coeff not divisible by 10 (or zero).
func c19Decimal(r *big.Rat) (coeff *big.Int, exp10 int, ok bool) {
	den := new(big.Int).Set(r.Denom())
	a := int(den.TrailingZeroBits())
	den.Rsh(den, uint(a))
	b := 0
	q, m := new(big.Int), new(big.Int)
	for den.Cmp(big.NewInt(1)) != 0 {
		q.QuoRem(den, c19Five, m)
		if m.Sign() != 0 {
			return nil, 0, false
		}
		den.Set(q)
		b++
		if b > 20000 {
			return nil, 0, false
		}
	}
	scale := a
	if b > scale {
		scale = b
	}
	n := new(big.Int).Mul(r.Num(), c19Pow(c19Ten, scale))
	n.Quo(n, r.Denom())
	exp10 = -scale
	if n.Sign() == 0 {
		return n, 0, true
	}
	for {
		q.QuoRem(n, c19Ten, m)
		if m.Sign() != 0 {
			break
		}
		n.Set(q)
		exp10++
	}
	return n, exp10, true
}

// ---------------------------------------------------------------------------------------------
// exact value of an event / of a stored Go value

func c19FloatVal(f float64) c19Val {
	switch {
	case math.IsNaN(f):
		if math.Float64bits(f)&(1<<51) != 0 {
			return c19Special(c19QNaN)
		}
		return c19Special(c19SNaN)
	case math.IsInf(f, 1):
		return c19Special(c19PosInf)
	case math.IsInf(f, -1):
		return c19Special(c19NegInf)
	}
	r := new(big.Rat)
	r.SetFloat64(f)
	return c19Val{R: r, NegZero: f == 0 && math.Signbit(f)}
}

func c19BigFloatVal(f *big.Float) c19Val {
	if f.IsInf() {
		if f.Signbit() {
			return c19Special(c19NegInf)
		}
		return c19Special(c19PosInf)
	}
	r, _ := f.Rat(nil)
	return c19Val{R: r, NegZero: f.Sign() == 0 && f.Signbit()}
}

func c19APDVal(d *apd.Decimal) c19Val {
	switch d.Form {
	case apd.Infinite:
		if d.Negative {
			return c19Special(c19NegInf)
		}
		return c19Special(c19PosInf)
	case apd.NaN:
		return c19Special(c19QNaN)
	case apd.NaNSignaling:
		return c19Special(c19SNaN)
	}
	c := new(big.Int).Set(&d.Coeff)
	if d.Negative {
		c.Neg(c)
	}
	v := c19Scaled(c, int(d.Exponent), 0)
	v.NegZero = d.Negative && d.Coeff.Sign() == 0
	return v
}

func c19DFloatVal(d compact_float.DFloat) c19Val {
	if d.Exponent == compact_float.ExpSpecial {
		switch d.Coefficient {
		case compact_float.CoeffNegativeZero:
			return c19Val{R: new(big.Rat), NegZero: true}
		case compact_float.CoeffInfinity:
			return c19Special(c19PosInf)
		case compact_float.CoeffNegativeInfinity:
			return c19Special(c19NegInf)
		case compact_float.CoeffNan:
			return c19Special(c19QNaN)
		case compact_float.CoeffSignalingNan:
			return c19Special(c19SNaN)
		}
	}
	return c19Scaled(big.NewInt(d.Coefficient), int(d.Exponent), 0)
}

// c19EventVal gives the exact value a numeric event carries.
func c19EventVal(e ev.Event) (c19Val, bool) {
	switch e.K {
	case ev.PINT:
		return c19Int(new(big.Int).SetUint64(e.U)), true
	case ev.NINT:
		v := c19Int(new(big.Int).Neg(new(big.Int).SetUint64(e.U)))
		v.NegZero = e.U == 0
		return v, true
	case ev.INT:
		return c19Int64(e.I), true
	case ev.BINT:
		return c19Int(e.BI), true
	case ev.FLOAT:
		return c19FloatVal(e.F), true
	case ev.BFLOAT:
		return c19BigFloatVal(e.BF), true
	case ev.DFLOAT:
		return c19DFloatVal(e.DF), true
	case ev.BDFLOAT:
		return c19APDVal(e.BD), true
	case ev.NAN:
		if e.Flag {
			return c19Special(c19SNaN), true
		}
		return c19Special(c19QNaN), true
	}
	return c19Val{}, false
}

func c19IsIntEvent(k ev.Kind) bool {
	return k == ev.PINT || k == ev.NINT || k == ev.INT || k == ev.BINT
}

// c19SameValue compares mathematical values: -0 equals 0, a NaN equals a NaN of either kind.
func c19SameValue(a, b c19Val) bool {
	if a.Class != c19Finite || b.Class != c19Finite {
		an, bn := a.Class == c19QNaN || a.Class == c19SNaN, b.Class == c19QNaN || b.Class == c19SNaN
		if an || bn {
			return an && bn
		}
		return a.Class == b.Class
	}
	return a.R.Cmp(b.R) == 0
}

// c19Stored reads what the builder produced, exactly. kind: int uint float bigint bigfloat.
func c19Stored(obj interface{}) (v c19Val, kind string, ok bool) {
	switch x := obj.(type) {
	case *big.Int:
		if x == nil {
			return v, "nil", false
		}
		return c19Int(x), "bigint", true
	case big.Int:
		return c19Int(&x), "bigint", true
	case *big.Float:
		if x == nil {
			return v, "nil", false
		}
		return c19BigFloatVal(x), "bigfloat", true
	case big.Float:
		return c19BigFloatVal(&x), "bigfloat", true
	case nil:
		return v, "nil", false
	}
	rv := reflect.ValueOf(obj)
	switch rv.Kind() {
	case reflect.Int, reflect.Int8, reflect.Int16, reflect.Int32, reflect.Int64:
		return c19Int64(rv.Int()), "int", true
	case reflect.Uint, reflect.Uint8, reflect.Uint16, reflect.Uint32, reflect.Uint64:
		return c19Int(new(big.Int).SetUint64(rv.Uint())), "uint", true
	case reflect.Float32, reflect.Float64:
		return c19FloatVal(rv.Float()), "float", true
	}
	return v, fmt.Sprintf("%T", obj), false
}

// ---------------------------------------------------------------------------------------------
// destinations

type c19Dst struct {
	Name     string
	Class    string // int uint float bigint bigfloat
	Template interface{}
}

var c19Dsts = []c19Dst{
	{"int8", "int", int8(0)}, {"int16", "int", int16(0)}, {"int32", "int", int32(0)}, {"int64", "int", int64(0)}, {"int", "int", int(0)},
	{"uint8", "uint", uint8(0)}, {"uint16", "uint", uint16(0)}, {"uint32", "uint", uint32(0)}, {"uint64", "uint", uint64(0)}, {"uint", "uint", uint(0)},
	{"float32", "float", float32(0)}, {"float64", "float", float64(0)},
	{"big.Int", "bigint", big.Int{}}, {"*big.Int", "bigint", (*big.Int)(nil)},
	{"big.Float", "bigfloat", big.Float{}}, {"*big.Float", "bigfloat", (*big.Float)(nil)},
}

// ---------------------------------------------------------------------------------------------
// forms

type c19Form struct {
	Name string // e.g. ev.pint, cbe.posint16, cte.hexint
	Path string // ev | cbe | cte
	Ev   ev.Event
	Doc  []byte
}

func c19Uleb(u uint64) []byte {
	var out []byte
	for {
		b := byte(u & 0x7f)
		u >>= 7
		if u != 0 {
			out = append(out, b|0x80)
		} else {
			return append(out, b)
		}
	}
}

func c19UlebBig(n *big.Int) []byte {
	if n.IsUint64() {
		return c19Uleb(n.Uint64())
	}
	var out []byte
	x := new(big.Int).Set(n)
	m := new(big.Int)
	mask := big.NewInt(0x7f)
	for {
		m.And(x, mask)
		b := byte(m.Uint64())
		x.Rsh(x, 7)
		if x.Sign() != 0 {
			out = append(out, b|0x80)
		} else {
			return append(out, b)
		}
	}
}

func c19LE(n *big.Int, size int) []byte {
	be := n.Bytes()
	out := make([]byte, size)
	for i := 0; i < len(be) && i < size; i++ {
		out[i] = be[len(be)-1-i]
	}
	return out
}

func c19CBEDoc(body ...byte) []byte { return append([]byte{0x81, 0x00}, body...) }
func c19CTEDoc(lit string) []byte   { return []byte("c0\n" + lit) }

// c19CompactFloat is the compact-float wire encoding of ±coeff*10^exp (coeff >= 0).
func c19CompactFloat(neg bool, coeff *big.Int, exp int) []byte {
	field := uint64(0)
	e := exp
	if e < 0 {
		e = -e
		field |= 2
	}
	if neg {
		field |= 1
	}
	field |= uint64(e) << 2
	return append(c19Uleb(field), c19UlebBig(coeff)...)
}

func c19Hex(n *big.Int) string { return new(big.Int).Abs(n).Text(16) }

// c19Forms lists every event form and wire form that expresses v exactly. r only picks among
// equivalent spellings (padding, precision slack); the set of form names depends on v alone.
func c19Forms(v c19Val, r *rand.Rand) []c19Form {
	var out []c19Form
	addEv := func(name string, e ev.Event) { out = append(out, c19Form{Name: "ev." + name, Path: "ev", Ev: e}) }
	addCBE := func(name string, body ...byte) {
		out = append(out, c19Form{Name: "cbe." + name, Path: "cbe", Doc: c19CBEDoc(body...)})
	}
	addCTE := func(name, lit string) {
		out = append(out, c19Form{Name: "cte." + name, Path: "cte", Doc: c19CTEDoc(lit)})
	}

	if v.Class != c19Finite {
		switch v.Class {
		case c19PosInf, c19NegInf:
			neg := v.Class == c19NegInf
			sign := 1
			lit := "inf"
			d := compact_float.Infinity()
			code := byte(0x82)
			if neg {
				sign, lit, d, code = -1, "-inf", compact_float.NegativeInfinity(), 0x83
			}
			addEv("float", ev.Event{K: ev.FLOAT, F: math.Inf(sign)})
			addEv("bfloat", ev.Event{K: ev.BFLOAT, BF: new(big.Float).SetInf(neg)})
			addEv("dfloat", ev.Event{K: ev.DFLOAT, DF: d})
			addEv("bdfloat", ev.Event{K: ev.BDFLOAT, BD: &apd.Decimal{Form: apd.Infinite, Negative: neg}})
			addCBE("decimal", 0x76, code, 0x00)
			addCBE("float16", append([]byte{0x70}, c19F16(float32(math.Inf(sign)))...)...)
			addCBE("float32", append([]byte{0x71}, c19F32(float32(math.Inf(sign)))...)...)
			addCBE("float64", append([]byte{0x72}, c19F64(math.Inf(sign))...)...)
			addCTE("special", lit)
		case c19QNaN, c19SNaN:
			sig := v.Class == c19SNaN
			bits := uint64(0x7ff8000000000001)
			d := compact_float.QuietNaN()
			form := apd.NaN
			code := byte(0x80)
			lit := "nan"
			f32bits := uint32(0x7fc00000)
			if sig {
				bits, d, form, code, lit, f32bits = 0x7ff0000000000001, compact_float.SignalingNaN(), apd.NaNSignaling, 0x81, "snan", 0x7fa00000
			}
			addEv("nan", ev.Event{K: ev.NAN, Flag: sig})
			addEv("float", ev.Event{K: ev.FLOAT, F: math.Float64frombits(bits)})
			addEv("dfloat", ev.Event{K: ev.DFLOAT, DF: d})
			addEv("bdfloat", ev.Event{K: ev.BDFLOAT, BD: &apd.Decimal{Form: form}})
			addCBE("decimal", 0x76, code, 0x00)
			b8 := make([]byte, 8)
			binary.LittleEndian.PutUint64(b8, bits)
			addCBE("float64", append([]byte{0x72}, b8...)...)
			b4 := make([]byte, 4)
			binary.LittleEndian.PutUint32(b4, f32bits)
			addCBE("float32", append([]byte{0x71}, b4...)...)
			addCBE("float16", 0x70, b4[2], b4[3])
			addCTE("special", lit)
		}
		return out
	}

	R := v.R
	neg := R.Sign() < 0 || v.NegZero
	isInt := R.IsInt()
	abs := new(big.Int).Abs(R.Num()) // meaningful when isInt

	// ---- integer forms
	if isInt {
		if !neg && abs.IsUint64() {
			addEv("pint", ev.Event{K: ev.PINT, U: abs.Uint64()})
		}
		if neg && abs.IsUint64() {
			addEv("nint", ev.Event{K: ev.NINT, U: abs.Uint64()})
		}
		if !v.NegZero {
			if R.Num().IsInt64() {
				addEv("int", ev.Event{K: ev.INT, I: R.Num().Int64()})
			}
			addEv("bint", ev.Event{K: ev.BINT, BI: new(big.Int).Set(R.Num())})
			if abs.Cmp(big.NewInt(100)) <= 0 {
				addCBE("smallint", byte(int8(R.Num().Int64())))
			}
		}
		// fixed-width forms: every width that holds |v|
		bits := abs.BitLen()
		for i, w := range []int{8, 16, 32, 64} {
			if bits <= w {
				code := byte(0x68 + 2*i)
				if neg {
					code++
				}
				addCBE(fmt.Sprintf("%sint%d", map[bool]string{false: "pos", true: "neg"}[neg], w), append([]byte{code}, c19LE(abs, w/8)...)...)
			}
		}
		// length-prefixed form: minimal length, and a padded length that forces the big-integer path
		code := byte(0x66)
		if neg {
			code = 0x67
		}
		minLen := (bits + 7) / 8
		if bits <= 4096*8 {
			addCBE("varint", append(append([]byte{code}, c19Uleb(uint64(minLen))...), c19LE(abs, minLen)...)...)
			padLen := minLen + 1 + r.Intn(3)
			if padLen < 9 {
				padLen = 9 + r.Intn(3)
			}
			if !v.NegZero { // a padded big negative zero has no sign to carry
				addCBE("varint-padded", append(append([]byte{code}, c19Uleb(uint64(padLen))...), c19LE(abs, padLen)...)...)
			}
		}
		// CTE integers
		sign := ""
		if neg {
			sign = "-"
		}
		addCTE("decint", sign+abs.String())
		addCTE("hexint", sign+"0x"+abs.Text(16))
		if bits <= 70 {
			addCTE("octint", sign+"0o"+abs.Text(8))
			addCTE("binint", sign+"0b"+abs.Text(2))
		}
	}

	// ---- binary float forms
	if mant, e2, ok := c19Dyadic(R); ok {
		mbits := mant.BitLen()
		if f, _ := R.Float64(); !math.IsInf(f, 0) && new(big.Rat).SetFloat64(f).Cmp(R) == 0 { // (Rat.Float64's own 'exact' is wrong on deep underflow)
			if v.NegZero {
				f = math.Copysign(0, -1)
			}
			addEv("float", ev.Event{K: ev.FLOAT, F: f})
			addCBE("float64", append([]byte{0x72}, c19F64(f)...)...)
			if f32 := float32(f); float64(f32) == f {
				addCBE("float32", append([]byte{0x71}, c19F32(f32)...)...)
				if math.Float32bits(f32)&0xffff == 0 {
					addCBE("float16", append([]byte{0x70}, c19F16(f32)...)...)
				}
			}
		}
		// big.Float with exactly enough precision, and with slack
		if e2 > -100000 && e2 < 100000 {
			for _, slack := range []int{0, 1 + r.Intn(70)} {
				prec := uint(mbits + slack)
				if prec == 0 {
					prec = 1 + uint(slack)
				}
				bf := new(big.Float).SetPrec(prec).SetRat(R)
				if v.NegZero {
					bf.Neg(bf)
				}
				if bf.Acc() != big.Exact {
					panic("harness: big.Float form not exact")
				}
				name := "bfloat"
				if slack > 0 {
					name = "bfloat-slack"
				}
				addEv(name, ev.Event{K: ev.BFLOAT, BF: bf})
			}
			// CTE hex float: integer mantissa form and normalised fraction form
			sign := ""
			if neg {
				sign = "-"
			}
			addCTE("hexfloat", fmt.Sprintf("%s0x%sp%d", sign, c19Hex(mant), e2))
			if mbits > 0 {
				// 1.xxxx form: shift mantissa so that its top bit is the integer digit
				am := new(big.Int).Abs(mant)
				fracBits := mbits - 1
				pad := (4 - fracBits%4) % 4
				am.Lsh(am, uint(pad))
				digits := am.Text(16) // leading digit is 1
				lit := fmt.Sprintf("%s0x1.%sp%d", sign, digits[1:]+"0", e2+fracBits)
				addCTE("hexfloat-frac", lit)
			}
		}
	}

	// ---- decimal float forms
	if coeff, e10, ok := c19Decimal(R); ok && e10 > -2000000000 && e10 < 2000000000 {
		ac := new(big.Int).Abs(coeff)
		if ac.IsInt64() {
			d := compact_float.DFloat{Exponent: int32(e10), Coefficient: coeff.Int64()}
			if v.NegZero {
				d = compact_float.NegativeZero()
			}
			addEv("dfloat", ev.Event{K: ev.DFLOAT, DF: d})
			// non-minimal coefficient (trailing zeros), when it still fits
			if k := 1 + r.Intn(3); coeff.Sign() != 0 {
				c2 := new(big.Int).Mul(coeff, c19Pow(c19Ten, k))
				if c2.IsInt64() {
					addEv("dfloat-unnormalised", ev.Event{K: ev.DFLOAT, DF: compact_float.DFloat{Exponent: int32(e10 - k), Coefficient: c2.Int64()}})
				}
			}
		}
		bd := &apd.Decimal{Negative: neg, Exponent: int32(e10)}
		bd.Coeff.Set(ac)
		addEv("bdfloat", ev.Event{K: ev.BDFLOAT, BD: bd})
		if coeff.Sign() != 0 {
			k := 1 + r.Intn(4)
			bd2 := &apd.Decimal{Negative: neg, Exponent: int32(e10 - k)}
			bd2.Coeff.Mul(ac, c19Pow(c19Ten, k))
			addEv("bdfloat-unnormalised", ev.Event{K: ev.BDFLOAT, BD: bd2})
		}
		// CBE decimal
		if ac.Sign() == 0 {
			if v.NegZero {
				addCBE("decimal", 0x76, 0x03)
			} else {
				addCBE("decimal", 0x76, 0x02)
			}
		} else if e10 > -0x7fffffff && e10 < 0x7fffffff {
			addCBE("decimal", append([]byte{0x76}, c19CompactFloat(neg, ac, e10)...)...)
		}
		// CTE decimal floats
		sign := ""
		if neg {
			sign = "-"
		}
		digits := ac.String()
		addCTE("decfloat-exp", fmt.Sprintf("%s%se%d", sign, digits, e10))
		if e10 >= 0 && e10 <= 60 {
			addCTE("decfloat-point", sign+digits+strings.Repeat("0", e10)+".0")
		} else if e10 < 0 && -e10 <= 400 {
			k := -e10
			var lit string
			if len(digits) > k {
				lit = digits[:len(digits)-k] + "." + digits[len(digits)-k:]
			} else {
				lit = "0." + strings.Repeat("0", k-len(digits)) + digits
			}
			addCTE("decfloat-point", sign+lit)
		}
		if len(digits) > 1 {
			// scientific: d.ddd e (e10 + len-1)
			addCTE("decfloat-sci", fmt.Sprintf("%s%s.%se%d", sign, digits[:1], digits[1:], e10+len(digits)-1))
		}
	}
	return out
}

func c19F64(f float64) []byte {
	b := make([]byte, 8)
	binary.LittleEndian.PutUint64(b, math.Float64bits(f))
	return b
}
func c19F32(f float32) []byte {
	b := make([]byte, 4)
	binary.LittleEndian.PutUint32(b, math.Float32bits(f))
	return b
}
func c19F16(f float32) []byte { return c19F32(f)[2:] }

// ---------------------------------------------------------------------------------------------
// values: directed table, then random

func c19DirectedValues() []c19Val {
	var out []c19Val
	add := func(v c19Val) { out = append(out, v) }
	one := big.NewInt(1)
	// the probes of the known findings come first (fixed, low indices)
	add(c19Scaled(big.NewInt(1), -1, 0))      // 0.1: decimal that no binary float holds
	add(c19Scaled(big.NewInt(1), 10001, 0))   // 1e10001: whole number beyond the exact-conversion limit of the big.Float builders
	add(c19Scaled(c19Pow(c19Ten, 20), -1, 0)) // 10000000000000000000.0 with a 21-digit coefficient
	p70 := new(big.Int).Lsh(big.NewInt(1), 70)
	add(c19Scaled(p70.Add(p70, big.NewInt(1)), -1, 0)) // (2^70+1)/10: big decimal that no binary float holds
	add(c19Special(c19SNaN))
	add(c19Special(c19QNaN))
	add(c19Special(c19PosInf))
	add(c19Special(c19NegInf))
	add(c19Val{R: new(big.Rat)})
	add(c19Val{R: new(big.Rat), NegZero: true})
	for k := 0; k <= 70; k++ {
		p := new(big.Int).Lsh(one, uint(k))
		for _, d := range []int64{0, 1, -1} {
			x := new(big.Int).Add(p, big.NewInt(d))
			add(c19Int(x))
			add(c19Int(new(big.Int).Neg(x)))
		}
	}
	// odd and patterned integers above 2^53 and 2^63, and around float32's 2^24
	for _, s := range []string{
		"9007199254740993", "9007199254740995", "18014398509481985", "9223372036854775809", "9223372036854775811",
		"16045690984503098047", "18446744073709551613", "12297829382473034411", "10000000000000000001", "18446744073709551617",
		"36893488147419103233", "1180591620717411303425", "1267650600228229401496703205377", "16777217", "16777219", "33554433",
		"4294967297", "1099511627777", "281474976710657", "72057594037927937", "99", "100", "101", "127", "128", "129", "255", "256", "257",
		"32767", "32768", "65535", "65536", "2147483647", "2147483648", "4294967295", "4294967296", "1000000000000000000", "10000000000000000000",
		"100000000000000000000", "1000000000000000000000000000000", "340282346638528859811704183484516925440", "340282366920938463463374607431768211456",
		"1208925819614629174706177", "1180591620717411303424", "1180591620717412402176",
	} {
		x, _ := new(big.Int).SetString(s, 10)
		add(c19Int(x))
		add(c19Int(new(big.Int).Neg(x)))
	}
	// fractions
	for _, f := range [][3]int64{ // coeff, e10, e2
		{1, 0, -1}, {3, 0, -1}, {-3, 0, -1}, {1, 0, -2}, {511, 0, -1}, {25, -1, 0}, {-25, -1, 0}, {15, -1, 0}, {1, -2, 0}, {123456789, -4, 0},
		{9223372036854775807, -1, 0}, {-9223372036854775807, -1, 0}, {1, 0, -30}, {1, 0, -1074}, {1, 0, -149}, {3, 0, -1070},
		{1, -300, 0}, {1, -5, 0}, {7, -400, 0}, {33, -1, 0}, {255, 0, -1}, {-255, 0, -1}, {65535, 0, -1}, {12345678901234567, -17, 0},
		// integers written with exponents
		{1, 2, 0}, {15, 1, 0}, {1, 18, 0}, {1, 19, 0}, {1, 20, 0}, {-1, 19, 0}, {1, 30, 0}, {1, 300, 0}, {1, 400, 0}, {17, 4000, 0}, {1, 0, 100}, {1, 0, 1000},
		{3, 0, 1022}, {1, 0, 127}, {1, 0, 128}, {9007199254740993, 5, 0}, {9007199254740993, 0, 5}, {922337203685477581, 1, 0}, {1844674407370955161, 1, 0},
		{-128, 0, 0}, {128, -1, 1}, {1, 0, 63}, {-1, 0, 63}, {1, 0, 64}, {-1, 0, 64}, {5, 18, 0}, {-5, 18, 0}, {2, 19, 0},
	} {
		add(c19Scaled(big.NewInt(f[0]), int(f[1]), int(f[2])))
	}
	// 2^63 + 0.5, 2^64 - 0.5, max float64, max float32, just above them
	add(c19Val{R: new(big.Rat).Add(new(big.Rat).SetInt(new(big.Int).Lsh(one, 63)), big.NewRat(1, 2))})
	add(c19Val{R: new(big.Rat).Sub(new(big.Rat).SetInt(new(big.Int).Lsh(one, 64)), big.NewRat(1, 2))})
	add(c19FloatVal(math.MaxFloat64))
	add(c19FloatVal(-math.MaxFloat64))
	add(c19FloatVal(math.MaxFloat32))
	add(c19FloatVal(math.SmallestNonzeroFloat64))
	add(c19FloatVal(-math.SmallestNonzeroFloat32))
	return out
}

var c19Directed = c19DirectedValues()

func c19RandBig(r *rand.Rand, bits int) *big.Int {
	if bits <= 0 {
		return new(big.Int)
	}
	b := make([]byte, (bits+7)/8)
	r.Read(b)
	x := new(big.Int).SetBytes(b)
	x.SetBit(x, bits-1, 1)
	x.Rsh(x, uint(len(b)*8-bits))
	x.SetBit(x, bits-1, 1)
	return x
}

// c19RandomValue draws a value; class is reported for the histogram.
func c19RandomValue(r *rand.Rand) (c19Val, string) {
	sign := func(x *big.Int) *big.Int {
		if r.Intn(2) == 0 {
			return x.Neg(x)
		}
		return x
	}
	switch r.Intn(12) {
	case 10: // exactly 64 significant bits: the range where uint64, int64 and big.Int paths meet
		x := c19RandBig(r, 64)
		if r.Intn(2) == 0 {
			x.SetBit(x, 0, 1)
		}
		return c19Int(sign(x)), "int-64bit"
	case 11: // fits one of the fixed widths, near its limits in half of the cases
		w := []int{7, 8, 15, 16, 31, 32, 63}[r.Intn(7)]
		x := c19RandBig(r, w)
		if r.Intn(2) == 0 {
			x = new(big.Int).Lsh(big.NewInt(1), uint(w))
			x.Sub(x, big.NewInt(int64(r.Intn(3))))
		}
		return c19Int(sign(x)), "int-width-limit"
	case 0, 1: // integer of random width, low bit forced in half of the cases
		bits := 1 + r.Intn(72)
		if r.Intn(6) == 0 {
			bits = 60 + r.Intn(200)
		}
		x := c19RandBig(r, bits)
		if r.Intn(2) == 0 {
			x.SetBit(x, 0, 1)
		}
		return c19Int(sign(x)), "int"
	case 2: // near a power of two
		k := r.Intn(90)
		x := new(big.Int).Lsh(big.NewInt(1), uint(k))
		x.Add(x, big.NewInt(int64(r.Intn(9)-4)))
		return c19Int(sign(x)), "int-near-pow2"
	case 3: // random float64 bits
		for {
			f := math.Float64frombits(r.Uint64())
			if !math.IsNaN(f) && !math.IsInf(f, 0) {
				return c19FloatVal(f), "float64-bits"
			}
		}
	case 4: // integer-valued float64 (53 significant bits or fewer, shifted up)
		m := c19RandBig(r, 1+r.Intn(53))
		m.Lsh(m, uint(r.Intn(40)))
		return c19Int(sign(m)), "int-float-exact"
	case 5: // float32-exact value
		f := math.Float32frombits(r.Uint32())
		if f != f || math.IsInf(float64(f), 0) {
			f = 1.5
		}
		return c19FloatVal(float64(f)), "float32-bits"
	case 6: // decimal, small exponent
		c := c19RandBig(r, 1+r.Intn(62))
		if r.Intn(5) == 0 {
			c = c19RandBig(r, 60+r.Intn(100))
		}
		return c19Scaled(sign(c), r.Intn(41)-20, 0), "decimal"
	case 7: // decimal integer: coefficient times a positive power of ten
		c := c19RandBig(r, 1+r.Intn(45))
		return c19Scaled(sign(c), r.Intn(14), 0), "decimal-int"
	case 8: // long dyadic
		m := c19RandBig(r, 54+r.Intn(150))
		m.SetBit(m, 0, 1)
		return c19Scaled(sign(m), 0, r.Intn(400)-300), "dyadic-long"
	default: // extreme exponents
		c := c19RandBig(r, 1+r.Intn(40))
		if r.Intn(2) == 0 {
			return c19Scaled(sign(c), r.Intn(1200)-600, 0), "decimal-extreme"
		}
		return c19Scaled(sign(c), 0, r.Intn(2400)-1200), "dyadic-extreme"
	}
}
