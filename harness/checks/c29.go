package checks

import (
	"fmt"
	"io"
	"math/big"
	"math/rand"
	"net/url"
	"strings"
	"time"

	"github.com/kstenerud/go-concise-encoding/ce"
	"github.com/kstenerud/go-concise-encoding/configuration"
	"github.com/kstenerud/go-concise-encoding/rules"

	"verifharness/ev"
	"verifharness/fw"
	"verifharness/gen"
)

// C29 — I/O failures are always reported.

const c29ReadProbes = 6

func init() {
	fw.Register(&fw.Check{
		ID:    "C29",
		Level: "fault_enumeration",
		Rule: "write side: (a) a table of Go values (maps, slices, structs with numeric/string/time/big/typed-array fields, long strings and byte slices) and (b) values obtained by unmarshaling generated documents are " +
			"marshaled with ce.MarshalCBE / ce.MarshalCTE; (c) generated rules-valid event streams are driven through rules -> ce.NewCBEEncoder / ce.NewCTEEncoder. read side: (d) valid CBE/CTE documents encoded from " +
			"generated streams are decoded with ce.UnmarshalCBE/CTE/CE and Decode of the CBE, CTE and universal decoders (validator in front), the reader delivering whole or in 1..7-byte parts. " +
			"For each (document/value, entry point, writer with or without io.StringWriter / reader delivery) a counting pass records the number W of Write+WriteString calls (R of Read calls, including the final EOF call); " +
			"then EVERY call index i < W (R) is failed once with a plain error, once per further fault kind (io.ErrUnexpectedEOF; error together with partial data; io.ErrShortWrite with a short count) " +
			"both one-shot (only call i fails) and sticky (every later call fails too) - all positions when W <= 400, otherwise all positions for the plain one-shot error and 400 random positions for the other combinations - " +
			"plus random one-shot multi-fault schedules (2-4 faults). Oracle: the call returns normally with err != nil (no escaped panic; for the event-level encoders, which have no error results, the failing " +
			"On* call must panic, i.e. the stream must not run to completion). Non-trivial = the unfaulted run succeeds and makes >= 3 I/O calls; distinct = (entry point, document/value, writer or delivery kind).",
		Assumptions: []string{"faults are injected at the io.Writer / io.Reader boundary only", "a faulted run is only judged if the injected fault was actually reached (map iteration order can change the number of writes; such runs are counted, not judged)",
			"generator bounds: documents from streams of <= 30 values, arrays <= 40 elements"},
		Cases:    func(tier string) int { return tierN(tier, 1200, 20000) },
		Run:      runC29,
		MemLimit: 6 << 30,
		Floors: func(string) map[string]int64 {
			return map[string]int64{"write.subjects_fully_enumerated": 100, "read.subjects_fully_enumerated": 100, "write.fault_runs": 20000, "read.fault_runs": 20000,
				"write.entry.ce.MarshalCBE": 20, "write.entry.ce.MarshalCTE": 20, "write.entry.CBEEncoder": 20, "write.entry.CTEEncoder": 20,
				"write.stringwriter_calls": 100, "write.plain_writer_subjects": 50, "write.string_writer_subjects": 50,
				"read.entry.ce.UnmarshalCBE": 20, "read.entry.ce.UnmarshalCTE": 20, "read.entry.ce.UnmarshalCE": 20,
				"read.entry.ce.NewCBEDecoder.Decode(decode)": 20, "read.entry.ce.NewCTEDecoder.Decode(decode)": 20, "read.entry.ce.NewCEDecoder.Decode(decode)": 20,
				"multi_fault_schedules": 500, "fault_kind.error": 5000, "fault_kind.unexpected-eof": 5000, "fault_kind.partial": 5000, "fault_kind.short-write": 2000}
		},
	})
}

type c29Inner struct {
	N int16
	F float32
	S string
}

type c29Struct struct {
	I8   int8
	U64  uint64
	F64  float64
	Str  string
	Byt  []byte
	U16  []uint16
	F32  []float32
	T    time.Time
	Big  *big.Int
	URL  *url.URL
	In   c29Inner
	PIn  *c29Inner
	List []c29Inner
	M    map[string]int
	Any  interface{}
	Bool bool
	Nil  *int
}

func c29Values() []interface{} {
	u, _ := url.Parse("https://example.com/a?b=c")
	big1, _ := new(big.Int).SetString("-123456789012345678901234567890", 10)
	long := strings.Repeat("héllo wörld \"quoted\" \\ \n", 40)
	byt := make([]byte, 3000)
	for i := range byt {
		byt[i] = byte(i * 7)
	}
	strs := make([]string, 40)
	for i := range strs {
		strs[i] = fmt.Sprintf("item-%d", i)
	}
	mi := map[int]int{}
	for i := 0; i < 20; i++ {
		mi[i] = i * i
	}
	return []interface{}{
		map[string]interface{}{"a": 1, "b": "text", "c": []interface{}{1.5, true, nil, "x"}, "d": map[string]interface{}{"e": []int{1, 2, 3}}},
		[]interface{}{1, -2, 3.25, "four", []interface{}{5, []interface{}{6}}, map[interface{}]interface{}{7: "seven"}, nil, false},
		c29Struct{I8: -5, U64: 1 << 63, F64: 1.0e-300, Str: "s", Byt: []byte{1, 2, 3}, U16: []uint16{1, 2, 65535}, F32: []float32{1.5, -2.5}, T: time.Date(2020, 1, 2, 3, 4, 5, 6, time.UTC), Big: big1, URL: u,
			In: c29Inner{1, 2, "in"}, PIn: &c29Inner{3, 4, "pin"}, List: []c29Inner{{5, 6, "a"}, {7, 8, "b"}}, M: map[string]int{"k": 1}, Any: "any", Bool: true},
		&c29Struct{Str: long, Byt: byt},
		long,
		byt,
		strs,
		mi,
		[]uint32{1, 2, 3, 4, 5, 6, 7, 8, 9, 10, 11, 12, 13, 14, 15, 16, 17, 18, 19, 20},
		[][]int{{1, 2}, {3}, {}, {4, 5, 6}},
		42,
		"short",
		nil,
		3.5,
		[]bool{true, false, true},
		time.Date(1999, 12, 31, 23, 59, 59, 0, time.UTC),
	}
}

// c29WriteSubject is something that writes a document to a writer.
type c29WriteSubject struct {
	Entry string
	Desc  string
	Run   func(w io.Writer) (err error, panicked interface{}, stack string)
}

func c29MarshalSubject(format string, v interface{}, desc string, cfg *configuration.Configuration) c29WriteSubject {
	name := map[string]string{"cbe": "ce.MarshalCBE", "cte": "ce.MarshalCTE"}[format]
	return c29WriteSubject{Entry: name, Desc: desc, Run: func(w io.Writer) (err error, p interface{}, st string) {
		p, st = fw.Guard(func() {
			if format == "cbe" {
				err = ce.MarshalCBE(v, w, cfg)
			} else {
				err = ce.MarshalCTE(v, w, cfg)
			}
		})
		return
	}}
}

func c29EncoderSubject(format string, stream []ev.Event, cfg *configuration.Configuration) c29WriteSubject {
	name := map[string]string{"cbe": "CBEEncoder", "cte": "CTEEncoder"}[format]
	return c29WriteSubject{Entry: name, Desc: short(ev.LogString(stream), 400), Run: func(w io.Writer) (err error, p interface{}, st string) {
		enc := c27NewEncoder(format, cfg)
		enc.PrepareToEncode(w)
		// at the event level a failure IS a panic out of the On* call: that is the report
		if idx, pv := replayAuto(rules.NewRules(enc, cfg), stream); idx >= 0 {
			err = fmt.Errorf("event %d: %v", idx, pv)
		}
		return
	}}
}

var c29WriteKinds = []string{"error", "unexpected-eof", "partial", "short-write"}
var c29ReadKinds = []string{"error", "unexpected-eof", "partial"}

// c29Positions: all positions when n <= 400 or all is demanded, else 400 random ones.
func c29Positions(r *rand.Rand, n int, all bool) []int {
	if all || n <= 400 {
		out := make([]int, n)
		for i := range out {
			out[i] = i
		}
		return out
	}
	return r.Perm(n)[:400]
}

func c29MultiPlan(r *rand.Rand, n int, kinds []string) c29Plan {
	k := 2 + r.Intn(3)
	var p c29Plan
	for i := 0; i < k; i++ {
		p.Faults = append(p.Faults, c29Fault{At: r.Intn(n), Kind: kinds[r.Intn(len(kinds))]})
	}
	return p
}

func c29Write(c *fw.Ctx, s c29WriteSubject, stringWriter bool) {
	r := c.Rng
	newW := func(plan c29Plan) (io.Writer, *c29Writer, *c29StringWriter) {
		if stringWriter {
			w := &c29StringWriter{}
			w.plan = plan
			return w, &w.c29Writer, w
		}
		w := &c29Writer{plan: plan}
		return w, w, nil
	}
	wk := map[bool]string{false: "plain-writer", true: "string-writer"}[stringWriter]
	c.Region(s.Entry + "/" + wk)
	w, cw, sw := newW(c29Plan{})
	err, p, st := s.Run(w)
	if p != nil {
		c.Fail("escaped-panic:"+s.Entry+"@no-fault", map[string]interface{}{"subject": s.Desc, "panic": fmt.Sprint(p), "stack": st})
		return
	}
	if err != nil {
		c.Inc("write.skipped_unfaulted_run_fails")
		return
	}
	W := cw.Calls
	if sw != nil {
		c.Count("write.stringwriter_calls", int64(sw.StringCalls))
		c.Inc("write.string_writer_subjects")
	} else {
		c.Inc("write.plain_writer_subjects")
	}
	c.Inc("write.entry." + s.Entry)
	c.Max("max_write_calls", int64(W))
	c.Count("write.calls_counted", int64(W))
	if W >= 3 {
		c.Distinct("w|" + s.Entry + "|" + wk + "|" + s.Desc)
	}
	judge := func(plan c29Plan) {
		w, cw, _ := newW(plan)
		err, p, st := s.Run(w)
		c.Eval()
		c.Inc("write.fault_runs")
		if cw.Triggered == 0 {
			c.Inc("write.fault_not_reached_not_judged")
			return
		}
		stick := map[bool]string{false: "one-shot", true: "sticky"}[plan.Sticky]
		kind := plan.Faults[0].Kind
		if len(plan.Faults) > 1 {
			kind = "multi"
		}
		if p != nil {
			c.Fail("escaped-panic:"+s.Entry+"@write-"+kind+"-"+stick, map[string]interface{}{"subject": s.Desc, "writer": wk, "plan": plan.String(), "calls_unfaulted": W, "panic": fmt.Sprint(p), "stack": st})
		} else if err == nil {
			c.Fail("write-failure-not-reported:"+s.Entry+"@"+kind+"-"+stick, map[string]interface{}{"subject": s.Desc, "writer": wk, "plan": plan.String(), "calls_unfaulted": W, "written": hexs(cw.buf.Bytes())})
		}
	}
	for ki, kind := range c29WriteKinds {
		for _, sticky := range []bool{false, true} {
			for _, i := range c29Positions(r, W, ki == 0 && !sticky) {
				judge(c29Plan{Faults: []c29Fault{{At: i, Kind: kind}}, Sticky: sticky})
				c.Inc("fault_kind." + kind)
			}
		}
	}
	c.Count("write.positions_enumerated", int64(W))
	c.Inc("write.subjects_fully_enumerated")
	if W >= 2 {
		for k := 0; k < 5; k++ {
			judge(c29MultiPlan(r, W, c29WriteKinds))
			c.Inc("multi_fault_schedules")
		}
	}
	if c.WantSample() && W >= 5 && W <= 60 {
		c.Sample(map[string]interface{}{"side": "write", "entry": s.Entry, "writer": wk, "subject": short(s.Desc, 300), "write_calls": W, "fault_runs": "every i<W x 4 kinds x {one-shot, sticky} + 5 multi-fault"})
	}
}

func c29Read(c *fw.Ctx, cfg *configuration.Configuration, e c27Entry, doc []byte, chunk int) {
	r := c.Rng
	e.Reader = true
	name := e.Name()
	delivery := "whole"
	if chunk > 0 {
		delivery = fmt.Sprintf("parts<=%d", chunk)
	}
	c.Region(name + "/" + delivery)
	rd := &c29Reader{data: doc, chunk: chunk}
	base := c27Call(e, doc, rd, cfg)
	if base.Panic != nil {
		c.Fail("escaped-panic:"+name+"@no-fault", map[string]interface{}{"doc": hexs(doc), "panic": fmt.Sprint(base.Panic), "stack": base.Stack})
		return
	}
	if base.Err != nil {
		c.Inc("read.skipped_unfaulted_run_fails")
		return
	}
	R := rd.Calls
	c.Inc("read.entry." + name)
	c.Inc("read.delivery." + delivery)
	c.Max("max_read_calls", int64(R))
	c.Count("read.calls_counted", int64(R))
	if R >= 3 {
		c.Distinct("r|" + name + "|" + delivery + "|" + string(doc))
	}
	judge := func(plan c29Plan) {
		rd := &c29Reader{data: doc, chunk: chunk, plan: plan}
		out := c27Call(e, doc, rd, cfg)
		c.Eval()
		c.Inc("read.fault_runs")
		if rd.Triggered == 0 {
			c.Inc("read.fault_not_reached_not_judged")
			return
		}
		stick := map[bool]string{false: "one-shot", true: "sticky"}[plan.Sticky]
		kind := plan.Faults[0].Kind
		if len(plan.Faults) > 1 {
			kind = "multi"
		}
		if out.Panic != nil {
			c.Fail("escaped-panic:"+name+"@read-"+kind+"-"+stick, map[string]interface{}{"doc": hexs(doc), "delivery": delivery, "plan": plan.String(), "calls_unfaulted": R, "panic": fmt.Sprint(out.Panic), "stack": out.Stack})
		} else if out.Err == nil {
			c.Fail("read-failure-not-reported:"+name+"@"+kind+"-"+stick, map[string]interface{}{"doc": hexs(doc), "text": short(string(doc), 200), "delivery": delivery, "plan": plan.String(), "calls_unfaulted": R, "result": out.Brief()})
		}
	}
	for ki, kind := range c29ReadKinds {
		for _, sticky := range []bool{false, true} {
			for _, i := range c29Positions(r, R, ki == 0 && !sticky) {
				judge(c29Plan{Faults: []c29Fault{{At: i, Kind: kind}}, Sticky: sticky})
				c.Inc("fault_kind." + kind)
			}
		}
	}
	c.Count("read.positions_enumerated", int64(R))
	c.Inc("read.subjects_fully_enumerated")
	if R >= 2 {
		for k := 0; k < 5; k++ {
			judge(c29MultiPlan(r, R, c29ReadKinds))
			c.Inc("multi_fault_schedules")
		}
	}
	if c.WantSample() && R >= 5 && R <= 60 {
		c.Sample(map[string]interface{}{"side": "read", "entry": name, "delivery": delivery, "doc": hexs(doc), "read_calls": R, "fault_runs": "every i<R x 3 kinds x {one-shot, sticky} + 5 multi-fault"})
	}
}

func runC29(c *fw.Ctx, idx int) {
	cfg := c27Config()
	r := c.Rng
	values := c29Values()
	if idx < 2*len(values) {
		// directed: the value table, both formats, both writer kinds
		v := values[idx/2]
		format := []string{"cbe", "cte"}[idx%2]
		s := c29MarshalSubject(format, v, short(fmt.Sprintf("%T %v", v, v), 300), cfg)
		c.Note("C29 marshal %s %s", format, s.Desc)
		c29Write(c, s, false)
		c29Write(c, s, true)
		return
	}
	if idx < 2*len(values)+c29ReadProbes {
		// directed read probes (smallest documents with a multi-byte ULEB, a compact time, a compact float, an array): probe of the
		// lost-error class in the sub-decoders
		docs := [][]byte{{0x81, 0x00, 0x6a, 0xe8, 0x03}, append([]byte{0x81, 0x00, 0x90, 0x82, 0x01}, []byte(strings.Repeat("a", 65))...),
			[]byte("c0\n{\"a\"=[1 2 3]}"), {0x81, 0x00, 0x7a, 0x01, 0x65, 0x01, 0x02, 0x03, 0x04, 0x05, 0x06, 0x07, 0x08, 0x7b},
			// 3-byte ULEBs (version spelled with padding; custom type code 2000000): a transient error that comes with the MIDDLE byte is the one
			// the ULEB sub-decoder used to overwrite with the result of its next read
			{0x81, 0x80, 0x80, 0x00, 0x01}, nil}
		if cd, fi, _ := encodeWithRules(ce.NewCBEEncoder(cfg), []ev.Event{{K: ev.BD}, {K: ev.VER}, {K: ev.CUSTB, U: 2000000, B: []byte{1, 2, 3}}, {K: ev.ED}}, cfg); fi < 0 {
			docs[5] = cd
		} else {
			docs[5] = docs[4]
		}
		doc := docs[idx-2*len(values)]
		for _, f := range []string{c27Detect(doc), "ce"} {
			for _, kind := range []string{"unmarshal", "decode"} {
				c29Read(c, cfg, c27Entry{Format: f, Kind: kind}, doc, 0)
				c29Read(c, cfg, c27Entry{Format: f, Kind: kind}, doc, 1)
			}
		}
		return
	}
	switch j := idx - 2*len(values) - c29ReadProbes; j % 4 {
	case 0: // marshal a value obtained by unmarshaling a generated document
		doc, ok := c27GenDoc(c, cfg, "cbe", r)
		if !ok {
			return
		}
		var v interface{}
		var err error
		if p, _ := fw.Guard(func() { v, err = ce.UnmarshalFromCBEDocument(doc, nil, cfg) }); p != nil || err != nil {
			c.Inc("write.skipped_document_not_unmarshalable")
			return
		}
		format := []string{"cbe", "cte"}[r.Intn(2)]
		s := c29MarshalSubject(format, v, "unmarshaled from "+hexs(doc), cfg)
		c.Note("C29 marshal %s value from %x", format, doc)
		c29Write(c, s, r.Intn(2) == 0)
	case 1: // event-level encoders
		format := []string{"cbe", "cte"}[r.Intn(2)]
		var o gen.StreamOpts
		if format == "cbe" {
			o = cbeStreamOpts(c)
		} else {
			o = cteStreamOpts(c)
			o.MaxComments = 2
		}
		if o.Size > 30 {
			o.Size = 30
		}
		if o.MaxArrayLen > 40 {
			o.MaxArrayLen = 40
		}
		in := gen.Stream(r, o)
		if _, rej, _ := throughRules(in, cfg); rej >= 0 {
			c.Inc("generated_stream_rejected_by_rules")
			return
		}
		c.Note("C29 encoder %s %s", format, short(ev.LogString(in), 1500))
		c29Write(c, c29EncoderSubject(format, in, cfg), r.Intn(2) == 0)
	default: // read side
		format := []string{"cbe", "cte"}[r.Intn(2)]
		doc, ok := c27GenDoc(c, cfg, format, r)
		if !ok {
			return
		}
		c.Note("C29 read %s doc %x", format, doc)
		c.Inc("read.documents." + format)
		chunk := []int{0, 1, 2, 3, 7}[r.Intn(5)]
		if format == "cte" && len(doc) > 150 && chunk > 0 && chunk < 3 {
			chunk = 7 // keep the number of (expensive) CTE parses per document bounded
		}
		for _, f := range []string{format, "ce"} {
			for _, kind := range []string{"unmarshal", "decode"} {
				c29Read(c, cfg, c27Entry{Format: f, Kind: kind}, doc, chunk)
			}
		}
	}
}
