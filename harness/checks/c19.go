package checks

// C19 — numeric unmarshaling is exact or fails.
//
// One case = one exact value V (directed table first, then PRNG). For V every event form and
// every hand-written CBE / CTE wire form that expresses it is driven into every numeric
// destination: events straight into a builder (with and without the rules validator in front),
// documents through ce.UnmarshalFromCBEDocument / ce.UnmarshalFromCTEDocument.
// Oracle: an error, or the stored value read back as an exact rational equals V.

import (
	"fmt"
	"math"
	"math/big"
	"reflect"
	"strings"

	"github.com/kstenerud/go-concise-encoding/builder"
	"github.com/kstenerud/go-concise-encoding/ce"
	"github.com/kstenerud/go-concise-encoding/configuration"
	"github.com/kstenerud/go-concise-encoding/rules"

	"verifharness/ev"
	"verifharness/fw"
)

func init() {
	fw.Register(&fw.Check{
		ID:    "C19",
		Level: "exploration",
		Rule: "case = one exact value V (boundary table: +-2^k, +-(2^k+-1) for k<=70, odd integers above 2^24/2^53/2^63/2^64, fractions, extreme exponents, " +
			"+-0, +-inf, NaNs; then PRNG values of 12 classes). For V, every event form (pint/nint/int/bint/float/bfloat/dfloat/bdfloat/nan) and every " +
			"hand-encoded CBE and CTE wire form that expresses V exactly is driven into each of 16 destination templates (int8..int64,int,uint8..uint64,uint," +
			"float32,float64,big.Int,*big.Int,big.Float,*big.Float): events into builder.BuilderEventReceiver directly and behind rules, documents through " +
			"ce.UnmarshalFromCBEDocument/ce.UnmarshalFromCTEDocument. One evaluation = one (V, form, route, destination) tuple. Oracle: error (panic at the " +
			"receiver level), or the stored value converted to an exact big.Rat equals V (-0 counts as 0; inf only equals inf of the same sign; NaN can only fail). " +
			"Float destinations are judged only when the delivered event is an integer event. Every CBE/CTE wire form is also delivered through a local reference: the document " +
			"{\"a\"=&x:V \"b\"=$x} is unmarshaled into struct{A holder; B destination} for two random holder types (uint64, int64, float64, *big.Int, *big.Float, interface{}, uint8, int16) and all 16 destinations; " +
			"B must hold exactly the number A holds, or the unmarshal must fail (float destinations judged only for integer-kind holders). Every fourth case also unmarshals a list of 3-6 big integers " +
			"(and a second document through the same unmarshaler) into []*big.Int, []big.Int and []interface{} and checks every element again afterwards. Non-trivial = V is not an integer in [-100,100]; distinct = distinct (V, form).",
		Assumptions: []string{
			"wire forms are written by the harness's own CBE/CTE spellers; each document is first decoded by the library decoder into a recorder and must carry exactly V, otherwise the tuple is reported separately and not judged",
			"'integer value into a float destination' is read as: the event delivered to the builder is OnInt/OnPositiveInt/OnNegativeInt/OnBigInt; float/decimal events into float32/float64 are outside the statement and counted as dontcare",
			"value bounds: |binary exponent| <= 1200 and |decimal exponent| <= 600 for random values (4000 in the directed table), integers <= 260 bits",
		},
		Cases: func(tier string) int { return len(c19Directed) + tierN(tier, 6000, 60000) },
		Run:   runC19,
		Floors: func(string) map[string]int64 {
			m := map[string]int64{"judged": 100000, "outcome.exact": 20000, "outcome.error": 20000, "dontcare.float-dst-non-integer-event": 1000,
				"value.odd-above-2^63": 50, "value.intbits.64": 100, "value.odd-above-2^53": 10, "value.fraction": 50, "value.special": 4, "value.negzero": 1,
				"route.builder": 10000, "route.rules+builder": 10000, "route.cbe": 10000, "route.cte": 10000, "oneshot.cbe": 500, "oneshot.cte": 500}
			for _, f := range []string{"ev.pint", "ev.nint", "ev.int", "ev.bint", "ev.float", "ev.bfloat", "ev.dfloat", "ev.bdfloat", "ev.nan",
				"cbe.smallint", "cbe.posint8", "cbe.negint8", "cbe.posint16", "cbe.negint16", "cbe.posint32", "cbe.negint32", "cbe.posint64", "cbe.negint64",
				"cbe.varint", "cbe.varint-padded", "cbe.float16", "cbe.float32", "cbe.float64", "cbe.decimal",
				"cte.decint", "cte.hexint", "cte.octint", "cte.binint", "cte.hexfloat", "cte.hexfloat-frac", "cte.decfloat-exp", "cte.decfloat-point", "cte.decfloat-sci", "cte.special"} {
				m["form."+f] = 50
			}
			m["form.ev.nan"], m["form.cte.special"] = 2, 4 // the two NaNs; the two NaNs and the two infinities
			for _, d := range c19Dsts {
				m["dst."+d.Name] = 5000
			}
			for _, k := range []string{"pint", "nint", "int", "bint", "float", "bfloat", "dfloat", "bdfloat"} {
				m["delivered."+k] = 500
			}
			return m
		},
	})
}

type c19Outcome struct {
	Err     string      // non-empty: the library reported an error (or panicked at the receiver level)
	Escaped interface{} // panic that escaped a public ce.* entry point
	Stack   string
	Obj     interface{}
}

func c19ViaBuilder(sess *builder.Session, cfg *configuration.Configuration, tmpl interface{}, e ev.Event, withRules bool) (o c19Outcome) {
	b := sess.NewBuilderFor(tmpl)
	log := []ev.Event{{K: ev.BD}, {K: ev.VER}, e, {K: ev.ED}}
	var idx int
	var p interface{}
	if withRules {
		idx, p = replayAuto(rules.NewRules(b, cfg), log)
	} else {
		idx, p = replayAuto(b, log)
	}
	if idx >= 0 {
		o.Err = "panic at event " + fmt.Sprint(idx) + ": " + ev.PanicString(p)
		if ev.IsRuntimePanic(p) {
			o.Err = "runtime " + o.Err
		}
		return
	}
	o.Obj = b.GetBuiltObject()
	return
}

// c19ViaDoc unmarshals through the one-shot public functions (um == nil) or through an unmarshaler
// that is kept for one case.
func c19ViaDoc(path string, cfg *configuration.Configuration, um ce.Unmarshaler, tmpl interface{}, doc []byte) (o c19Outcome) {
	var err error
	o.Escaped, o.Stack = fw.Guard(func() {
		switch {
		case um != nil:
			o.Obj, err = um.UnmarshalFromDocument(doc, tmpl)
		case path == "cbe":
			o.Obj, err = ce.UnmarshalFromCBEDocument(doc, tmpl, cfg)
		default:
			o.Obj, err = ce.UnmarshalFromCTEDocument(doc, tmpl, cfg)
		}
	})
	if err != nil {
		o.Err = err.Error()
	}
	return
}

// c19SameOutcome: same error-ness and, without error, the same stored value.
func c19SameOutcome(a, b c19Outcome) bool {
	if (a.Escaped != nil) != (b.Escaped != nil) || (a.Err != "") != (b.Err != "") {
		return false
	}
	if a.Err != "" || a.Escaped != nil {
		return true
	}
	sa, ka, oka := c19Stored(a.Obj)
	sb, kb, okb := c19Stored(b.Obj)
	if oka != okb || ka != kb {
		return false
	}
	return !oka || (c19SameValue(sa, sb) && sa.Class == sb.Class)
}

// c19Region names the relation between the value V and the different value S that was stored.
func c19Region(v, s c19Val, dst c19Dst, obj interface{}, delivered ev.Event) string {
	if v.Class != c19Finite {
		if s.Class != c19Finite {
			return "special-became-other-special"
		}
		return "special-stored-as-number"
	}
	if s.Class != c19Finite {
		return "number-stored-as-special"
	}
	V, S := v.R, s.R
	if new(big.Rat).Neg(V).Cmp(S) == 0 {
		return "sign-lost"
	}
	if V.IsInt() && S.IsInt() {
		d := new(big.Int).Sub(V.Num(), S.Num())
		if d.CmpAbs(big.NewInt(1)) == 0 && V.Num().Bit(0) == 1 && V.Num().BitLen() == 64 {
			return "low-bit-dropped-above-2^63"
		}
		for _, w := range []uint{8, 16, 32, 64} {
			m := new(big.Int).Lsh(big.NewInt(1), w)
			if new(big.Int).Mod(d, m).Sign() == 0 && S.Num().BitLen() <= int(w) {
				return fmt.Sprintf("wrapped-mod-2^%d", w)
			}
		}
	}
	switch dst.Class {
	case "bigfloat":
		// The library sizes the precision of a big.Float built from a decimal by the decimal's digit
		// count (63 bits for a DFloat) and rounds to nearest. Only that relation gets the named region.
		bf, _ := obj.(*big.Float)
		if bf != nil && bf.Prec() > 0 {
			rounded := new(big.Float).SetPrec(bf.Prec()).SetMode(big.ToNearestEven).SetRat(V)
			if rounded.Cmp(bf) == 0 {
				at := fmt.Sprintf("at-%d-bits", bf.Prec())
				switch delivered.K {
				case ev.DFLOAT:
					if bf.Prec() == 63 {
						at = "at-63-bits"
					}
				case ev.BDFLOAT:
					if int(bf.Prec()) == c19DigitsToBits(len(delivered.BD.Coeff.String())) {
						at = "at-digit-count-precision"
					}
				}
				if _, _, dy := c19Dyadic(V); !dy {
					return "rounded-to-nearest-" + at + ":no-binary-float-holds-the-value"
				}
				// whole numbers with a decimal exponent above 10000 are deliberately left to the rounding path
				// (conversions.MaxExactBigFloatBase10Exponent): a class of its own
				if (delivered.K == ev.DFLOAT && delivered.DF.Exponent > 10000) || (delivered.K == ev.BDFLOAT && delivered.BD.Exponent > 10000) {
					return "rounded-to-nearest-" + at + ":whole-number-with-exponent-above-10000"
				}
				return "rounded-to-nearest-" + at + ":exact-binary-float-exists"
			}
		}
	case "float":
		f64, _ := V.Float64()
		if sf, _ := S.Float64(); sf == f64 {
			return "rounded-to-float64"
		}
		if sf, _ := S.Float64(); float64(float32(f64)) == sf {
			return "rounded-to-float32"
		}
	case "int", "uint", "bigint":
		if !V.IsInt() && S.IsInt() {
			q := new(big.Int).Quo(V.Num(), V.Denom())
			if q.Cmp(S.Num()) == 0 {
				return "fraction-truncated"
			}
			return "fraction-became-other-integer"
		}
	}
	return "other"
}

// c19DigitsToBits is the documented digits->bits table of the library (3 digits per 10 bits, then 4 and 7).
func c19DigitsToBits(digits int) int {
	return digits/3*10 + []int{0, 4, 7}[digits%3]
}

func c19ValueFeatures(c *fw.Ctx, v c19Val) {
	if v.Class != c19Finite {
		c.Inc("value.special")
		return
	}
	if v.NegZero {
		c.Inc("value.negzero")
	}
	if !v.R.IsInt() {
		c.Inc("value.fraction")
		return
	}
	n := v.R.Num()
	if n.Bit(0) == 1 {
		switch bl := n.BitLen(); {
		case bl > 64:
			c.Inc("value.odd-above-2^64")
		case bl == 64:
			c.Inc("value.odd-above-2^63")
		case bl > 53:
			c.Inc("value.odd-above-2^53")
		case bl > 24:
			c.Inc("value.odd-above-2^24")
		}
	}
	switch bl := n.BitLen(); {
	case bl <= 7:
		c.Inc("value.intbits.le7")
	case bl <= 8:
		c.Inc("value.intbits.8")
	case bl <= 16:
		c.Inc("value.intbits.9-16")
	case bl <= 32:
		c.Inc("value.intbits.17-32")
	case bl <= 63:
		c.Inc("value.intbits.33-63")
	case bl == 64:
		c.Inc("value.intbits.64")
	default:
		c.Inc("value.intbits.gt64")
	}
}

func c19FormDesc(f c19Form) string {
	switch f.Path {
	case "ev":
		return f.Ev.String()
	case "cbe":
		return hexs(f.Doc)
	}
	return string(f.Doc[3:])
}

func runC19(c *fw.Ctx, idx int) {
	var v c19Val
	class := "directed"
	if idx < len(c19Directed) {
		v = c19Directed[idx]
	} else {
		v, class = c19RandomValue(c.Rng)
	}
	c.Inc("valueclass." + class)
	c19ValueFeatures(c, v)
	vs := v.String()
	c.Note("C19 value %s", vs)
	trivial := v.Class == c19Finite && !v.NegZero && v.R.IsInt() && v.R.Num().CmpAbs(big.NewInt(100)) <= 0

	cfg := configuration.New()
	sess := builder.NewSession(nil, cfg)
	// one unmarshaler of each kind per case (creating one costs ~1.7 ms, a call ~0.1 ms)
	var umCBE, umCTE ce.Unmarshaler = ce.NewCBEUnmarshaler(cfg), ce.NewCTEUnmarshaler(cfg)
	if idx%4 == 0 {
		c19ManyBigInts(c, cfg)
	}
	forms := c19Forms(v, c.Rng)
	sampled := false
	for _, f := range forms {
		c.Inc("form." + f.Name)
		// what event does the builder receive?
		delivered := f.Ev
		if f.Path != "ev" {
			dec := ce.NewCBEDecoder(cfg)
			if f.Path == "cte" {
				dec = ce.NewCTEDecoder(cfg)
			}
			res := decodeDoc(dec, f.Doc, cfg, false)
			if res.Panic != nil {
				c.Fail("decoder-escaped-panic:"+f.Name, map[string]interface{}{"value": vs, "form": f.Name, "doc": c19FormDesc(f), "panic": ev.PanicString(res.Panic), "stack": res.Stack})
				continue
			}
			if res.Err != nil {
				// the document is refused as a whole: every unmarshal of it must fail too (checked below with delivered unknown)
				c.Inc("doc.refused-by-decoder." + f.Name)
				delivered = ev.Event{K: ev.ERR}
			} else {
				var num []ev.Event
				for _, e := range res.Log {
					if _, ok := c19EventVal(e); ok {
						num = append(num, e)
					}
				}
				if len(num) != 1 {
					c.Fail("doc-decodes-to-other-value:"+f.Name, map[string]interface{}{"value": vs, "form": f.Name, "doc": c19FormDesc(f), "decoded": ev.LogStrings(res.Log)})
					continue
				}
				dv, _ := c19EventVal(num[0])
				if !c19SameValue(dv, v) || dv.Class != v.Class {
					c.Fail("doc-decodes-to-other-value:"+f.Name, map[string]interface{}{"value": vs, "form": f.Name, "doc": c19FormDesc(f), "decoded": ev.LogStrings(res.Log), "decoded_value": dv.String()})
					continue
				}
				delivered = num[0]
			}
		}
		if delivered.K != ev.ERR {
			c.Inc("delivered." + delivered.K.String())
		}
		if !trivial {
			c.Distinct(vs + "|" + f.Name)
		}
		routes := []string{f.Path}
		if f.Path == "ev" {
			routes = []string{"builder", "rules+builder"}
		}
		for _, route := range routes {
			var um ce.Unmarshaler
			oneShot := -1
			switch route {
			case "cbe":
				um = umCBE
			case "cte":
				um = umCTE
			}
			if um != nil && c.Rng.Intn(3) == 0 {
				oneShot = c.Rng.Intn(len(c19Dsts))
			}
			for di, dst := range c19Dsts {
				var o c19Outcome
				switch route {
				case "builder":
					o = c19ViaBuilder(sess, cfg, dst.Template, f.Ev, false)
				case "rules+builder":
					o = c19ViaBuilder(sess, cfg, dst.Template, f.Ev, true)
				default:
					o = c19ViaDoc(route, cfg, um, dst.Template, f.Doc)
					if di == oneShot {
						// the same call through the one-shot public function must agree
						o1 := c19ViaDoc(route, cfg, nil, dst.Template, f.Doc)
						c.Inc("oneshot." + route)
						if !c19SameOutcome(o, o1) {
							c.Fail("oneshot-and-kept-unmarshaler-differ:"+route, map[string]interface{}{"value": vs, "form": f.Name, "input": c19FormDesc(f), "dst": dst.Name,
								"kept": fmt.Sprintf("err=%q obj=%s", o.Err, c19GoString(o.Obj)), "oneshot": fmt.Sprintf("err=%q obj=%s", o1.Err, c19GoString(o1.Obj))})
						}
						o = o1
					}
				}
				c.Eval()
				c.Inc("route." + route)
				c.Inc("dst." + dst.Name)
				detail := func(extra map[string]interface{}) map[string]interface{} {
					m := map[string]interface{}{"value": vs, "form": f.Name, "input": c19FormDesc(f), "route": route, "dst": dst.Name, "delivered": delivered.String()}
					for k, x := range extra {
						m[k] = x
					}
					return m
				}
				if o.Escaped != nil {
					c.Fail("escaped-panic:"+route, detail(map[string]interface{}{"panic": ev.PanicString(o.Escaped), "stack": o.Stack}))
					continue
				}
				if o.Err != "" {
					if strings.HasPrefix(o.Err, "runtime ") {
						c.Inc("outcome.error.runtime-panic-at-receiver")
					}
					c.Inc("judged")
					c.Inc("outcome.error")
					c.Inc("outcome.error." + dst.Class)
					continue
				}
				if delivered.K == ev.ERR {
					c.Fail("refused-document-unmarshaled:"+f.Name, detail(map[string]interface{}{"stored": fmt.Sprint(o.Obj)}))
					continue
				}
				if dst.Class == "float" && !c19IsIntEvent(delivered.K) {
					c.Inc("dontcare.float-dst-non-integer-event")
					continue
				}
				c.Inc("judged")
				s, kind, ok := c19Stored(o.Obj)
				if !ok {
					c.Fail("nothing-stored:"+delivered.K.String()+"->"+dst.Class, detail(map[string]interface{}{"got": kind}))
					continue
				}
				if kind != dst.Class {
					c.Fail("wrong-result-type:"+dst.Name, detail(map[string]interface{}{"got": fmt.Sprintf("%T", o.Obj)}))
					continue
				}
				good := c19SameValue(v, s)
				if v.Class == c19QNaN || v.Class == c19SNaN {
					good = false // no judged destination can hold a NaN
				}
				if good {
					c.Inc("outcome.exact")
					c.Inc("outcome.exact." + dst.Class)
					if !sampled && !trivial && c.WantSample() && c.Rng.Intn(40) == 0 {
						sampled = true
						c.Sample(detail(map[string]interface{}{"stored": s.String(), "verdict": "exact"}))
					}
					continue
				}
				region := c19Region(v, s, dst, o.Obj, delivered)
				sig := fmt.Sprintf("inexact:%s->%s@%s", delivered.K.String(), dst.Class, region)
				c.Fail(sig, detail(map[string]interface{}{"stored": s.String(), "stored_go": c19GoString(o.Obj)}))
			}
			// The same value reaching the destination through a local reference: {"a"=&x:V "b"=$x} into struct{A holder; B dst}.
			// The marked value is first built into A, then converted from A's Go value into B (a separate conversion path).
			if um != nil && delivered.K != ev.ERR && v.Class == c19Finite && !v.NegZero {
				c19ViaReference(c, cfg, um, route, f, v, vs, delivered)
			}
		}
	}
}

var c19Holders = []c19Dst{{"uint64", "uint", uint64(0)}, {"int64", "int", int64(0)}, {"float64", "float", float64(0)}, {"*big.Int", "bigint", (*big.Int)(nil)},
	{"*big.Float", "bigfloat", (*big.Float)(nil)}, {"interface{}", "any", nil}, {"uint8", "uint", uint8(0)}, {"int16", "int", int16(0)}}

var c19RefTypes = map[[2]int]reflect.Type{}

func c19ViaReference(c *fw.Ctx, cfg *configuration.Configuration, um ce.Unmarshaler, route string, f c19Form, v c19Val, vs string, delivered ev.Event) {
	var doc []byte
	if route == "cbe" {
		doc = append([]byte{0x81, 0x00, 0x99, 0x81, 'a', 0x7f, 0xf0, 0x01, 'x'}, f.Doc[2:]...)
		doc = append(doc, 0x81, 'b', 0x77, 0x01, 'x', 0x9b)
	} else {
		doc = []byte("c0\n{\"a\"=&x:" + string(f.Doc[3:]) + " \"b\"=$x}")
	}
	for rep := 0; rep < 2; rep++ {
		hi := c.Rng.Intn(len(c19Holders))
		h := c19Holders[hi]
		for di, dst := range c19Dsts {
			t, ok := c19RefTypes[[2]int{hi, di}]
			if !ok {
				at := reflect.TypeOf((*interface{})(nil)).Elem()
				if h.Template != nil {
					at = reflect.TypeOf(h.Template)
				}
				t = reflect.StructOf([]reflect.StructField{{Name: "A", Type: at}, {Name: "B", Type: reflect.TypeOf(dst.Template)}})
				c19RefTypes[[2]int{hi, di}] = t
			}
			o := c19ViaDoc(route, cfg, um, reflect.New(t).Elem().Interface(), doc)
			c.Eval()
			c.Inc("route." + route + "-via-reference")
			c.Inc("holder." + h.Name)
			detail := func(extra map[string]interface{}) map[string]interface{} {
				m := map[string]interface{}{"value": vs, "form": f.Name, "doc": short(hexs(doc), 300), "text": short(string(doc), 200), "route": route + "-via-reference",
					"holder": h.Name, "dst": dst.Name, "delivered": delivered.String()}
				for k, x := range extra {
					m[k] = x
				}
				return m
			}
			if o.Escaped != nil {
				c.Fail("escaped-panic:"+route+"-via-reference", detail(map[string]interface{}{"panic": ev.PanicString(o.Escaped), "stack": o.Stack}))
				continue
			}
			if o.Err != "" {
				c.Inc("outcome.via-reference.error")
				continue
			}
			rv := reflect.ValueOf(o.Obj)
			for rv.Kind() == reflect.Ptr || rv.Kind() == reflect.Interface {
				rv = rv.Elem()
			}
			if rv.Kind() != reflect.Struct {
				c.Fail("nothing-stored-via-reference", detail(map[string]interface{}{"got": fmt.Sprintf("%T", o.Obj)}))
				continue
			}
			// the reference converts A's Go value (which may itself be a permitted rounding of V, e.g. a decimal in a float64):
			// B must hold exactly what A holds, or the unmarshal must fail
			var held interface{} = rv.Field(0).Interface()
			v, okA := c19StoredAny(held)
			if !okA {
				c.Inc("dontcare.holder-value-not-a-finite-number")
				continue
			}
			if dst.Class == "float" && !c19HeldAsInteger(held) {
				// like a float event into a float destination on the direct route (rounding between float formats is not judged)
				c.Inc("dontcare.float-dst-from-float-holder-via-reference")
				continue
			}
			sB, kind, okB := c19Stored(rv.Field(1).Interface())
			if !okB {
				c.Fail("nothing-stored-via-reference:"+dst.Class, detail(map[string]interface{}{"got": kind}))
				continue
			}
			c.Inc("judged")
			c.Inc("judged.via-reference")
			if c19SameValue(v, sB) {
				c.Inc("outcome.via-reference.exact")
				continue
			}
			region := c19Region(v, sB, dst, rv.Field(1).Interface(), delivered)
			c.Fail(fmt.Sprintf("inexact-via-reference:%s->%s@%s", h.Name, dst.Class, region), detail(map[string]interface{}{"stored": sB.String(), "stored_go": c19GoString(rv.Field(1).Interface()),
				"holder_value": c19GoString(rv.Field(0).Interface())}))
		}
	}
}

// c19ManyBigInts: several big integers in ONE document (and in consecutive documents through one unmarshaler) into
// []*big.Int, []big.Int and []interface{}: every element must still hold its own value after the whole document, and a
// result handed out earlier must not change when the same unmarshaler decodes the next document.
func c19ManyBigInts(c *fw.Ctx, cfg *configuration.Configuration) {
	r := c.Rng
	n := 3 + r.Intn(4)
	var vals []*big.Int
	for i := 0; i < n; i++ {
		words := []int{2, 2, 3, 4, 2, 9}[r.Intn(6)]
		v := c19RandBig(r, 64*words-r.Intn(60))
		if v.BitLen() <= 64 {
			v.Lsh(v, 70)
		}
		if r.Intn(3) == 0 {
			v.Neg(v)
		}
		vals = append(vals, v)
	}
	enc := func(vs []*big.Int) []byte {
		doc := []byte{0x81, 0x00, 0x9a}
		for _, v := range vs {
			code := byte(0x66)
			if v.Sign() < 0 {
				code = 0x67
			}
			abs := new(big.Int).Abs(v)
			l := (abs.BitLen() + 7) / 8
			doc = append(append(append(doc, code), c19Uleb(uint64(l))...), c19LE(abs, l)...)
		}
		return append(doc, 0x9b)
	}
	doc := enc(vals)
	want := func(i int) string { return vals[i].String() }
	check := func(name string, got func(i int) (string, bool), count int) {
		c.Eval()
		c.Inc("many-bigints." + name)
		if count != n {
			c.Fail("many-bigints-wrong-count:"+name, map[string]interface{}{"doc": hexs(doc), "want": n, "got": count})
			return
		}
		for i := 0; i < n; i++ {
			g, ok := got(i)
			if !ok || g != want(i) {
				c.Fail("inexact:bint->bigint@several-big-integers-in-one-document:"+name, map[string]interface{}{"doc": hexs(doc), "element": i, "want": want(i), "got": g})
				return
			}
		}
	}
	um := ce.NewCBEUnmarshaler(cfg)
	if o, err := um.UnmarshalFromDocument(doc, []*big.Int(nil)); err == nil {
		res, _ := o.([]*big.Int)
		check("[]*big.Int", func(i int) (string, bool) {
			if res[i] == nil {
				return "nil", false
			}
			return res[i].String(), true
		}, len(res))
		// the next document through the same unmarshaler must not disturb the result already handed out
		second := enc([]*big.Int{new(big.Int).Lsh(big.NewInt(0x7fffffff), 600), new(big.Int).Lsh(big.NewInt(3), 70)})
		if _, err := um.UnmarshalFromDocument(second, []*big.Int(nil)); err == nil && len(res) == n {
			check("[]*big.Int-after-next-document", func(i int) (string, bool) { return res[i].String(), res[i] != nil }, len(res))
		}
	} else {
		c.Fail("many-bigints-rejected:[]*big.Int", map[string]interface{}{"doc": hexs(doc), "err": err.Error()})
	}
	if o, err := ce.UnmarshalFromCBEDocument(doc, []big.Int(nil), cfg); err == nil {
		res, _ := o.([]big.Int)
		check("[]big.Int", func(i int) (string, bool) { return res[i].String(), true }, len(res))
	} else {
		c.Fail("many-bigints-rejected:[]big.Int", map[string]interface{}{"doc": hexs(doc), "err": err.Error()})
	}
	if o, err := ce.UnmarshalFromCBEDocument(doc, nil, cfg); err == nil {
		res, _ := o.([]interface{})
		check("[]interface{}", func(i int) (string, bool) {
			b, ok := res[i].(*big.Int)
			if !ok || b == nil {
				return fmt.Sprintf("%T", res[i]), false
			}
			return b.String(), true
		}, len(res))
	} else {
		c.Fail("many-bigints-rejected:untyped", map[string]interface{}{"doc": hexs(doc), "err": err.Error()})
	}
}

// c19HeldAsInteger: the holder's Go value is of an integer kind (it reaches the destination like an integer event).
func c19HeldAsInteger(obj interface{}) bool {
	switch obj.(type) {
	case int, int8, int16, int32, int64, uint, uint8, uint16, uint32, uint64, *big.Int, big.Int:
		return true
	}
	return false
}

// c19StoredAny reads the finite number held by a holder field of any numeric Go kind (also inside an interface).
func c19StoredAny(obj interface{}) (c19Val, bool) {
	rv := reflect.ValueOf(obj)
	for rv.IsValid() && (rv.Kind() == reflect.Interface || rv.Kind() == reflect.Ptr && rv.Type() != reflect.TypeOf((*big.Int)(nil)) && rv.Type() != reflect.TypeOf((*big.Float)(nil))) {
		if rv.IsNil() {
			return c19Val{}, false
		}
		rv = rv.Elem()
	}
	if !rv.IsValid() {
		return c19Val{}, false
	}
	switch rv.Kind() {
	case reflect.Int, reflect.Int8, reflect.Int16, reflect.Int32, reflect.Int64:
		return c19Int64(rv.Int()), true
	case reflect.Uint, reflect.Uint8, reflect.Uint16, reflect.Uint32, reflect.Uint64:
		return c19Int(new(big.Int).SetUint64(rv.Uint())), true
	case reflect.Float32, reflect.Float64:
		f := rv.Float()
		if math.IsNaN(f) || math.IsInf(f, 0) || f == 0 && math.Signbit(f) {
			return c19Val{}, false
		}
		return c19FloatVal(f), true
	}
	if s, _, ok := c19Stored(rv.Interface()); ok && s.Class == c19Finite && !s.NegZero {
		return s, true
	}
	return c19Val{}, false
}

func c19GoString(obj interface{}) string {
	switch x := obj.(type) {
	case *big.Float:
		if x == nil {
			return "(*big.Float)(nil)"
		}
		return fmt.Sprintf("big.Float{%s prec=%d}", x.Text('p', 0), x.Prec())
	case *big.Int:
		if x == nil {
			return "(*big.Int)(nil)"
		}
		return "big.Int{" + x.String() + "}"
	case float32:
		return fmt.Sprintf("float32(%b)", x)
	case float64:
		if math.IsNaN(x) {
			return "float64(NaN)"
		}
		return fmt.Sprintf("float64(%b)", x)
	}
	return fmt.Sprintf("%T(%v)", obj, obj)
}
