package checks

import (
	"bytes"
	"math/big"
	"strings"

	"github.com/cockroachdb/apd/v2"
	compact_float "github.com/kstenerud/go-compact-float"
	compact_time "github.com/kstenerud/go-compact-time"
	"github.com/kstenerud/go-concise-encoding/ce"
	"github.com/kstenerud/go-concise-encoding/ce/events"
	"github.com/kstenerud/go-concise-encoding/configuration"

	"verifharness/ev"
	"verifharness/fw"
	"verifharness/gen"
)

type c14Case struct {
	stream []ev.Event
	cbe    []byte
	cte    []byte
}

const c14Directed = 16

func c14Encode(c *fw.Ctx, cs *c14Case, wantCBE, wantCTE bool) {
	cfg := configuration.New()
	if wantCBE {
		doc, fi, _ := encodeWithRules(ce.NewCBEEncoder(cfg), cs.stream, cfg)
		if fi >= 0 {
			c.Inc("skipped.cbe.encode-failed")
		} else {
			cs.cbe = doc
		}
	}
	if wantCTE {
		doc, fi, _ := encodeWithRules(ce.NewCTEEncoder(cfg), cs.stream, cfg)
		if fi >= 0 {
			c.Inc("skipped.cte.encode-failed")
		} else {
			cs.cte = doc
			if c.Rng.Intn(3) == 0 {
				// trailing white space belongs to the document and to its size
				cs.cte = append(append([]byte{}, doc...), []string{"\n", " ", "\n\n", "  \t\n", "\r\n"}[c.Rng.Intn(5)]...)
				c.Inc("feature.cte-trailing-whitespace")
			}
		}
	}
}

func c14S(s string) ev.Event              { return ev.Event{K: ev.STRARR, AT: events.ArrayTypeString, S: s} }
func c14K(k ev.Kind) ev.Event             { return ev.Event{K: k} }
func c14ID(k ev.Kind, id string) ev.Event { return ev.Event{K: k, B: []byte(id)} }
func c14Int(i int64) ev.Event             { return ev.Event{K: ev.INT, I: i} }

// c14DirectedStream returns fixed documents, one per structural feature the property's limits
// interact with.
func c14DirectedStream(idx int) []ev.Event {
	L, M, N, E, END := c14K(ev.LIST), c14K(ev.MAP), c14K(ev.NODE), c14K(ev.EDGE), c14K(ev.END)
	U8, BIT, STR := events.ArrayTypeUint8, events.ArrayTypeBit, events.ArrayTypeString
	switch idx {
	case 0: // a single scalar: every usage is 0 except object count 1
		return c15Doc(c14K(ev.TRUE))
	case 1: // plain objects only: object count is unambiguous (11)
		body := []ev.Event{L}
		for i := 0; i < 10; i++ {
			body = append(body, c14Int(int64(i*1000)))
		}
		return c15Doc(append(body, END)...)
	case 2: // nesting depth 6 of lists, scalar at the bottom, siblings shallower
		return c15Doc(L, L, L, c14Int(1), L, L, L, c14S("deep"), END, END, END, END, c14K(ev.NULL), END, L, END, END)
	case 3: // every container kind nested: list > map > node > edge > record, plus a record type (depth 5)
		return c15Doc(c14ID(ev.RECTYPE, "rt"), c14S("a"), c14S("b"), END,
			L, M, c14S("k"), N, c14K(ev.TRUE), E, c14S("src"), c14K(ev.NULL), ev.Event{K: ev.RECORD, B: []byte("rt")}, c14Int(1), L, END, END, END, END, END, END)
	case 4: // record type alone makes depth 1 although the value is a scalar
		return c15Doc(c14ID(ev.RECTYPE, "only-a-type"), c14S("x"), END, c14Int(5))
	case 5: // markers: backward and forward references, marked container holding a marker, marker on a map key
		return c15Doc(M,
			c14ID(ev.MARK, "k1"), c14S("key"), c14ID(ev.REF, "later"),
			c14S("list"), c14ID(ev.MARK, "outer"), L, c14ID(ev.MARK, "inner"), c14Int(7), c14ID(ev.REF, "inner"), c14ID(ev.REF, "k1"), END,
			c14S("tail"), c14ID(ev.MARK, "later"), c14K(ev.FALSE),
			c14S("more"), c14ID(ev.REF, "outer"),
			END)
	case 6: // identifiers of different byte and character lengths; the longest one is multi-byte and only used by a reference/marker pair
		return c15Doc(c14ID(ev.RECTYPE, "тип_записи"), c14S("f"), END,
			L, ev.Event{K: ev.RECORD, B: []byte("тип_записи")}, c14Int(1), END, c14ID(ev.REF, "идентификатор-15"), c14ID(ev.MARK, "идентификатор-15"), c14K(ev.TRUE), c14ID(ev.MARK, "m"), c14Int(2), END)
	case 7: // identifier at the largest length the default accepts? no: 127 bytes, a length-field boundary of CBE
		id := strings.Repeat("i", 127)
		return c15Doc(L, c14ID(ev.MARK, id), c14Int(1), c14ID(ev.REF, id), END)
	case 8: // arrays: chunked string with several chunks (one empty, one splitting inside a character across data events), bit array, UID array
		return c15Doc(L,
			ev.Event{K: ev.ABEGIN, AT: STR}, ev.Event{K: ev.CHUNK, U: 4, Flag: true}, ev.Event{K: ev.DATA, B: []byte("a\xe6")}, ev.Event{K: ev.DATA, B: []byte("\x97\xa5")},
			ev.Event{K: ev.CHUNK, U: 0, Flag: true}, ev.Event{K: ev.CHUNK, U: 7, Flag: false}, ev.Event{K: ev.DATA, B: []byte("1234567")},
			ev.Event{K: ev.ARR, AT: BIT, U: 11, B: []byte{0xff, 0x07}},
			ev.Event{K: ev.ABEGIN, AT: BIT}, ev.Event{K: ev.CHUNK, U: 16, Flag: true}, ev.Event{K: ev.DATA, B: []byte{1, 2}}, ev.Event{K: ev.CHUNK, U: 3, Flag: false}, ev.Event{K: ev.DATA, B: []byte{5}},
			ev.Event{K: ev.ARR, AT: events.ArrayTypeUint16, U: 4, B: []byte{1, 0, 2, 0, 3, 0, 4, 0}},
			c14S("short"), END)
	case 9: // the largest array is a UID array (16 bytes per element) given in chunks
		return c15Doc(L, ev.Event{K: ev.ABEGIN, AT: events.ArrayTypeUID}, ev.Event{K: ev.CHUNK, U: 1, Flag: true}, ev.Event{K: ev.DATA, B: bytes.Repeat([]byte{1}, 16)},
			ev.Event{K: ev.CHUNK, U: 2, Flag: false}, ev.Event{K: ev.DATA, B: bytes.Repeat([]byte{2}, 32)}, c14S("0123456789012345678901234567890"), END)
	case 10: // media (whole and chunked) and custom binary; the media type is longer than any payload
		return c15Doc(L, ev.Event{K: ev.MEDIA, S: "application/vnd.api+json", B: []byte{1, 2, 3}},
			ev.Event{K: ev.MBEGIN, S: "image/png"}, ev.Event{K: ev.CHUNK, U: 2, Flag: true}, ev.Event{K: ev.DATA, B: []byte{1, 2}}, ev.Event{K: ev.CHUNK, U: 3, Flag: false}, ev.Event{K: ev.DATA, B: []byte{3, 4, 5}},
			ev.Event{K: ev.CUSTB, U: 9, B: []byte{1, 2, 3, 4}}, END)
	case 11: // only empty arrays: array usage 0
		return c15Doc(L, c14S(""), ev.Event{K: ev.ARR, AT: U8, U: 0}, ev.Event{K: ev.ABEGIN, AT: U8}, ev.Event{K: ev.CHUNK, U: 0, Flag: false}, END)
	case 12: // document-size accounting in CBE: values whose encoding uses length fields and the compact time / float sub-formats
		d, _, _ := apd.NewFromString("1234567890123456789012345678.9e-50")
		return c15Doc(L,
			ev.Event{K: ev.TIME, T: compact_time.NewTimestamp(2020, 1, 2, 3, 4, 5, 123456789, compact_time.TZAtAreaLocation("Europe/Berlin"))},
			ev.Event{K: ev.TIME, T: compact_time.NewTime(23, 59, 59, 0, compact_time.TZAtLatLong(1234, -5678))},
			ev.Event{K: ev.TIME, T: compact_time.NewDate(-2000, 12, 31)},
			ev.Event{K: ev.DFLOAT, DF: compact_float.DFloatValue(-7, 123456789012)}, ev.Event{K: ev.BDFLOAT, BD: d},
			ev.Event{K: ev.BINT, BI: new(big.Int).Lsh(big.NewInt(1), 100)}, ev.Event{K: ev.PINT, U: 1 << 40},
			c14S("a string longer than fifteen bytes, so it has a chunk header"),
			c14ID(ev.MARK, "marked"), ev.Event{K: ev.ARR, AT: U8, U: 20, B: make([]byte, 20)}, c14ID(ev.REF, "marked"),
			ev.Event{K: ev.CUSTB, U: 1000, B: []byte{1}}, ev.Event{K: ev.MEDIA, S: "a/b", B: []byte{9}}, END)
	case 13: // many markers, no other pseudo-objects
		body := []ev.Event{L}
		for i := 0; i < 9; i++ {
			body = append(body, c14ID(ev.MARK, string(rune('a'+i))), c14Int(int64(i)))
		}
		return c15Doc(append(body, END)...)
	case 14: // comments and padding everywhere; a comment longer than every array
		return c15Doc(ev.Event{K: ev.COM, Flag: true, B: []byte("a long block comment, longer than all arrays")}, c14K(ev.PAD), L, c14K(ev.PAD), ev.Event{K: ev.COM, B: []byte("c")}, c14S("abc"), c14K(ev.PAD), END)
	default: // nodes and edges: each is one container level
		return c15Doc(N, c14Int(1), N, c14Int(2), E, N, c14Int(3), END, c14K(ev.NULL), N, c14Int(4), N, c14Int(5), END, END, END, END, END)
	}
}

func c14Opts(c *fw.Ctx) gen.StreamOpts {
	r := c.Rng
	o := gen.StreamOpts{Comments: r.Intn(3) != 0, Padding: r.Intn(3) != 0, CustomBinary: true, CustomText: r.Intn(2) == 0, RemoteRef: r.Intn(2) == 0,
		Markers: r.Intn(4) != 0, Records: r.Intn(4) != 0, Media: true, Chunked: true, MaxDepth: 2 + r.Intn(7), Size: 5 + r.Intn(60), MaxArrayLen: 40, MaxComments: 5}
	switch r.Intn(8) {
	case 0:
		o.MaxArrayLen = 300
	case 1:
		if c.Tier == "thorough" {
			o.MaxArrayLen = 5000
		}
	}
	if c.Tier == "thorough" && r.Intn(10) == 0 {
		o.Size = 200
	}
	return o
}

// c14TopValueStart returns the index of the first event of the top-level value (after version,
// pseudo-objects and record types).
func c14TopValueStart(log []ev.Event) int {
	i := 2
	for i < len(log) {
		switch log[i].K {
		case ev.PAD, ev.COM:
			i++
		case ev.RECTYPE:
			for log[i].K != ev.END {
				i++
			}
			i++
		default:
			return i
		}
	}
	return i
}

// c14Wrap nests the top-level value of a stream inside n more containers of random kinds.
func c14Wrap(c *fw.Ctx, log []ev.Event, n int) []ev.Event {
	start := c14TopValueStart(log)
	var openers, closers []ev.Event
	for i := 0; i < n; i++ {
		switch c.Rng.Intn(4) {
		case 0:
			openers = append(openers, c14K(ev.LIST))
		case 1:
			openers = append(openers, c14K(ev.MAP), c14S("w"))
		case 2:
			openers = append(openers, c14K(ev.NODE), c14Int(int64(i)))
		default:
			openers = append(openers, c14K(ev.LIST), c14K(ev.TRUE))
		}
		closers = append(closers, c14K(ev.END))
	}
	out := append([]ev.Event{}, log[:start]...)
	out = append(out, openers...)
	out = append(out, log[start:len(log)-1]...)
	out = append(out, closers...)
	return append(out, log[len(log)-1])
}

// c14Boost puts the top-level value into a list and appends marked values and references with
// identifiers of many lengths (1..300 bytes, single- and multi-byte characters), so that marker
// count and identifier length vary more than the shared generator makes them.
func c14Boost(c *fw.Ctx, log []ev.Event) []ev.Event {
	r := c.Rng
	start := c14TopValueStart(log)
	out := append([]ev.Event{}, log[:start]...)
	out = append(out, c14K(ev.LIST))
	out = append(out, log[start:len(log)-1]...)
	n := 1 + r.Intn(4)
	if r.Intn(4) == 0 {
		n = 5 + r.Intn(20)
	}
	var ids []string
	for i := 0; i < n; i++ {
		// the prefix "Zz" keeps these identifiers distinct from the generator's
		id := "Zz" + string(rune('a'+i%26)) + string(rune('0'+i/26))
		switch r.Intn(6) {
		case 0:
			id += strings.Repeat("x", r.Intn(40))
		case 1:
			id += strings.Repeat("\u044f", r.Intn(30))
		case 2:
			id += strings.Repeat("\u65e5", 1+r.Intn(10)) + "_" + strings.Repeat("-", r.Intn(3))
		case 3:
			id += strings.Repeat("L", []int{100, 123, 124, 200, 296}[r.Intn(5)])
		}
		if r.Intn(5) == 0 {
			// forward reference first
			out = append(out, c14ID(ev.REF, id))
		}
		out = append(out, c14ID(ev.MARK, id))
		switch r.Intn(4) {
		case 0:
			out = append(out, c14K(ev.LIST), c14Int(int64(i)), c14K(ev.END))
		case 1:
			out = append(out, c14S(gen.TextValue(r, 30, true)))
		default:
			out = append(out, c14Int(int64(r.Intn(100000))))
		}
		ids = append(ids, id)
		if r.Intn(3) == 0 {
			out = append(out, c14ID(ev.REF, ids[r.Intn(len(ids))]))
		}
	}
	out = append(out, c14K(ev.END))
	return append(out, log[len(log)-1])
}

func c14MakeCase(c *fw.Ctx, idx int) *c14Case {
	cs := &c14Case{}
	if idx < c14Directed {
		cs.stream = c14DirectedStream(idx)
		c14Encode(c, cs, true, true)
		return cs
	}
	if idx < c14Directed+len(c14HandDocs) {
		h := c14HandDocs[idx-c14Directed]
		if h.cte != "" {
			cs.cte = []byte(h.cte)
		} else {
			cs.cbe = h.cbe
		}
		return cs
	}
	keepAny := c.Rng.Intn(10) == 0
	for try := 0; try < 8; try++ {
		cs.stream = gen.Stream(c.Rng, c14Opts(c))
		if keepAny || nontrivialStream(cs.stream) {
			break
		}
	}
	if c.Rng.Intn(3) == 0 {
		n := 1 + c.Rng.Intn(6)
		if c.Rng.Intn(4) == 0 {
			n = 8 + c.Rng.Intn(10)
		}
		cs.stream = c14Wrap(c, cs.stream, n)
	}
	if c.Rng.Intn(3) == 0 {
		cs.stream = c14Boost(c, cs.stream)
	}
	// the CTE decoder is two orders of magnitude slower than the other paths: use it for every third document
	c14Encode(c, cs, true, idx%3 == 0)
	return cs
}

type c14HandDoc struct {
	cte string
	cbe []byte
}

// c14HandDocs are documents written by hand (not produced by the library's encoders).
var c14HandDocs = []c14HandDoc{
	{cte: "c0\n/* hand-written */ @rt<\"a\" \"b\">\n{\n    \"k\\n\\[1f600]\" = @u8x[01 02 03] // line comment\n    &m1:\"marked\" = $m1\n    1 = @rt{1 2}\n" +
		"    2 = (1 (2) (3))\n    3 = @(\"a\" null \"b\")\n    4 = @\"http://x.y\"\n    5 = @application/x-sh[aa bb cc]\n    6 = @b[101100011]\n}"},
	// header, 2 x padding, list [ 1 "ab" padding u8-array in two chunks (01 02 | 03 04) &x:true $x {} ]
	// top-level numbers: every prefix that still has a digit is a well-formed document too
	{cte: "c0 12345"},
	{cte: "c0\n-123456789.25"},
	{cte: "c0 [1 2 3]\n \n"},
	{cbe: []byte{0x81, 0x00, 0x95, 0x95, 0x9a, 0x01, 0x82, 0x61, 0x62, 0x95, 0x93, 0x05, 0x01, 0x02, 0x04, 0x03, 0x04, 0x7f, 0xf0, 0x01, 0x78, 0x79, 0x77, 0x01, 0x78, 0x99, 0x9b, 0x9b}},
}
