package checks

import (
	"encoding/hex"
	"fmt"
	"math"
	"math/big"
	"reflect"
	"sort"
	"strings"
	"time"

	"github.com/cockroachdb/apd/v2"
)

// c27ValueString renders any Go value the unmarshalers can return as a deterministic string: concrete types are
// named, floats are rendered by bit pattern, maps are sorted by rendered key, pointers are followed with a cycle guard.
// It is used only to compare two results of decoding the SAME bytes, so it does not need to be a data-model view.
func c27ValueString(v interface{}) string {
	var sb strings.Builder
	w := &c27Walker{sb: &sb, seen: map[uintptr]bool{}}
	w.walk(reflect.ValueOf(v), 0)
	return sb.String()
}

type c27Walker struct {
	sb   *strings.Builder
	seen map[uintptr]bool
}

var (
	c27TypeBigInt   = reflect.TypeOf(big.Int{})
	c27TypeBigFloat = reflect.TypeOf(big.Float{})
	c27TypeAPD      = reflect.TypeOf(apd.Decimal{})
	c27TypeTime     = reflect.TypeOf(time.Time{})
)

func (w *c27Walker) walk(v reflect.Value, depth int) {
	if !v.IsValid() {
		w.sb.WriteString("<nil>")
		return
	}
	if depth > 80 {
		w.sb.WriteString("<deep>")
		return
	}
	t := v.Type()
	switch t {
	case c27TypeBigInt:
		if v.CanAddr() && v.CanInterface() {
			fmt.Fprintf(w.sb, "big.Int(%s)", v.Addr().Interface().(*big.Int).String())
			return
		}
	case c27TypeBigFloat:
		if v.CanAddr() && v.CanInterface() {
			f := v.Addr().Interface().(*big.Float)
			fmt.Fprintf(w.sb, "big.Float(%s prec %d)", f.Text('p', 0), f.Prec())
			return
		}
	case c27TypeAPD:
		if v.CanAddr() && v.CanInterface() {
			d := v.Addr().Interface().(*apd.Decimal)
			fmt.Fprintf(w.sb, "apd(form %d neg %v coeff %s exp %d)", d.Form, d.Negative, d.Coeff.String(), d.Exponent)
			return
		}
	case c27TypeTime:
		if v.CanInterface() {
			tm := v.Interface().(time.Time)
			fmt.Fprintf(w.sb, "time.Time(%s %s)", tm.Format(time.RFC3339Nano), tm.Location().String())
			return
		}
	}
	switch v.Kind() {
	case reflect.Bool:
		fmt.Fprintf(w.sb, "%s(%v)", t, v.Bool())
	case reflect.Int, reflect.Int8, reflect.Int16, reflect.Int32, reflect.Int64:
		fmt.Fprintf(w.sb, "%s(%d)", t, v.Int())
	case reflect.Uint, reflect.Uint8, reflect.Uint16, reflect.Uint32, reflect.Uint64, reflect.Uintptr:
		fmt.Fprintf(w.sb, "%s(%d)", t, v.Uint())
	case reflect.Float32, reflect.Float64:
		fmt.Fprintf(w.sb, "%s(%016x)", t, math.Float64bits(v.Float()))
	case reflect.Complex64, reflect.Complex128:
		fmt.Fprintf(w.sb, "%s(%v)", t, v.Complex())
	case reflect.String:
		fmt.Fprintf(w.sb, "%s(%q)", t, v.String())
	case reflect.Interface:
		if v.IsNil() {
			w.sb.WriteString("iface(nil)")
			return
		}
		w.walk(v.Elem(), depth+1)
	case reflect.Ptr:
		if v.IsNil() {
			fmt.Fprintf(w.sb, "%s(nil)", t)
			return
		}
		p := v.Pointer()
		if w.seen[p] {
			w.sb.WriteString("<cycle>")
			return
		}
		w.seen[p] = true
		w.sb.WriteString("&")
		w.walk(v.Elem(), depth+1)
		delete(w.seen, p)
	case reflect.Slice:
		if v.IsNil() {
			fmt.Fprintf(w.sb, "%s(nil)", t)
			return
		}
		if t.Elem().Kind() == reflect.Uint8 {
			b := make([]byte, v.Len())
			for i := range b {
				b[i] = byte(v.Index(i).Uint())
			}
			fmt.Fprintf(w.sb, "%s(%s)", t, hex.EncodeToString(b))
			return
		}
		if v.Len() > 0 {
			p := v.Pointer()
			if w.seen[p] {
				w.sb.WriteString("<cycle>")
				return
			}
			w.seen[p] = true
			defer delete(w.seen, p)
		}
		fallthrough
	case reflect.Array:
		fmt.Fprintf(w.sb, "%s[", t)
		for i := 0; i < v.Len(); i++ {
			if i > 0 {
				w.sb.WriteString(", ")
			}
			w.walk(v.Index(i), depth+1)
		}
		w.sb.WriteString("]")
	case reflect.Map:
		if v.IsNil() {
			fmt.Fprintf(w.sb, "%s(nil)", t)
			return
		}
		p := v.Pointer()
		if w.seen[p] {
			w.sb.WriteString("<cycle>")
			return
		}
		w.seen[p] = true
		defer delete(w.seen, p)
		type kv struct{ k, v string }
		var ents []kv
		it := v.MapRange()
		for it.Next() {
			var ks, vs strings.Builder
			kw := &c27Walker{sb: &ks, seen: w.seen}
			kw.walk(it.Key(), depth+1)
			vw := &c27Walker{sb: &vs, seen: w.seen}
			vw.walk(it.Value(), depth+1)
			ents = append(ents, kv{ks.String(), vs.String()})
		}
		sort.Slice(ents, func(i, j int) bool {
			if ents[i].k != ents[j].k {
				return ents[i].k < ents[j].k
			}
			return ents[i].v < ents[j].v
		})
		fmt.Fprintf(w.sb, "%s{", t)
		for i, e := range ents {
			if i > 0 {
				w.sb.WriteString(", ")
			}
			w.sb.WriteString(e.k + ": " + e.v)
		}
		w.sb.WriteString("}")
	case reflect.Struct:
		fmt.Fprintf(w.sb, "%s{", t)
		for i := 0; i < v.NumField(); i++ {
			if i > 0 {
				w.sb.WriteString(", ")
			}
			w.sb.WriteString(t.Field(i).Name + ":")
			w.walk(v.Field(i), depth+1)
		}
		w.sb.WriteString("}")
	default:
		fmt.Fprintf(w.sb, "%s(?)", t)
	}
}
