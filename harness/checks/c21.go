package checks

import (
	"fmt"
	"reflect"
	"sort"
	"strings"

	"github.com/kstenerud/go-concise-encoding/ce"
	"github.com/kstenerud/go-concise-encoding/ce/events"
	"github.com/kstenerud/go-concise-encoding/configuration"
	"github.com/kstenerud/go-concise-encoding/iterator"

	"verifharness/ev"
	"verifharness/fw"
	"verifharness/gen"
)

// C21Inner / C21Outer: embedded struct variants that reflect.StructOf cannot express.
type C21Inner struct {
	InnerAlpha int64
	InnerBeta  string `ce:"name=ib"`
}

type C21Outer struct {
	Before int64
	C21Inner
	After string `ce:"order=-1"`
}

type c21Field struct {
	goName   string
	typ      reflect.Type
	tagName  string // "" if none
	omitTag  string // "", omit, omit_empty, omit_zero, omit_never
	order    *int64
	embedded bool
}

type c21Nested struct {
	X int64
	Y string
}

var c21FieldTypes = []reflect.Type{gen.TInt64, gen.TString, gen.TBool, gen.TFloat64, reflect.TypeOf([]string(nil)), reflect.TypeOf(map[string]int64(nil)),
	reflect.TypeOf((*int64)(nil)), reflect.TypeOf(c21Nested{}), reflect.TypeOf([]int32(nil)), gen.TUint8}

func c21Tag(f c21Field) string {
	var parts []string
	if f.tagName != "" {
		parts = append(parts, "name="+f.tagName)
	}
	if f.omitTag != "" {
		parts = append(parts, f.omitTag)
	}
	if f.order != nil {
		parts = append(parts, fmt.Sprintf("order=%d", *f.order))
	}
	if len(parts) == 0 {
		return ""
	}
	return `ce:"` + strings.Join(parts, ",") + `"`
}

// c21UnicodeNames: exported Go identifiers with non-ASCII letters whose upper/lower case mappings are one-to-one.
var c21UnicodeNames = []string{"\u00dcber", "\u00c9clair", "\u00d1and\u00fa", "\u00c6r\u00f8", "\u03a9mega", "Na\u00efve", "Caf\u00e9"}

func c21MakeType(c *fw.Ctx) (reflect.Type, []c21Field) {
	n := 1 + c.Rng.Intn(7)
	perm := c.Rng.Perm(len(gen.FieldNames))
	var fields []c21Field
	var sf []reflect.StructField
	for i := 0; i < n; i++ {
		f := c21Field{goName: gen.FieldNames[perm[i]], typ: c21FieldTypes[c.Rng.Intn(len(c21FieldTypes))]}
		if i < len(c21UnicodeNames) && c.Rng.Intn(5) == 0 {
			// a name with non-ASCII letters (one capital, so both name styles only differ in its case): matching "ignoring case" covers them too
			f.goName = c21UnicodeNames[(i+c.Idx)%len(c21UnicodeNames)]
			for _, g := range fields {
				if g.goName == f.goName {
					f.goName = gen.FieldNames[perm[i]]
				}
			}
			c.Inc("names.non_ascii")
		}
		if c.Rng.Intn(4) == 0 {
			f.tagName = fmt.Sprintf("renamed_%c%d", 'a'+byte(i), i) // invariant under both name styles
			if c.Rng.Intn(3) == 0 {
				f.tagName = []string{"caf\u00e9", "\u00e0b\u00e7", "\u00fcber_x", "\u03c9mega"}[c.Rng.Intn(4)] + fmt.Sprint(i) // lower-case non-ASCII letters (a tagged name with capitals is re-styled under the snake-case style: don't-care)
				c.Inc("names.non_ascii_tag")
			}
		}
		switch c.Rng.Intn(8) {
		case 0:
			f.omitTag = "omit"
		case 1:
			f.omitTag = "omit_empty"
		case 2:
			f.omitTag = "omit_zero"
		case 3:
			f.omitTag = "omit_never"
		}
		if c.Rng.Intn(3) == 0 {
			o := int64(c.Rng.Intn(5) - 2)
			f.order = &o
		}
		fields = append(fields, f)
		sf = append(sf, reflect.StructField{Name: f.goName, Type: f.typ, Tag: reflect.StructTag(c21Tag(f))})
	}
	if n >= 2 && c.Rng.Intn(3) == 0 {
		// a run of >= 2 fields moves into a chain of 1-7 anonymously embedded structs; the flattened declaration order stays the same
		a := c.Rng.Intn(n - 1)
		b := a + 2 + c.Rng.Intn(n-a-1)
		depth := 1 + c.Rng.Intn(7)
		c.Inc(fmt.Sprintf("embedded.depth%d", depth))
		var build func(seg []reflect.StructField, d int) reflect.Type
		build = func(seg []reflect.StructField, d int) reflect.Type {
			if d <= 1 {
				return reflect.StructOf(seg)
			}
			// keep at least two fields for the inner levels
			p := c.Rng.Intn(len(seg) - 1)
			q := p + 2 + c.Rng.Intn(len(seg)-p-1)
			inner := build(seg[p:q], d-1)
			var out []reflect.StructField
			out = append(out, seg[:p]...)
			out = append(out, reflect.StructField{Name: fmt.Sprintf("Emb%d", d), Type: inner, Anonymous: true})
			out = append(out, seg[q:]...)
			return reflect.StructOf(out)
		}
		inner := build(append([]reflect.StructField(nil), sf[a:b]...), depth)
		var out []reflect.StructField
		out = append(out, sf[:a]...)
		out = append(out, reflect.StructField{Name: "Emb0", Type: inner, Anonymous: true})
		out = append(out, sf[b:]...)
		sf = out
		for i := a; i < b; i++ {
			fields[i].embedded = true
		}
	}
	return reflect.StructOf(sf), fields
}

func c21Snake(name string) string { return c05SnakeCase(name) }

func c21DocName(f c21Field, style configuration.FieldNameStyle) string {
	if f.tagName != "" {
		return f.tagName
	}
	if style == configuration.FieldNameSnakeCase {
		return c21Snake(f.goName)
	}
	return f.goName
}

func c21Kept(f c21Field, v reflect.Value, def configuration.FieldOmitBehavior) bool {
	b := def
	switch f.omitTag {
	case "omit":
		return false
	case "omit_empty":
		b = configuration.OmitFieldEmpty
	case "omit_zero":
		b = configuration.OmitFieldZero
	case "omit_never":
		b = configuration.OmitFieldNever
	}
	switch b {
	case configuration.OmitFieldNever:
		return true
	case configuration.OmitFieldAlways:
		return false
	case configuration.OmitFieldZero:
		return !(v.IsZero() || c05IsEmpty(v))
	}
	return !c05IsEmpty(v)
}

func c21FillValue(c *fw.Ctx, v reflect.Value) {
	// zero / empty / non-zero with equal probability
	switch c.Rng.Intn(3) {
	case 0:
		return
	case 1:
		switch v.Kind() {
		case reflect.Slice:
			v.Set(reflect.MakeSlice(v.Type(), 0, 0))
		case reflect.Map:
			v.Set(reflect.MakeMap(v.Type()))
		}
		return
	}
	switch v.Kind() {
	case reflect.Int64:
		v.SetInt(int64(1 + c.Rng.Intn(1000)))
	case reflect.Uint8:
		v.SetUint(uint64(1 + c.Rng.Intn(200)))
	case reflect.String:
		v.SetString("s" + gen.TextValue(c.Rng, 6, true))
	case reflect.Bool:
		v.SetBool(true)
	case reflect.Float64:
		v.SetFloat(float64(1+c.Rng.Intn(100)) / 4)
	case reflect.Slice:
		if v.Type().Elem().Kind() == reflect.String {
			v.Set(reflect.ValueOf([]string{"a", "b" + gen.TextValue(c.Rng, 3, true)}))
		} else {
			v.Set(reflect.ValueOf([]int32{1, -2, int32(c.Rng.Intn(99))}))
		}
	case reflect.Map:
		v.Set(reflect.ValueOf(map[string]int64{"k": int64(c.Rng.Intn(50))}))
	case reflect.Ptr:
		x := int64(c.Rng.Intn(10)) // may be a pointer to zero
		v.Set(reflect.ValueOf(&x))
	case reflect.Struct:
		v.Set(reflect.ValueOf(c21Nested{X: int64(c.Rng.Intn(9)), Y: "y"}))
	}
}

func init() {
	fw.Register(&fw.Check{
		ID:    "C21",
		Level: "exploration",
		Rule: "case = struct type from reflect.StructOf with 1-7 fields named by unambiguous CamelCase words, random ce tags (name=, omit, omit_empty, omit_zero, omit_never, order=) plus hand-declared embedded variants, " +
			"values with zero / empty / non-zero fields, configuration = both name styles x default omit behaviours {Empty, Never, Zero} x case-insensitive matching on/off. " +
			"Marshal side: the top-level key sequence recorded from the real iterator must equal the reference (kept fields once each, tagged or styled name, stable sort by order tag). " +
			"Unmarshal side: a document with the struct's keys re-spelled (case, underscores), reordered and interleaved with unknown keys (scalars, arrays, nested containers) is unmarshaled into the struct type; " +
			"the result must equal the struct computed by a reference matcher. Non-trivial = type has >= 2 fields and >= 1 tag; distinct = distinct (type, value, configuration, document).",
		Assumptions: []string{"tagged names are lower-case words with underscores (invariant under both name styles)", "keys matching omit-tagged fields are never put in documents (don't-care)",
			"with case-sensitive matching only keys spelled exactly as the marshaler spells them are asserted to match"},
		Cases: func(tier string) int { return 4 + tierN(tier, 4000, 100000) },
		Run:   runC21,
		Floors: func(string) map[string]int64 {
			return map[string]int64{"marshal_key_sequences_compared": 1000, "unmarshal_compared": 1000, "tag.omit": 50, "tag.order": 50, "tag.name": 50, "unknown_keys_skipped": 500, "cfg.case_sensitive": 100}
		},
	})
}

// c21ValueEvents renders a Go value of the simple kinds as events.
func c21ValueEvents(v reflect.Value) []ev.Event {
	switch v.Kind() {
	case reflect.Int64, reflect.Int32, reflect.Int:
		return []ev.Event{{K: ev.INT, I: v.Int()}}
	case reflect.Uint8:
		return []ev.Event{{K: ev.PINT, U: v.Uint()}}
	case reflect.String:
		return []ev.Event{{K: ev.STRARR, AT: events.ArrayTypeString, S: v.String()}}
	case reflect.Bool:
		if v.Bool() {
			return []ev.Event{{K: ev.TRUE}}
		}
		return []ev.Event{{K: ev.FALSE}}
	case reflect.Float64:
		return []ev.Event{{K: ev.FLOAT, F: v.Float()}}
	case reflect.Ptr, reflect.Interface:
		if v.IsNil() {
			return []ev.Event{{K: ev.NULL}}
		}
		return c21ValueEvents(v.Elem())
	case reflect.Slice:
		out := []ev.Event{{K: ev.LIST}}
		for i := 0; i < v.Len(); i++ {
			out = append(out, c21ValueEvents(v.Index(i))...)
		}
		return append(out, ev.Event{K: ev.END})
	case reflect.Map:
		out := []ev.Event{{K: ev.MAP}}
		keys := v.MapKeys()
		sort.Slice(keys, func(i, j int) bool { return keys[i].String() < keys[j].String() })
		for _, k := range keys {
			out = append(out, c21ValueEvents(k)...)
			out = append(out, c21ValueEvents(v.MapIndex(k))...)
		}
		return append(out, ev.Event{K: ev.END})
	case reflect.Struct:
		out := []ev.Event{{K: ev.MAP}}
		for i := 0; i < v.NumField(); i++ {
			out = append(out, ev.Event{K: ev.STRARR, AT: events.ArrayTypeString, S: strings.ToLower(v.Type().Field(i).Name)})
			out = append(out, c21ValueEvents(v.Field(i))...)
		}
		return append(out, ev.Event{K: ev.END})
	}
	panic("c21: unsupported kind " + v.Kind().String())
}

func c21Respell(c *fw.Ctx, name string) string {
	switch c.Rng.Intn(5) {
	case 0:
		return strings.ToUpper(name)
	case 1:
		return strings.ToLower(name)
	case 2:
		return strings.ReplaceAll(name, "_", "")
	case 3:
		// insert underscores
		var sb strings.Builder
		for i, r := range name {
			if i > 0 && c.Rng.Intn(3) == 0 {
				sb.WriteByte('_')
			}
			sb.WriteRune(r)
		}
		return sb.String()
	}
	return name
}

func c21Unknown(c *fw.Ctx) []ev.Event {
	switch c.Rng.Intn(5) {
	case 0:
		return []ev.Event{{K: ev.PINT, U: 7}}
	case 1:
		return []ev.Event{{K: ev.ARR, AT: events.ArrayTypeUint8, U: 3, B: []byte{1, 2, 3}}}
	case 2:
		return []ev.Event{{K: ev.LIST}, {K: ev.PINT, U: 1}, {K: ev.LIST}, {K: ev.END}, {K: ev.MAP}, {K: ev.TRUE}, {K: ev.NULL}, {K: ev.END}, {K: ev.END}}
	case 3:
		return []ev.Event{{K: ev.MAP}, {K: ev.STRARR, AT: events.ArrayTypeString, S: "count"}, {K: ev.PINT, U: 5}, {K: ev.STRARR, AT: events.ArrayTypeString, S: "inner"}, {K: ev.MAP}, {K: ev.END}, {K: ev.END}}
	}
	return []ev.Event{{K: ev.STRARR, AT: events.ArrayTypeString, S: "unknown value"}}
}

func runC21(c *fw.Ctx, idx int) {
	cfg := configuration.New()
	cfgDesc := ""
	if c.Rng.Intn(2) == 0 {
		cfg.Iterator.FieldNameStyle = configuration.FieldNameCamelCase
		cfgDesc += "camel "
	} else {
		cfgDesc += "snake "
	}
	switch c.Rng.Intn(4) {
	case 3:
		// every field without an omit tag of its own is left out; fields tagged omit_never / omit_empty / omit_zero are judged by their tag
		cfg.Iterator.DefaultFieldOmitBehavior = configuration.OmitFieldAlways
		cfgDesc += "omit-always "
	case 0:
		cfg.Iterator.DefaultFieldOmitBehavior = configuration.OmitFieldNever
		cfgDesc += "omit-never "
	case 1:
		cfg.Iterator.DefaultFieldOmitBehavior = configuration.OmitFieldZero
		cfgDesc += "omit-zero "
	default:
		cfgDesc += "omit-empty "
	}
	if c.Rng.Intn(3) == 0 {
		cfg.Builder.CaseInsensitiveStructFieldNames = false
		cfgDesc += "case-sensitive "
		c.Inc("cfg.case_sensitive")
	}
	var t reflect.Type
	var fields []c21Field
	if idx < 4 {
		t = reflect.TypeOf(C21Outer{})
		m1 := int64(-1)
		fields = []c21Field{{goName: "Before", typ: gen.TInt64}, {goName: "InnerAlpha", typ: gen.TInt64, embedded: true}, {goName: "InnerBeta", typ: gen.TString, tagName: "ib", embedded: true},
			{goName: "After", typ: gen.TString, order: &m1}}
	} else {
		t, fields = c21MakeType(c)
	}
	v := reflect.New(t).Elem()
	fv := func(f c21Field) reflect.Value { return v.FieldByName(f.goName) } // promoted fields of embedded structs included
	for _, f := range fields {
		c21FillValue(c, fv(f))
		if f.tagName != "" {
			c.Inc("tag.name")
		}
		if f.omitTag != "" {
			c.Inc("tag." + f.omitTag)
		}
		if f.order != nil {
			c.Inc("tag.order")
		}
	}
	c.Note("C21 cfg[%s] type %v value %s", cfgDesc, t, short(gen.Render(v.Interface()), 800))
	detail := func(extra map[string]interface{}) map[string]interface{} {
		m := map[string]interface{}{"config": cfgDesc, "type": fmt.Sprint(t), "value": gen.Render(v.Interface())}
		for k, x := range extra {
			m[k] = x
		}
		return m
	}
	c.Eval()
	// ---- marshal side
	rec := &ev.Recorder{}
	p, st := fw.Guard(func() { iterator.NewSession(nil, cfg).NewIterator(rec).Iterate(v.Interface()) })
	if p != nil {
		c.Fail("iterate-panic", detail(map[string]interface{}{"panic": fmt.Sprint(p), "stack": short(st, 1200)}))
		return
	}
	got := c21TopLevelKeys(rec.Log)
	// reference: kept fields, stable sort by order (untagged last)
	type kf struct {
		name  string
		order int64
	}
	var want []kf
	for _, f := range fields {
		if c21Kept(f, fv(f), cfg.Iterator.DefaultFieldOmitBehavior) {
			o := int64(1<<63 - 1)
			if f.order != nil {
				o = *f.order
			}
			want = append(want, kf{c21DocName(f, cfg.Iterator.FieldNameStyle), o})
		}
	}
	sort.SliceStable(want, func(i, j int) bool { return want[i].order < want[j].order })
	var wantNames []string
	for _, w := range want {
		wantNames = append(wantNames, w.name)
	}
	c.Inc("marshal_key_sequences_compared")
	if len(fields) >= 2 {
		c.Distinct(cfgDesc + fmt.Sprint(t) + gen.Render(v.Interface()))
	}
	if strings.Join(got, "|") != strings.Join(wantNames, "|") {
		c.Fail("marshal-keys-differ", detail(map[string]interface{}{"got": got, "want": wantNames, "events": ev.LogStrings(rec.Log)}))
		return
	}
	// ---- unmarshal side: source values for every non-omit field, re-spelled keys, unknown keys
	src := reflect.New(t).Elem()
	sfv := func(f c21Field) reflect.Value { return src.FieldByName(f.goName) }
	type entry struct {
		key string
		val []ev.Event
	}
	var entries []entry
	expect := reflect.New(t).Elem()
	efv := func(f c21Field) reflect.Value { return expect.FieldByName(f.goName) }
	usedKeys := map[string]bool{}
	norm := func(s string) string { return strings.ToLower(strings.ReplaceAll(s, "_", "")) }
	for _, f := range fields {
		if f.omitTag == "omit" || c.Rng.Intn(5) == 0 {
			usedKeys[norm(c21DocName(f, cfg.Iterator.FieldNameStyle))] = true
			usedKeys[norm(f.goName)] = true
			continue
		}
		c21FillValue(c, sfv(f))
		if sfv(f).Kind() == reflect.Ptr && sfv(f).IsNil() || (sfv(f).Kind() == reflect.Slice || sfv(f).Kind() == reflect.Map) && sfv(f).IsNil() {
			// null into a field: keep simple, skip
			usedKeys[norm(c21DocName(f, cfg.Iterator.FieldNameStyle))] = true
			usedKeys[norm(f.goName)] = true
			continue
		}
		key := c21DocName(f, cfg.Iterator.FieldNameStyle)
		if cfg.Builder.CaseInsensitiveStructFieldNames {
			key = c21Respell(c, key)
			if c.Rng.Intn(4) == 0 && f.tagName == "" {
				key = c21Respell(c, f.goName)
			}
		}
		usedKeys[norm(key)] = true
		usedKeys[norm(f.goName)] = true
		entries = append(entries, entry{key, c21ValueEvents(sfv(f))})
		efv(f).Set(sfv(f))
	}
	unknown := 0
	for i := c.Rng.Intn(4); i > 0; i-- {
		k := fmt.Sprintf("zz_unknown_%d", i)
		if usedKeys[norm(k)] {
			continue
		}
		entries = append(entries, entry{k, c21Unknown(c)})
		unknown++
	}
	c.Rng.Shuffle(len(entries), func(i, j int) { entries[i], entries[j] = entries[j], entries[i] })
	log := []ev.Event{{K: ev.BD}, {K: ev.VER}, {K: ev.MAP}}
	for _, e := range entries {
		log = append(log, ev.Event{K: ev.STRARR, AT: events.ArrayTypeString, S: e.key})
		log = append(log, e.val...)
	}
	log = append(log, ev.Event{K: ev.END}, ev.Event{K: ev.ED})
	cte := c.Rng.Intn(2) == 0
	var doc []byte
	var fi int
	if cte {
		doc, fi, _ = encodeWithRules(ce.NewCTEEncoder(cfg), log, cfg)
	} else {
		doc, fi, _ = encodeWithRules(ce.NewCBEEncoder(cfg), log, cfg)
	}
	if fi >= 0 {
		c.Fail("harness-document-invalid", detail(map[string]interface{}{"events": ev.LogStrings(log), "event": fi}))
		return
	}
	out, err, p, st := unmarshalDoc(doc, reflect.Zero(t).Interface(), cte, cfg)
	if p != nil {
		c.Fail("unmarshal-escaped-panic", detail(map[string]interface{}{"doc": docString(doc, cte), "panic": fmt.Sprint(p), "stack": short(st, 1200)}))
		return
	}
	if err != nil {
		c.Fail("unmarshal-error:"+errClass(err), detail(map[string]interface{}{"doc": docString(doc, cte), "err": err.Error()}))
		return
	}
	c.Inc("unmarshal_compared")
	c.Count("unknown_keys_skipped", int64(unknown))
	if path, desc := gen.ValueEq(expect.Interface(), out); path != "" {
		sig := "unmarshal-fields-differ"
		if !cfg.Builder.CaseInsensitiveStructFieldNames {
			sig += "@case-sensitive"
		}
		c.Fail(sig, detail(map[string]interface{}{"doc": docString(doc, cte), "expected": gen.Render(expect.Interface()), "result": gen.Render(out), "path": path, "diff": desc}))
		return
	}
	if c.WantSample() && len(fields) > 2 {
		c.Sample(detail(map[string]interface{}{"keys": got, "doc": docString(doc, cte)}))
	}
}

func c21TopLevelKeys(log []ev.Event) []string {
	var keys []string
	depth := 0
	expectKey := true
	for _, e := range log {
		switch e.K {
		case ev.BD, ev.ED, ev.VER, ev.CHUNK, ev.DATA, ev.PAD, ev.COM:
			continue
		case ev.MAP, ev.LIST, ev.NODE, ev.EDGE, ev.RECORD:
			depth++
			continue
		case ev.END:
			depth--
			if depth == 1 {
				expectKey = true // a container value of the top-level map ended
			}
			continue
		}
		if depth != 1 {
			continue
		}
		if expectKey {
			if e.K == ev.STRARR {
				keys = append(keys, e.S)
			} else {
				keys = append(keys, "?"+e.String())
			}
			expectKey = false
		} else {
			expectKey = true
		}
	}
	return keys
}
