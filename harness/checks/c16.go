package checks

import (
	"bytes"
	"errors"
	"fmt"
	"io"
	"reflect"
	"regexp"
	"sort"
	"strings"
	"testing/iotest"

	"github.com/kstenerud/go-concise-encoding/ce"
	"github.com/kstenerud/go-concise-encoding/configuration"
	"github.com/kstenerud/go-concise-encoding/rules"

	"verifharness/ev"
	"verifharness/fw"
	"verifharness/gen"
)

func init() {
	fw.Register(&fw.Check{
		ID:    "C16",
		Level: "exploration",
		Rule: "case = history of 3-12 operations on ONE instance of one kind (CBE/CTE marshaler, CBE/CTE unmarshaler, CBE/CTE encoder re-armed with PrepareToEncode, CBE/CTE/universal decoder, rules validator with Reset), " +
			"operations drawn from {valid value/document/stream, invalid or truncated document, stream abandoned mid-document, unsupported Go type, new struct type, document close to MaxDocumentSizeBytes, limit violation, " +
			"markers/record types}; oracle: every call's (output bytes or canonical decoded output | ValueEq result | forwarded events, error nil-ness, error text with identifier lists sorted) equals what a FRESH instance " +
			"returns for that call alone. A hang is observed as a runtime deadlock report / CPU-budget kill of the worker. Non-trivial = history contains a failing operation followed by a compared operation; distinct = distinct histories.",
		Assumptions: []string{"marshaler outputs that differ bytewise are compared as canonical decoded data with unordered maps (Go map iteration order)", "error texts are compared after masking addresses and sorting bracketed identifier lists"},
		Cases:       func(tier string) int { return 12 + tierN(tier, 2500, 60000) },
		Run:         runC16,
		CPUBudget:   30,
		Floors: func(string) map[string]int64 {
			return map[string]int64{"histories": 500, "ops_compared": 5000, "ops_after_a_failed_op": 1000, "kind.marshaler": 50, "kind.unmarshaler": 50, "kind.encoder": 50, "kind.decoder": 50, "kind.rules": 50}
		},
	})
}

type c16Outcome struct {
	Out   string // rendered output (bytes hex / value / log)
	Canon string // canonical alternative for order-insensitive comparison ("" if none)
	Err   string // "" if nil
	Val   interface{}
}

var c16AddrRe = regexp.MustCompile(`0x[0-9a-f]{6,}`)
var c16ListRe = regexp.MustCompile(`\[([^\[\]]*)\]`)

func c16NormErr(e string) string {
	e = c16AddrRe.ReplaceAllString(e, "0xADDR")
	return c16ListRe.ReplaceAllStringFunc(e, func(m string) string {
		parts := strings.Split(m[1:len(m)-1], ", ")
		sort.Strings(parts)
		return "[" + strings.Join(parts, ", ") + "]"
	})
}

func c16Same(a, b c16Outcome) (bool, string) {
	if (a.Err == "") != (b.Err == "") {
		return false, fmt.Sprintf("error nil-ness differs: reused %q vs fresh %q", a.Err, b.Err)
	}
	if c16NormErr(a.Err) != c16NormErr(b.Err) {
		return false, fmt.Sprintf("error text differs: reused %q vs fresh %q", a.Err, b.Err)
	}
	if a.Val != nil || b.Val != nil {
		if p, d := gen.ValueEq(a.Val, b.Val); p != "" {
			return false, "result value differs at " + p + ": " + d
		}
		return true, ""
	}
	if a.Out == b.Out {
		return true, ""
	}
	if a.Canon != "" && a.Canon == b.Canon {
		return true, ""
	}
	return false, fmt.Sprintf("output differs: reused %s vs fresh %s", short(a.Out, 300), short(b.Out, 300))
}

// ---- operation material

type c16Op struct {
	Desc   string
	Fails  bool // expected to be a failing kind of operation (for the non-triviality rule only)
	Value  interface{}
	Tmpl   interface{}
	Doc    []byte
	Stream []ev.Event
}

// c16PrevUnsupported: the unsupported value of the previous operation of this history (single-goroutine worker).
var c16PrevUnsupported interface{}

func c16Value(c *fw.Ctx, i int, recursion bool) (interface{}, string, bool) {
	if i == 0 {
		c16PrevUnsupported = nil
	}
	if prev := c16PrevUnsupported; prev != nil && c.Rng.Intn(2) == 0 {
		// the pointer to (or the target of) the value that has just failed: sub-iterators/builders cached during the failed
		// generation are reached again through a different entry type
		c16PrevUnsupported = nil
		rv := reflect.ValueOf(prev)
		if rv.Kind() == reflect.Ptr && !rv.IsNil() {
			return rv.Elem().Interface(), "unsupported-pointee-after-pointer", true
		}
		p := reflect.New(rv.Type())
		p.Elem().Set(rv)
		return p.Interface(), "unsupported-pointer-after-value", true
	}
	switch c.Rng.Intn(7) {
	case 0:
		u := gen.UnsupportedValues()
		k := c.Rng.Intn(len(u))
		c16PrevUnsupported = u[k]
		return u[k], fmt.Sprintf("unsupported#%d", k), true
	case 1:
		// a struct type never seen before by this process (first-use path of the type caches)
		t := gen.RandStruct(c.Rng, 2, gen.TypeOpts{NoSpecial: true, Salt: fmt.Sprintf("X%dY%d", c.Idx, i)})
		return gen.RandValue(c.Rng, t, 2).Interface(), "new-struct-type", false
	case 2:
		// shared pointers (markers when recursion support is on; a cycle without it is a caller error)
		n := &c20N{V: 1}
		shared := &c20N{V: 2}
		n.S = []*c20N{shared, shared}
		if recursion {
			n.P = n
		}
		return n, "shared-pointers", false
	default:
		d := 1 + c.Rng.Intn(3)
		t := gen.RandType(c.Rng, d, gen.TypeOpts{NoSpecial: true})
		return gen.RandValue(c.Rng, t, d).Interface(), "value", false
	}
}

func c16CanonDoc(doc []byte, cte bool, _ *configuration.Configuration) string {
	cfg := configuration.New() // the history's limits must not make the comparison decode fail
	var res decodeResult
	if cte {
		res = decodeDoc(ce.NewCTEDecoder(cfg), doc, cfg, true)
	} else {
		res = decodeDoc(ce.NewCBEDecoder(cfg), doc, cfg, true)
	}
	if res.Err != nil || res.Panic != nil {
		return ""
	}
	n, err := ev.Canon(res.Log, ev.Opts{UnorderedMaps: true})
	if err != nil {
		return ""
	}
	return n.String()
}

// c16RefStream: small documents exercising the marker/reference tables, valid and invalid
// (dangling forward reference without any marker, duplicate marker, forward and backward references), and chunked strings that
// leave a validator holding part of a character (chunk ending inside one, stream given up inside one) or that only a stale part could complete.
func c16RefStream(c *fw.Ctx) ([]ev.Event, string) {
	str := func(x string) ev.Event { return ev.Event{K: ev.STRARR, AT: 1, S: x} }
	wrap := func(e ...ev.Event) []ev.Event {
		return append(append([]ev.Event{{K: ev.BD}, {K: ev.VER}}, e...), ev.Event{K: ev.ED})
	}
	id := []byte{byte('a' + c.Rng.Intn(3))}
	abegin := ev.Event{K: ev.ABEGIN, AT: 1}
	chunk := func(n uint64, more bool) ev.Event { return ev.Event{K: ev.CHUNK, U: n, Flag: more} }
	data := func(b ...byte) ev.Event { return ev.Event{K: ev.DATA, B: b} }
	ckey := func(k string) []ev.Event { return []ev.Event{abegin, chunk(uint64(len(k)), false), data([]byte(k)...)} }
	cmap := func(k1, k2 string) []ev.Event {
		body := append([]ev.Event{{K: ev.MAP}}, ckey(k1)...)
		body = append(append(body, ev.Event{K: ev.PINT, U: 1}), ckey(k2)...)
		return wrap(append(body, ev.Event{K: ev.PINT, U: 2}, ev.Event{K: ev.END})...)
	}
	switch c.Rng.Intn(13) {
	case 10: // given up with the first bytes of a chunked string collected
		return []ev.Event{{K: ev.BD}, {K: ev.VER}, abegin, chunk(5, false), data('a', 'b')}, "unfinished-chunked-string"
	case 11: // chunk-delivered map keys: the same key twice
		k := []string{"c", "abc", "k"}[c.Rng.Intn(3)]
		return cmap(k, k), "duplicate-chunked-key"
	case 12: // chunk-delivered map keys that differ by exactly what an earlier document may have left behind
		return cmap("c", "abc"), "chunked-keys"
	case 6: // the validator is left holding the first bytes of a character
		return wrap(abegin, chunk(2, true), data(0xe2, 0x82), chunk(1, false), data(0xac)), "invalid-utf8-chunk-ends-mid-character"
	case 7:
		if c.Rng.Intn(2) == 0 {
			return wrap(abegin, chunk(3, false), data('a', 'b', 'c')), "chunked-string"
		}
		return wrap(abegin, chunk(6, false), data('x', 0xe2), data(0x82, 0xac, 'y', 'z')), "chunked-string"
	case 8:
		return wrap(abegin, chunk(1+uint64(c.Rng.Intn(2)), false), data(0xac), data('a')), "invalid-utf8-continuation-byte-first"
	case 9: // given up inside a character
		return []ev.Event{{K: ev.BD}, {K: ev.VER}, abegin, chunk(3+uint64(c.Rng.Intn(3)), false), data(0xe2, 0x82)}, "unfinished-chunked-string"
	case 0:
		return wrap(ev.Event{K: ev.LIST}, ev.Event{K: ev.REF, B: id}, ev.Event{K: ev.PINT, U: 1}, ev.Event{K: ev.END}), "dangling-forward-ref"
	case 1:
		return wrap(ev.Event{K: ev.LIST}, ev.Event{K: ev.REF, B: id}, ev.Event{K: ev.MARK, B: id}, ev.Event{K: ev.PINT, U: 5}, ev.Event{K: ev.END}), "forward-ref"
	case 2:
		return wrap(ev.Event{K: ev.MAP}, str("x"), ev.Event{K: ev.MARK, B: id}, ev.Event{K: ev.PINT, U: 5}, str("y"), ev.Event{K: ev.REF, B: id}, ev.Event{K: ev.END}), "backward-ref"
	case 3:
		return wrap(ev.Event{K: ev.LIST}, ev.Event{K: ev.MARK, B: id}, ev.Event{K: ev.PINT, U: 1}, ev.Event{K: ev.MARK, B: id}, ev.Event{K: ev.PINT, U: 2}, ev.Event{K: ev.END}), "duplicate-marker"
	case 4:
		return wrap(ev.Event{K: ev.MAP}, ev.Event{K: ev.REF, B: id}, ev.Event{K: ev.PINT, U: 1}, ev.Event{K: ev.END}), "dangling-key-ref"
	default:
		return []ev.Event{{K: ev.BD}, {K: ev.VER}, {K: ev.RECTYPE, B: id}, str("k"), {K: ev.END}, {K: ev.LIST}, {K: ev.RECORD, B: id}, {K: ev.PINT, U: 1}, {K: ev.END}, {K: ev.RECORD, B: id}, {K: ev.END}, {K: ev.END}, {K: ev.ED}}, "record-wrong-count"
	}
}

func c16RefDoc(c *fw.Ctx, cte bool) ([]byte, string) {
	log, desc := c16RefStream(c)
	cfg := configuration.New()
	var doc []byte
	if cte {
		doc, _, _ = encodeEvents(ce.NewCTEEncoder(cfg), log)
	} else {
		doc, _, _ = encodeEvents(ce.NewCBEEncoder(cfg), log)
	}
	return doc, desc
}

// c16PlainWriter hides every method of the buffer except Write.
type c16PlainWriter struct{ w *bytes.Buffer }

func (p c16PlainWriter) Write(b []byte) (int, error) { return p.w.Write(b) }

// c16FinalErrReader returns all of its data in one Read, together with a non-EOF error.
type c16FinalErrReader struct {
	data []byte
	done bool
}

func (r *c16FinalErrReader) Read(p []byte) (int, error) {
	if r.done {
		return 0, errors.New("c16: source failed")
	}
	n := copy(p, r.data)
	r.data = r.data[n:]
	if len(r.data) == 0 {
		r.done = true
		return n, errors.New("c16: source failed")
	}
	return n, nil
}

// c16Trailer: a stray byte after a complete document (rejected while the last delivered bytes are processed).
func c16Trailer(cte bool) []byte {
	if cte {
		return []byte(" ]")
	}
	return []byte{0x9b}
}

func c16Cfg(c *fw.Ctx) (*configuration.Configuration, string) {
	cfg := configuration.New()
	desc := ""
	if c.Rng.Intn(3) == 0 {
		cfg.Iterator.RecursionSupport = true
		desc += "recursion "
	}
	if c.Rng.Intn(3) == 0 {
		cfg.Rules.MaxDocumentSizeBytes = 400
		desc += "maxdoc400 "
	}
	if c.Rng.Intn(4) == 0 {
		cfg.Rules.MaxContainerDepth = 3
		desc += "maxdepth3 "
	}
	return cfg, desc
}

func c16Clone(cfg *configuration.Configuration) *configuration.Configuration {
	c := *cfg
	c.Iterator.RecordTypes = map[reflect.Type]string{}
	for k, v := range cfg.Iterator.RecordTypes {
		c.Iterator.RecordTypes[k] = v
	}
	return &c
}

func runC16(c *fw.Ctx, idx int) {
	kind := idx % 5
	cte := (idx/5)%2 == 1
	universal := kind == 3 && (idx/10)%3 == 2
	codec := "cbe"
	if cte {
		codec = "cte"
	}
	cfg, cfgDesc := c16Cfg(c)
	nOps := 3 + c.Rng.Intn(10)
	if idx < 12 {
		nOps = 4
	}
	var hist []string
	failedBefore := false
	nontrivial := false
	kindName := []string{"marshaler", "unmarshaler", "encoder", "decoder", "rules"}[kind]
	c.Inc("kind." + kindName)
	c.Inc("histories")
	c.Eval()

	// the reused instances
	var m ce.Marshaler
	var u ce.Unmarshaler
	var enc ce.Encoder
	var dec ce.Decoder
	var rl *rules.RulesEventReceiver
	rlRec := &ev.Recorder{}
	newMarshaler := func() ce.Marshaler {
		if cte {
			return ce.NewCTEMarshaler(c16Clone(cfg))
		}
		return ce.NewCBEMarshaler(c16Clone(cfg))
	}
	newUnmarshaler := func() ce.Unmarshaler {
		if cte {
			return ce.NewCTEUnmarshaler(c16Clone(cfg))
		}
		return ce.NewCBEUnmarshaler(c16Clone(cfg))
	}
	newEncoder := func() ce.Encoder {
		if cte {
			return ce.NewCTEEncoder(c16Clone(cfg))
		}
		return ce.NewCBEEncoder(c16Clone(cfg))
	}
	newDecoder := func() ce.Decoder {
		if universal {
			return ce.NewCEDecoder(c16Clone(cfg))
		}
		if cte {
			return ce.NewCTEDecoder(c16Clone(cfg))
		}
		return ce.NewCBEDecoder(c16Clone(cfg))
	}
	switch kind {
	case 0:
		m = newMarshaler()
	case 1:
		u = newUnmarshaler()
	case 2:
		enc = newEncoder()
	case 3:
		dec = newDecoder()
	case 4:
		rl = rules.NewRules(rlRec, c16Clone(cfg))
	}

	// writerMode (chosen per operation, the same for the reused and the fresh instance): 0 = MarshalToDocument / a bytes.Buffer
	// (which is also an io.StringWriter); 1 = Marshal into a bytes.Buffer; 2 = Marshal / PrepareToEncode into a writer that
	// only implements io.Writer (instances that remember what kind of writer they saw last must not mix documents up)
	writerMode := 0
	marshalWith := func(mm ce.Marshaler, v interface{}) c16Outcome {
		var doc []byte
		var err error
		p, _ := fw.Guard(func() {
			switch writerMode {
			case 1:
				var buf bytes.Buffer
				err = mm.Marshal(v, &buf)
				doc = buf.Bytes()
			case 2:
				var buf bytes.Buffer
				err = mm.Marshal(v, c16PlainWriter{&buf})
				doc = buf.Bytes()
			default:
				doc, err = mm.MarshalToDocument(v)
			}
		})
		o := c16Outcome{Out: docString(doc, cte)}
		if p != nil {
			o.Err = "ESCAPED PANIC: " + fmt.Sprint(p)
		} else if err != nil {
			o.Err = err.Error()
			o.Out = "" // output after an error is unspecified
		} else {
			o.Canon = c16CanonDoc(doc, cte, cfg)
		}
		return o
	}
	// readerMode (chosen per operation, the same for the reused and the fresh instance): 0 = the *FromDocument / DecodeDocument
	// entry point; otherwise the reader-based entry point over 1 = bytes.Reader, 2 = a reader that returns its last bytes
	// together with io.EOF, 3 = one byte per Read, 4 = half reads, 5 = last bytes together with a non-EOF error.
	readerMode := 0
	mkReader := func(doc []byte) io.Reader {
		switch readerMode {
		case 2:
			return iotest.DataErrReader(bytes.NewReader(doc))
		case 3:
			return iotest.OneByteReader(bytes.NewReader(doc))
		case 4:
			return iotest.HalfReader(bytes.NewReader(doc))
		case 5:
			return &c16FinalErrReader{data: doc}
		}
		return bytes.NewReader(doc)
	}
	unmarshalWith := func(uu ce.Unmarshaler, doc []byte, tmpl interface{}) c16Outcome {
		var out interface{}
		var err error
		p, _ := fw.Guard(func() {
			if readerMode == 0 {
				out, err = uu.UnmarshalFromDocument(doc, tmpl)
			} else {
				out, err = uu.Unmarshal(mkReader(doc), tmpl)
			}
		})
		o := c16Outcome{}
		if p != nil {
			o.Err = "ESCAPED PANIC: " + fmt.Sprint(p)
			return o
		}
		if err != nil {
			o.Err = err.Error()
			return o
		}
		o.Val = out
		if out == nil {
			o.Out = "nil"
		}
		return o
	}
	encodeWith := func(e ce.Encoder, log []ev.Event) c16Outcome {
		var buf bytes.Buffer
		if writerMode == 2 {
			e.PrepareToEncode(c16PlainWriter{&buf})
		} else {
			e.PrepareToEncode(&buf)
		}
		fi, p := replayAuto(e, log)
		o := c16Outcome{Out: docString(buf.Bytes(), cte)}
		if fi >= 0 {
			o.Err = fmt.Sprintf("event %d: %v", fi, p)
		}
		return o
	}
	decodeWith := func(d ce.Decoder, doc []byte) c16Outcome {
		rec := &ev.Recorder{}
		var err error
		p, _ := fw.Guard(func() {
			if readerMode == 0 {
				err = d.DecodeDocument(doc, rules.NewRules(rec, c16Clone(cfg)))
			} else {
				err = d.Decode(mkReader(doc), rules.NewRules(rec, c16Clone(cfg)))
			}
		})
		o := c16Outcome{Out: ev.LogString(rec.Log)}
		if p != nil {
			o.Err = "ESCAPED PANIC: " + fmt.Sprint(p)
		} else if err != nil {
			o.Err = err.Error()
		}
		return o
	}
	rulesWith := func(r *rules.RulesEventReceiver, rec *ev.Recorder, log []ev.Event) c16Outcome {
		rec.Reset()
		fi, p := replayAuto(r, log)
		o := c16Outcome{Out: ev.LogString(rec.Log)}
		if fi >= 0 {
			o.Err = fmt.Sprintf("event %d: %v", fi, p)
		}
		return o
	}

	validDoc := func() ([]byte, interface{}, string) {
		for tries := 0; tries < 10; tries++ {
			v, desc, unsupported := c16Value(c, tries, false)
			if unsupported || c04Region(v, "") != "general" {
				continue
			}
			doc, err, p, _ := marshalDoc(v, cte, configuration.New())
			if err == nil && p == nil {
				return doc, reflect.Zero(reflect.TypeOf(v)).Interface(), desc
			}
		}
		if cte {
			return []byte("c0\n[1 2 3]"), nil, "fallback"
		}
		return []byte{0x81, 0, 0x9a, 1, 2, 0x9b}, nil, "fallback"
	}

	for i := 0; i < nOps; i++ {
		var reused, fresh c16Outcome
		var desc string
		c.Region(fmt.Sprintf("%s-op%d", kindName, i))
		switch kind {
		case 0:
			v, d, unsupported := c16Value(c, i, cfg.Iterator.RecursionSupport)
			if idx < 12 && i < 2 {
				v, d, unsupported = make(chan int), "unsupported-chan", true // the same unsupported type twice
			}
			writerMode = c.Rng.Intn(3)
			d = fmt.Sprintf("writer%d-%s", writerMode, d)
			desc = d
			c.Note("C16 marshaler %s op%d %s %s", codec, i, d, short(gen.Render(v), 300))
			reused = marshalWith(m, v)
			fresh = marshalWith(newMarshaler(), v)
			_ = unsupported
		case 1:
			doc, tmpl, d := validDoc()
			if c.Rng.Intn(4) == 0 {
				doc, d = c16RefDoc(c, cte)
				tmpl = nil
			}
			switch c.Rng.Intn(6) {
			case 0:
				if len(doc) > 3 {
					doc = doc[:2+c.Rng.Intn(len(doc)-2)]
					d = "truncated-" + d
				}
			case 1:
				doc = mutateBytes(c, doc)
				d = "mutated-" + d
			case 2:
				tmpl = nil
				d = "untyped-" + d
			case 3:
				doc = append(append([]byte{}, doc...), c16Trailer(cte)...)
				d = "trailing-garbage-" + d
			}
			readerMode = 0
			if c.Rng.Intn(2) == 0 {
				readerMode = 1 + c.Rng.Intn(5)
				d = fmt.Sprintf("reader%d-%s", readerMode, d)
			}
			desc = d
			c.Note("C16 unmarshaler %s op%d %s %s", codec, i, d, docString(doc, cte))
			reused = unmarshalWith(u, doc, tmpl)
			fresh = unmarshalWith(newUnmarshaler(), doc, tmpl)
		case 2, 4:
			o := cteStreamOpts(c)
			if !cte {
				o = cbeStreamOpts(c)
			}
			if kind == 4 {
				o.CustomText = true
			}
			log := gen.Stream(c.Rng, o)
			desc = "stream"
			if c.Rng.Intn(4) == 0 {
				log, desc = c16RefStream(c)
			}
			switch c.Rng.Intn(5) {
			case 0:
				if len(log) > 3 {
					cut := 2 + c.Rng.Intn(len(log)-2)
					// half of the time the stream is abandoned in the middle of a chunked array (right after one of its data events),
					// where encoders and validators hold partially buffered state
					var inside []int
					for j, e := range log {
						if e.K == ev.DATA && j+1 < len(log) && (log[j+1].K == ev.CHUNK || log[j+1].K == ev.DATA) {
							inside = append(inside, j+1)
						}
					}
					if len(inside) > 0 && c.Rng.Intn(2) == 0 {
						cut = inside[c.Rng.Intn(len(inside))]
						desc = "mid-array-" + desc
					}
					log = log[:cut]
					desc = "abandoned-" + desc
				}
			case 1:
				if len(log) > 4 {
					j := 2 + c.Rng.Intn(len(log)-3)
					log = append(append(append([]ev.Event{}, log[:j]...), ev.Event{K: ev.END}), log[j:]...)
					desc = "corrupted-" + desc
				}
			}
			if kind == 2 {
				writerMode = []int{0, 2}[c.Rng.Intn(2)]
				desc = fmt.Sprintf("writer%d-%s", writerMode, desc)
			}
			c.Note("C16 %s %s op%d %s %s", kindName, codec, i, desc, short(ev.LogString(log), 1500))
			if kind == 2 {
				reused = encodeWith(enc, log)
				fresh = encodeWith(newEncoder(), log)
				if strings.Contains(desc, "corrupted-") || (kind == 2 && (strings.Contains(desc, "dangling") || strings.Contains(desc, "duplicate") || strings.Contains(desc, "wrong-count") || strings.Contains(desc, "invalid-utf8"))) {
					// An encoder driven with an invalid stream (no validator in front) is outside its contract:
					// the operation only serves to disturb the instance's state and is not compared.
					c.Inc("dontcare.invalid_stream_into_bare_encoder")
					hist = append(hist, desc+"(not compared)")
					failedBefore = true
					continue
				}
			} else {
				rl.Reset()
				reused = rulesWith(rl, rlRec, log)
				fr := &ev.Recorder{}
				fresh = rulesWith(rules.NewRules(fr, c16Clone(cfg)), fr, log)
			}
		case 3:
			doc, _, d := validDoc()
			if c.Rng.Intn(4) == 0 {
				doc, d = c16RefDoc(c, cte)
			}
			switch c.Rng.Intn(5) {
			case 0:
				if len(doc) > 3 {
					doc = doc[:2+c.Rng.Intn(len(doc)-2)]
					d = "truncated-" + d
				}
			case 1:
				doc = mutateBytes(c, doc)
				d = "mutated-" + d
			case 2:
				doc = append(append([]byte{}, doc...), c16Trailer(cte)...)
				d = "trailing-garbage-" + d
			}
			readerMode = 0
			if c.Rng.Intn(2) == 0 {
				readerMode = 1 + c.Rng.Intn(5)
				d = fmt.Sprintf("reader%d-%s", readerMode, d)
			}
			desc = d
			c.Note("C16 decoder %s op%d %s %s", codec, i, d, docString(doc, cte))
			reused = decodeWith(dec, doc)
			fresh = decodeWith(newDecoder(), doc)
		}
		hist = append(hist, desc)
		c.Inc("ops_compared")
		c.Inc("op." + strings.SplitN(desc, "-", 2)[0])
		if failedBefore {
			c.Inc("ops_after_a_failed_op")
			nontrivial = true
		}
		if ok, why := c16Same(reused, fresh); !ok {
			region := "general"
			if failedBefore {
				region = "after-failed-op"
			}
			c.Fail(fmt.Sprintf("reused-differs-from-fresh:%s:%s@%s", kindName, codec, region), map[string]interface{}{"config": cfgDesc, "history": hist, "op": i, "why": why})
			return
		}
		if fresh.Err != "" {
			failedBefore = true
		}
	}
	if nontrivial {
		c.Distinct(kindName + codec + cfgDesc + strings.Join(hist, ","))
	}
	if c.WantSample() && nontrivial {
		c.Sample(map[string]interface{}{"kind": kindName, "codec": codec, "config": cfgDesc, "history": hist})
	}
}
