package checks

import (
	"fmt"
	"runtime"
	"runtime/debug"
	"sync"

	"github.com/kstenerud/go-concise-encoding/configuration"
	"github.com/kstenerud/go-concise-encoding/rules"

	"verifharness/ev"
	"verifharness/fw"
)

// C11 — array validation ignores how the data is split.
//
// One case = (array kind, context, content, variant). The case enumerates every chunking of the content
// (cuts at element boundaries) and, for every chunking, every division of each chunk's data into data
// events (contents <= 8 bytes; seeded samples above), and drives each combination into a fresh
// rules.NewRules validator. Two oracles per drive:
//   model       : c11Judge (c11_model.go), written from the property text; accept/reject must agree and a
//                 rejection must come inside the window of events the property allows;
//   metamorphic : all data-event divisions of the same (chunks, content) give the same verdict.

const c11MaxExhaustiveBytes = 8

var c11TuneOnce sync.Once

// c11TuneRuntime: a worker runs one goroutine and millions of tiny drives. With the default GOMAXPROCS
// (= all cores) every worker's garbage collector wakes 16 threads per cycle, which on a shared machine costs
// 20x more than the drives themselves (measured: 39 us vs 1.5 us per drive). One P and a lazier collector
// change nothing observable about the library.
func c11TuneRuntime() {
	c11TuneOnce.Do(func() {
		runtime.GOMAXPROCS(1)
		debug.SetGCPercent(400)
	})
}

type c11Case struct {
	plan    c11Plan
	content []byte
	variant int
	origin  string
}

var c11StringKinds, c11OtherKinds []*c11Kind
var c11MediaKind *c11Kind

func init() {
	for i := range c11Kinds {
		k := &c11Kinds[i]
		switch {
		case k.API == c11APIMedia:
			c11MediaKind = k
		case k.Stringlike:
			c11StringKinds = append(c11StringKinds, k)
		default:
			c11OtherKinds = append(c11OtherKinds, k)
		}
	}
	fw.Register(&fw.Check{
		ID:    "C11",
		Level: "exploration",
		Rule: "case = (array kind of 19, context of 6, content, variant of 10: exact, empty final chunk, last chunk not final, zero-length chunks, short data, long data, chunk after the final one, " +
			"no chunk, empty data events, huge declared length); per case every chunking x every division of the chunk data into data events is driven (contents <= 8 bytes exhaustively, larger ones by seeded sample) " +
			"into a fresh rules.NewRules, plus the whole-array event forms. Oracles: reference model c11Judge written from the property text (byte accounting per chunk, last-chunk rule, UTF-8 validity and " +
			"character boundary per chunk for string-like kinds; a rejection must fall between the first event at which the violation is determined and the last array event / the event after it), and metamorphic " +
			"equality of the verdict over all data-event divisions of one (chunks, content). An evaluation = one driven event sequence. Non-trivial drive = >=2 chunks or >=2 data events; distinct = distinct (kind, context, chunk list with delivered data) groups having a non-trivial drive (each group stands for all its data-event divisions).",
		Assumptions: []string{"default configuration (array size limit 1 GiB); contents <= 64 bytes", "any panic raised by the validator at an event counts as its rejection of that event",
			"non-final bit-array chunks that are not a multiple of 8 bits, whole string-like arrays whose element count differs from the byte length, and empty data events outside a chunk are don't-care for the model (metamorphic oracle still applies)"},
		Exhaustive: func(string) bool { return false },
		Cases:      func(tier string) int { return c11Directed() + tierN(tier, 3000, 100000) },
		Run:        runC11,
		Floors: func(string) map[string]int64 {
			f := map[string]int64{"drives": 30000, "lib.accepted": 2000, "lib.rejected": 2000, "split.inside_character": 1000, "groups_compared": 2000,
				"whole_forms": 1000, "exhaustive_cases": 500}
			for i := range c11Kinds {
				f["kind."+c11Kinds[i].Name] = 40
			}
			for _, r := range []string{"short-data", "overflow", "not-final", "chunk-after-final", "utf8-invalid", "char-boundary", "media-type-utf8-invalid", "data-outside-chunk", "huge-declared-length"} {
				f["model.reject."+r] = 10
			}
			for _, v := range c11VarNames {
				f["variant."+v] = 100
			}
			return f
		},
	})
}

var c11OtherSizes = []int{0, 1, 2, 3} // elements (bytes for byte-wise kinds: see c11OtherContentLen)

func c11Directed() int {
	return len(c11StringKinds)*(len(c11ValidTexts)+len(c11InvalidTexts))*c11NumVariants +
		(len(c11MediaTypes)+len(c11BadMediaTypes))*2*c11NumVariants +
		len(c11OtherKinds)*len(c11OtherSizes)*c11NumVariants
}

func c11BytesFor(c *fw.Ctx, k *c11Kind, elems int) []byte {
	n := elems * c11ElemUnit(k)
	b := make([]byte, n)
	for i := range b {
		b[i] = byte(c.Rng.Intn(256))
	}
	return b
}

// c11MakeCase decodes idx into a case; directed cases first.
func c11MakeCase(c *fw.Ctx, idx int) c11Case {
	var cs c11Case
	nTexts := len(c11ValidTexts) + len(c11InvalidTexts)
	a := len(c11StringKinds) * nTexts * c11NumVariants
	b := a + (len(c11MediaTypes)+len(c11BadMediaTypes))*2*c11NumVariants
	d := b + len(c11OtherKinds)*len(c11OtherSizes)*c11NumVariants
	text := func(i int) []byte {
		if i < len(c11ValidTexts) {
			return []byte(c11ValidTexts[i])
		}
		return []byte(c11InvalidTexts[i-len(c11ValidTexts)])
	}
	switch {
	case idx < a:
		cs.origin = "directed-text"
		cs.variant = idx % c11NumVariants
		i := idx / c11NumVariants
		cs.content = text(i % nTexts)
		cs.plan.Kind = c11StringKinds[i/nTexts]
		cs.plan.Ctx = c11PickCtx(cs.plan.Kind, idx%c11NumCtx)
	case idx < b:
		cs.origin = "directed-media"
		j := idx - a
		cs.variant = j % c11NumVariants
		j /= c11NumVariants
		cs.plan.Kind = c11MediaKind
		mts := append(append([]string{}, c11MediaTypes...), c11BadMediaTypes...)
		cs.plan.MediaType = mts[j%len(mts)]
		if j/len(mts) == 0 {
			cs.content = []byte{0xff, 0x00, 0xc3}
		} else {
			cs.content = c11BytesFor(c, c11MediaKind, 8)
		}
		cs.plan.Ctx = c11PickCtx(cs.plan.Kind, idx%c11NumCtx)
	case idx < d:
		cs.origin = "directed-elements"
		j := idx - b
		cs.variant = j % c11NumVariants
		j /= c11NumVariants
		cs.plan.Kind = c11OtherKinds[j/len(c11OtherSizes)]
		cs.content = c11BytesFor(c, cs.plan.Kind, c11OtherSizes[j%len(c11OtherSizes)])
		cs.plan.Ctx = c11PickCtx(cs.plan.Kind, idx%c11NumCtx)
	default:
		cs.origin = "random"
		r := c.Rng
		cs.plan.Kind = &c11Kinds[r.Intn(len(c11Kinds))]
		if r.Intn(3) > 0 {
			cs.plan.Kind = c11StringKinds[r.Intn(len(c11StringKinds))]
		}
		k := cs.plan.Kind
		cs.variant = r.Intn(c11NumVariants)
		if r.Intn(3) == 0 {
			cs.variant = c11VarPlain
		}
		maxBytes := c11MaxExhaustiveBytes
		if r.Intn(5) < 2 {
			maxBytes = 9 + r.Intn(40)
		}
		if k.Stringlike {
			switch r.Intn(6) {
			case 0:
				cs.content = text(r.Intn(nTexts))
			case 1:
				cs.content = append(text(r.Intn(nTexts)), text(r.Intn(nTexts))...)
				if len(cs.content) > 64 {
					cs.content = cs.content[:64]
				}
			default:
				cs.content = c11RandText(r, maxBytes)
			}
		} else {
			unit := c11ElemUnit(k)
			cs.content = c11BytesFor(c, k, r.Intn(maxBytes/unit+1))
			if r.Intn(8) == 0 && unit > 1 {
				// a trailing partial element
				cs.content = append(cs.content, make([]byte, 1+r.Intn(unit-1))...)
			}
		}
		if k.API == c11APIMedia {
			if r.Intn(4) == 0 {
				cs.plan.MediaType = c11BadMediaTypes[r.Intn(len(c11BadMediaTypes))]
			} else {
				cs.plan.MediaType = c11MediaTypes[r.Intn(len(c11MediaTypes))]
			}
		}
		cs.plan.Ctx = c11PickCtx(k, r.Intn(c11NumCtx))
	}
	return cs
}

func c11Class(k *c11Kind) string {
	switch {
	case k.Stringlike:
		return "stringlike"
	case k.ElemBits == 1:
		return "bits"
	case k.ElemBits == 8:
		return "bytes"
	}
	return "elements"
}

type c11Runner struct {
	c       *fw.Ctx
	cfg     *configuration.Configuration
	cs      *c11Case
	failed  map[string]bool
	samples int
	buf     []ev.Event
	// per-case tallies, flushed into the evidence counters at the end of the case
	drives, events, accepted, rejected, runtimeErr, modelAccept, midChar, nontrivial, pairs int64
	rejAt                                                                                   [ev.NumKinds]int64
	reasons                                                                                 map[string]int64
	chunkShape, dataShape                                                                   [6]int64
}

var c11BucketNames = [6]string{"0", "1", "2", "3", "4-8", "9+"}

func c11BucketIdx(n int) int {
	switch {
	case n <= 3:
		return n
	case n <= 8:
		return 4
	}
	return 5
}

func (rn *c11Runner) flush() {
	c := rn.c
	c.Evals(rn.drives)
	c.Count("drives", rn.drives)
	c.Count("events_driven", rn.events)
	c.Count("lib.accepted", rn.accepted)
	c.Count("lib.rejected", rn.rejected)
	c.Count("lib.rejected_by_runtime_error", rn.runtimeErr)
	c.Count("model.accept", rn.modelAccept)
	c.Count("split.inside_character", rn.midChar)
	c.Count("nontrivial_drives", rn.nontrivial)
	c.Count("metamorphic_pairs", rn.pairs)
	for k, n := range rn.rejAt {
		if n > 0 {
			c.Count("lib.rejected_at."+ev.Kind(k).String(), n)
		}
	}
	for k, n := range rn.reasons {
		c.Count(k, n)
	}
	for i, n := range rn.chunkShape {
		if n > 0 {
			c.Count("shape.chunks_"+c11BucketNames[i], n)
		}
	}
	for i, n := range rn.dataShape {
		if n > 0 {
			c.Count("shape.data_events_"+c11BucketNames[i], n)
		}
	}
}

func (rn *c11Runner) fail(sig string, detail map[string]interface{}) {
	rn.c.Inc("fail." + sig)
	if rn.failed[sig] {
		return
	}
	rn.failed[sig] = true
	detail["kind"] = rn.cs.plan.Kind.Name
	detail["context"] = c11CtxNames[rn.cs.plan.Ctx]
	detail["variant"] = c11VarNames[rn.cs.variant]
	detail["content"] = hexs(rn.cs.content)
	rn.c.Fail(sig, detail)
}

// drive replays one log into a fresh validator and applies the model oracle.
// It returns the validator's verdict (accepted) and whether the model had an opinion.
func (rn *c11Runner) drive(log []ev.Event, first, follow int) (accepted bool) {
	k := rn.cs.plan.Kind
	r := rules.NewRules(nil, rn.cfg)
	rej, p := replayAuto(r, log)
	rn.drives++
	rn.events += int64(len(log))
	accepted = rej < 0
	if accepted {
		rn.accepted++
	} else {
		rn.rejected++
		rn.rejAt[log[rej].K]++
		if ev.IsRuntimePanic(p) {
			rn.runtimeErr++
		}
	}
	v := c11Judge(log, first, follow, rn.cfg.Rules.MaxArraySizeBytes)
	if v.DontCare != "" {
		rn.reasons["dontcare."+v.DontCare]++
		return
	}
	cls := c11Class(k)
	detail := func() map[string]interface{} {
		d := map[string]interface{}{"events": ev.LogStrings(log), "array_first_event": first, "event_after_array": follow,
			"model_accepts": v.Accept, "lib_rejected_at": rej, "lib_panic": short(ev.PanicString(p), 300)}
		if !v.Accept {
			d["model_reason"] = v.Reason
			d["model_window"] = []int{v.Earliest, v.Latest}
		}
		return d
	}
	if v.Accept {
		rn.modelAccept++
		if !accepted {
			where := "outside-array"
			if rej >= first && rej < follow {
				where = "at-" + log[rej].K.String()
			}
			rn.fail("rejected-valid@"+cls+":"+where, detail())
		}
		return
	}
	rn.reasons[c11ReasonKey(v.Reason)]++
	switch {
	case accepted:
		rn.fail("accepted-invalid:"+v.Reason+"@"+cls, detail())
	case rej < v.Earliest:
		rn.fail("rejected-early:"+v.Reason+"@"+cls, detail())
	case rej > v.Latest:
		rn.fail("rejected-late:"+v.Reason+"@"+cls, detail())
	}
	return
}

func runC11(c *fw.Ctx, idx int) {
	c11TuneRuntime()
	cs := c11MakeCase(c, idx)
	rn := &c11Runner{c: c, cfg: configuration.New(), cs: &cs, failed: map[string]bool{}, reasons: map[string]int64{}}
	defer rn.flush()
	k := cs.plan.Kind
	r := c.Rng
	c.Note("C11 %s ctx=%s variant=%s content=%s", k.Name, c11CtxNames[cs.plan.Ctx], c11VarNames[cs.variant], hexs(cs.content))
	c.Inc("kind." + k.Name)
	c.Inc("ctx." + c11CtxNames[cs.plan.Ctx])
	c.Inc("variant." + c11VarNames[cs.variant])
	c.Inc("origin." + cs.origin)
	if k.Stringlike {
		if c11ValidUTF8(cs.content) {
			c.Inc("content.valid_utf8")
		} else {
			c.Inc("content.invalid_utf8")
		}
	}

	unit := c11ElemUnit(k)
	units := len(cs.content) / unit
	exhaustive := len(cs.content) <= c11MaxExhaustiveBytes
	var chunkMasks []uint64
	if exhaustive {
		c.Inc("exhaustive_cases")
		n := units - 1
		if n < 0 {
			n = 0
		}
		for m := uint64(0); m < 1<<uint(n); m++ {
			chunkMasks = append(chunkMasks, m)
		}
	} else {
		c.Inc("sampled_cases")
		chunkMasks = append(chunkMasks, 0)
		for i := 0; i < 7; i++ {
			m := r.Uint64()
			if i%2 == 0 {
				m &= r.Uint64() & r.Uint64() // sparse cuts
			}
			chunkMasks = append(chunkMasks, m)
		}
	}

	for _, cm := range chunkMasks {
		bitsShort := 0
		if k.ElemBits == 1 {
			bitsShort = r.Intn(8)
		}
		base := c11Chunking(k, cs.content, cm, bitsShort)
		if k.ElemBits == 1 && len(base) > 1 && r.Intn(10) == 0 {
			// a non-final chunk that is not a whole number of bytes (model: don't-care)
			base = c11CloneChunks(base)
			base[0].Decl -= uint64(1 + r.Intn(7))
		}
		plan := cs.plan
		c11ApplyVariant(&plan, base, cs.variant, r)
		empties := 0
		if cs.variant == c11VarEmptyData {
			empties = 1 + r.Intn(3)
		}
		nb := c11InteriorBits(plan.Chunks)
		var splitMasks []uint64
		if nb <= c11MaxExhaustiveBytes+3 {
			for m := uint64(0); m < 1<<uint(nb); m++ {
				splitMasks = append(splitMasks, m)
			}
		} else {
			splitMasks = append(splitMasks, 0, ^uint64(0))
			for i := 0; i < 14; i++ {
				m := r.Uint64()
				if i%2 == 0 {
					m &= r.Uint64() & r.Uint64()
				}
				splitMasks = append(splitMasks, m)
			}
		}
		groupSet := false
		nontrivial := false
		groupAccepted := false
		var groupLog []ev.Event
		for _, sm := range splitMasks {
			log, first, follow, mid := c11Build(rn.buf[:0], &plan, sm, empties, r)
			rn.buf = log
			if mid {
				rn.midChar++
			}
			nData, nChunk := 0, 0
			for _, e := range log[first:follow] {
				switch e.K {
				case ev.DATA:
					nData++
				case ev.CHUNK:
					nChunk++
				}
			}
			rn.chunkShape[c11BucketIdx(nChunk)]++
			rn.dataShape[c11BucketIdx(nData)]++
			if nData >= 2 || nChunk >= 2 {
				rn.nontrivial++
				nontrivial = true
			}
			acc := rn.drive(log, first, follow)
			if !groupSet {
				groupSet, groupAccepted, groupLog = true, acc, append([]ev.Event(nil), log...)
			} else {
				rn.pairs++
				if acc != groupAccepted {
					rn.fail("verdict-depends-on-data-split@"+c11Class(k), map[string]interface{}{
						"events_a": ev.LogStrings(groupLog), "accepted_a": groupAccepted, "events_b": ev.LogStrings(log), "accepted_b": acc})
				}
			}
			if c.WantSample() && rn.samples < 1 && nData >= 2 && nChunk >= 2 && ((idx%70 == 0 && mid && acc) || idx%197 == 0) {
				rn.samples++
				c.Sample(map[string]interface{}{"kind": k.Name, "context": c11CtxNames[plan.Ctx], "variant": c11VarNames[cs.variant],
					"events": ev.LogStrings(log), "accepted": acc})
			}
		}
		c.Inc("groups_compared")
		if nontrivial {
			c.Distinct(k.Name + "|" + c11CtxNames[plan.Ctx] + "|" + plan.MediaType + "|" + c11PlanString(&plan))
		}
	}

	if cs.variant == c11VarPlain {
		plan := cs.plan
		logs, firsts := c11WholeForms(&plan, cs.content, r)
		for i, log := range logs {
			c.Inc("whole_forms")
			c.Inc("whole_form." + log[firsts[i]].K.String())
			rn.drive(log, firsts[i], firsts[i]+1)
		}
	}
}

func c11PlanString(p *c11Plan) string {
	s := hexs(p.PreData)
	for _, ch := range p.Chunks {
		s += fmt.Sprintf(" chunk(%d,%v)=%s", ch.Decl, ch.More, hexs(ch.Data))
	}
	return s
}

var c11ReasonKeys = map[string]string{}

func c11ReasonKey(reason string) string {
	k, ok := c11ReasonKeys[reason]
	if !ok {
		k = "model.reject." + reason
		c11ReasonKeys[reason] = k
	}
	return k
}
