package checks

import (
	"encoding/hex"
	"fmt"
	"net/url"
	"sort"
	"strconv"
	"strings"

	"github.com/kstenerud/go-concise-encoding/ce"
	"github.com/kstenerud/go-concise-encoding/ce/events"
	"github.com/kstenerud/go-concise-encoding/configuration"

	"verifharness/ev"
	"verifharness/fw"
	"verifharness/gen"
)

func init() {
	fw.Register(&fw.Check{
		ID:    "C06",
		Level: "exploration",
		Rule: "case = rules-valid stream (directed probes first, then generated; no custom types, no remote references, no cyclic references; generated streams carry backward and forward references, " +
			"a quarter of them marker-dense) encoded as a CBE or CTE document that the decoder+rules accept; " +
			"ce.UnmarshalFrom*Document(doc, nil) must return no error; the result is marshaled again with the same codec, decoded, and its canonical view must equal the original's after " +
			"{records -> maps with the record type's keys, references substituted by their targets, markers/comments/padding dropped, maps unordered, numbers by exact value, NaN elements by kind, " +
			"float16 array elements by exact value (they come back as a float32 array: Go has no 16-bit float type)}. " +
			"Non-trivial = >=1 container and >=3 values; distinct = distinct source documents.",
		Assumptions: []string{"the harness's canonical view defines 'same data'",
			"custom types and remote references are excluded (no builder exists for custom types; remote references legitimately come back as resource IDs)",
			"a float16 array and a float32 array with the same element values are the same data (numbers are compared by value, not by encoding width)",
			"cyclic references are excluded (their targets cannot be substituted in a finite document)"},
		Cases: func(tier string) int { return 2*len(c06Probes) + tierN(tier, 3000, 80000) },
		Run:   runC06,
		Floors: func(string) map[string]int64 {
			return map[string]int64{"untyped_unmarshals": 1000, "remarshal_compared": 500, "in.ev.mark": 1, "in.ev.ref": 1, "in.ev.record": 1, "in.ev.node": 1, "in.ev.edge": 1,
				"directed_probes": int64(2 * len(c06Probes)), "in.forward-ref": 1, "in.time.date": 1, "in.time.time": 1, "in.time.timestamp": 1,
				"in.arr.bit": 1, "in.arr.uid": 1, "in.arr.float16": 1, "in.rid": 1}
		},
	})
}

// c06Probes are directed documents (CTE text, decoded to events without rules and then treated like a
// generated stream, so each is tried as CBE and as CTE). One per failure class found on the tree this check
// was developed against (all repaired or known), plus boundary cases. The probes named in KNOWN_FINDINGS.txt
// must stay: they make every known signature appear on every run.
var c06Probes = []string{
	// edges (known finding contains-edge)
	`@("a" 1 "b")`,
	`[@("a" null []) 2]`,
	// nodes, markers and references in nodes
	`("root" (1) true)`,
	`{"k"=&m:[7] "r"=$m}`,
	`[&a:"marked" ($a $a)]`,
	`(&a:1.5 2 $a)`,
	`[(&a:"x" $a) $a]`,
	`(&a:[1] &b:{1=2} $a $b)`,
	`[&a:1 &b:[2] &c:{"x"=3} &d:-9223372036854775809 $a $b $c $d {$d=$c} $a]`,
	// records: two record types, non-string keys, the same record type used twice
	"@r<\"x\" \"y\">\n[@r{1 null} @r{[] \"v\"}]",
	"@a<\"p\" \"q\">\n@b<\"s\">\n[@a{1 2} @b{3} @a{4 5}]",
	"@a<\"p\" d30b33f5-19ca-2649-9e99-6360c7608011 2020-01-01 17 true>\n@a{1 2 3 4 5}",
	`[&r:@("a" "b" &c:3) $c]`,
	// marker as map key and a reference to it
	`{&k:"key"=1 "other"=$k}`,
	// integers at the int64/uint64 boundaries, negative zero
	`[-9223372036854775808 -9223372036854775809 18446744073709551615 -18446744073709551615 -0 {-0=1}]`,
	// dates, times of day, and timestamps that time.Time cannot hold unchanged
	`[2095-04-20 -86745-12-21 18:31:21 13:30:60.999999999/L 07:50:43/Asia/Tokyo 01:02:03+0130 01:02:03/1.50/-2.25]`,
	`[2020-01-01/23:59:60 2020-01-01/10:00:00+0230 2020-01-01/10:00:00-1100 2020-01-01/10:00:00/E/Berlin 2021-03-28/02:30:00/Europe/Berlin 2020-01-01/10:00:00/1.00/2.00 2020-01-01/10:00:00/L 2020-01-01/10:00:00]`,
	// bit and UID arrays
	`[@b[010110000010011100111011110111] @b[] @b[1] @b[00000000] @b[111111111]]`,
	`[@uid[2f2c3c9f-c825-573f-a3e5-8af37a3fd162 a2c916e7-0b9d-64be-da9d-8c6e8b6531bf] @uid[]]`,
	`{2f2c3c9f-c825-573f-a3e5-8af37a3fd162=1 a2c916e7-0b9d-64be-da9d-8c6e8b6531bf=2 "s"=3}`,
	// float16 arrays
	`[@f16[1.5 -2 0 1e10] @f16[]]`,
	`[@f16[snan 1.5 nan] @f32[snan 1.5 nan] @f64[snan nan]]`,
	// resource IDs: plain, not parseable by net/url, and changed by net/url
	`[@"https://example.com/a?b=c#d" @"a:b/c" @":x" @"100%" @"x\[1f]y" @"mailto:me@example.com"]`,
	`@"https://example.com/ß"`,
	`[1 @"  x  ~;"]`,
	// a marked scalar followed by further values in the same container, referenced afterwards (the marked value, not a later sibling, must come back)
	`{"a"=&m:1 "b"=2 "c"=$m}`,
	`[{"a"=&m:"marked" "b"="other"} $m]`,
	"@rec<\"x\" \"y\">\n[@rec{&m:10 20} $m]",
	`[&m:1 2 3 4 5 6 $m]`,
	`{"a"=&a:"x" "b"=&b:"y" "c"=&c:2.5 "d"=$a "e"=$b "f"=$c}`,
	`(&m:1 2 3 $m)`,
	`[[&a:1 2] [&b:3 4] $a $b]`,
	`{"a"=&m:@u8[1 2 3] "b"=@u8[4 5 6] "c"=$m}`,
	// forward references
	`[$a 1 2 3 4 5 6 7 8 9 &a:"late"]`,
	`{"refs"=[1 $a 2 3 4 5] "val"=&a:"marked"}`,
	`[$a &a:1]`,
	`{"x"=$a "y"=&a:[1 2]}`,
	`[(1 $a) &a:5]`,
	`[($a 1) &a:5]`,
}

// every kind of value as a marked object that is referenced afterwards, in a list and as a map value
func init() {
	for _, x := range []string{"true", "1", "-1", "1.5", "0x1.8p1", "1.5e400", "123456789012345678901234567890", "-0", "nan", "snan", "inf", "-inf",
		`"str"`, `@"http://x.org/a"`, "2f2c3c9f-c825-573f-a3e5-8af37a3fd162", "2020-01-15", "10:00:01.5/E/Berlin", "2020-01-15/10:00:01/1.50/-2.25",
		"@u8[1 2 3]", "@u16[1 2]", "@i64[-1]", "@b[101]", "@f32[1.5 -2]", "@f16[1.5]", "@uid[2f2c3c9f-c825-573f-a3e5-8af37a3fd162]",
		"@application/x[01 02 03]", "[1 2]", "{1=2}", "(1 2 3)", "[]", "{}", `""`, "@u8[]", "null"} {
		if x != "null" {
			c06Probes = append(c06Probes, "[&a:"+x+" 7 $a]")
		}
		c06Probes = append(c06Probes, `{"k"=&a:`+x+` "z"=0 "r"=$a}`)
	}
}

// c06ProbeEvents decodes a probe's CTE text (without rules: the events are then validated like a generated stream).
func c06ProbeEvents(text string) ([]ev.Event, error) {
	res := decodeDoc(ce.NewCTEDecoder(configuration.New()), []byte("c0\n"+text), configuration.New(), false)
	if res.Panic != nil {
		return nil, fmt.Errorf("panic: %v", res.Panic)
	}
	return res.Log, res.Err
}

func runC06(c *fw.Ctx, idx int) {
	cfg := configuration.New()
	cte := idx%2 == 1
	var in []ev.Event
	if idx < 2*len(c06Probes) {
		var err error
		in, err = c06ProbeEvents(c06Probes[idx/2])
		if err != nil {
			c.Eval()
			c.Fail("directed-probe-not-decodable", map[string]interface{}{"probe": c06Probes[idx/2], "err": err.Error()})
			return
		}
		c.Inc("directed_probes")
	} else {
		o := cbeStreamOpts(c)
		o.CustomBinary, o.CustomText, o.RemoteRef = false, false, false
		o.Comments = cte
		in = gen.Stream(c.Rng, o)
	}
	a, rej, why := throughRules(in, cfg)
	if rej >= 0 {
		if idx < 2*len(c06Probes) {
			c.Eval()
			c.Fail("directed-probe-rejected-by-rules", map[string]interface{}{"probe": c06Probes[idx/2], "why": fmt.Sprint(why)})
			return
		}
		c.Inc("generated_stream_rejected_by_rules")
		return
	}
	codec := "cbe"
	var doc []byte
	var fi int
	if cte {
		codec = "cte"
		doc, fi, _ = encodeEvents(ce.NewCTEEncoder(cfg), a)
	} else {
		doc, fi, _ = encodeEvents(ce.NewCBEEncoder(cfg), a)
	}
	if fi >= 0 {
		c.Inc("encode_failed_skipped")
		return
	}
	var src decodeResult
	if cte {
		src = decodeDoc(ce.NewCTEDecoder(cfg), doc, cfg, true)
	} else {
		src = decodeDoc(ce.NewCBEDecoder(cfg), doc, cfg, true)
	}
	if src.Err != nil || src.Panic != nil {
		c.Inc("source_doc_rejected_skipped")
		return
	}
	c.Note("C06 %s doc %s", codec, docString(doc, cte))
	detail := func(extra map[string]interface{}) map[string]interface{} {
		m := map[string]interface{}{"codec": codec, "doc": docString(doc, cte), "events": ev.LogStrings(src.Log)}
		for k, x := range extra {
			m[k] = x
		}
		return m
	}
	region := c06Region(src.Log)
	c.Eval()
	c.Region("unmarshal-untyped")
	out, err, p, st := unmarshalDoc(doc, nil, cte, cfg)
	if p != nil {
		c.Fail("unmarshal-escaped-panic", detail(map[string]interface{}{"panic": fmt.Sprint(p), "stack": st}))
		return
	}
	c.Inc("untyped_unmarshals")
	featureCounts(c, "in.", src.Log)
	c06FeatureCounts(c, src.Log)
	if nontrivialStream(src.Log) {
		c.Distinct(codec + docString(doc, cte))
	}
	if err != nil {
		if region == "contains-edge" {
			// The edge builder is finished by its third component, so the edge's end-container event goes to
			// whatever builder lies below it and the stack is out of step from there on: the error text depends
			// on what follows the edge, not on a separate defect, so it is not part of the signature.
			c.Fail("untyped-unmarshal-error@contains-edge", detail(map[string]interface{}{"err": err.Error()}))
			return
		}
		c.Fail("untyped-unmarshal-error@"+region+":"+errClass(err), detail(map[string]interface{}{"err": err.Error()}))
		return
	}
	c.Region("remarshal")
	doc2, err, p, st := marshalDoc(out, cte, cfg)
	if p != nil {
		c.Fail("remarshal-escaped-panic", detail(map[string]interface{}{"value": gen.Render(out), "panic": fmt.Sprint(p), "stack": st}))
		return
	}
	if err != nil {
		c.Fail("remarshal-error@"+region+":"+errClass(err), detail(map[string]interface{}{"value": gen.Render(out), "err": err.Error()}))
		return
	}
	var res decodeResult
	if cte {
		res = decodeDoc(ce.NewCTEDecoder(cfg), doc2, cfg, true)
	} else {
		res = decodeDoc(ce.NewCBEDecoder(cfg), doc2, cfg, true)
	}
	if res.Err != nil || res.Panic != nil {
		c.Fail("remarshaled-document-rejected@"+region, detail(map[string]interface{}{"value": gen.Render(out), "doc2": docString(doc2, cte), "err": errStr(res.Err), "panic": ev.PanicString(res.Panic)}))
		return
	}
	o := ev.Opts{DropComments: true, DropPadding: true, UnorderedMaps: true, ResolveRefs: true, RecordsAsMaps: true, FloatArrayNaNKindOnly: true}
	c0, e0 := ev.Canon(src.Log, o)
	c1, e1 := ev.Canon(res.Log, o)
	if e0 != nil || e1 != nil {
		c.Fail("decoded-log-malformed", detail(map[string]interface{}{"errs": fmt.Sprint(e0, e1)}))
		return
	}
	if n := c06WidenFloat16Arrays(c0, o); n > 0 {
		c.Count("allowance.float16-array-compared-as-float32", int64(n))
	}
	c.Inc("remarshal_compared")
	if path, desc := ev.Diff(c0, c1); path != "" {
		sig, explained := c06ClassifyMismatch(src.Log, c0, c1, o)
		c.Fail(sig+"@"+region, detail(map[string]interface{}{"value": gen.Render(out), "doc2": docString(doc2, cte), "path": path, "diff": desc, "known_losses_present": explained}))
		return
	}
	if c.WantSample() && nontrivialStream(src.Log) {
		c.Sample(detail(map[string]interface{}{"value": gen.Render(out), "doc2": docString(doc2, cte)}))
	}
}

func c06Region(log []ev.Event) string {
	for _, e := range log {
		if e.K == ev.EDGE {
			return "contains-edge"
		}
	}
	return "general"
}

// c06FeatureCounts counts the input features whose untyped building was found defective (floors keep them covered).
func c06FeatureCounts(c *fw.Ctx, log []ev.Event) {
	seen := map[string]bool{}
	marked := map[string]bool{}
	for _, e := range log {
		switch e.K {
		case ev.MARK:
			marked[string(e.B)] = true // registered early: a reference inside its own marked object would be cyclic and is never generated
		case ev.REF:
			if !marked[string(e.B)] {
				seen["in.forward-ref"] = true
			}
		case ev.TIME:
			seen["in.time."+[]string{"date", "time", "timestamp"}[e.T.Type]] = true
		case ev.ARR, ev.ABEGIN:
			switch e.AT {
			case events.ArrayTypeBit:
				seen["in.arr.bit"] = true
			case events.ArrayTypeUID:
				seen["in.arr.uid"] = true
			case events.ArrayTypeFloat16:
				seen["in.arr.float16"] = true
			case events.ArrayTypeResourceID:
				seen["in.rid"] = true
			}
		case ev.STRARR:
			if e.AT == events.ArrayTypeResourceID {
				seen["in.rid"] = true
			}
		}
	}
	for k := range seen {
		c.Inc(k)
	}
}

// c06WidenFloat16Arrays rewrites every float16 array of a canonical tree to the float32 array with the same
// element values (a float16 is the upper half of a float32) and returns how many it rewrote.
func c06WidenFloat16Arrays(n *ev.Node, o ev.Opts) int {
	count := 0
	if n.Tag == "array" && strings.HasPrefix(n.Val, "f16:") {
		parts := strings.SplitN(n.Val, ":", 3)
		if data, err := hex.DecodeString(parts[2]); err == nil && len(parts) == 3 && len(data)%2 == 0 {
			wide := make([]byte, 0, len(data)*2)
			for i := 0; i+1 < len(data); i += 2 {
				wide = append(wide, 0, 0, data[i], data[i+1])
			}
			// through Canon again so that NaN elements get the canonical float32 pattern of their kind
			log := []ev.Event{{K: ev.BD}, {K: ev.VER}, {K: ev.ARR, AT: events.ArrayTypeFloat32, U: uint64(len(data) / 2), B: wide}, {K: ev.ED}}
			if d, err := ev.Canon(log, o); err == nil && len(d.Kids) == 1 && d.Kids[0].Tag == "array" {
				n.Val = d.Kids[0].Val
				count++
			}
		}
	}
	for _, k := range n.Kids {
		count += c06WidenFloat16Arrays(k, o)
	}
	return count
}

// c06ClassifyMismatch names a mismatch between the source tree c0 and the re-marshaled tree c1.
// Three representation losses of the untyped value are known; each is a deterministic rewrite of the
// source document, so they are applied to the source and the comparison is repeated: if nothing else
// differs the signature names the (first) known loss, otherwise the signature is that of the first
// difference that the known losses do not explain (a known loss never hides another difference).
func c06ClassifyMismatch(log []ev.Event, c0, c1 *ev.Node, o ev.Opts) (sig string, present []string) {
	generic := func(a *ev.Node) string {
		path, desc := ev.Diff(a, c1)
		sig := mismatchSig(a, c1, path, desc)
		x, y := ev.FindFirstDiffNodes(a, c1)
		if s := numMismatchSig(log, x, y); s != "" {
			sig = s
		}
		return sig
	}
	orig := generic(c0) // before c0 is rewritten below
	t := c0
	if log2, n := c06NullForwardRefNodeValues(log); n > 0 {
		if t2, err := ev.Canon(log2, o); err == nil {
			c06WidenFloat16Arrays(t2, o)
			t = t2
			present = append(present, "forward-ref-as-node-value-lost")
		}
	}
	if c06RespellRIDs(t) > 0 {
		present = append(present, "rid-respelled-by-net-url")
	}
	if c06UIDArraysAsLists(t) > 0 {
		present = append(present, "uid-array-remarshaled-as-uid-list")
	}
	if len(present) == 0 {
		return orig, nil
	}
	c06SortMaps(t)
	if path, _ := ev.Diff(t, c1); path == "" {
		return "mismatch:" + present[0], present
	}
	return generic(t), present
}

// A forward reference as the value of a node is filled in after the node has been copied into its parent,
// so the node keeps a null value: replace such references by null in the source log.
func c06NullForwardRefNodeValues(log []ev.Event) ([]ev.Event, int) {
	out := make([]ev.Event, 0, len(log))
	marked := map[string]bool{}
	afterNode := false
	n := 0
	// markedInsideNode: is the marker defined before the node (opened just before position i) ends? Then the node has not been
	// copied into its parent yet when the reference is filled in, and nothing is lost.
	markedInsideNode := func(i int, id string) bool {
		depth := 0
		for _, e := range log[i+1:] {
			switch e.K {
			case ev.LIST, ev.MAP, ev.NODE, ev.EDGE, ev.RECORD, ev.RECTYPE:
				depth++
			case ev.END:
				if depth == 0 {
					return false
				}
				depth--
			case ev.MARK:
				if string(e.B) == id {
					return true
				}
			}
		}
		return false
	}
	for i, e := range log {
		switch e.K {
		case ev.COM, ev.PAD:
			out = append(out, e)
			continue
		case ev.MARK:
			marked[string(e.B)] = true
		case ev.REF:
			if afterNode && !marked[string(e.B)] && !markedInsideNode(i, string(e.B)) {
				e = ev.Event{K: ev.NULL}
				n++
			}
		}
		afterNode = e.K == ev.NODE
		out = append(out, e)
	}
	return out, n
}

// A resource ID becomes a *url.URL and is written back as url.String(): text that net/url parses but
// spells differently (percent-escapes) comes back as url.Parse(text).String().
func c06RespellRIDs(n *ev.Node) int {
	count := 0
	if n.Tag == "array" && strings.HasPrefix(n.Val, "rid:") {
		if text, err := strconv.Unquote(n.Val[4:]); err == nil {
			if u, err := url.Parse(text); err == nil && u.String() != text {
				n.Val = fmt.Sprintf("rid:%q", u.String())
				count++
			}
		}
	}
	for _, k := range n.Kids {
		count += c06RespellRIDs(k)
	}
	return count
}

// A UID array becomes []types.UID, which is marshaled as a list of UIDs (no Go type is marshaled as a UID array).
func c06UIDArraysAsLists(n *ev.Node) int {
	count := 0
	if n.Tag == "array" && strings.HasPrefix(n.Val, "uid:") {
		parts := strings.SplitN(n.Val, ":", 3)
		if len(parts) == 3 && len(parts[2])%32 == 0 {
			n.Tag, n.Val, n.Kids = "list", "", nil
			for i := 0; i < len(parts[2]); i += 32 {
				n.Kids = append(n.Kids, &ev.Node{Tag: "uid", Val: parts[2][i : i+32]})
			}
			count++
		}
	}
	for _, k := range n.Kids {
		count += c06UIDArraysAsLists(k)
	}
	return count
}

// c06SortMaps re-establishes the canonical (unordered) map order after keys were rewritten.
func c06SortMaps(n *ev.Node) {
	for _, k := range n.Kids {
		c06SortMaps(k)
	}
	if n.Tag == "map" {
		sort.SliceStable(n.Kids, func(i, j int) bool { return n.Kids[i].String() < n.Kids[j].String() })
	}
}
