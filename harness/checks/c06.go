package checks

import (
	"fmt"

	"github.com/kstenerud/go-concise-encoding/ce"
	"github.com/kstenerud/go-concise-encoding/configuration"

	"verifharness/ev"
	"verifharness/fw"
	"verifharness/gen"
)

func init() {
	fw.Register(&fw.Check{
		ID:    "C06",
		Level: "exploration",
		Rule: "case = generated rules-valid stream (no custom types, no remote references, acyclic backward references only) encoded as a CBE or CTE document that the decoder+rules accept; " +
			"ce.UnmarshalFrom*Document(doc, nil) must return no error; the result is marshaled again with the same codec, decoded, and its canonical view must equal the original's after " +
			"{records -> maps with the record type's keys, references substituted by their targets, markers/comments/padding dropped, maps unordered, numbers by exact value, NaN elements by kind}. " +
			"Non-trivial = >=1 container and >=3 values; distinct = distinct source documents.",
		Assumptions: []string{"the harness's canonical view defines 'same data'", "custom types and remote references are excluded (no builder exists for custom types; remote references legitimately come back as resource IDs)"},
		Cases:       func(tier string) int { return 8 + tierN(tier, 3000, 80000) },
		Run:         runC06,
		Floors: func(string) map[string]int64 {
			return map[string]int64{"untyped_unmarshals": 1000, "remarshal_compared": 500, "in.ev.mark": 1, "in.ev.ref": 1, "in.ev.record": 1, "in.ev.node": 1, "in.ev.edge": 1}
		},
	})
}

func c06Directed(idx int) []ev.Event {
	s := func(x string) ev.Event { return ev.Event{K: ev.STRARR, AT: 1, S: x} }
	wrap := func(e ...ev.Event) []ev.Event {
		return append(append([]ev.Event{{K: ev.BD}, {K: ev.VER}}, e...), ev.Event{K: ev.ED})
	}
	switch idx {
	case 0:
		return wrap(ev.Event{K: ev.EDGE}, s("a"), ev.Event{K: ev.PINT, U: 1}, s("b"), ev.Event{K: ev.END})
	case 1:
		return wrap(ev.Event{K: ev.LIST}, ev.Event{K: ev.EDGE}, s("a"), ev.Event{K: ev.NULL}, ev.Event{K: ev.LIST}, ev.Event{K: ev.END}, ev.Event{K: ev.END}, ev.Event{K: ev.END})
	case 2:
		return wrap(ev.Event{K: ev.NODE}, s("root"), ev.Event{K: ev.NODE}, ev.Event{K: ev.PINT, U: 1}, ev.Event{K: ev.END}, ev.Event{K: ev.TRUE}, ev.Event{K: ev.END})
	case 3:
		return wrap(ev.Event{K: ev.MAP}, s("k"), ev.Event{K: ev.MARK, B: []byte("m")}, ev.Event{K: ev.LIST}, ev.Event{K: ev.PINT, U: 7}, ev.Event{K: ev.END}, s("r"), ev.Event{K: ev.REF, B: []byte("m")}, ev.Event{K: ev.END})
	case 4:
		return wrap(ev.Event{K: ev.LIST}, ev.Event{K: ev.MARK, B: []byte("a")}, s("marked"), ev.Event{K: ev.NODE}, ev.Event{K: ev.REF, B: []byte("a")}, ev.Event{K: ev.REF, B: []byte("a")}, ev.Event{K: ev.END}, ev.Event{K: ev.END})
	case 5:
		return append([]ev.Event{{K: ev.BD}, {K: ev.VER}, {K: ev.RECTYPE, B: []byte("r")}, s("x"), s("y"), {K: ev.END},
			{K: ev.LIST}, {K: ev.RECORD, B: []byte("r")}, {K: ev.PINT, U: 1}, {K: ev.NULL}, {K: ev.END}, {K: ev.RECORD, B: []byte("r")}, {K: ev.LIST}, {K: ev.END}, s("v"), {K: ev.END}, {K: ev.END}}, ev.Event{K: ev.ED})
	case 6:
		return wrap(ev.Event{K: ev.MAP}, ev.Event{K: ev.MARK, B: []byte("k")}, s("key"), ev.Event{K: ev.PINT, U: 1}, s("other"), ev.Event{K: ev.REF, B: []byte("k")}, ev.Event{K: ev.END})
	}
	return wrap(ev.Event{K: ev.LIST}, ev.Event{K: ev.NINT, U: 1 << 63}, ev.Event{K: ev.PINT, U: 1<<64 - 1}, ev.Event{K: ev.END})
}

func runC06(c *fw.Ctx, idx int) {
	cfg := configuration.New()
	cte := idx%2 == 1
	var in []ev.Event
	if idx < 16 {
		in = c06Directed(idx / 2)
	} else {
		o := cbeStreamOpts(c)
		o.CustomBinary, o.CustomText, o.RemoteRef = false, false, false
		o.Comments = cte
		in = gen.Stream(c.Rng, o)
	}
	a, rej, _ := throughRules(in, cfg)
	if rej >= 0 {
		c.Inc("generated_stream_rejected_by_rules")
		return
	}
	codec := "cbe"
	var doc []byte
	var fi int
	if cte {
		codec = "cte"
		doc, fi, _ = encodeEvents(ce.NewCTEEncoder(cfg), a)
	} else {
		doc, fi, _ = encodeEvents(ce.NewCBEEncoder(cfg), a)
	}
	if fi >= 0 {
		c.Inc("encode_failed_skipped")
		return
	}
	var src decodeResult
	if cte {
		src = decodeDoc(ce.NewCTEDecoder(cfg), doc, cfg, true)
	} else {
		src = decodeDoc(ce.NewCBEDecoder(cfg), doc, cfg, true)
	}
	if src.Err != nil || src.Panic != nil {
		c.Inc("source_doc_rejected_skipped")
		return
	}
	c.Note("C06 %s doc %s", codec, docString(doc, cte))
	detail := func(extra map[string]interface{}) map[string]interface{} {
		m := map[string]interface{}{"codec": codec, "doc": docString(doc, cte), "events": ev.LogStrings(src.Log)}
		for k, x := range extra {
			m[k] = x
		}
		return m
	}
	region := c06Region(src.Log)
	c.Eval()
	c.Region("unmarshal-untyped")
	out, err, p, st := unmarshalDoc(doc, nil, cte, cfg)
	if p != nil {
		c.Fail("unmarshal-escaped-panic", detail(map[string]interface{}{"panic": fmt.Sprint(p), "stack": st}))
		return
	}
	c.Inc("untyped_unmarshals")
	featureCounts(c, "in.", src.Log)
	if nontrivialStream(src.Log) {
		c.Distinct(codec + docString(doc, cte))
	}
	if err != nil {
		c.Fail("untyped-unmarshal-error@"+region+":"+errClass(err), detail(map[string]interface{}{"err": err.Error()}))
		return
	}
	c.Region("remarshal")
	doc2, err, p, st := marshalDoc(out, cte, cfg)
	if p != nil {
		c.Fail("remarshal-escaped-panic", detail(map[string]interface{}{"value": gen.Render(out), "panic": fmt.Sprint(p), "stack": st}))
		return
	}
	if err != nil {
		c.Fail("remarshal-error@"+region+":"+errClass(err), detail(map[string]interface{}{"value": gen.Render(out), "err": err.Error()}))
		return
	}
	var res decodeResult
	if cte {
		res = decodeDoc(ce.NewCTEDecoder(cfg), doc2, cfg, true)
	} else {
		res = decodeDoc(ce.NewCBEDecoder(cfg), doc2, cfg, true)
	}
	if res.Err != nil || res.Panic != nil {
		c.Fail("remarshaled-document-rejected@"+region, detail(map[string]interface{}{"value": gen.Render(out), "doc2": docString(doc2, cte), "err": errStr(res.Err), "panic": ev.PanicString(res.Panic)}))
		return
	}
	o := ev.Opts{DropComments: true, DropPadding: true, UnorderedMaps: true, ResolveRefs: true, RecordsAsMaps: true, FloatArrayNaNKindOnly: true}
	c0, e0 := ev.Canon(src.Log, o)
	c1, e1 := ev.Canon(res.Log, o)
	if e0 != nil || e1 != nil {
		c.Fail("decoded-log-malformed", detail(map[string]interface{}{"errs": fmt.Sprint(e0, e1)}))
		return
	}
	c.Inc("remarshal_compared")
	if path, desc := ev.Diff(c0, c1); path != "" {
		sig := mismatchSig(c0, c1, path, desc)
		x, y := ev.FindFirstDiffNodes(c0, c1)
		if s := numMismatchSig(src.Log, x, y); s != "" {
			sig = s
		}
		c.Fail(sig+"@"+region, detail(map[string]interface{}{"value": gen.Render(out), "doc2": docString(doc2, cte), "path": path, "diff": desc}))
		return
	}
	if c.WantSample() && nontrivialStream(src.Log) {
		c.Sample(detail(map[string]interface{}{"value": gen.Render(out), "doc2": docString(doc2, cte)}))
	}
}

func c06Region(log []ev.Event) string {
	for _, e := range log {
		if e.K == ev.EDGE {
			return "contains-edge"
		}
	}
	return "general"
}
