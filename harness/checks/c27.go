package checks

import (
	"bytes"
	"fmt"
	"math/rand"

	"github.com/kstenerud/go-concise-encoding/ce"
	"github.com/kstenerud/go-concise-encoding/configuration"

	"verifharness/fw"
	"verifharness/gen"
)

// C27 — format detection and version headers.

const c27Directed = 24

func init() {
	fw.Register(&fw.Check{
		ID:    "C27",
		Level: "exploration",
		Rule: "five document families: (a) all 256 first bytes x a table of short tails and random tails; (b) CTE headers 'c'/'C' x version numbers 0..300 and beyond 2^32/2^64 x valid bodies; " +
			"(c) CBE headers 0x81 x version ULEBs 0..300 in minimal form, padded multi-byte forms and >64-bit values x valid bodies; (d) valid CBE/CTE documents encoded from generated rules-valid streams; " +
			"(e) byte-mutants and truncations of (d) including header edits. Differential oracle: for each document whose first byte is 'c'/'C' (=> CTE) or 0x81 (=> CBE), every universal entry point " +
			"(ce.UnmarshalFromCEDocument, ce.UnmarshalCE, ce.NewCEDecoder DecodeDocument/Decode with and without rules) must give the same error nil-ness and the same rendered value / event log as the " +
			"format-specific entry point, and no panic may escape; a document with any other first byte (or none), which both format-specific entry points reject, must be rejected by every universal entry point too. Version oracle (format-specific Unmarshal and decoder+rules): version 1 gives exactly the result of version 0; every other version number is rejected. " +
			"For reader-based entry points every comparison is repeated with the document handed out by an awkward reader (one of C28's schedules: short reads, reads of nothing, last bytes together with io.EOF), the same schedule for both sides. " +
			"Directed documents and a quarter of the valid documents are compared again under configurations with MaxDocumentSizeBytes = length-3..length+1, MaxContainerDepth 0..2 and MaxObjectCount 1..3 (including documents of which a shorter prefix is well-formed too). " +
			"Encoder oracle: every CBE document produced by the encoder or marshaler starts with 81 00, every CTE document with 'c0' followed by whitespace. " +
			"Documents with any other first byte (or none) are don't-care for the differential (only escaped panics are reported). Non-trivial = detected format and length >= 4; distinct = distinct documents.",
		Assumptions: []string{"detection rule taken from the property text: 'c'/'C' => CTE, 0x81 => CBE, decided on the first byte only (leading whitespace is not detected as CTE)",
			"whether a padded (non-minimal) ULEB spelling of version 0/1 is accepted is not asserted; only that the spellings of 0 and 1 behave alike and that values >= 2 are rejected",
			"results are compared by error nil-ness and rendered value / event log, not by error text"},
		Cases:    func(tier string) int { return tierN(tier, 12000, 150000) },
		Run:      runC27,
		MemLimit: 6 << 30,
		Floors: func(string) map[string]int64 {
			return map[string]int64{"docs.first_byte.c": 500, "docs.first_byte.C": 500, "docs.first_byte.0x81": 500, "docs.first_byte.other": 254, "first_bytes_swept": 256,
				"versions_tried.cte": 302, "versions_tried.cbe": 302, "versions_tried.cbe.multibyte": 50, "version_1_vs_0_compared": 200, "version_other_rejected": 400,
				"encoder_headers_checked.cbe": 100, "encoder_headers_checked.cte": 100, "marshal_headers_checked": 10, "differential_pairs_compared": 10000,
				"valid_docs.cbe": 200, "valid_docs.cte": 200, "mutants": 500}
		},
	})
}

var c27Tails = []string{"", "0", "0 1", "0\n1", "1 1", "1\n[1 2]", "2 1", " 1", "0 \"a\"", "0\n{\"a\"=1}", "0 null", "00 1", "01 1", "0x 1", "-1 1", "a 1",
	"\x00\x01", "\x01\x01", "\x02\x01", "\x00", "\x00\x7a\x01\x7b", "\x00\x79\x01\x02\x7b", "\x00\x81\x61", "\x80\x00\x01", "\x81\x00\x01", "\x00\x7d", "\x00\x01\x01"}

var c27CTEBodies = []string{" 1", "\n1", "\n[1 2 3]", " {\"a\"=1 \"b\"=[true false null]}", " \"text\"", "\n@u16[1 2 3]", " -0x1.8p3", " 2020-01-15/10:00:00.5/Europe/Berlin", "\t1"}
var c27CBEBodies = [][]byte{{0x01}, {0x7a, 0x01, 0x02, 0x7b}, {0x79, 0x81, 0x61, 0x01, 0x7b}, {0x82, 0x68, 0x69}, {0x7d}, {0x7c}, {0x6a, 0x00, 0x01}, {0x7e}}

// c27Config: default configuration with array / document size limits tightened so that a hostile length field in a
// mutated document is refused by the validator instead of being allocated (default limits are 1 GB / 5 GB).
func c27Config() *configuration.Configuration {
	cfg := configuration.New()
	cfg.Rules.MaxArraySizeBytes = 1 << 20
	cfg.Rules.MaxDocumentSizeBytes = 1 << 24
	return cfg
}

// c27GenDoc encodes a generated rules-valid stream.
func c27GenDoc(c *fw.Ctx, cfg *configuration.Configuration, format string, r *rand.Rand) ([]byte, bool) {
	save := c.Rng
	c.Rng = r
	defer func() { c.Rng = save }()
	var o gen.StreamOpts
	if format == "cbe" {
		o = cbeStreamOpts(c)
	} else {
		o = cteStreamOpts(c)
		o.MaxComments = 2
	}
	if o.Size > 30 {
		o.Size = 30
	}
	if o.MaxArrayLen > 40 {
		o.MaxArrayLen = 40
	}
	in := gen.Stream(r, o)
	if _, rej, _ := throughRules(in, cfg); rej >= 0 {
		c.Inc("generated_stream_rejected_by_rules")
		return nil, false
	}
	var doc []byte
	var fi int
	if format == "cbe" {
		doc, fi, _ = encodeWithRules(ce.NewCBEEncoder(cfg), in, cfg)
	} else {
		doc, fi, _ = encodeWithRules(ce.NewCTEEncoder(cfg), in, cfg)
	}
	if fi >= 0 || len(doc) < 3 {
		c.Inc("generated_stream_not_encodable_skipped")
		return nil, false
	}
	return doc, true
}

func c27ULEB(v uint64) []byte {
	var out []byte
	for {
		b := byte(v & 0x7f)
		v >>= 7
		if v != 0 {
			out = append(out, b|0x80)
		} else {
			return append(out, b)
		}
	}
}

// c27PaddedULEB spells v (< 128) with extra continuation bytes.
func c27PaddedULEB(v uint64, extra int) []byte {
	out := c27ULEB(v)
	out[len(out)-1] |= 0x80
	for i := 1; i < extra; i++ {
		out = append(out, 0x80)
	}
	return append(out, 0x00)
}

func c27FirstByteClass(doc []byte) string {
	if len(doc) == 0 {
		return "none"
	}
	switch doc[0] {
	case 'c':
		return "c"
	case 'C':
		return "C"
	case 0x81:
		return "0x81"
	}
	return "other"
}

// c27Region names the input class of a differential failure, so that each known defect has its own signature.
func c27Region(doc []byte) string {
	switch {
	case len(doc) == 0:
		return "empty-document"
	case doc[0] == 'C':
		return "cte-uppercase-header"
	case doc[0] == 'c':
		return "cte"
	case doc[0] == 0x81:
		return "cbe"
	}
	return "undetected-first-byte"
}

// c27Differential compares every universal entry point with the format-specific one chosen by the detection rule.
// hostile documents (mutants, random tails) are only decoded with the validator in front: without it the CBE decoder
// follows garbage length fields (that is property C08's subject, not this one's).
func c27Differential(c *fw.Ctx, cfg *configuration.Configuration, doc []byte, hostile bool) {
	det := c27Detect(doc)
	c.Inc("docs.first_byte." + c27FirstByteClass(doc))
	if det != "" && len(doc) >= 4 {
		c.Distinct(string(doc))
	}
	c.Note("C27 doc %x", doc)
	for _, k := range c27AllKinds {
		if hostile && k.Kind == "decode-norules" {
			continue
		}
		ue := k.As("ce")
		c.Region(ue.Name())
		u := c27Call(ue, doc, nil, cfg)
		if u.Panic != nil {
			c.Fail("escaped-panic:"+ue.Name()+"@"+c27Region(doc), map[string]interface{}{"doc": hexs(doc), "text": short(string(doc), 200), "panic": fmt.Sprint(u.Panic), "stack": u.Stack})
		}
		if det == "" {
			// no format detected: both format-specific entry points reject such a document (observed, not assumed),
			// so a universal entry point that reports success treats it like no format-specific entry point would
			c.Eval()
			if u.Panic != nil {
				continue
			}
			sb, st := c27Call(k.As("cbe"), doc, nil, cfg), c27Call(k.As("cte"), doc, nil, cfg)
			if sb.Panic != nil || st.Panic != nil || sb.ErrNil() || st.ErrNil() {
				c.Inc("dontcare.undetected_format_accepted_by_a_specific_entry_point")
				continue
			}
			c.Inc("undetected_format_docs_checked")
			if u.ErrNil() {
				c.Fail("universal-accepts-undetectable-format:"+ue.Name(), map[string]interface{}{"doc": hexs(doc), "text": short(string(doc), 200),
					"universal": u.Brief(), "cbe_entry": sb.Brief(), "cte_entry": st.Brief()})
			}
			continue
		}
		se := k.As(det)
		s := c27Call(se, doc, nil, cfg)
		c.Eval()
		if s.Panic != nil {
			c.Fail("escaped-panic:"+se.Name()+"@"+c27Region(doc), map[string]interface{}{"doc": hexs(doc), "text": short(string(doc), 200), "panic": fmt.Sprint(s.Panic), "stack": s.Stack})
			continue
		}
		if u.Panic != nil {
			continue
		}
		c.Inc("differential_pairs_compared")
		if u.ErrNil() {
			c.Inc("differential_pairs_accepted")
		}
		if !c27Same(u, s) {
			what := "value"
			if u.ErrNil() != s.ErrNil() {
				what = "error"
			}
			c.Fail("universal-differs:"+what+":"+ue.Name()+"@"+c27Region(doc), map[string]interface{}{"doc": hexs(doc), "text": short(string(doc), 300),
				"universal": u.Brief(), "specific": s.Brief(), "specific_entry": se.Name()})
			continue
		}
		if k.Reader && len(doc) > 0 && len(doc) <= 4096 {
			// the same comparison with the document handed out by an awkward reader (short reads, reads of nothing, last bytes
			// together with io.EOF): the universal entry point puts its own buffering in front of the format's decoder
			scheds := c28Schedules(c.Rng, len(doc), 1)
			sch := scheds[c.Rng.Intn(len(scheds))]
			u2 := c27Call(ue, doc, sch.Reader(doc), cfg)
			s2 := c27Call(se, doc, sch.Reader(doc), cfg)
			c.Eval()
			c.Inc("differential_pairs_compared_awkward_reader")
			if u2.Panic != nil || s2.Panic != nil {
				c.Fail("escaped-panic:awkward-reader:"+ue.Name()+"@"+c27Region(doc), map[string]interface{}{"doc": hexs(doc), "schedule": sch.String(), "universal": u2.Brief(), "specific": s2.Brief()})
			} else if !c27Same(u2, s2) {
				c.Fail("universal-differs:awkward-reader:"+ue.Name()+"@"+c27Region(doc), map[string]interface{}{"doc": hexs(doc), "text": short(string(doc), 300), "schedule": sch.String(),
					"universal": u2.Brief(), "specific": s2.Brief(), "specific_entry": se.Name()})
			}
		}
	}
}

// c27LimitDocs: documents of which a shorter prefix is a well-formed document too.
var c27LimitDocs = [][]byte{[]byte("c0\n1234"), []byte("C1\n1234"), []byte("c0 [1 2 3]\n \n"), {0x81, 0x00, 0x01, 0x01}, {0x81, 0x00, 0x6a, 0x39, 0x30}, []byte("c0 12.5000")}

// c27UnderLimits repeats the differential under configurations whose document size limit lies just below, at and above
// the document's length, and with small depth / object limits: the universal entry points must pass the caller's
// configuration on and reject exactly what the format-specific entry point rejects.
func c27UnderLimits(c *fw.Ctx, doc []byte) {
	if c27Detect(doc) == "" {
		return
	}
	for k := -3; k <= 1; k++ {
		if len(doc)+k < 0 {
			continue
		}
		cfg := c27Config()
		cfg.Rules.MaxDocumentSizeBytes = uint64(len(doc) + k)
		c27Differential(c, cfg, doc, false)
		c.Inc("differential_under_docsize_limit")
	}
	for _, n := range []uint64{0, 1, 2} {
		cfg := c27Config()
		cfg.Rules.MaxContainerDepth = n
		c27Differential(c, cfg, doc, false)
		cfg = c27Config()
		cfg.Rules.MaxObjectCount = n + 1
		c27Differential(c, cfg, doc, false)
		c.Inc("differential_under_small_limits")
	}
}

// c27VersionOracle: mk(0) and mk(1) must behave identically; mk(n>=2) must be rejected.
func c27VersionOracle(c *fw.Ctx, cfg *configuration.Configuration, format string, d0, d1, dN []byte, n string, assertReject bool) {
	for _, k := range []c27Entry{{Kind: "unmarshal", Format: format}, {Kind: "decode", Format: format}, {Kind: "unmarshal", Format: format, Reader: true}} {
		c.Region("version:" + k.Name())
		c.Note("C27 version docs %x | %x | %x", d0, d1, dN)
		r0 := c27Call(k, d0, nil, cfg)
		r1 := c27Call(k, d1, nil, cfg)
		c.Eval()
		c.Inc("version_1_vs_0_compared")
		if r0.ErrNil() {
			c.Inc("version_0_accepted." + format)
		}
		if r0.Panic != nil || r1.Panic != nil {
			c.Fail("escaped-panic:"+k.Name()+"@version-header", map[string]interface{}{"v0": hexs(d0), "v1": hexs(d1), "panic0": fmt.Sprint(r0.Panic), "panic1": fmt.Sprint(r1.Panic), "stack": r0.Stack + r1.Stack})
		} else if !c27Same(r0, r1) {
			c.Fail("version-1-not-like-0:"+format+":"+k.Name(), map[string]interface{}{"v0": hexs(d0), "v1": hexs(d1), "v0_text": short(string(d0), 200), "v1_text": short(string(d1), 200),
				"v0_result": r0.Brief(), "v1_result": r1.Brief()})
		}
		if dN != nil && assertReject {
			rN := c27Call(k, dN, nil, cfg)
			c.Eval()
			if rN.Panic != nil {
				c.Fail("escaped-panic:"+k.Name()+"@version-header", map[string]interface{}{"doc": hexs(dN), "panic": fmt.Sprint(rN.Panic), "stack": rN.Stack})
			} else if rN.ErrNil() {
				c.Fail("version-accepted:"+format+":"+k.Name(), map[string]interface{}{"version": n, "doc": hexs(dN), "text": short(string(dN), 200), "result": rN.Brief()})
			} else {
				c.Inc("version_other_rejected")
			}
		}
	}
}

func c27CheckEncoderHeader(c *fw.Ctx, format string, doc []byte, origin string) {
	ok := false
	if format == "cbe" {
		ok = len(doc) >= 2 && doc[0] == 0x81 && doc[1] == 0x00
	} else {
		ok = len(doc) >= 3 && doc[0] == 'c' && doc[1] == '0' && (doc[2] == ' ' || doc[2] == '\n' || doc[2] == '\t' || doc[2] == '\r')
	}
	c.Eval()
	if !ok {
		c.Fail("encoder-header:"+format+":"+origin, map[string]interface{}{"doc_start": hexs(doc[:min(len(doc), 16)])})
	}
}

func c27Mutate(r *rand.Rand, doc []byte) []byte {
	d := append([]byte(nil), doc...)
	switch r.Intn(8) {
	case 0: // truncate
		return d[:r.Intn(len(d)+1)]
	case 1: // header letter case / signature edits
		if d[0] == 'c' {
			d[0] = 'C'
		} else if d[0] == 'C' {
			d[0] = 'c'
		} else {
			d[0] = []byte{0x80, 0x82, 0x01, 'c', 'C', 0x81}[r.Intn(6)]
		}
		return d
	case 2: // version edit
		if len(d) > 1 {
			d[1] = []byte{'0', '1', '2', 0x00, 0x01, 0x02, 0x80, 0xff}[r.Intn(8)]
		}
		return d
	case 3: // prepend
		return append([]byte{[]byte{' ', '\n', 0x81, 'c', 'C', 0x00}[r.Intn(6)]}, d...)
	}
	n := 1 + r.Intn(3)
	for i := 0; i < n && len(d) > 0; i++ {
		pos := r.Intn(len(d))
		switch r.Intn(5) {
		case 0:
			d[pos] ^= 1 << uint(r.Intn(8))
		case 1:
			d[pos] = byte(r.Intn(256))
		case 2:
			d = append(d[:pos], d[pos+1:]...)
		case 3:
			d = append(d[:pos], append([]byte{byte(r.Intn(256))}, d[pos:]...)...)
		default:
			q := r.Intn(len(d))
			d[pos], d[q] = d[q], d[pos]
		}
	}
	return d
}

type c27S struct {
	A int
	B string
	C []uint16
}

func runC27(c *fw.Ctx, idx int) {
	cfg := c27Config()
	r := c.Rng
	if idx < c27Directed {
		directed := [][]byte{
			[]byte("C0 1"), []byte("C0\n{\"a\"=[1 2]}"), []byte("c0 1"), {}, []byte("c1 1"), []byte("C1 1"), {0x81}, []byte("c"), []byte("C"),
			{0x81, 0x00, 0x01}, {0x81, 0x01, 0x01}, {0x81, 0x02, 0x01}, []byte("c2 1"), []byte(" c0 1"), {0x81, 0x00}, []byte("c0"),
		}
		switch {
		case idx < len(directed):
			c27Differential(c, cfg, directed[idx], false)
			c27UnderLimits(c, directed[idx])
			if idx < len(c27LimitDocs) {
				c27UnderLimits(c, c27LimitDocs[idx])
			}
		case idx == len(directed):
			// version probes (also the probe of the CTE version-1 finding)
			c27VersionOracle(c, cfg, "cte", []byte("c0 1"), []byte("c1 1"), []byte("c2 1"), "2", true)
			c27VersionOracle(c, cfg, "cte", []byte("C0 1"), []byte("C1 1"), []byte("C2 1"), "2", true)
			c27VersionOracle(c, cfg, "cbe", []byte{0x81, 0, 1}, []byte{0x81, 1, 1}, []byte{0x81, 2, 1}, "2", true)
		case idx == len(directed)+1:
			// marshaler headers
			for _, v := range []interface{}{map[string]interface{}{"a": 1}, []interface{}{1, "x", nil}, c27S{1, "b", []uint16{1, 2}}, &c27S{}, 42, "str", nil, []uint16{1, 2, 3}, 1.5, true, map[int]string{}} {
				var d1, d2 []byte
				var e1, e2, e3, e4 error
				var b3, b4 bytes.Buffer
				p, st := fw.Guard(func() {
					d1, e1 = ce.MarshalToCBEDocument(v, cfg)
					d2, e2 = ce.MarshalToCTEDocument(v, cfg)
					e3 = ce.MarshalCBE(v, &b3, cfg)
					e4 = ce.MarshalCTE(v, &b4, cfg)
				})
				if p != nil || e1 != nil || e2 != nil || e3 != nil || e4 != nil {
					c.Fail("marshal-failed", map[string]interface{}{"value": fmt.Sprintf("%#v", v), "panic": fmt.Sprint(p), "stack": st, "errs": fmt.Sprint(e1, e2, e3, e4)})
					continue
				}
				c27CheckEncoderHeader(c, "cbe", d1, "MarshalToCBEDocument")
				c27CheckEncoderHeader(c, "cte", d2, "MarshalToCTEDocument")
				c27CheckEncoderHeader(c, "cbe", b3.Bytes(), "MarshalCBE")
				c27CheckEncoderHeader(c, "cte", b4.Bytes(), "MarshalCTE")
				c.Count("marshal_headers_checked", 4)
			}
		}
		return
	}
	j := (idx - c27Directed) / 5
	switch (idx - c27Directed) % 5 {
	case 0: // first byte sweep
		fb := byte(j % 256)
		var tail []byte
		if t := j / 256; t < len(c27Tails) {
			tail = []byte(c27Tails[t])
		} else if r.Intn(2) == 0 {
			tail = []byte(c27Tails[r.Intn(len(c27Tails))])
		} else {
			tail = gen.RandBytes(r, r.Intn(7))
		}
		c.Inc("first_bytes_swept")
		c27Differential(c, cfg, append([]byte{fb}, tail...), true)
	case 1: // CTE version numbers
		n := j % 306
		var ver string
		switch {
		case n <= 300:
			ver = fmt.Sprint(n)
		default:
			ver = []string{"4294967295", "4294967296", "18446744073709551615", "18446744073709551616", "99999999999999999999999999"}[n-301]
		}
		letter := []string{"c", "C"}[(j/306)%2]
		body := c27CTEBodies[r.Intn(len(c27CTEBodies))]
		if r.Intn(2) == 0 {
			if doc, ok := c27GenDoc(c, cfg, "cte", r); ok {
				body = string(doc[2:])
			}
		}
		c.Inc("versions_tried.cte")
		d0, d1, dN := []byte(letter+"0"+body), []byte(letter+"1"+body), []byte(letter+ver+body)
		c27VersionOracle(c, cfg, "cte", d0, d1, dN, ver, n >= 2)
		c27Differential(c, cfg, dN, false)
	case 2: // CBE version ULEBs
		n := j % 340
		body := c27CBEBodies[r.Intn(len(c27CBEBodies))]
		if r.Intn(2) == 0 {
			if doc, ok := c27GenDoc(c, cfg, "cbe", r); ok {
				body = doc[2:]
			}
		}
		mk := func(v []byte) []byte { return append(append([]byte{0x81}, v...), body...) }
		c.Inc("versions_tried.cbe")
		switch {
		case n <= 300:
			c27VersionOracle(c, cfg, "cbe", mk(c27ULEB(0)), mk(c27ULEB(1)), mk(c27ULEB(uint64(n))), fmt.Sprint(n), n >= 2)
			c27Differential(c, cfg, mk(c27ULEB(uint64(n))), false)
		case n < 320:
			// padded spellings: 0 and 1 alike (acceptance not asserted), >= 2 rejected
			extra := 1 + (n-301)%9
			v := uint64([]int{2, 3, 127, 100}[r.Intn(4)])
			c.Inc("versions_tried.cbe.multibyte")
			c27VersionOracle(c, cfg, "cbe", mk(c27PaddedULEB(0, extra)), mk(c27PaddedULEB(1, extra)), mk(c27PaddedULEB(v, extra)), fmt.Sprintf("%d padded+%d", v, extra), true)
			c27Differential(c, cfg, mk(c27PaddedULEB(uint64(r.Intn(3)), extra)), false)
		default:
			// large values: 2^k and beyond 64 bits
			var u []byte
			what := ""
			if n%2 == 0 {
				k := uint(7 + r.Intn(57))
				u, what = c27ULEB(uint64(1)<<k+uint64(r.Intn(2))), fmt.Sprintf("2^%d(+1)", k)
			} else {
				ln := 10 + r.Intn(8)
				for i := 0; i < ln; i++ {
					u = append(u, 0x80|byte(r.Intn(128)))
				}
				u = append(u, byte(1+r.Intn(127)))
				what = fmt.Sprintf("uleb of %d bytes", len(u))
			}
			c.Inc("versions_tried.cbe.multibyte")
			c27VersionOracle(c, cfg, "cbe", mk(c27ULEB(0)), mk(c27ULEB(1)), mk(u), what, true)
			c27Differential(c, cfg, mk(u), false)
		}
	case 3: // valid documents
		format := []string{"cbe", "cte"}[j%2]
		doc, ok := c27GenDoc(c, cfg, format, r)
		if !ok {
			return
		}
		c.Inc("valid_docs." + format)
		c27CheckEncoderHeader(c, format, doc, "encoder")
		c.Inc("encoder_headers_checked." + format)
		c27Differential(c, cfg, doc, false)
		if r.Intn(4) == 0 {
			if format == "cte" && r.Intn(2) == 0 {
				doc = append(append([]byte{}, doc...), '\n')
			}
			c27UnderLimits(c, doc)
		}
		if format == "cte" && r.Intn(2) == 0 {
			up := append([]byte{'C'}, doc[1:]...)
			c27Differential(c, cfg, up, false)
		}
		if c.WantSample() && len(doc) > 8 && len(doc) < 60 {
			c.Sample(map[string]interface{}{"format": format, "doc_hex": hexs(doc), "doc_text": fmt.Sprintf("%q", string(doc))})
		}
	case 4: // mutants
		format := []string{"cbe", "cte"}[j%2]
		doc, ok := c27GenDoc(c, cfg, format, r)
		if !ok {
			return
		}
		m := c27Mutate(r, doc)
		c.Inc("mutants")
		c27Differential(c, cfg, m, true)
	}
}
