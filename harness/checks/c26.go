package checks

import (
	"bytes"
	"encoding/binary"
	"fmt"
	"math"
	"math/rand"
	"reflect"

	"github.com/kstenerud/go-concise-encoding/builder"
	"github.com/kstenerud/go-concise-encoding/ce"
	"github.com/kstenerud/go-concise-encoding/ce/events"
	"github.com/kstenerud/go-concise-encoding/configuration"
	"github.com/kstenerud/go-concise-encoding/iterator"

	"verifharness/ev"
	"verifharness/fw"
	"verifharness/gen"
)

// C26 — the public array byte-conversion helpers of ce/arrays.go are exact little-endian inverses and
// agree with the bytes the marshaler / codecs / builder use for typed arrays.

// c26Kind describes one helper pair, generically over the element type.
type c26Kind[T any] struct {
	name      string
	at        events.ArrayType
	size      int
	float     bool
	toBits    func(T) uint64
	fromBits  func(uint64) T
	asBytes   func([]T) []byte
	fromBytes func([]byte) []T
}

var c26TypeNames = []string{"int8", "uint16", "int16", "uint32", "int32", "float32", "uint64", "int64", "float64"}

func c26VariantName(v string) string {
	if v == "" {
		return "normal"
	}
	return v
}

func init() {
	fw.Register(&fw.Check{
		ID:    "C26",
		Level: "exploration",
		Rule: "case = (element type of one of the 9 helper pairs of ce/arrays.go, length, element bit patterns); lengths 0..70 are enumerated for every type first, then log-uniform random lengths up to 10^4; " +
			"elements are arbitrary bit patterns with boundary values, signalling/quiet NaN payloads, infinities, subnormals and -0 mixed in. Oracles per case: XAsBytes(s) equals an independent " +
			"encoding/binary.LittleEndian rendering; BytesToX(XAsBytes(s)) equals s bit for bit; for a random byte buffer b taken as an (often unaligned) sub-slice of a larger buffer, BytesToX(b) equals the " +
			"little-endian reading and XAsBytes(BytesToX(b)) equals b; the iterator (marshaler) hands OnArray exactly XAsBytes(s) with the right type and count; the builder (untyped and []T template) turns an OnArray " +
			"event carrying XAsBytes(s) into a slice equal to s bit for bit, and so does the same data delivered as a chunked array (random chunks and data events, from a producer reusing one buffer) " +
			"and a multi-chunk CBE document of it decoded by ce.UnmarshalFromCBEDocument / ce.UnmarshalCBE(slow reader) into []T and interface{}, and (NaN-free, <= 300 elements) through the CTE encoder and decoder; CBE (and for NaN-free data CTE) encoder->decoder carries XAsBytes(s) unchanged and ce.MarshalToCBEDocument(s) decodes to the same bytes. " +
			"The whole case list runs under three binaries: normal, -tags purego, and -race (checkptr). Non-trivial = length >= 2 with >= 2 distinct element values; distinct = (type, bytes).",
		Assumptions: []string{"host byte order is whatever the machine running the check has (little-endian here); the big-endian code paths of internal/arrays are not executed",
			"byte buffers whose length is not a multiple of the element size are not asserted (the property is silent)",
			"CTE stage only for arrays <= 300 elements without NaN elements (text cannot carry NaN payloads)"},
		Variants: []string{"", "purego", "race"},
		Cases:    func(tier string) int { return tierN(tier, 9*71+5400, 9*71+60000) },
		Run:      runC26,
		Floors: func(string) map[string]int64 {
			m := map[string]int64{}
			for _, v := range []string{"normal", "purego", "race"} {
				m["variant_tag_confirmed."+v] = 1
				for _, t := range c26TypeNames {
					m["slices."+v+"."+t] = 71
				}
				m["unaligned_subslices."+v] = 100
				m["chunked_unmarshal_compared."+v] = 500
				m["nan_payload_elements."+v] = 100
			}
			return m
		},
	})
}

func runC26(c *fw.Ctx, idx int) {
	// the binary must really be the variant it claims to be
	if (c.Variant == "purego") == c26BuildPurego && (c.Variant == "race") == c26BuildRace {
		c.Inc("variant_tag_confirmed." + c26VariantName(c.Variant))
	} else {
		c.Fail("harness-variant-tag-mismatch", map[string]interface{}{"variant": c.Variant, "purego": c26BuildPurego, "race": c26BuildRace})
		return
	}
	n := 0
	if idx < 9*71 {
		n = idx / 9
	} else {
		// log-uniform up to 10^4
		n = int(math.Exp(c.Rng.Float64()*math.Log(10001))) - 1
		if n > 10000 {
			n = 10000
		}
	}
	switch idx % 9 {
	case 0:
		c26Run(c, n, c26Kind[int8]{"int8", events.ArrayTypeInt8, 1, false, func(v int8) uint64 { return uint64(uint8(v)) }, func(b uint64) int8 { return int8(b) }, ce.Int8SliceAsBytes, ce.BytesToInt8Slice})
	case 1:
		c26Run(c, n, c26Kind[uint16]{"uint16", events.ArrayTypeUint16, 2, false, func(v uint16) uint64 { return uint64(v) }, func(b uint64) uint16 { return uint16(b) }, ce.Uint16SliceAsBytes, ce.BytesToUint16Slice})
	case 2:
		c26Run(c, n, c26Kind[int16]{"int16", events.ArrayTypeInt16, 2, false, func(v int16) uint64 { return uint64(uint16(v)) }, func(b uint64) int16 { return int16(b) }, ce.Int16SliceAsBytes, ce.BytesToInt16Slice})
	case 3:
		c26Run(c, n, c26Kind[uint32]{"uint32", events.ArrayTypeUint32, 4, false, func(v uint32) uint64 { return uint64(v) }, func(b uint64) uint32 { return uint32(b) }, ce.Uint32SliceAsBytes, ce.BytesToUint32Slice})
	case 4:
		c26Run(c, n, c26Kind[int32]{"int32", events.ArrayTypeInt32, 4, false, func(v int32) uint64 { return uint64(uint32(v)) }, func(b uint64) int32 { return int32(b) }, ce.Int32SliceAsBytes, ce.BytesToInt32Slice})
	case 5:
		c26Run(c, n, c26Kind[float32]{"float32", events.ArrayTypeFloat32, 4, true, func(v float32) uint64 { return uint64(math.Float32bits(v)) }, func(b uint64) float32 { return math.Float32frombits(uint32(b)) }, ce.Float32SliceAsBytes, ce.BytesToFloat32Slice})
	case 6:
		c26Run(c, n, c26Kind[uint64]{"uint64", events.ArrayTypeUint64, 8, false, func(v uint64) uint64 { return v }, func(b uint64) uint64 { return b }, ce.Uint64SliceAsBytes, ce.BytesToUint64Slice})
	case 7:
		c26Run(c, n, c26Kind[int64]{"int64", events.ArrayTypeInt64, 8, false, func(v int64) uint64 { return uint64(v) }, func(b uint64) int64 { return int64(b) }, ce.Int64SliceAsBytes, ce.BytesToInt64Slice})
	case 8:
		c26Run(c, n, c26Kind[float64]{"float64", events.ArrayTypeFloat64, 8, true, func(v float64) uint64 { return math.Float64bits(v) }, func(b uint64) float64 { return math.Float64frombits(b) }, ce.Float64SliceAsBytes, ce.BytesToFloat64Slice})
	}
}

// c26Bits draws one element bit pattern of the given width (bytes).
func c26Bits(r *rand.Rand, size int, float bool) uint64 {
	w := uint(size * 8)
	mask := uint64(math.MaxUint64)
	if w < 64 {
		mask = 1<<w - 1
	}
	if float && r.Intn(4) == 0 {
		// special float patterns
		var expMask, manMask, sign, quiet uint64
		if size == 4 {
			expMask, manMask, sign, quiet = 0x7f800000, 0x007fffff, 0x80000000, 0x00400000
		} else {
			expMask, manMask, sign, quiet = 0x7ff0000000000000, 0x000fffffffffffff, 0x8000000000000000, 0x0008000000000000
		}
		s := uint64(0)
		if r.Intn(2) == 0 {
			s = sign
		}
		switch r.Intn(7) {
		case 0: // signalling NaN with payload
			p := r.Uint64() & manMask &^ quiet
			if p == 0 {
				p = 1
			}
			return s | expMask | p
		case 1: // quiet NaN with payload
			return s | expMask | quiet | (r.Uint64() & manMask)
		case 2:
			return s | expMask // inf
		case 3:
			return s // +-0
		case 4:
			return s | (r.Uint64() & manMask) // subnormal
		case 5:
			return s | expMask | 1 // minimal signalling NaN
		default:
			return s | expMask | manMask // all-ones NaN
		}
	}
	switch r.Intn(12) {
	case 0:
		return 0
	case 1:
		return mask
	case 2:
		return 1 << (w - 1) // sign bit only
	case 3:
		return mask >> 1 // max positive
	case 4:
		return 1
	case 5:
		return 0x0807060504030201 & mask // distinct bytes: any byte swap shows
	case 6:
		return 0xff00ff00ff00ff00 & mask
	case 7:
		return uint64(r.Intn(256)) << (8 * uint(r.Intn(size)))
	}
	return r.Uint64() & mask
}

func c26PutLE(dst []byte, size int, bits uint64) {
	switch size {
	case 1:
		dst[0] = byte(bits)
	case 2:
		binary.LittleEndian.PutUint16(dst, uint16(bits))
	case 4:
		binary.LittleEndian.PutUint32(dst, uint32(bits))
	default:
		binary.LittleEndian.PutUint64(dst, bits)
	}
}

func c26GetLE(src []byte, size int) uint64 {
	switch size {
	case 1:
		return uint64(src[0])
	case 2:
		return uint64(binary.LittleEndian.Uint16(src))
	case 4:
		return uint64(binary.LittleEndian.Uint32(src))
	}
	return binary.LittleEndian.Uint64(src)
}

func c26IsNaN(size int, bits uint64) bool {
	if size == 4 {
		return bits&0x7f800000 == 0x7f800000 && bits&0x007fffff != 0
	}
	return bits&0x7ff0000000000000 == 0x7ff0000000000000 && bits&0x000fffffffffffff != 0
}

// c26FirstDiff returns the first index at which a and b differ (or -1), comparing lengths first.
func c26FirstDiff(a, b []byte) int {
	if len(a) != len(b) {
		m := len(a)
		if len(b) < m {
			m = len(b)
		}
		for i := 0; i < m; i++ {
			if a[i] != b[i] {
				return i
			}
		}
		return m
	}
	for i := range a {
		if a[i] != b[i] {
			return i
		}
	}
	return -1
}

func c26Window(b []byte, at int) string {
	lo, hi := at-8, at+16
	if lo < 0 {
		lo = 0
	}
	if hi > len(b) {
		hi = len(b)
	}
	if lo > hi {
		lo = hi
	}
	return fmt.Sprintf("len=%d [%d:%d]=%x", len(b), lo, hi, b[lo:hi])
}

// c26ArrayBytes collects type, element count and concatenated data of the single array in a decoded log.
func c26ArrayBytes(log []ev.Event) (at events.ArrayType, count uint64, data []byte, ok bool) {
	seen := 0
	for _, e := range log {
		switch e.K {
		case ev.ARR:
			at, count, data = e.AT, e.U, append(data, e.B...)
			seen++
		case ev.ABEGIN:
			at = e.AT
			seen++
		case ev.CHUNK:
			count += e.U
		case ev.DATA:
			data = append(data, e.B...)
		}
	}
	return at, count, data, seen == 1
}

func c26Run[T any](c *fw.Ctx, n int, k c26Kind[T]) {
	r := c.Rng
	vn := c26VariantName(c.Variant)
	cfg := configuration.New()
	bits := make([]uint64, n)
	s := make([]T, n)
	distinctVals := map[uint64]bool{}
	nans := int64(0)
	for i := range s {
		bits[i] = c26Bits(r, k.size, k.float)
		s[i] = k.fromBits(bits[i])
		if len(distinctVals) < 3 {
			distinctVals[bits[i]] = true
		}
		if k.float && c26IsNaN(k.size, bits[i]) {
			nans++
		}
	}
	if k.float && n >= 2 && c.Idx < 9*71 {
		// directed: every enumerated length carries a signalling and a quiet NaN with payloads
		sn, qn := uint64(0x7f800001), uint64(0xffc12345)
		if k.size == 8 {
			sn, qn = 0x7ff0000000000001, 0xfff8000012345678
		}
		for i, b := range []uint64{sn, qn} {
			if !c26IsNaN(k.size, bits[i]) {
				nans++
			}
			bits[i], s[i] = b, k.fromBits(b)
		}
	}
	hasNaN := nans > 0
	want := make([]byte, n*k.size)
	for i, b := range bits {
		c26PutLE(want[i*k.size:], k.size, b)
	}
	c.Note("C26 %s n=%d first=%x", k.name, n, want[:min(len(want), 64)])
	c.Eval()
	c.Inc("slices." + vn + "." + k.name)
	c.Count("nan_payload_elements."+vn, nans)
	c.Count("elements."+vn, int64(n))
	if n >= 2 && len(distinctVals) >= 2 {
		c.Distinct(k.name + ":" + string(want))
	}
	detail := func(extra map[string]interface{}) map[string]interface{} {
		m := map[string]interface{}{"type": k.name, "len": n, "variant": vn, "le_bytes": hexs(want)}
		for kk, v := range extra {
			m[kk] = v
		}
		return m
	}
	fail := func(sig string, extra map[string]interface{}) { c.Fail(sig+":"+k.name, detail(extra)) }

	// 1. XAsBytes(s) == little-endian rendering
	var got []byte
	c.Region("XAsBytes")
	if p, st := fw.Guard(func() { got = append([]byte{}, k.asBytes(s)...) }); p != nil {
		fail("helper-panic:AsBytes", map[string]interface{}{"panic": fmt.Sprint(p), "stack": st})
		return
	}
	if d := c26FirstDiff(got, want); d >= 0 {
		fail("asbytes-not-little-endian", map[string]interface{}{"at_byte": d, "got": c26Window(got, d), "want": c26Window(want, d)})
		return
	}
	// the source must be left untouched
	for i := range s {
		if k.toBits(s[i]) != bits[i] {
			fail("asbytes-modified-source", map[string]interface{}{"index": i})
			return
		}
	}
	// 2. BytesToX(XAsBytes(s)) == s
	var back []T
	c.Region("BytesToX")
	if p, st := fw.Guard(func() { back = k.fromBytes(got) }); p != nil {
		fail("helper-panic:BytesTo", map[string]interface{}{"panic": fmt.Sprint(p), "stack": st})
		return
	}
	if len(back) != n {
		fail("roundtrip-slice-length", map[string]interface{}{"got_len": len(back)})
		return
	}
	for i := range back {
		if k.toBits(back[i]) != bits[i] {
			fail("roundtrip-slice-element", map[string]interface{}{"index": i, "got": fmt.Sprintf("%x", k.toBits(back[i])), "want": fmt.Sprintf("%x", bits[i])})
			return
		}
	}
	// 3. bytes direction on an (often unaligned) sub-slice of a larger buffer
	off := r.Intn(9)
	pad := r.Intn(9)
	big := make([]byte, off+n*k.size+pad)
	r.Read(big)
	if k.float && n > 0 && r.Intn(2) == 0 {
		// plant NaN patterns
		for j := 0; j < 1+n/8; j++ {
			i := r.Intn(n)
			c26PutLE(big[off+i*k.size:], k.size, c26Bits(r, k.size, true))
		}
	}
	b := big[off : off+n*k.size : off+n*k.size]
	keep := append([]byte{}, big...)
	if off%k.size != 0 {
		c.Inc("unaligned_subslices." + vn)
	}
	var el []T
	if p, st := fw.Guard(func() { el = k.fromBytes(b) }); p != nil {
		fail("helper-panic:BytesTo", map[string]interface{}{"panic": fmt.Sprint(p), "stack": st, "offset": off})
		return
	}
	if !bytes.Equal(big, keep) {
		fail("bytesto-modified-input", map[string]interface{}{"offset": off})
		return
	}
	if len(el) != n {
		fail("bytesto-length", map[string]interface{}{"got_len": len(el), "offset": off, "bytes": hexs(b)})
		return
	}
	for i := range el {
		if w := c26GetLE(b[i*k.size:], k.size); k.toBits(el[i]) != w {
			fail("bytesto-not-little-endian", map[string]interface{}{"index": i, "got": fmt.Sprintf("%x", k.toBits(el[i])), "want": fmt.Sprintf("%x", w), "offset": off})
			return
		}
	}
	var again []byte
	if p, st := fw.Guard(func() { again = append([]byte{}, k.asBytes(el)...) }); p != nil {
		fail("helper-panic:AsBytes", map[string]interface{}{"panic": fmt.Sprint(p), "stack": st})
		return
	}
	if d := c26FirstDiff(again, b); d >= 0 {
		fail("roundtrip-bytes", map[string]interface{}{"at_byte": d, "got": c26Window(again, d), "want": c26Window(b, d)})
		return
	}
	c.Count("helper_comparisons."+vn, 4)

	// 4. marshaler: bytes handed to OnArray
	c.Region("iterator")
	rec := &ev.Recorder{}
	if p, st := fw.Guard(func() { iterator.NewSession(nil, cfg).NewIterator(rec).Iterate(s) }); p != nil {
		fail("marshal-panic", map[string]interface{}{"panic": fmt.Sprint(p), "stack": st})
		return
	}
	at, cnt, data, ok := c26ArrayBytes(rec.Log)
	if !ok || at != k.at || cnt != uint64(n) {
		fail("marshal-shape", map[string]interface{}{"log": short(ev.LogString(rec.Log), 600)})
		return
	}
	if d := c26FirstDiff(data, want); d >= 0 {
		sig := "marshal-bytes-differ"
		if k.name == "float32" && c26OnlySNaNQuieted(data, want) {
			sig = "marshal-bytes-differ@float32-snan-quieted"
		}
		fail(sig, map[string]interface{}{"at_byte": d, "got": c26Window(data, d), "want": c26Window(want, d)})
	} else {
		c.Inc("marshal_compared." + vn)
	}

	// 5. builder: OnArray(XAsBytes(s)) -> slice
	c.Region("builder")
	for _, typed := range []bool{false, true} {
		var tmpl interface{}
		if typed {
			tmpl = []T{}
		}
		var obj interface{}
		p, st := fw.Guard(func() {
			bld := builder.NewSession(nil, cfg).NewBuilderFor(tmpl)
			bld.OnBeginDocument()
			bld.OnVersion(0)
			bld.OnArray(k.at, uint64(n), append([]byte{}, got...))
			bld.OnEndDocument()
			obj = bld.GetBuiltObject()
		})
		name := map[bool]string{false: "untyped", true: "typed"}[typed]
		if p != nil {
			fail("builder-panic:"+name, map[string]interface{}{"panic": fmt.Sprint(p), "stack": st})
			continue
		}
		res, isT := obj.([]T)
		if !isT || len(res) != n {
			fail("builder-result:"+name, map[string]interface{}{"got": short(fmt.Sprintf("%T %v", obj, obj), 300)})
			continue
		}
		bad := -1
		for i := range res {
			if k.toBits(res[i]) != bits[i] {
				bad = i
				break
			}
		}
		if bad >= 0 {
			fail("builder-element:"+name, map[string]interface{}{"index": bad, "got": fmt.Sprintf("%x", k.toBits(res[bad])), "want": fmt.Sprintf("%x", bits[bad])})
			continue
		}
		c.Inc("builder_compared." + vn)
	}

	// 6. codecs: encoder -> decoder carry the helper bytes unchanged
	c.Region("codec")
	stream := []ev.Event{{K: ev.BD}, {K: ev.VER}, {K: ev.ARR, AT: k.at, U: uint64(n), B: got}, {K: ev.ED}}
	doc, fi, pv := encodeWithRules(ce.NewCBEEncoder(cfg), stream, cfg)
	if fi >= 0 {
		fail("cbe-encode-panic", map[string]interface{}{"panic": ev.PanicString(pv)})
	} else {
		res := decodeDoc(ce.NewCBEDecoder(cfg), doc, cfg, true)
		at, cnt, data, ok := c26ArrayBytes(res.Log)
		if res.Panic != nil || res.Err != nil || !ok || at != k.at || cnt != uint64(n) {
			fail("cbe-decode", map[string]interface{}{"err": errStr(res.Err), "panic": ev.PanicString(res.Panic), "log": short(ev.LogString(res.Log), 400)})
		} else if !c26SameElems(k, data, bits) {
			fail("cbe-bytes-differ", map[string]interface{}{"got": c26Window(data, max(0, c26FirstDiff(data, want))), "doc": hexs(doc)})
		} else {
			c.Inc("cbe_compared." + vn)
		}
	}
	// whole pipeline: Marshal -> CBE decoder (only when the marshaler stage agreed, so one defect gives one signature)
	if c26FirstDiff(data, want) < 0 {
		var mdoc []byte
		var merr error
		if p, st := fw.Guard(func() { mdoc, merr = ce.MarshalToCBEDocument(s, cfg) }); p != nil || merr != nil {
			fail("marshal-cbe-failed", map[string]interface{}{"panic": fmt.Sprint(p), "stack": st, "err": errStr(merr)})
		} else {
			res := decodeDoc(ce.NewCBEDecoder(cfg), mdoc, cfg, true)
			at, cnt, data, ok := c26ArrayBytes(res.Log)
			if res.Panic != nil || res.Err != nil || !ok || at != k.at || cnt != uint64(n) || !c26SameElems(k, data, bits) {
				fail("marshal-cbe-decode-differs", map[string]interface{}{"err": errStr(res.Err), "panic": ev.PanicString(res.Panic), "doc": hexs(mdoc), "log": short(ev.LogString(res.Log), 400)})
			} else {
				c.Inc("marshal_cbe_compared." + vn)
			}
		}
	}
	// the same elements as a fixed-size Go array, reached by the marshaler in non-addressable and addressable ways
	// (by value, inside an interface list, through a pointer): the encoder's bytes must still be the helper's bytes
	if n > 0 && n <= 64 && c26FirstDiff(data, want) < 0 {
		arrT := reflect.ArrayOf(n, reflect.TypeOf(s).Elem())
		pa := reflect.New(arrT)
		reflect.Copy(pa.Elem(), reflect.ValueOf(s))
		holders := []struct {
			name string
			v    interface{}
		}{{"array-by-value", pa.Elem().Interface()}, {"array-in-interface-list", []interface{}{pa.Elem().Interface()}}, {"pointer-to-array", pa.Interface()}}
		for _, h := range holders {
			var mdoc []byte
			var merr error
			if p, st := fw.Guard(func() { mdoc, merr = ce.MarshalToCBEDocument(h.v, cfg) }); p != nil || merr != nil {
				fail("marshal-cbe-failed:"+h.name, map[string]interface{}{"panic": fmt.Sprint(p), "stack": st, "err": errStr(merr)})
				continue
			}
			res := decodeDoc(ce.NewCBEDecoder(cfg), mdoc, cfg, true)
			at, cnt, adata, ok := c26ArrayBytes(res.Log)
			if res.Panic != nil || res.Err != nil || !ok || at != k.at || cnt != uint64(n) || !c26SameElems(k, adata, bits) {
				fail("marshal-cbe-decode-differs:"+h.name, map[string]interface{}{"err": errStr(res.Err), "panic": ev.PanicString(res.Panic), "doc": hexs(mdoc), "log": short(ev.LogString(res.Log), 400)})
				continue
			}
			c.Inc("marshal_cbe_compared." + h.name)
		}
	}
	// the same array delivered in chunks (several chunks, several data events per chunk): through the CBE encoder and the
	// document entry points into []T and interface{}, and straight into the builder from a producer that reuses its buffer
	if n >= 2 && (c.Idx < 9*71 || c.Idx%2 == 0) {
		c.Region("chunked")
		body := gen.ChunkBodyOpt(r, k.size*8, uint64(n), got, false, r.Intn(2) == 0)
		cstream := append(append([]ev.Event{{K: ev.BD}, {K: ev.VER}, {K: ev.ABEGIN, AT: k.at}}, body...), ev.Event{K: ev.ED})
		nchunks := 0
		for _, e := range body {
			if e.K == ev.CHUNK {
				nchunks++
			}
		}
		sameElems := func(obj interface{}) bool {
			res, isT := obj.([]T)
			if !isT || len(res) != n {
				return false
			}
			for i := range res {
				if k.toBits(res[i]) != bits[i] {
					return false
				}
			}
			return true
		}
		if n <= 300 && !hasNaN {
			// the text encoder reassembles elements that a data event cut in two
			tdoc, fi, pv := encodeWithRules(ce.NewCTEEncoder(cfg), cstream, cfg)
			if fi >= 0 {
				fail("cte-encode-panic:chunked", map[string]interface{}{"panic": ev.PanicString(pv), "stream": short(ev.LogString(cstream), 600)})
			} else {
				res := decodeDoc(ce.NewCTEDecoder(cfg), tdoc, cfg, true)
				at, cnt, data, ok := c26ArrayBytes(res.Log)
				if res.Panic != nil || res.Err != nil || !ok || at != k.at || cnt != uint64(n) || !c26SameElems(k, data, bits) {
					fail("cte-chunked-differs", map[string]interface{}{"err": errStr(res.Err), "panic": ev.PanicString(res.Panic), "cte": short(string(tdoc), 600),
						"stream": short(ev.LogString(cstream), 600), "log": short(ev.LogString(res.Log), 400)})
				} else {
					c.Inc("cte_chunked_compared." + vn)
				}
			}
		}
		cdoc, fi, pv := encodeWithRules(ce.NewCBEEncoder(cfg), cstream, cfg)
		if fi >= 0 {
			fail("cbe-encode-panic:chunked", map[string]interface{}{"panic": ev.PanicString(pv), "stream": short(ev.LogString(cstream), 600)})
		} else {
			for _, typed := range []bool{false, true} {
				var tmpl interface{}
				if typed {
					tmpl = []T{}
				}
				name := map[bool]string{false: "untyped", true: "typed"}[typed]
				var o1, o2 interface{}
				var e1, e2 error
				p, st := fw.Guard(func() {
					o1, e1 = ce.UnmarshalFromCBEDocument(cdoc, tmpl, cfg)
					o2, e2 = ce.UnmarshalCBE(&c14SlowReader{data: cdoc, step: 1 + r.Intn(9)}, tmpl, cfg)
				})
				switch {
				case p != nil || e1 != nil || e2 != nil:
					fail("chunked-unmarshal-failed:"+name, map[string]interface{}{"panic": fmt.Sprint(p), "stack": st, "err": errStr(e1), "err_reader": errStr(e2), "doc": hexs(cdoc)})
				case !sameElems(o1):
					fail("chunked-unmarshal-differs:"+name, map[string]interface{}{"chunks": nchunks, "doc": hexs(cdoc), "got": short(fmt.Sprintf("%T %v", o1, o1), 300)})
				case !sameElems(o2):
					fail("chunked-unmarshal-differs:"+name+":reader", map[string]interface{}{"chunks": nchunks, "doc": hexs(cdoc), "got": short(fmt.Sprintf("%T %v", o2, o2), 300)})
				default:
					c.Inc("chunked_unmarshal_compared." + vn)
					if nchunks >= 2 {
						c.Inc("chunked_unmarshal_compared.multi-chunk")
					}
				}
				var obj interface{}
				p, st = fw.Guard(func() {
					bld := builder.NewSession(nil, cfg).NewBuilderFor(tmpl)
					if idx, pv := ev.ReplayScratch(bld, cstream, make([]byte, 4096)); idx >= 0 {
						panic(pv)
					}
					obj = bld.GetBuiltObject()
				})
				if p != nil {
					fail("builder-panic:chunked:"+name, map[string]interface{}{"panic": fmt.Sprint(p), "stack": st})
				} else if !sameElems(obj) {
					fail("builder-element:chunked:"+name, map[string]interface{}{"chunks": nchunks, "stream": short(ev.LogString(cstream), 600), "got": short(fmt.Sprintf("%T %v", obj, obj), 300)})
				} else {
					c.Inc("builder_chunked_compared." + vn)
				}
			}
		}
	}
	if n <= 300 && !hasNaN {
		tdoc, fi, pv := encodeWithRules(ce.NewCTEEncoder(cfg), stream, cfg)
		if fi >= 0 {
			fail("cte-encode-panic", map[string]interface{}{"panic": ev.PanicString(pv)})
		} else {
			res := decodeDoc(ce.NewCTEDecoder(cfg), tdoc, cfg, true)
			at, cnt, data, ok := c26ArrayBytes(res.Log)
			if res.Panic != nil || res.Err != nil || !ok || at != k.at || cnt != uint64(n) {
				fail("cte-decode", map[string]interface{}{"err": errStr(res.Err), "panic": ev.PanicString(res.Panic), "cte": short(string(tdoc), 600), "log": short(ev.LogString(res.Log), 400)})
			} else if !c26SameElems(k, data, bits) {
				fail("cte-bytes-differ", map[string]interface{}{"got": c26Window(data, max(0, c26FirstDiff(data, want))), "cte": short(string(tdoc), 600)})
			} else {
				c.Inc("cte_compared." + vn)
			}
		}
	} else {
		c.Inc("dontcare.cte_stage_skipped_nan_or_long")
	}
	if c.WantSample() && n >= 3 && n <= 8 && hasNaN {
		c.Sample(map[string]interface{}{"type": k.name, "variant": vn, "len": n, "bytes": hexs(want), "cbe": hexs(doc)})
	}
}

// c26SameElems: BytesToX(data) equals the expected bit patterns.
func c26SameElems[T any](k c26Kind[T], data []byte, bits []uint64) bool {
	if len(data) != len(bits)*k.size {
		return false
	}
	var el []T
	if p, _ := fw.Guard(func() { el = k.fromBytes(data) }); p != nil || len(el) != len(bits) {
		return false
	}
	for i := range el {
		if k.toBits(el[i]) != bits[i] {
			return false
		}
	}
	return true
}

// c26OnlySNaNQuieted: got differs from want only in float32 elements that are signalling NaNs in want and the same
// pattern with the quiet bit set in got.
func c26OnlySNaNQuieted(got, want []byte) bool {
	if len(got) != len(want) || len(got)%4 != 0 {
		return false
	}
	any := false
	for i := 0; i+4 <= len(got); i += 4 {
		g, w := binary.LittleEndian.Uint32(got[i:]), binary.LittleEndian.Uint32(want[i:])
		if g == w {
			continue
		}
		if !(c26IsNaN(4, uint64(w)) && w&0x00400000 == 0 && g == w|0x00400000) {
			return false
		}
		any = true
	}
	return any
}
