// vcheck: supervisor / worker / replay entry point for all property checks.
package main

import (
	"encoding/json"
	"flag"
	"fmt"
	"os"
	"runtime"
	"strconv"
	"strings"

	_ "verifharness/checks"
	"verifharness/fw"
)

func envInt(name string, def int64) int64 {
	if s := os.Getenv(name); s != "" {
		if v, err := strconv.ParseInt(s, 10, 64); err == nil {
			return v
		}
	}
	return def
}

func main() {
	if len(os.Args) < 2 {
		fmt.Println("usage: vcheck run <ID> [quick|thorough] | replay <ID> <file> | worker ... | list")
		os.Exit(2)
	}
	switch os.Args[1] {
	case "list":
		for _, id := range fw.IDs() {
			fmt.Println(id)
		}
	case "run":
		id := os.Args[2]
		tier := os.Getenv("VERIF_TIER")
		if len(os.Args) > 3 {
			tier = os.Args[3]
		}
		if tier == "" {
			tier = "quick"
		}
		jobs := int(envInt("VERIF_JOBS", int64(runtime.NumCPU())))
		os.Exit(fw.Supervise(id, tier, envInt("VERIF_SEED", 1), jobs, -1, ""))
	case "replay":
		id := os.Args[2]
		b, err := os.ReadFile(os.Args[3])
		if err != nil {
			fmt.Println(err)
			os.Exit(2)
		}
		var r struct {
			Seed    int64  `json:"seed"`
			Tier    string `json:"tier"`
			Idx     int    `json:"idx"`
			Variant string `json:"variant"`
		}
		if err := json.Unmarshal(b, &r); err != nil {
			fmt.Println(err)
			os.Exit(2)
		}
		if r.Idx < 0 {
			fmt.Println("this failure is not tied to a single case (derived from the whole run); re-run the check with VERIF_SEED =", r.Seed)
			os.Exit(fw.Supervise(id, r.Tier, r.Seed, runtime.NumCPU(), -1, ""))
		}
		os.Exit(fw.Supervise(id, r.Tier, r.Seed, 1, r.Idx, r.Variant))
	case "worker":
		fs := flag.NewFlagSet("worker", flag.ExitOnError)
		var a fw.WorkerArgs
		var skip string
		var mem uint64
		fs.StringVar(&a.ID, "id", "", "")
		fs.Int64Var(&a.Seed, "seed", 1, "")
		fs.StringVar(&a.Tier, "tier", "quick", "")
		fs.IntVar(&a.From, "from", 0, "")
		fs.IntVar(&a.To, "to", 0, "")
		fs.StringVar(&a.Out, "out", "", "")
		fs.StringVar(&a.Journal, "journal", "", "")
		fs.StringVar(&a.Variant, "variant", "", "")
		fs.StringVar(&skip, "skip", "", "")
		fs.Uint64Var(&mem, "mem", 0, "")
		fs.Parse(os.Args[2:])
		a.Skip = map[int]bool{}
		for _, s := range strings.Split(skip, ",") {
			if s != "" {
				v, _ := strconv.Atoi(s)
				a.Skip[v] = true
			}
		}
		if c := fw.Lookup(a.ID); c != nil && c.MemLimit > 0 && a.Variant != "race" {
			a.MemLimit = c.MemLimit
		}
		os.Exit(fw.RunWorker(a))
	default:
		fmt.Println("unknown command", os.Args[1])
		os.Exit(2)
	}
}
