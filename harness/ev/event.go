// Package ev holds the harness's own event representation, recorder and replayer.
// It deliberately does not use /repo/test (that is code under observation).
package ev

import (
	"encoding/hex"
	"fmt"
	"math"
	"math/big"
	"strings"

	"github.com/cockroachdb/apd/v2"
	compact_float "github.com/kstenerud/go-compact-float"
	compact_time "github.com/kstenerud/go-compact-time"
	"github.com/kstenerud/go-concise-encoding/ce/events"
)

type Kind uint8

const (
	BD Kind = iota // begin document
	ED             // end document
	VER
	PAD
	COM
	NULL
	BOOL
	TRUE
	FALSE
	PINT
	NINT
	INT
	BINT
	FLOAT
	BFLOAT
	DFLOAT
	BDFLOAT
	UID
	NAN
	TIME
	LIST
	MAP
	RECTYPE
	RECORD
	EDGE
	NODE
	END
	MARK
	REF
	ARR    // OnArray
	STRARR // OnStringlikeArray
	MEDIA
	CUSTB
	CUSTT
	ABEGIN
	MBEGIN
	CBEGIN
	CHUNK
	DATA
	ERR
	NumKinds
)

var kindNames = [...]string{"bd", "ed", "v", "pad", "com", "null", "b", "true", "false", "pint", "nint", "int", "bint",
	"float", "bfloat", "dfloat", "bdfloat", "uid", "nan", "time", "list", "map", "rectype", "record", "edge", "node", "end",
	"mark", "ref", "arr", "strarr", "media", "custb", "custt", "abegin", "mbegin", "cbegin", "chunk", "data", "err"}

func (k Kind) String() string { return kindNames[k] }

// Event is one data event with deep-copied arguments.
type Event struct {
	K    Kind
	U    uint64 // version, pint, nint, custom type, chunk length, element count
	I    int64
	Flag bool // bool value, multiline, signaling, moreChunksFollow
	F    float64
	BI   *big.Int
	BF   *big.Float
	DF   compact_float.DFloat
	BD   *apd.Decimal
	T    compact_time.Time
	AT   events.ArrayType
	B    []byte // uid, identifier, comment, array bytes
	S    string // stringlike data, media type
}

func cpBytes(b []byte) []byte {
	if b == nil {
		return nil
	}
	c := make([]byte, len(b))
	copy(c, b)
	return c
}

func cpBigInt(v *big.Int) *big.Int {
	if v == nil {
		return nil
	}
	return new(big.Int).Set(v)
}

func cpBigFloat(v *big.Float) *big.Float {
	if v == nil {
		return nil
	}
	return new(big.Float).Copy(v)
}

func cpAPD(v *apd.Decimal) *apd.Decimal {
	if v == nil {
		return nil
	}
	c := new(apd.Decimal)
	c.Set(v)
	return c
}

// Clone deep-copies an event.
func (e Event) Clone() Event {
	e.BI = cpBigInt(e.BI)
	e.BF = cpBigFloat(e.BF)
	e.BD = cpAPD(e.BD)
	e.B = cpBytes(e.B)
	return e
}

// String renders an event compactly (for samples and replay files).
func (e Event) String() string {
	switch e.K {
	case VER:
		return fmt.Sprintf("v(%d)", e.U)
	case COM:
		return fmt.Sprintf("com(%v,%q)", e.Flag, string(e.B))
	case BOOL:
		return fmt.Sprintf("b(%v)", e.Flag)
	case PINT:
		return fmt.Sprintf("pint(%d)", e.U)
	case NINT:
		return fmt.Sprintf("nint(%d)", e.U)
	case INT:
		return fmt.Sprintf("int(%d)", e.I)
	case BINT:
		if e.BI == nil {
			return "bint(nil)"
		}
		return fmt.Sprintf("bint(%s)", e.BI.String())
	case FLOAT:
		return fmt.Sprintf("float(%x)", math.Float64bits(e.F))
	case BFLOAT:
		if e.BF == nil {
			return "bfloat(nil)"
		}
		return fmt.Sprintf("bfloat(%s p%d)", e.BF.Text('p', 0), e.BF.Prec())
	case DFLOAT:
		return fmt.Sprintf("dfloat(%de%d)", e.DF.Coefficient, e.DF.Exponent)
	case BDFLOAT:
		if e.BD == nil {
			return "bdfloat(nil)"
		}
		return fmt.Sprintf("bdfloat(%s)", e.BD.Text('E'))
	case UID:
		return fmt.Sprintf("uid(%s)", hex.EncodeToString(e.B))
	case NAN:
		return fmt.Sprintf("nan(%v)", e.Flag)
	case TIME:
		return fmt.Sprintf("time(%s)", TimeString(e.T))
	case RECTYPE, RECORD, MARK, REF:
		return fmt.Sprintf("%s(%q)", e.K, string(e.B))
	case ARR:
		return fmt.Sprintf("arr(%v,%d,%s)", e.AT, e.U, hex.EncodeToString(e.B))
	case STRARR:
		return fmt.Sprintf("strarr(%v,%q)", e.AT, e.S)
	case MEDIA:
		return fmt.Sprintf("media(%q,%s)", e.S, hex.EncodeToString(e.B))
	case CUSTB:
		return fmt.Sprintf("custb(%d,%s)", e.U, hex.EncodeToString(e.B))
	case CUSTT:
		return fmt.Sprintf("custt(%d,%q)", e.U, e.S)
	case ABEGIN:
		return fmt.Sprintf("abegin(%v)", e.AT)
	case MBEGIN:
		return fmt.Sprintf("mbegin(%q)", e.S)
	case CBEGIN:
		return fmt.Sprintf("cbegin(%v,%d)", e.AT, e.U)
	case CHUNK:
		return fmt.Sprintf("chunk(%d,%v)", e.U, e.Flag)
	case DATA:
		return fmt.Sprintf("data(%s)", hex.EncodeToString(e.B))
	}
	return e.K.String()
}

// TimeString renders every field of a compact time (not the library's own String()).
func TimeString(t compact_time.Time) string {
	z := t.Timezone
	return fmt.Sprintf("T%d:%d-%d-%d %d:%d:%d.%d z%d[%s|%s|%d|%d|%d]", t.Type, t.Year, t.Month, t.Day, t.Hour, t.Minute,
		t.Second, t.Nanosecond, z.Type, z.ShortAreaLocation, z.LongAreaLocation, z.LatitudeHundredths, z.LongitudeHundredths, z.MinutesOffsetFromUTC)
}

// LogString renders a log.
func LogString(log []Event) string {
	var sb strings.Builder
	for i, e := range log {
		if i > 0 {
			sb.WriteByte(' ')
		}
		sb.WriteString(e.String())
	}
	return sb.String()
}

// LogStrings renders a log as a list (for JSON).
func LogStrings(log []Event) []string {
	out := make([]string, len(log))
	for i, e := range log {
		out[i] = e.String()
	}
	return out
}

// ---------------------------------------------------------------------------
// Recorder

// Recorder implements events.DataEventReceiver, deep-copying every argument.
type Recorder struct {
	Log []Event
}

var _ events.DataEventReceiver = (*Recorder)(nil)

func (r *Recorder) add(e Event)                { r.Log = append(r.Log, e) }
func (r *Recorder) Reset()                     { r.Log = nil }
func (r *Recorder) OnBeginDocument()           { r.add(Event{K: BD}) }
func (r *Recorder) OnEndDocument()             { r.add(Event{K: ED}) }
func (r *Recorder) OnVersion(v uint64)         { r.add(Event{K: VER, U: v}) }
func (r *Recorder) OnPadding()                 { r.add(Event{K: PAD}) }
func (r *Recorder) OnComment(m bool, c []byte) { r.add(Event{K: COM, Flag: m, B: cpBytes(c)}) }
func (r *Recorder) OnNull()                    { r.add(Event{K: NULL}) }
func (r *Recorder) OnBoolean(v bool)           { r.add(Event{K: BOOL, Flag: v}) }
func (r *Recorder) OnTrue()                    { r.add(Event{K: TRUE}) }
func (r *Recorder) OnFalse()                   { r.add(Event{K: FALSE}) }
func (r *Recorder) OnPositiveInt(v uint64)     { r.add(Event{K: PINT, U: v}) }
func (r *Recorder) OnNegativeInt(v uint64)     { r.add(Event{K: NINT, U: v}) }
func (r *Recorder) OnInt(v int64)              { r.add(Event{K: INT, I: v}) }
func (r *Recorder) OnBigInt(v *big.Int)        { r.add(Event{K: BINT, BI: cpBigInt(v)}) }
func (r *Recorder) OnFloat(v float64)          { r.add(Event{K: FLOAT, F: v}) }
func (r *Recorder) OnBigFloat(v *big.Float)    { r.add(Event{K: BFLOAT, BF: cpBigFloat(v)}) }
func (r *Recorder) OnDecimalFloat(v compact_float.DFloat) {
	r.add(Event{K: DFLOAT, DF: v})
}
func (r *Recorder) OnBigDecimalFloat(v *apd.Decimal) { r.add(Event{K: BDFLOAT, BD: cpAPD(v)}) }
func (r *Recorder) OnUID(v []byte)                   { r.add(Event{K: UID, B: cpBytes(v)}) }
func (r *Recorder) OnNan(s bool)                     { r.add(Event{K: NAN, Flag: s}) }
func (r *Recorder) OnTime(v compact_time.Time)       { r.add(Event{K: TIME, T: v}) }
func (r *Recorder) OnList()                          { r.add(Event{K: LIST}) }
func (r *Recorder) OnMap()                           { r.add(Event{K: MAP}) }
func (r *Recorder) OnRecordType(id []byte)           { r.add(Event{K: RECTYPE, B: cpBytes(id)}) }
func (r *Recorder) OnRecord(id []byte)               { r.add(Event{K: RECORD, B: cpBytes(id)}) }
func (r *Recorder) OnEdge()                          { r.add(Event{K: EDGE}) }
func (r *Recorder) OnNode()                          { r.add(Event{K: NODE}) }
func (r *Recorder) OnEndContainer()                  { r.add(Event{K: END}) }
func (r *Recorder) OnMarker(id []byte)               { r.add(Event{K: MARK, B: cpBytes(id)}) }
func (r *Recorder) OnReferenceLocal(id []byte)       { r.add(Event{K: REF, B: cpBytes(id)}) }
func (r *Recorder) OnArray(t events.ArrayType, n uint64, d []byte) {
	r.add(Event{K: ARR, AT: t, U: n, B: cpBytes(d)})
}
func (r *Recorder) OnStringlikeArray(t events.ArrayType, d string) {
	r.add(Event{K: STRARR, AT: t, S: strings.Clone(d)})
}
func (r *Recorder) OnMedia(mt string, d []byte) {
	r.add(Event{K: MEDIA, S: strings.Clone(mt), B: cpBytes(d)})
}
func (r *Recorder) OnCustomBinary(ct uint64, d []byte) { r.add(Event{K: CUSTB, U: ct, B: cpBytes(d)}) }
func (r *Recorder) OnCustomText(ct uint64, d string) {
	r.add(Event{K: CUSTT, U: ct, S: strings.Clone(d)})
}
func (r *Recorder) OnArrayBegin(t events.ArrayType) { r.add(Event{K: ABEGIN, AT: t}) }
func (r *Recorder) OnMediaBegin(mt string)          { r.add(Event{K: MBEGIN, S: strings.Clone(mt)}) }
func (r *Recorder) OnCustomBegin(t events.ArrayType, ct uint64) {
	r.add(Event{K: CBEGIN, AT: t, U: ct})
}
func (r *Recorder) OnArrayChunk(n uint64, more bool) { r.add(Event{K: CHUNK, U: n, Flag: more}) }
func (r *Recorder) OnArrayData(d []byte)             { r.add(Event{K: DATA, B: cpBytes(d)}) }
func (r *Recorder) OnError()                         { r.add(Event{K: ERR}) }

// ---------------------------------------------------------------------------
// Replayer

// Send delivers one event to a receiver. Mutable arguments are copied first so
// that the receiver cannot rewrite the caller's log.
func Send(rcv events.DataEventReceiver, e Event) { send(rcv, e, cpBytes) }

func send(rcv events.DataEventReceiver, e Event, cpBytes func([]byte) []byte) {
	switch e.K {
	case BD:
		rcv.OnBeginDocument()
	case ED:
		rcv.OnEndDocument()
	case VER:
		rcv.OnVersion(e.U)
	case PAD:
		rcv.OnPadding()
	case COM:
		rcv.OnComment(e.Flag, cpBytes(e.B))
	case NULL:
		rcv.OnNull()
	case BOOL:
		rcv.OnBoolean(e.Flag)
	case TRUE:
		rcv.OnTrue()
	case FALSE:
		rcv.OnFalse()
	case PINT:
		rcv.OnPositiveInt(e.U)
	case NINT:
		rcv.OnNegativeInt(e.U)
	case INT:
		rcv.OnInt(e.I)
	case BINT:
		rcv.OnBigInt(cpBigInt(e.BI))
	case FLOAT:
		rcv.OnFloat(e.F)
	case BFLOAT:
		rcv.OnBigFloat(cpBigFloat(e.BF))
	case DFLOAT:
		rcv.OnDecimalFloat(e.DF)
	case BDFLOAT:
		rcv.OnBigDecimalFloat(cpAPD(e.BD))
	case UID:
		rcv.OnUID(cpBytes(e.B))
	case NAN:
		rcv.OnNan(e.Flag)
	case TIME:
		rcv.OnTime(e.T)
	case LIST:
		rcv.OnList()
	case MAP:
		rcv.OnMap()
	case RECTYPE:
		rcv.OnRecordType(cpBytes(e.B))
	case RECORD:
		rcv.OnRecord(cpBytes(e.B))
	case EDGE:
		rcv.OnEdge()
	case NODE:
		rcv.OnNode()
	case END:
		rcv.OnEndContainer()
	case MARK:
		rcv.OnMarker(cpBytes(e.B))
	case REF:
		rcv.OnReferenceLocal(cpBytes(e.B))
	case ARR:
		rcv.OnArray(e.AT, e.U, cpBytes(e.B))
	case STRARR:
		rcv.OnStringlikeArray(e.AT, e.S)
	case MEDIA:
		rcv.OnMedia(e.S, cpBytes(e.B))
	case CUSTB:
		rcv.OnCustomBinary(e.U, cpBytes(e.B))
	case CUSTT:
		rcv.OnCustomText(e.U, e.S)
	case ABEGIN:
		rcv.OnArrayBegin(e.AT)
	case MBEGIN:
		rcv.OnMediaBegin(e.S)
	case CBEGIN:
		rcv.OnCustomBegin(e.AT, e.U)
	case CHUNK:
		rcv.OnArrayChunk(e.U, e.Flag)
	case DATA:
		rcv.OnArrayData(cpBytes(e.B))
	case ERR:
		rcv.OnError()
	default:
		panic(fmt.Sprintf("harness: unknown event kind %d", e.K))
	}
}

// ReplayScratch is Replay for a producer that owns one buffer and reuses it for the byte argument of every
// event (as a decoder reading into a fixed buffer does): each byte-slice argument is a prefix of the same
// backing array, with spare capacity behind it, and is overwritten by the next event that carries bytes.
func ReplayScratch(rcv events.DataEventReceiver, log []Event, scratch []byte) (idx int, panicked interface{}) {
	idx = -1
	cur := 0
	defer func() {
		if r := recover(); r != nil {
			idx = cur
			panicked = r
		}
	}()
	cp := func(b []byte) []byte {
		if b == nil || len(b) > len(scratch) {
			return cpBytes(b)
		}
		copy(scratch, b)
		return scratch[:len(b)]
	}
	for cur = 0; cur < len(log); cur++ {
		send(rcv, log[cur], cp)
	}
	return -1, nil
}

// TrySend delivers one event and reports a panic as a value.
func TrySend(rcv events.DataEventReceiver, e Event) (panicked interface{}) {
	defer func() {
		if r := recover(); r != nil {
			panicked = r
		}
	}()
	Send(rcv, e)
	return nil
}

// Replay drives rcv with the log. It returns the index of the first event at
// which rcv panicked (-1 if none) and the panic value.
func Replay(rcv events.DataEventReceiver, log []Event) (idx int, panicked interface{}) {
	idx = -1
	cur := 0
	defer func() {
		if r := recover(); r != nil {
			idx = cur
			panicked = r
		}
	}()
	for cur = 0; cur < len(log); cur++ {
		Send(rcv, log[cur])
	}
	return -1, nil
}

// IsRuntimePanic reports whether a recovered value is a Go runtime error
// (index out of range, nil dereference, ...) rather than a deliberate rejection.
func IsRuntimePanic(p interface{}) bool {
	if p == nil {
		return false
	}
	if _, ok := p.(interface{ RuntimeError() }); ok {
		return true
	}
	return false
}

// PanicString renders a recovered value.
func PanicString(p interface{}) string {
	if p == nil {
		return ""
	}
	return fmt.Sprintf("%v", p)
}
