package ev

import (
	"encoding/hex"
	"fmt"
	"math"
	"math/big"
	"sort"
	"strings"

	"github.com/cockroachdb/apd/v2"
	compact_float "github.com/kstenerud/go-compact-float"
	compact_time "github.com/kstenerud/go-compact-time"
	"github.com/kstenerud/go-concise-encoding/ce/events"
)

// Node is one node of the canonical data view of an event log.
type Node struct {
	Tag  string // null bool num nan uid time array media custom list map entry rectype record node edge marker ref com pad doc
	Val  string
	Kids []*Node
	Src  int // index of the originating event in the log (-1 if synthetic)
}

func (n *Node) write(sb *strings.Builder) {
	sb.WriteString(n.Tag)
	if n.Val != "" {
		sb.WriteByte('=')
		sb.WriteString(n.Val)
	}
	if len(n.Kids) > 0 {
		sb.WriteByte('(')
		for i, k := range n.Kids {
			if i > 0 {
				sb.WriteByte(',')
			}
			k.write(sb)
		}
		sb.WriteByte(')')
	}
}

func (n *Node) String() string {
	if n == nil {
		return "<nil>"
	}
	var sb strings.Builder
	n.write(&sb)
	return sb.String()
}

// Short renders a node, truncated for messages.
func (n *Node) Short() string {
	s := n.String()
	if len(s) > 300 {
		s = s[:300] + "…"
	}
	return s
}

// Opts select what Canon drops or rewrites.
type Opts struct {
	DropComments          bool
	DropPadding           bool
	UnorderedMaps         bool
	ResolveRefs           bool // substitute references by their targets, drop markers
	RecordsAsMaps         bool // records become maps keyed by their record type's keys; record types dropped
	NumericArraysAsLists  bool // typed numeric/bool arrays become lists of numbers (for value-level comparison)
	FloatArrayNaNKindOnly bool // NaN elements of float arrays keep only quiet/signalling (text formats cannot carry payloads)
}

// ---------------------------------------------------------------------------
// exact numbers

var (
	bigTen  = big.NewInt(10)
	bigFive = big.NewInt(5)
	bigZero = big.NewInt(0)
)

// NumFromParts normalises sign * coeff * 10^exp10 (coeff >= 0) to a canonical string.
func numFromParts(neg bool, coeff *big.Int, exp10 int64) string {
	if coeff.Sign() == 0 {
		if neg {
			return "-0"
		}
		return "0"
	}
	c := new(big.Int).Set(coeff)
	// strip trailing decimal zeros
	q, r := new(big.Int), new(big.Int)
	for {
		q.QuoRem(c, bigTen, r)
		if r.Sign() != 0 {
			break
		}
		c.Set(q)
		exp10++
	}
	s := c.String() + "e" + fmt.Sprint(exp10)
	if neg {
		return "-" + s
	}
	return s
}

// NumBigInt canonical exact value of an integer.
func NumBigInt(v *big.Int) string {
	return numFromParts(v.Sign() < 0, new(big.Int).Abs(v), 0)
}

func NumUint(v uint64, neg bool) string {
	return numFromParts(neg, new(big.Int).SetUint64(v), 0)
}

func NumInt(v int64) string { return NumBigInt(big.NewInt(v)) }

// numBin: sign * mant * 2^exp2
func numBin(neg bool, mant *big.Int, exp2 int64) string {
	if mant.Sign() == 0 {
		return numFromParts(neg, mant, 0)
	}
	if exp2 >= 0 {
		return numFromParts(neg, new(big.Int).Lsh(mant, uint(exp2)), 0)
	}
	// mant * 2^-k = mant * 5^k * 10^-k
	k := -exp2
	p := new(big.Int).Exp(bigFive, big.NewInt(k), nil)
	return numFromParts(neg, p.Mul(p, mant), -k)
}

// NumFloat64 canonical exact value of a binary float (not NaN).
func NumFloat64(f float64) string {
	if math.IsInf(f, 1) {
		return "inf"
	}
	if math.IsInf(f, -1) {
		return "-inf"
	}
	bits := math.Float64bits(f)
	neg := bits>>63 != 0
	exp := int64((bits >> 52) & 0x7ff)
	mant := bits & (1<<52 - 1)
	if exp == 0 {
		exp = 1
	} else {
		mant |= 1 << 52
	}
	return numBin(neg, new(big.Int).SetUint64(mant), exp-1075)
}

func NumBigFloat(v *big.Float) string {
	if v.IsInf() {
		if v.Signbit() {
			return "-inf"
		}
		return "inf"
	}
	if v.Sign() == 0 {
		if v.Signbit() {
			return "-0"
		}
		return "0"
	}
	m := new(big.Float)
	exp := v.MantExp(m)
	prec := int(v.MinPrec())
	m.SetMantExp(m, prec)
	mi, acc := m.Int(nil)
	if acc != big.Exact {
		panic("harness: inexact big float mantissa")
	}
	neg := mi.Sign() < 0
	mi.Abs(mi)
	return numBin(neg, mi, int64(exp-prec))
}

func NumDFloat(v compact_float.DFloat) string {
	if v.IsSpecial() {
		switch v.Coefficient {
		case compact_float.CoeffNegativeZero:
			return "-0"
		case compact_float.CoeffInfinity:
			return "inf"
		case compact_float.CoeffNegativeInfinity:
			return "-inf"
		}
		return "?special"
	}
	c := big.NewInt(v.Coefficient)
	neg := c.Sign() < 0
	c.Abs(c)
	return numFromParts(neg, c, int64(v.Exponent))
}

func NumAPD(v *apd.Decimal) string {
	if v.Form == apd.Infinite {
		if v.Negative {
			return "-inf"
		}
		return "inf"
	}
	return numFromParts(v.Negative, new(big.Int).Abs(&v.Coeff), int64(v.Exponent))
}

// ---------------------------------------------------------------------------

func timeCanon(t compact_time.Time) string {
	var sb strings.Builder
	zone := func() {
		z := t.Timezone
		switch z.Type {
		case compact_time.TimezoneTypeUTC, compact_time.TimezoneTypeUnset:
			sb.WriteString(" utc")
		case compact_time.TimezoneTypeLocal:
			sb.WriteString(" local")
		case compact_time.TimezoneTypeAreaLocation:
			sb.WriteString(" al:" + z.LongAreaLocation)
		case compact_time.TimezoneTypeLatitudeLongitude:
			fmt.Fprintf(&sb, " ll:%d/%d", z.LatitudeHundredths, z.LongitudeHundredths)
		case compact_time.TimezoneTypeUTCOffset:
			fmt.Fprintf(&sb, " off:%d", z.MinutesOffsetFromUTC)
		default:
			fmt.Fprintf(&sb, " ?%d", z.Type)
		}
	}
	switch t.Type {
	case compact_time.TimeTypeDate:
		fmt.Fprintf(&sb, "date %d-%d-%d", t.Year, t.Month, t.Day)
	case compact_time.TimeTypeTime:
		fmt.Fprintf(&sb, "time %d:%d:%d.%d", t.Hour, t.Minute, t.Second, t.Nanosecond)
		zone()
	case compact_time.TimeTypeTimestamp:
		fmt.Fprintf(&sb, "ts %d-%d-%d %d:%d:%d.%d", t.Year, t.Month, t.Day, t.Hour, t.Minute, t.Second, t.Nanosecond)
		zone()
	default:
		fmt.Fprintf(&sb, "?type%d", t.Type)
	}
	return sb.String()
}

// ArrayNode builds the canonical node of an array.
func ArrayNode(at events.ArrayType, count uint64, data []byte) *Node {
	switch at {
	case events.ArrayTypeBit:
		d := cpBytes(data)
		if rem := count % 8; rem != 0 && len(d) > 0 && uint64(len(d)) == (count+7)/8 {
			d[len(d)-1] &= byte(1<<rem) - 1
		}
		return &Node{Tag: "array", Val: fmt.Sprintf("bit:%d:%s", count, hex.EncodeToString(d))}
	case events.ArrayTypeString, events.ArrayTypeResourceID, events.ArrayTypeReferenceRemote:
		return &Node{Tag: "array", Val: fmt.Sprintf("%s:%q", arrayTypeShort(at), string(data))}
	}
	return &Node{Tag: "array", Val: fmt.Sprintf("%s:%d:%s", arrayTypeShort(at), count, hex.EncodeToString(data))}
}

func arrayTypeShort(at events.ArrayType) string {
	switch at {
	case events.ArrayTypeString:
		return "str"
	case events.ArrayTypeResourceID:
		return "rid"
	case events.ArrayTypeReferenceRemote:
		return "rref"
	case events.ArrayTypeCustomText:
		return "ctext"
	case events.ArrayTypeCustomBinary:
		return "cbin"
	case events.ArrayTypeBit:
		return "bit"
	case events.ArrayTypeUint8:
		return "u8"
	case events.ArrayTypeUint16:
		return "u16"
	case events.ArrayTypeUint32:
		return "u32"
	case events.ArrayTypeUint64:
		return "u64"
	case events.ArrayTypeInt8:
		return "i8"
	case events.ArrayTypeInt16:
		return "i16"
	case events.ArrayTypeInt32:
		return "i32"
	case events.ArrayTypeInt64:
		return "i64"
	case events.ArrayTypeFloat16:
		return "f16"
	case events.ArrayTypeFloat32:
		return "f32"
	case events.ArrayTypeFloat64:
		return "f64"
	case events.ArrayTypeUID:
		return "uid"
	case events.ArrayTypeMedia:
		return "media"
	case events.ArrayTypeMediaData:
		return "mediadata"
	}
	return fmt.Sprintf("at%d", at)
}

type parser struct {
	log  []Event
	pos  int
	opts Opts
}

type CanonError struct {
	Pos int
	Msg string
}

func (e *CanonError) Error() string { return fmt.Sprintf("canon: event %d: %s", e.Pos, e.Msg) }

func (p *parser) fail(msg string) {
	panic(&CanonError{p.pos, msg})
}

func (p *parser) peek() *Event {
	if p.pos >= len(p.log) {
		p.fail("unexpected end of log")
	}
	return &p.log[p.pos]
}

// pseudo consumes padding/comments, appending nodes for the kept ones.
func (p *parser) pseudo(into *[]*Node) {
	for p.pos < len(p.log) {
		e := &p.log[p.pos]
		switch e.K {
		case PAD:
			if !p.opts.DropPadding {
				*into = append(*into, &Node{Tag: "pad"})
			}
		case COM:
			if !p.opts.DropComments {
				*into = append(*into, &Node{Tag: "com", Val: fmt.Sprintf("%v:%q", e.Flag, string(e.B))})
			}
		default:
			return
		}
		p.pos++
	}
}

// chunks consumes CHUNK/DATA events until the final chunk is complete.
func (p *parser) chunks(elemBits int) (count uint64, data []byte) {
	for {
		e := p.peek()
		if e.K != CHUNK {
			p.fail("expected array chunk, got " + e.String())
		}
		p.pos++
		n := e.U
		more := e.Flag
		count += n
		var need uint64
		if elemBits == 1 {
			need = (n + 7) / 8
		} else {
			need = n * uint64(elemBits/8)
		}
		var got uint64
		var chunkData []byte
		for got < need {
			d := p.peek()
			if d.K != DATA {
				p.fail("expected array data, got " + d.String())
			}
			p.pos++
			chunkData = append(chunkData, d.B...)
			got += uint64(len(d.B))
		}
		if got != need {
			p.fail("array data overruns chunk")
		}
		if elemBits == 1 && (count-n)%8 != 0 {
			// a bit-array chunk that does not start on a byte boundary (an earlier chunk held a number of bits that is
			// not a multiple of 8): the array is the concatenation of the chunks' bits, lowest bit of each byte first
			for i := uint64(0); i < n; i++ {
				bit := chunkData[i/8] >> (i % 8) & 1
				pos := count - n + i
				if pos/8 >= uint64(len(data)) {
					data = append(data, 0)
				}
				data[pos/8] |= bit << (pos % 8)
			}
		} else {
			data = append(data, chunkData...)
			if elemBits == 1 && n%8 != 0 && len(data) > 0 {
				data[len(data)-1] &= byte(1<<(n%8)) - 1 // bits beyond the chunk's count carry no data
			}
		}
		// tolerate empty data events after a zero-length or complete chunk
		for p.pos < len(p.log) && p.log[p.pos].K == DATA && len(p.log[p.pos].B) == 0 {
			p.pos++
		}
		if !more {
			return
		}
	}
}

func customNode(binary bool, ct uint64, data []byte) *Node {
	k := "t"
	if binary {
		k = "b"
		return &Node{Tag: "custom", Val: fmt.Sprintf("%s:%d:%s", k, ct, hex.EncodeToString(data))}
	}
	return &Node{Tag: "custom", Val: fmt.Sprintf("%s:%d:%q", k, ct, string(data))}
}

// value parses one real object (pseudo objects must already be consumed).
func (p *parser) value() *Node {
	src := p.pos
	n := p.value1()
	if n != nil {
		n.Src = src
	}
	return n
}

func (p *parser) value1() *Node {
	e := p.peek()
	p.pos++
	switch e.K {
	case NULL:
		return &Node{Tag: "null"}
	case BOOL:
		return &Node{Tag: "bool", Val: fmt.Sprint(e.Flag)}
	case TRUE:
		return &Node{Tag: "bool", Val: "true"}
	case FALSE:
		return &Node{Tag: "bool", Val: "false"}
	case PINT:
		return &Node{Tag: "num", Val: NumUint(e.U, false)}
	case NINT:
		return &Node{Tag: "num", Val: NumUint(e.U, true)}
	case INT:
		return &Node{Tag: "num", Val: NumInt(e.I)}
	case BINT:
		if e.BI == nil {
			return &Node{Tag: "null"}
		}
		return &Node{Tag: "num", Val: NumBigInt(e.BI)}
	case FLOAT:
		if math.IsNaN(e.F) {
			return &Node{Tag: "nan", Val: nanKind(math.Float64bits(e.F)&(1<<51) == 0)}
		}
		return &Node{Tag: "num", Val: NumFloat64(e.F)}
	case BFLOAT:
		if e.BF == nil {
			return &Node{Tag: "null"}
		}
		return &Node{Tag: "num", Val: NumBigFloat(e.BF)}
	case DFLOAT:
		if e.DF.IsNan() {
			return &Node{Tag: "nan", Val: nanKind(e.DF.IsSignalingNan())}
		}
		return &Node{Tag: "num", Val: NumDFloat(e.DF)}
	case BDFLOAT:
		if e.BD == nil {
			return &Node{Tag: "null"}
		}
		if e.BD.Form == apd.NaN {
			return &Node{Tag: "nan", Val: "q"}
		}
		if e.BD.Form == apd.NaNSignaling {
			return &Node{Tag: "nan", Val: "s"}
		}
		return &Node{Tag: "num", Val: NumAPD(e.BD)}
	case NAN:
		return &Node{Tag: "nan", Val: nanKind(e.Flag)}
	case UID:
		return &Node{Tag: "uid", Val: hex.EncodeToString(e.B)}
	case TIME:
		return &Node{Tag: "time", Val: timeCanon(e.T)}
	case ARR:
		return ArrayNode(e.AT, e.U, e.B)
	case STRARR:
		return ArrayNode(e.AT, uint64(len(e.S)), []byte(e.S))
	case MEDIA:
		return &Node{Tag: "media", Val: fmt.Sprintf("%q:%s", e.S, hex.EncodeToString(e.B))}
	case CUSTB:
		return customNode(true, e.U, e.B)
	case CUSTT:
		return customNode(false, e.U, []byte(e.S))
	case ABEGIN:
		cnt, data := p.chunks(e.AT.ElementSize())
		return ArrayNode(e.AT, cnt, data)
	case MBEGIN:
		_, data := p.chunks(8)
		return &Node{Tag: "media", Val: fmt.Sprintf("%q:%s", e.S, hex.EncodeToString(data))}
	case CBEGIN:
		_, data := p.chunks(8)
		return customNode(e.AT == events.ArrayTypeCustomBinary, e.U, data)
	case LIST:
		return p.container("list", "")
	case NODE:
		return p.container("node", "")
	case EDGE:
		return p.container("edge", "")
	case RECORD:
		return p.container("record", string(e.B))
	case MAP:
		return p.mapContainer()
	case MARK:
		n := &Node{Tag: "marker", Val: string(e.B)}
		p.pseudo(&n.Kids)
		n.Kids = append(n.Kids, p.value())
		return n
	case REF:
		return &Node{Tag: "ref", Val: string(e.B)}
	}
	p.pos--
	p.fail("unexpected event " + e.String())
	return nil
}

func nanKind(signaling bool) string {
	if signaling {
		return "s"
	}
	return "q"
}

func (p *parser) container(tag, val string) *Node {
	n := &Node{Tag: tag, Val: val}
	for {
		p.pseudo(&n.Kids)
		if p.peek().K == END {
			p.pos++
			return n
		}
		n.Kids = append(n.Kids, p.value())
	}
}

func (p *parser) mapContainer() *Node {
	n := &Node{Tag: "map"}
	for {
		p.pseudo(&n.Kids)
		if p.peek().K == END {
			p.pos++
			break
		}
		entry := &Node{Tag: "entry"}
		entry.Kids = append(entry.Kids, p.value())
		p.pseudo(&entry.Kids)
		entry.Kids = append(entry.Kids, p.value())
		n.Kids = append(n.Kids, entry)
	}
	return n
}

// Canon folds an event log (BD V ... ED) into its canonical data view.
func Canon(log []Event, opts Opts) (doc *Node, err error) {
	p := &parser{log: log, opts: opts}
	defer func() {
		if r := recover(); r != nil {
			if ce, ok := r.(*CanonError); ok {
				err = ce
				doc = nil
				return
			}
			panic(r)
		}
	}()
	if p.peek().K != BD {
		p.fail("expected begin document")
	}
	p.pos++
	if p.peek().K != VER {
		p.fail("expected version")
	}
	doc = &Node{Tag: "doc", Val: fmt.Sprint(p.peek().U)}
	p.pos++
	for {
		p.pseudo(&doc.Kids)
		if p.pos >= len(p.log) {
			p.fail("unexpected end of log")
		}
		e := p.peek()
		if e.K == ED {
			p.pos++
			break
		}
		if e.K == RECTYPE {
			p.pos++
			doc.Kids = append(doc.Kids, p.container("rectype", string(e.B)))
			continue
		}
		doc.Kids = append(doc.Kids, p.value())
	}
	if p.pos != len(p.log) {
		p.fail("events after end of document")
	}
	doc = transform(doc, opts)
	return doc, nil
}

func transform(doc *Node, opts Opts) *Node {
	if opts.FloatArrayNaNKindOnly {
		var walk func(n *Node)
		walk = func(n *Node) {
			if n.Tag == "array" {
				n.Val = normFloatArrayNaNs(n.Val)
			}
			for _, k := range n.Kids {
				walk(k)
			}
		}
		walk(doc)
	}
	if opts.RecordsAsMaps {
		types := map[string][]*Node{}
		var kids []*Node
		for _, k := range doc.Kids {
			if k.Tag == "rectype" {
				var keys []*Node
				for _, kk := range k.Kids {
					if kk.Tag != "com" && kk.Tag != "pad" {
						keys = append(keys, kk)
					}
				}
				types[k.Val] = keys
				continue
			}
			kids = append(kids, k)
		}
		doc.Kids = kids
		var walk func(n *Node)
		walk = func(n *Node) {
			for _, k := range n.Kids {
				walk(k)
			}
			if n.Tag == "record" {
				keys := types[n.Val]
				var vals, other []*Node
				for _, k := range n.Kids {
					if k.Tag == "com" || k.Tag == "pad" {
						other = append(other, k)
					} else {
						vals = append(vals, k)
					}
				}
				n.Tag, n.Val, n.Kids = "map", "", other
				for i, v := range vals {
					var key *Node
					if i < len(keys) {
						key = keys[i]
					} else {
						key = &Node{Tag: "?missing-key"}
					}
					n.Kids = append(n.Kids, &Node{Tag: "entry", Kids: []*Node{key, v}})
				}
			}
		}
		walk(doc)
	}
	if opts.ResolveRefs {
		marked := map[string]*Node{}
		var collect func(n *Node)
		collect = func(n *Node) {
			if n.Tag == "marker" {
				marked[n.Val] = n.Kids[len(n.Kids)-1]
			}
			for _, k := range n.Kids {
				collect(k)
			}
		}
		collect(doc)
		var subst func(n *Node, active map[string]bool) *Node
		subst = func(n *Node, active map[string]bool) *Node {
			switch n.Tag {
			case "marker":
				if active[n.Val] {
					return &Node{Tag: "cycle", Val: n.Val}
				}
				active[n.Val] = true
				r := subst(n.Kids[len(n.Kids)-1], active)
				delete(active, n.Val)
				return r
			case "ref":
				t, ok := marked[n.Val]
				if !ok {
					return n
				}
				if active[n.Val] {
					return &Node{Tag: "cycle", Val: n.Val}
				}
				active[n.Val] = true
				r := subst(t, active)
				delete(active, n.Val)
				return r
			}
			c := &Node{Tag: n.Tag, Val: n.Val}
			for _, k := range n.Kids {
				c.Kids = append(c.Kids, subst(k, active))
			}
			return c
		}
		doc = subst(doc, map[string]bool{})
	}
	if opts.NumericArraysAsLists {
		var walk func(n *Node)
		walk = func(n *Node) {
			for i, k := range n.Kids {
				if k.Tag == "array" {
					if l := arrayAsList(k); l != nil {
						n.Kids[i] = l
					}
				}
				walk(n.Kids[i])
			}
		}
		walk(doc)
	}
	if opts.UnorderedMaps {
		var walk func(n *Node)
		walk = func(n *Node) {
			for _, k := range n.Kids {
				walk(k)
			}
			if n.Tag == "map" {
				sort.SliceStable(n.Kids, func(i, j int) bool { return n.Kids[i].String() < n.Kids[j].String() })
			}
		}
		walk(doc)
	}
	return doc
}

func arrayAsList(n *Node) *Node {
	parts := strings.SplitN(n.Val, ":", 3)
	if len(parts) != 3 {
		return nil
	}
	data, err := hex.DecodeString(parts[2])
	if err != nil {
		return nil
	}
	var cnt uint64
	fmt.Sscan(parts[1], &cnt)
	l := &Node{Tag: "list"}
	le := func(i, w int) uint64 {
		var v uint64
		for b := 0; b < w; b++ {
			v |= uint64(data[i*w+b]) << (8 * b)
		}
		return v
	}
	addNum := func(s string) { l.Kids = append(l.Kids, &Node{Tag: "num", Val: s}) }
	addF := func(f float64) {
		if math.IsNaN(f) {
			l.Kids = append(l.Kids, &Node{Tag: "nan", Val: nanKind(math.Float64bits(f)&(1<<51) == 0)})
		} else {
			addNum(NumFloat64(f))
		}
	}
	for i := 0; i < int(cnt); i++ {
		switch parts[0] {
		case "bit":
			l.Kids = append(l.Kids, &Node{Tag: "bool", Val: fmt.Sprint(data[i/8]>>(i%8)&1 == 1)})
		case "u8":
			addNum(NumUint(le(i, 1), false))
		case "u16":
			addNum(NumUint(le(i, 2), false))
		case "u32":
			addNum(NumUint(le(i, 4), false))
		case "u64":
			addNum(NumUint(le(i, 8), false))
		case "i8":
			addNum(NumInt(int64(int8(le(i, 1)))))
		case "i16":
			addNum(NumInt(int64(int16(le(i, 2)))))
		case "i32":
			addNum(NumInt(int64(int32(le(i, 4)))))
		case "i64":
			addNum(NumInt(int64(le(i, 8))))
		case "f16":
			addF(float64(math.Float32frombits(uint32(le(i, 2)) << 16)))
		case "f32":
			addF(float64(math.Float32frombits(uint32(le(i, 4)))))
		case "f64":
			addF(math.Float64frombits(le(i, 8)))
		default:
			return nil
		}
	}
	return l
}

// Diff returns the path and a description of the first difference between two
// canonical trees, or "" if they are equal.
func Diff(a, b *Node) (path string, desc string) {
	return diff(a, b, "")
}

func diff(a, b *Node, path string) (string, string) {
	here := path + "/" + a.Tag
	if a.Tag != b.Tag || a.Val != b.Val {
		return here, fmt.Sprintf("%s != %s", a.Short(), b.Short())
	}
	n := len(a.Kids)
	if len(b.Kids) < n {
		n = len(b.Kids)
	}
	for i := 0; i < n; i++ {
		if p, d := diff(a.Kids[i], b.Kids[i], fmt.Sprintf("%s[%d]", here, i)); p != "" {
			return p, d
		}
	}
	if len(a.Kids) != len(b.Kids) {
		var extra *Node
		if len(a.Kids) > n {
			extra = a.Kids[n]
		} else {
			extra = b.Kids[n]
		}
		return here, fmt.Sprintf("child count %d != %d (first unmatched: %s)", len(a.Kids), len(b.Kids), extra.Short())
	}
	return "", ""
}

// FindFirstDiffNodes returns the two nodes at the first difference (nil if equal).
func FindFirstDiffNodes(a, b *Node) (*Node, *Node) {
	if a.Tag != b.Tag || a.Val != b.Val {
		return a, b
	}
	n := len(a.Kids)
	if len(b.Kids) < n {
		n = len(b.Kids)
	}
	for i := 0; i < n; i++ {
		if x, y := FindFirstDiffNodes(a.Kids[i], b.Kids[i]); x != nil || y != nil {
			return x, y
		}
	}
	if len(a.Kids) != len(b.Kids) {
		return a, b
	}
	return nil, nil
}

// normFloatArrayNaNs rewrites every NaN element of a float array value to a canonical quiet or signalling pattern.
func normFloatArrayNaNs(val string) string {
	parts := strings.SplitN(val, ":", 3)
	if len(parts) != 3 {
		return val
	}
	var w int
	switch parts[0] {
	case "f16":
		w = 2
	case "f32":
		w = 4
	case "f64":
		w = 8
	default:
		return val
	}
	data, err := hex.DecodeString(parts[2])
	if err != nil || len(data)%w != 0 {
		return val
	}
	for i := 0; i+w <= len(data); i += w {
		var v uint64
		for b := 0; b < w; b++ {
			v |= uint64(data[i+b]) << (8 * b)
		}
		var isNaN, quiet bool
		var q, s uint64
		switch w {
		case 2:
			isNaN = v&0x7f80 == 0x7f80 && v&0x7f != 0
			quiet = v&0x40 != 0
			q, s = 0x7fc0, 0x7fa0
		case 4:
			isNaN = v&0x7f800000 == 0x7f800000 && v&0x7fffff != 0
			quiet = v&0x400000 != 0
			q, s = 0x7fc00000, 0x7fa00000
		case 8:
			isNaN = v&0x7ff0000000000000 == 0x7ff0000000000000 && v&0xfffffffffffff != 0
			quiet = v&0x8000000000000 != 0
			q, s = 0x7ff8000000000000, 0x7ff4000000000000
		}
		if isNaN {
			nv := s
			if quiet {
				nv = q
			}
			for b := 0; b < w; b++ {
				data[i+b] = byte(nv >> (8 * b))
			}
		}
	}
	return parts[0] + ":" + parts[1] + ":" + hex.EncodeToString(data)
}
