// Package gen holds seeded generators. All of them are pure functions of the PRNG handed in.
package gen

import (
	"fmt"
	"math"
	"math/big"
	"math/rand"
	"strings"

	"github.com/cockroachdb/apd/v2"
	compact_float "github.com/kstenerud/go-compact-float"
	compact_time "github.com/kstenerud/go-compact-time"
	"github.com/kstenerud/go-concise-encoding/ce/events"

	"verifharness/ev"
)

// StreamOpts selects the features a generated stream may use.
type StreamOpts struct {
	Comments        bool
	Padding         bool
	CustomText      bool
	CustomBinary    bool
	RemoteRef       bool
	Markers         bool
	Records         bool
	Media           bool
	Chunked         bool // emit some arrays in chunked (begin/chunk/data) form
	NoNaNForms      bool // only OnNan for NaN (no float/decimal NaN forms that rules rewrite)
	NoNilBig        bool // never nil big numbers
	NoBoolEvent     bool // only OnTrue/OnFalse
	NoEdgeNode      bool
	NoTypedArrays   bool
	NoBigFloat      bool
	NoNegZero       bool
	SafeStrings     bool // strings limited to printable text without comment terminators
	MaxDepth        int
	Size            int  // approximate number of value events
	MaxArrayLen     int  // max elements/bytes in arrays
	NoLongPayloads  bool // never make the occasional 255..1025-byte media / custom binary payload
	MaxComments     int
	NoForwardRefs   bool // with Markers: only references to markers already defined
	WideCustomTypes bool // custom type codes beyond 32 bits as well
}

type streamGen struct {
	r          *rand.Rand
	o          StreamOpts
	out        []ev.Event
	budget     int
	comments   int
	markers    []markerInfo // defined so far
	nextID     int
	recTypes   []recType
	pendingFwd []string // forward-referenced ids that still need a definition (any type)
	usedIDs    map[string]bool
	markerOdds int // a value carries a marker or is a reference with probability 1/markerOdds
	openLists  int // lists currently open (forward references are only made where a later sibling can define the marker)
}

type markerInfo struct {
	id      string
	keyable bool
}

type recType struct {
	id   string
	nkey int
}

func (g *streamGen) emit(e ev.Event) { g.out = append(g.out, e) }

// Stream generates a rules-valid (by construction) event stream: BD V(0) [record types] value ED.
func Stream(r *rand.Rand, o StreamOpts) []ev.Event {
	if o.MaxDepth == 0 {
		o.MaxDepth = 5
	}
	if o.Size == 0 {
		o.Size = 30
	}
	if o.MaxArrayLen == 0 {
		o.MaxArrayLen = 40
	}
	if o.MaxComments == 0 {
		o.MaxComments = 4
	}
	g := &streamGen{r: r, o: o, budget: o.Size, usedIDs: map[string]bool{}, markerOdds: 14}
	if r.Intn(4) == 0 {
		g.markerOdds = 3 // marker-dense documents: several markers and references per container
	}
	g.emit(ev.Event{K: ev.BD})
	g.emit(ev.Event{K: ev.VER, U: 0})
	if o.Records && r.Intn(3) == 0 {
		n := 1 + r.Intn(3)
		for i := 0; i < n; i++ {
			g.pseudo()
			g.recordType()
		}
	}
	g.pseudo()
	g.value(0, false, true)
	// resolve pending forward refs is handled inside value(); top-level scalar streams have none.
	g.emit(ev.Event{K: ev.ED})
	return g.out
}

func (g *streamGen) pseudo() {
	for {
		switch {
		case g.o.Padding && g.r.Intn(12) == 0:
			g.emit(ev.Event{K: ev.PAD})
		case g.o.Comments && g.comments < g.o.MaxComments && g.r.Intn(10) == 0:
			g.comments++
			multi := g.r.Intn(2) == 0
			g.emit(ev.Event{K: ev.COM, Flag: multi, B: []byte(CommentText(g.r, multi))})
		default:
			return
		}
	}
}

// CommentText returns comment contents that every codec can carry: no "*/" or "/*" in block
// comments and no line break in line comments (the validator does not check comment contents;
// that observation is handled separately).
func CommentText(r *rand.Rand, multi bool) string {
	words := []string{"a", " note ", "x=1", "\u00fcn\u00ef", "\u65e5\u672c", "\t", "*", "/", " ", "#", "\"q\"", "\\n", "{", "]", "@", "|", "$x", "&m:"}
	var sb strings.Builder
	n := r.Intn(5)
	for i := 0; i < n; i++ {
		sb.WriteString(words[r.Intn(len(words))])
	}
	s := sb.String()
	if multi {
		// block comments nest in CTE: keep "/*" and "*/" out of the text, including the ones that
		// would be formed with the delimiters the encoder adds.
		for strings.Contains(s, "*/") || strings.Contains(s, "/*") {
			s = strings.ReplaceAll(s, "*/", "* /")
			s = strings.ReplaceAll(s, "/*", "/ *")
		}
		s = strings.Trim(s, "*/")
		if r.Intn(3) == 0 {
			s += "\nline2"
		}
	}
	return s
}

func (g *streamGen) newID() string {
	for {
		var id string
		switch g.r.Intn(6) {
		case 0:
			id = fmt.Sprintf("%d", g.nextID)
		case 1:
			id = fmt.Sprintf("id_%d", g.nextID)
		case 2:
			id = fmt.Sprintf("a.b-%d", g.nextID)
		case 3:
			id = fmt.Sprintf("\u043a\u043b\u044e\u0447%d", g.nextID)
		case 4:
			id = fmt.Sprintf("%s%d", strings.Repeat("L", 1+g.r.Intn(40)), g.nextID)
		default:
			id = fmt.Sprintf("m%d", g.nextID)
		}
		g.nextID++
		if !g.usedIDs[id] {
			g.usedIDs[id] = true
			return id
		}
	}
}

func (g *streamGen) recordType() {
	id := g.newID()
	g.emit(ev.Event{K: ev.RECTYPE, B: []byte(id)})
	n := g.r.Intn(4)
	keys := map[string]bool{}
	cnt := 0
	for i := 0; i < n; i++ {
		g.pseudo()
		save := len(g.out)
		g.keyable(false)
		k := keyCanon(g.out[save:])
		if keys[k] {
			g.out = g.out[:save]
			continue
		}
		keys[k] = true
		cnt++
	}
	g.pseudo()
	g.emit(ev.Event{K: ev.END})
	g.recTypes = append(g.recTypes, recType{id, cnt})
}

// keyCanon gives a uniqueness key for the events of one key; -0 and 0 are deliberately merged
// (the property does not say whether they are the same key, so they never share a map).
func keyCanon(evs []ev.Event) string {
	log := append([]ev.Event{{K: ev.BD}, {K: ev.VER}}, evs...)
	log = append(log, ev.Event{K: ev.ED})
	n, err := ev.Canon(log, ev.Opts{DropComments: true, DropPadding: true})
	if err != nil || len(n.Kids) == 0 {
		return ev.LogString(evs)
	}
	k := n.Kids[0]
	for k.Tag == "marker" {
		k = k.Kids[len(k.Kids)-1]
	}
	s := k.String()
	if s == "num=-0" {
		s = "num=0"
	}
	// a string and a resource ID with equal text are different keys and may share a map
	return s
}

// value emits one object. keyableOnly: must be usable as a map key. allowNull: null permitted.
func (g *streamGen) value(depth int, keyableOnly bool, allowNull bool) {
	g.budget--
	if keyableOnly {
		g.keyable(true)
		return
	}
	r := g.r
	canNest := depth < g.o.MaxDepth && g.budget > 0
	// markers and references
	if g.o.Markers && !g.o.NoForwardRefs && g.openLists > 0 && len(g.pendingFwd) < 4 && r.Intn(25) == 0 {
		// forward reference: the marker is defined by a later element of an enclosing list (see list())
		id := g.newID()
		g.pendingFwd = append(g.pendingFwd, id)
		g.emit(ev.Event{K: ev.REF, B: []byte(id)})
		return
	}
	if g.o.Markers && r.Intn(g.markerOdds) == 0 {
		if len(g.markers) > 0 && r.Intn(2) == 0 {
			m := g.markers[r.Intn(len(g.markers))]
			g.emit(ev.Event{K: ev.REF, B: []byte(m.id)})
			return
		}
		id := g.newID()
		g.emit(ev.Event{K: ev.MARK, B: []byte(id)})
		// marked object: anything but marker/ref/null-ness is allowed by rules ("marker+null" is accepted in
		// most places but not as edge source/destination), keep it non-null.
		save := len(g.out)
		// (valueNoMarker never puts a marker or a reference directly on the marked object; objects nested in it may carry their own)
		mk, rr := g.o.Markers, g.o.RemoteRef
		g.o.RemoteRef = false // the validator does not allow a remote reference as a marked object (don't-care in the property)
		g.valueNoMarker(depth, canNest, false)
		g.o.Markers, g.o.RemoteRef = mk, rr
		k := g.out[save].K
		keyable := isKeyableKind(g.out[save])
		_ = k
		g.markers = append(g.markers, markerInfo{id, keyable})
		return
	}
	g.valueNoMarker(depth, canNest, allowNull)
}

func isKeyableKind(e ev.Event) bool {
	switch e.K {
	case ev.BOOL, ev.TRUE, ev.FALSE, ev.PINT, ev.NINT, ev.INT, ev.UID, ev.TIME:
		return true
	case ev.BINT:
		return e.BI != nil
	case ev.ARR, ev.STRARR, ev.ABEGIN:
		return e.AT == events.ArrayTypeString || e.AT == events.ArrayTypeResourceID
	}
	return false
}

func (g *streamGen) valueNoMarker(depth int, canNest bool, allowNull bool) {
	r := g.r
	for {
		w := r.Intn(100)
		switch {
		case w < 4:
			if !allowNull {
				continue
			}
			if !g.o.NoNilBig && r.Intn(4) == 0 {
				switch r.Intn(3) {
				case 0:
					g.emit(ev.Event{K: ev.BINT})
				case 1:
					g.emit(ev.Event{K: ev.BFLOAT})
				default:
					g.emit(ev.Event{K: ev.BDFLOAT})
				}
			} else {
				g.emit(ev.Event{K: ev.NULL})
			}
		case w < 8:
			g.boolean()
		case w < 24:
			g.integer()
		case w < 38:
			g.float()
		case w < 41:
			g.nan()
		case w < 44:
			g.emit(ev.Event{K: ev.UID, B: randBytes(r, 16)})
		case w < 52:
			g.emit(ev.Event{K: ev.TIME, T: Time(r)})
		case w < 62:
			g.stringlike(events.ArrayTypeString)
		case w < 65:
			g.stringlike(events.ArrayTypeResourceID)
		case w < 67:
			if !g.o.RemoteRef {
				continue
			}
			g.stringlike(events.ArrayTypeReferenceRemote)
		case w < 69:
			if !g.o.CustomText {
				continue
			}
			g.custom(false)
		case w < 71:
			if !g.o.CustomBinary {
				continue
			}
			g.custom(true)
		case w < 73:
			if !g.o.Media {
				continue
			}
			g.media()
		case w < 80:
			if g.o.NoTypedArrays {
				continue
			}
			g.typedArray()
		case w < 86:
			if !canNest {
				continue
			}
			g.list(depth)
		case w < 92:
			if !canNest {
				continue
			}
			g.mapc(depth)
		case w < 94:
			if !canNest || g.o.NoEdgeNode {
				continue
			}
			g.node(depth)
		case w < 96:
			if !canNest || g.o.NoEdgeNode {
				continue
			}
			g.edge(depth)
		default:
			if !canNest || !g.o.Records || len(g.recTypes) == 0 {
				continue
			}
			g.record(depth)
		}
		return
	}
}

func (g *streamGen) keyable(allowMarkerRef bool) {
	r := g.r
	if allowMarkerRef && g.o.Markers && r.Intn(16) == 0 {
		var keyables []markerInfo
		for _, m := range g.markers {
			if m.keyable {
				keyables = append(keyables, m)
			}
		}
		if len(keyables) > 0 && r.Intn(2) == 0 {
			g.emit(ev.Event{K: ev.REF, B: []byte(keyables[r.Intn(len(keyables))].id)})
			return
		}
		id := g.newID()
		g.emit(ev.Event{K: ev.MARK, B: []byte(id)})
		g.keyable(false)
		g.markers = append(g.markers, markerInfo{id, true})
		return
	}
	switch w := r.Intn(20); {
	case w < 2:
		g.boolean()
	case w < 8:
		g.integer()
	case w < 10:
		g.emit(ev.Event{K: ev.UID, B: randBytes(r, 16)})
	case w < 12:
		g.emit(ev.Event{K: ev.TIME, T: Time(r)})
	case w < 18:
		g.stringlike(events.ArrayTypeString)
	default:
		g.stringlike(events.ArrayTypeResourceID)
	}
}

func (g *streamGen) boolean() {
	v := g.r.Intn(2) == 0
	if !g.o.NoBoolEvent && g.r.Intn(3) == 0 {
		g.emit(ev.Event{K: ev.BOOL, Flag: v})
	} else if v {
		g.emit(ev.Event{K: ev.TRUE})
	} else {
		g.emit(ev.Event{K: ev.FALSE})
	}
}

// IntBoundaries are the magnitudes around which every integer width changes.
var IntBoundaries = []string{"0", "1", "99", "100", "101", "255", "256", "257", "65535", "65536", "65537",
	"4294967295", "4294967296", "4294967297", "1099511627775", "1099511627776", "281474976710655", "281474976710656",
	"72057594037927935", "72057594037927936", "9223372036854775807", "9223372036854775808", "9223372036854775809",
	"18446744073709551615", "18446744073709551616", "18446744073709551617", "340282366920938463463374607431768211455",
	"340282366920938463463374607431768211456"}

// Magnitude picks a non-negative integer magnitude, biased to width boundaries.
func Magnitude(r *rand.Rand) *big.Int {
	switch r.Intn(10) {
	case 0, 1, 2:
		v, _ := new(big.Int).SetString(IntBoundaries[r.Intn(len(IntBoundaries))], 10)
		return v
	case 3:
		return big.NewInt(int64(r.Intn(300)))
	case 4, 5:
		bits := 1 + r.Intn(64)
		v := new(big.Int).SetUint64(r.Uint64())
		return v.Rsh(v, uint(64-bits))
	case 6:
		bits := 1 + r.Intn(70)
		v := new(big.Int).Lsh(big.NewInt(1), uint(bits))
		return v.Add(v, big.NewInt(int64(r.Intn(3)-1)))
	case 7:
		// big
		n := 9 + r.Intn(40)
		b := randBytes(r, n)
		b[0] |= 1
		return new(big.Int).SetBytes(b)
	default:
		return big.NewInt(r.Int63n(100000))
	}
}

// IntEvent renders value (sign, magnitude) in a random event form able to express it.
func IntEvent(r *rand.Rand, neg bool, mag *big.Int) ev.Event {
	forms := []ev.Kind{ev.BINT}
	if mag.IsUint64() {
		if neg {
			forms = append(forms, ev.NINT, ev.NINT)
		} else {
			forms = append(forms, ev.PINT, ev.PINT)
		}
	}
	v := new(big.Int).Set(mag)
	if neg {
		v.Neg(v)
	}
	if v.IsInt64() {
		forms = append(forms, ev.INT, ev.INT)
	}
	switch forms[r.Intn(len(forms))] {
	case ev.PINT:
		return ev.Event{K: ev.PINT, U: mag.Uint64()}
	case ev.NINT:
		return ev.Event{K: ev.NINT, U: mag.Uint64()}
	case ev.INT:
		return ev.Event{K: ev.INT, I: v.Int64()}
	}
	return ev.Event{K: ev.BINT, BI: v}
}

func (g *streamGen) integer() {
	mag := Magnitude(g.r)
	neg := g.r.Intn(2) == 0
	if mag.Sign() == 0 && (g.o.NoNegZero || g.r.Intn(2) == 0) {
		neg = false
	}
	e := IntEvent(g.r, neg, mag)
	if mag.Sign() == 0 && neg && e.K != ev.NINT {
		// only the negative-int form can carry -0
		e = ev.Event{K: ev.NINT, U: 0}
	}
	g.emit(e)
}

// Float64Value picks a float64 from interesting classes (never NaN).
func Float64Value(r *rand.Rand) float64 {
	switch r.Intn(12) {
	case 0:
		return []float64{0, math.Copysign(0, -1), 1, -1, 0.5, 1.5, 100, 1e10, math.Inf(1), math.Inf(-1)}[r.Intn(10)]
	case 1:
		// bfloat16-exact
		return float64(math.Float32frombits(uint32(r.Intn(0x7f80)|r.Intn(2)<<15) << 16))
	case 2:
		// float32-exact
		b := r.Uint32()
		if b&0x7f800000 == 0x7f800000 {
			b &^= 0x00800000
		}
		return float64(math.Float32frombits(b))
	case 3:
		// subnormal float64
		return math.Float64frombits(r.Uint64()&(1<<52-1) | uint64(r.Intn(2))<<63)
	case 4:
		return []float64{math.MaxFloat64, -math.MaxFloat64, math.SmallestNonzeroFloat64, math.MaxFloat32, math.SmallestNonzeroFloat32,
			0x1p-1022, 0x1.fffffffffffffp-1023, 0x1p-126, 0x1p-149, 0x1.fffffep127, 0x1.fep127, 0x1p-133}[r.Intn(12)]
	case 5:
		return float64(r.Intn(2000)-1000) / 8
	case 6:
		return float64(r.Int63n(1<<53)) * math.Pow(2, float64(r.Intn(60)-30))
	case 7:
		return float64(int64(r.Uint64()))
	default:
		for {
			f := math.Float64frombits(r.Uint64())
			if !math.IsNaN(f) {
				return f
			}
		}
	}
}

func (g *streamGen) float() {
	r := g.r
	switch w := r.Intn(10); {
	case w < 4:
		f := Float64Value(r)
		if g.o.NoNegZero && f == 0 {
			f = 0
		}
		g.emit(ev.Event{K: ev.FLOAT, F: f})
	case w < 6 && !g.o.NoBigFloat:
		g.emit(ev.Event{K: ev.BFLOAT, BF: BigFloatValue(r)})
	case w < 8:
		g.emit(ev.Event{K: ev.DFLOAT, DF: DFloatValue(r, g.o.NoNegZero)})
	default:
		g.emit(ev.Event{K: ev.BDFLOAT, BD: APDValue(r, g.o.NoNegZero)})
	}
}

// BigFloatValue picks a big.Float (finite or infinite).
func BigFloatValue(r *rand.Rand) *big.Float {
	switch r.Intn(8) {
	case 0:
		return new(big.Float).SetFloat64(Float64Value(r))
	case 1:
		return new(big.Float).SetInf(r.Intn(2) == 0)
	case 2:
		f := new(big.Float).SetPrec(uint(1 + r.Intn(200)))
		f.SetInt64(r.Int63n(1000) - 500)
		return f
	default:
		prec := uint(1 + r.Intn(300))
		f := new(big.Float).SetPrec(prec)
		m := new(big.Int).SetBytes(randBytes(r, int(prec+7)/8))
		f.SetInt(m)
		f.SetMantExp(f, r.Intn(2000)-1000)
		if r.Intn(2) == 0 {
			f.Neg(f)
		}
		return f
	}
}

func DFloatValue(r *rand.Rand, noNegZero bool) compact_float.DFloat {
	switch r.Intn(10) {
	case 0:
		return compact_float.Zero()
	case 1:
		if noNegZero {
			return compact_float.Zero()
		}
		return compact_float.NegativeZero()
	case 2:
		return compact_float.Infinity()
	case 3:
		return compact_float.NegativeInfinity()
	case 4:
		c := []int64{math.MaxInt64, math.MinInt64 + 1, 1, -1, 999999999999999999}[r.Intn(5)]
		return compact_float.DFloatValue(int32(r.Intn(800)-400), c)
	default:
		c := r.Int63n(1 << uint(1+r.Intn(62)))
		if r.Intn(2) == 0 {
			c = -c
		}
		if c == 0 {
			c = 1
		}
		return compact_float.DFloatValue(int32(r.Intn(700)-350), c)
	}
}

func APDValue(r *rand.Rand, noNegZero bool) *apd.Decimal {
	d := new(apd.Decimal)
	switch r.Intn(10) {
	case 0:
		d.Form = apd.Infinite
		d.Negative = r.Intn(2) == 0
		return d
	case 1:
		d.Negative = !noNegZero && r.Intn(2) == 0
		d.Exponent = 0
		return d
	case 2:
		d.SetFinite(r.Int63n(1000)-500, int32(r.Intn(20)-10))
		if d.Coeff.Sign() == 0 {
			d.Negative = false
		}
		return d
	default:
		n := 1 + r.Intn(24)
		b := randBytes(r, n)
		b[0] |= 1
		d.Coeff.SetBytes(b)
		d.Exponent = int32(r.Intn(2000) - 1000)
		d.Negative = r.Intn(2) == 0
		return d
	}
}

func (g *streamGen) nan() {
	r := g.r
	sig := r.Intn(2) == 0
	if g.o.NoNaNForms || r.Intn(2) == 0 {
		g.emit(ev.Event{K: ev.NAN, Flag: sig})
		return
	}
	switch r.Intn(3) {
	case 0:
		bits := uint64(0x7ff0000000000000) | uint64(1+r.Int63n(1<<50))
		if r.Intn(2) == 0 {
			// boundary payloads: empty and full payload next to the quiet bit, the lowest and the highest payload bit alone
			bits = uint64(0x7ff0000000000000) | []uint64{0, 1, 1 << 50, 1<<51 - 1, 1<<50 | 1, 2}[r.Intn(6)]
			if sig && bits == 0x7ff0000000000000 {
				bits |= 1 // a signalling NaN needs a non-empty payload (all zero would be infinity)
			}
		}
		if !sig {
			bits |= 1 << 51
		}
		bits |= uint64(r.Intn(2)) << 63
		g.emit(ev.Event{K: ev.FLOAT, F: math.Float64frombits(bits)})
	case 1:
		if sig {
			g.emit(ev.Event{K: ev.DFLOAT, DF: compact_float.SignalingNaN()})
		} else {
			g.emit(ev.Event{K: ev.DFLOAT, DF: compact_float.QuietNaN()})
		}
	default:
		d := new(apd.Decimal)
		if sig {
			d.Form = apd.NaNSignaling
		} else {
			d.Form = apd.NaN
		}
		g.emit(ev.Event{K: ev.BDFLOAT, BD: d})
	}
}

func randBytes(r *rand.Rand, n int) []byte {
	b := make([]byte, n)
	for i := range b {
		b[i] = byte(r.Intn(256))
	}
	return b
}

func RandBytes(r *rand.Rand, n int) []byte { return randBytes(r, n) }

var areaLocations = []string{"America/New_York", "E/Berlin", "Europe/Berlin", "Asia/Tokyo", "Etc/GMT+5", "F/Abidjan", "Africa/Cairo",
	"M/Argentina/Buenos_Aires", "America/Argentina/La_Rioja", "S/Sydney", "Australia/Sydney", "Antarctica/Troll", "R/Arctic", "Indian/Maldives",
	"T/Azores", "P/Fiji", "U/Samoa", "Pacific/Port_Moresby", "America/Port-au-Prince", "Europe/Isle_of_Man", "Mars/Olympus"}

// SynthAreaLocation makes an area/location name of exactly n bytes (3..127) inside the CTE grammar; names with a known
// area prefix are abbreviated by compact_time, so the encoded length varies independently of n.
func SynthAreaLocation(r *rand.Rand, n int) string {
	const alphabet = "abcdefghijklmnopqrstuvwxyzABCDEFGHIJKLMNOPQRSTUVWXYZ0123456789_-+"
	prefix := []string{"Q/", "Qq/", "America/", "Europe/", "Etc/"}[r.Intn(5)]
	if n < len(prefix)+1 {
		prefix = "Q/"
	}
	b := []byte(prefix)
	for len(b) < n {
		b = append(b, alphabet[r.Intn(len(alphabet))])
	}
	return string(b)
}

// Zone picks a time zone of every form.
func Zone(r *rand.Rand) compact_time.Timezone {
	switch r.Intn(8) {
	case 0, 1:
		return compact_time.TZAtUTC()
	case 2:
		return compact_time.TZLocal()
	case 3, 4:
		if r.Intn(3) == 0 {
			return compact_time.TZAtAreaLocation(SynthAreaLocation(r, 3+r.Intn(125)))
		}
		return compact_time.TZAtAreaLocation(areaLocations[r.Intn(len(areaLocations))])
	case 5, 6:
		// half of the coordinates come from the sign/rounding boundaries (hundredths around 0, +-1 degree and the range ends)
		coord := func(limit int) int {
			switch r.Intn(4) {
			case 0:
				return r.Intn(201) - 100
			case 1:
				return []int{-limit, -limit + 1, limit - 1, limit, -101, 101, -1000, 1000, -5, 5, -1, 1, 0, -99, 99, -100, 100, -7, 29, 57, 58, -58, 113, 115}[r.Intn(24)]
			}
			return r.Intn(2*limit+1) - limit
		}
		return compact_time.TZAtLatLong(coord(9000), coord(18000))
	default:
		m := r.Intn(2879) - 1439
		if m == 0 {
			m = 60
		}
		return compact_time.TZWithMiutesOffsetFromUTC(m)
	}
}

var daysIn = []int{0, 31, 29, 31, 30, 31, 30, 31, 31, 30, 31, 30, 31}

// Time picks a valid compact time of every form.
func Time(r *rand.Rand) compact_time.Time {
	year := func() int {
		switch r.Intn(6) {
		case 0:
			return []int{1, -1, 2000, 1999, 2001, 1970, 9999, -9999, 100000, -100000, 2127, 2128, 1872, 1871}[r.Intn(14)]
		case 1:
			y := r.Intn(200001) - 100000
			if y == 0 {
				y = 1
			}
			return y
		default:
			return 1900 + r.Intn(300)
		}
	}
	nanos := func() int {
		switch r.Intn(5) {
		case 0:
			return 0
		case 1:
			return r.Intn(1000) * 1000000
		case 2:
			return r.Intn(1000000) * 1000
		case 3:
			return 999999999
		default:
			return r.Intn(1000000000)
		}
	}
	month := 1 + r.Intn(12)
	day := 1 + r.Intn(daysIn[month])
	hour, minute, second := r.Intn(24), r.Intn(60), r.Intn(60)
	if r.Intn(20) == 0 {
		second = 60
	}
	switch r.Intn(3) {
	case 0:
		return compact_time.NewDate(year(), month, day)
	case 1:
		return compact_time.NewTime(hour, minute, second, nanos(), Zone(r))
	default:
		return compact_time.NewTimestamp(year(), month, day, hour, minute, second, nanos(), Zone(r))
	}
}

// Torture is the Unicode torture table for string contents.
var Torture = []string{"", "a", "hello world", "\x00", "\t", "\n", "\r\n", "\"", "\\", "*/", "/*", "//", "|", " ", "\u00ad", "\u00a0", "\u2028",
	"\u202e", "\U0001F600", "\u00e9", "\u65e5\u672c\u8a9e", "\x7f", "\u0080", "\u009f", "\ufeff", "\ufffd", "\U0010FFFF", "\ud7ff", "\ue000", "\u3000", "  x  ", "{", "}", "[", "]", "(", ")", "<", ">",
	"@", "#", "$", "%", "&", "=", ":", ";", ",", ".", "'", "`", "~", "^", "\x01", "\x1b", "\x1f", "\u20ac", "\u00df", "\\n", "\\[41]", "\\.", "null", "true", "1", "-1.5", "0x10", "e\u0301", "\u200d", "\u0300"}

var awkwardRunes = [][]rune{
	{0xf8ff, 0xe0a0, 0xefff, 0xf0000 + 0xa0a0, 0x10fffd, 0xe000},   // private use
	{0x0378, 0x0530, 0x2065, 0xfff0, 0x1fffe - 0x1000, 0xe0080},    // unassigned
	{0xffff, 0xfffe, 0xfdd0, 0x1ffff, 0x10ffff},                    // noncharacters
	{0x200b, 0x200e, 0x2028, 0x2029, 0x202e, 0x2060, 0xfeff, 0xad}, // format / separators
	{0x0300, 0x0301, 0x20d0, 0xfe0f, 0x1f3fb},                      // combining / modifiers
	{0x80, 0x85, 0x9f, 0xa0},                                       // C1 controls, NBSP
	{0x7f, 0x01, 0x1f, 0x0b, 0x0c},                                 // C0 controls
}

func TextValue(r *rand.Rand, maxLen int, safe bool) string {
	var sb strings.Builder
	if safe {
		n := r.Intn(maxLen + 1)
		for i := 0; i < n; i++ {
			sb.WriteByte("abcdefghijklmnopqrstuvwxyzABCXYZ0123456789 _-.,"[r.Intn(47)])
		}
		return sb.String()
	}
	switch r.Intn(5) {
	case 4:
		// plain letters around 1-3 code points of ONE awkward class (private use, unassigned, noncharacters, format and
		// separator characters, combining marks, C1 controls), with nothing else in the string that would need an escape
		class := awkwardRunes[r.Intn(len(awkwardRunes))]
		for i := 1 + r.Intn(3); i > 0; i-- {
			for j := r.Intn(4); j > 0; j-- {
				sb.WriteByte(byte('a' + r.Intn(26)))
			}
			sb.WriteRune(class[r.Intn(len(class))])
		}
		for j := r.Intn(3); j > 0; j-- {
			sb.WriteByte(byte('a' + r.Intn(26)))
		}
		if sb.Len() > maxLen && maxLen > 0 {
			return "\uf8ff"
		}
	case 0:
		return Torture[r.Intn(len(Torture))]
	case 1:
		n := r.Intn(4)
		for i := 0; i < n; i++ {
			sb.WriteString(Torture[r.Intn(len(Torture))])
		}
	case 2:
		// specific lengths around the short-form limit
		n := []int{0, 1, 14, 15, 16, 17, 31, 32, 100}[r.Intn(9)]
		if n > maxLen {
			n = maxLen
		}
		for i := 0; i < n; i++ {
			sb.WriteByte(byte('a' + r.Intn(26)))
		}
	default:
		n := r.Intn(maxLen + 1)
		for sb.Len() < n {
			switch r.Intn(5) {
			case 0:
				sb.WriteRune(rune(0x80 + r.Intn(0x700)))
			case 1:
				c := rune(0x800 + r.Intn(0xf800))
				if c >= 0xd800 && c < 0xe000 {
					c = 0x4e00
				}
				sb.WriteRune(c)
			case 2:
				sb.WriteRune(rune(0x10000 + r.Intn(0x100000)))
			default:
				sb.WriteByte(byte(0x20 + r.Intn(0x5f)))
			}
		}
	}
	return sb.String()
}

func (g *streamGen) stringlike(at events.ArrayType) {
	s := TextValue(g.r, g.o.MaxArrayLen, g.o.SafeStrings)
	if at != events.ArrayTypeString && s == "" && g.r.Intn(2) == 0 {
		s = "x"
	}
	if at == events.ArrayTypeResourceID || at == events.ArrayTypeReferenceRemote {
		if g.r.Intn(2) == 0 {
			s = "https://example.com/" + s
		}
	}
	g.arrayForms(at, uint64(len(s)), []byte(s), true)
}

// arrayForms emits an array in one of its event forms.
func (g *streamGen) arrayForms(at events.ArrayType, count uint64, data []byte, stringlike bool) {
	r := g.r
	w := r.Intn(10)
	switch {
	case g.o.Chunked && w < 3:
		g.out = append(g.out, Chunked(r, at, count, data, stringlike)...)
	case stringlike && w < 7:
		g.emit(ev.Event{K: ev.STRARR, AT: at, S: string(data)})
	default:
		g.emit(ev.Event{K: ev.ARR, AT: at, U: count, B: data})
	}
}

// Chunked rewrites an array (not media/custom) into begin/chunk/data events at random valid boundaries.
func Chunked(r *rand.Rand, at events.ArrayType, count uint64, data []byte, stringlike bool) []ev.Event {
	out := []ev.Event{{K: ev.ABEGIN, AT: at}}
	// a third of the chunked arrays deliver their data in events that may end inside an element (the validator counts
	// bytes, so such a stream is rules-valid; receivers have to reassemble the elements)
	return append(out, ChunkBodyOpt(r, at.ElementSize(), count, data, stringlike, r.Intn(3) != 0)...)
}

// ChunkBody produces chunk/data events for the payload. Chunk boundaries are element aligned
// (bit arrays: multiples of 8 bits except the last chunk; strings: character boundaries).
// Data events split anywhere inside a chunk when splitData is requested via r.
func ChunkBody(r *rand.Rand, elemBits int, count uint64, data []byte, stringlike bool) []ev.Event {
	return ChunkBodyOpt(r, elemBits, count, data, stringlike, true)
}

// ChunkBodyOpt is ChunkBody with a choice of whether data events of multi-byte element arrays stay element aligned.
func ChunkBodyOpt(r *rand.Rand, elemBits int, count uint64, data []byte, stringlike bool, alignData bool) []ev.Event {
	var out []ev.Event
	remaining := count
	off := 0
	for {
		var n uint64
		if remaining == 0 || r.Intn(3) == 0 {
			n = remaining
		} else {
			n = uint64(r.Int63n(int64(remaining) + 1))
		}
		if r.Intn(12) == 0 {
			n = 0
		}
		if elemBits == 1 && n != remaining {
			n &^= 7
		}
		var nbytes int
		if elemBits == 1 {
			nbytes = int((n + 7) / 8)
		} else {
			nbytes = int(n) * elemBits / 8
		}
		if stringlike && n != remaining {
			// move back to a character boundary
			for nbytes > 0 && off+nbytes < len(data) && data[off+nbytes]&0xc0 == 0x80 {
				nbytes--
			}
			n = uint64(nbytes)
		}
		last := n == remaining && r.Intn(4) != 0
		out = append(out, ev.Event{K: ev.CHUNK, U: n, Flag: !last})
		chunk := data[off : off+nbytes]
		// split the chunk's bytes into data events
		for len(chunk) > 0 {
			k := len(chunk)
			if r.Intn(2) == 0 {
				k = 1 + r.Intn(len(chunk))
				if alignData && !stringlike && elemBits > 8 {
					// keep data events element aligned (interface contract for typed arrays)
					es := elemBits / 8
					k = (k + es - 1) / es * es
					if k > len(chunk) {
						k = len(chunk)
					}
				}
			}
			out = append(out, ev.Event{K: ev.DATA, B: append([]byte(nil), chunk[:k]...)})
			chunk = chunk[k:]
		}
		off += nbytes
		remaining -= n
		if last {
			return out
		}
	}
}

var numericArrayTypes = []events.ArrayType{events.ArrayTypeBit, events.ArrayTypeUint8, events.ArrayTypeUint16, events.ArrayTypeUint32,
	events.ArrayTypeUint64, events.ArrayTypeInt8, events.ArrayTypeInt16, events.ArrayTypeInt32, events.ArrayTypeInt64,
	events.ArrayTypeFloat16, events.ArrayTypeFloat32, events.ArrayTypeFloat64, events.ArrayTypeUID}

// TypedArrayData returns count and bytes for a random array of the given type.
func TypedArrayData(r *rand.Rand, at events.ArrayType, maxLen int) (uint64, []byte) {
	n := []int{0, 1, 2, 7, 8, 9, 15, 16, 17}[r.Intn(9)]
	if r.Intn(3) == 0 {
		n = r.Intn(maxLen + 1)
	}
	if n > maxLen {
		n = maxLen
	}
	bits := at.ElementSize()
	if bits == 1 {
		b := randBytes(r, (n+7)/8)
		if n%8 != 0 {
			b[len(b)-1] &= byte(1<<(uint(n)%8)) - 1
		}
		return uint64(n), b
	}
	b := randBytes(r, n*bits/8)
	// no NaN payload variety in float arrays beyond canonical quiet/signalling patterns would be
	// "bit-exact" anyway; keep raw random bits (NaNs included) because array contents are byte-identical by property.
	return uint64(n), b
}

func (g *streamGen) typedArray() {
	at := numericArrayTypes[g.r.Intn(len(numericArrayTypes))]
	n, b := TypedArrayData(g.r, at, g.o.MaxArrayLen)
	g.arrayForms(at, n, b, false)
}

var mediaTypes = []string{"application/x-sh", "text/plain", "image/png", "a/b", "application/vnd.api+json", "x-y/z.w-1"}

// longPayloadLens straddle the run lengths an encoder may write binary payloads in (256-byte hex runs, 512, 1024).
var longPayloadLens = []int{255, 256, 257, 258, 300, 511, 512, 513, 600, 700, 1024, 1025}

// payloadLen is the length of one binary payload (media, custom binary): usually up to MaxArrayLen, one in 16 long.
func (g *streamGen) payloadLen() int {
	if !g.o.NoLongPayloads && g.r.Intn(16) == 0 {
		return longPayloadLens[g.r.Intn(len(longPayloadLens))]
	}
	return g.r.Intn(g.o.MaxArrayLen + 1)
}

func (g *streamGen) media() {
	r := g.r
	mt := mediaTypes[r.Intn(len(mediaTypes))]
	data := randBytes(r, g.payloadLen())
	if g.o.Chunked && r.Intn(3) == 0 {
		g.emit(ev.Event{K: ev.MBEGIN, S: mt})
		g.out = append(g.out, ChunkBody(r, 8, uint64(len(data)), data, false)...)
		return
	}
	g.emit(ev.Event{K: ev.MEDIA, S: mt, B: data})
}

func (g *streamGen) custom(binary bool) {
	r := g.r
	ct := []uint64{0, 1, 127, 128, 300, 65536, math.MaxUint32}[r.Intn(7)]
	if g.o.WideCustomTypes && r.Intn(3) == 0 {
		// codes beyond 32 bits: the event API, the validator and CTE carry 64 bits (the CBE decoder does not; CBE-bound checks leave this off)
		ct = []uint64{1 << 32, 1<<32 + 1, 1 << 40, math.MaxInt64, 1 << 63, math.MaxUint64}[r.Intn(6)]
	}
	if binary {
		data := randBytes(r, g.payloadLen())
		if g.o.Chunked && r.Intn(3) == 0 {
			g.emit(ev.Event{K: ev.CBEGIN, AT: events.ArrayTypeCustomBinary, U: ct})
			g.out = append(g.out, ChunkBody(r, 8, uint64(len(data)), data, false)...)
			return
		}
		g.emit(ev.Event{K: ev.CUSTB, U: ct, B: data})
		return
	}
	s := TextValue(r, g.o.MaxArrayLen, g.o.SafeStrings)
	if g.o.Chunked && r.Intn(3) == 0 {
		g.emit(ev.Event{K: ev.CBEGIN, AT: events.ArrayTypeCustomText, U: ct})
		g.out = append(g.out, ChunkBody(r, 8, uint64(len(s)), []byte(s), true)...)
		return
	}
	g.emit(ev.Event{K: ev.CUSTT, U: ct, S: s})
}

func (g *streamGen) list(depth int) {
	g.emit(ev.Event{K: ev.LIST})
	g.openLists++
	n := g.r.Intn(6)
	if g.r.Intn(8) == 0 {
		n = 5 + g.r.Intn(20) // wide lists: builders grow their slices past several capacity steps
	}
	for i := 0; i < n && g.budget > 0; i++ {
		g.pseudo()
		g.value(depth+1, false, true)
	}
	// define the markers of pending forward references: all of them when this is the outermost open list,
	// otherwise each with probability 1/2 (the rest is left to an enclosing list)
	var keep []string
	for _, id := range g.pendingFwd {
		if g.openLists > 1 && g.r.Intn(2) == 0 {
			keep = append(keep, id)
			continue
		}
		g.pseudo()
		g.emit(ev.Event{K: ev.MARK, B: []byte(id)})
		save := len(g.out)
		mk, rr := g.o.Markers, g.o.RemoteRef
		g.o.RemoteRef = false
		g.valueNoMarker(depth+1, depth+1 < g.o.MaxDepth, false)
		g.o.Markers, g.o.RemoteRef = mk, rr
		g.markers = append(g.markers, markerInfo{id, isKeyableKind(g.out[save])})
	}
	g.pendingFwd = keep
	g.openLists--
	g.pseudo()
	g.emit(ev.Event{K: ev.END})
}

func (g *streamGen) mapc(depth int) {
	g.emit(ev.Event{K: ev.MAP})
	n := g.r.Intn(5)
	keys := map[string]bool{}
	for i := 0; i < n && g.budget > 0; i++ {
		g.pseudo()
		save := len(g.out)
		nm := len(g.markers)
		g.value(depth+1, true, false)
		kev := g.out[save:]
		var k string
		if kev[0].K == ev.REF {
			k = "ref:" + string(kev[0].B) // a reference key: conservatively unique per id, and never mixed with the literal value
			// the referenced value could collide with a literal key; avoid by giving up on this entry if any non-ref key exists
			if len(keys) > 0 {
				g.out = g.out[:save]
				continue
			}
		} else {
			k = keyCanon(kev)
		}
		if keys[k] || keys["ref-present"] {
			g.out = g.out[:save]
			g.markers = g.markers[:nm]
			continue
		}
		keys[k] = true
		if kev[0].K == ev.REF {
			keys["ref-present"] = true
		}
		g.pseudo()
		g.value(depth+1, false, true)
		// twin key: the same text as a string/resource-id key just emitted, in the other type (a string and a
		// resource ID with equal text are different keys), delivered whole
		if text, at, ok := stringKeyText(kev); ok && g.r.Intn(4) == 0 && !keys["ref-present"] {
			twin := events.ArrayTypeResourceID
			if at == events.ArrayTypeResourceID {
				twin = events.ArrayTypeString
			}
			te := []ev.Event{{K: ev.STRARR, AT: twin, S: text}}
			if tk := keyCanon(te); !keys[tk] {
				keys[tk] = true
				g.pseudo()
				g.emit(te[0])
				g.pseudo()
				g.value(depth+1, false, true)
			}
		}
	}
	g.pseudo()
	g.emit(ev.Event{K: ev.END})
}

// stringKeyText returns the text and type of a string or resource-id key given by its events (whole or chunked, unmarked).
func stringKeyText(kev []ev.Event) (string, events.ArrayType, bool) {
	if len(kev) == 0 {
		return "", 0, false
	}
	e := kev[0]
	if e.AT != events.ArrayTypeString && e.AT != events.ArrayTypeResourceID {
		return "", 0, false
	}
	switch e.K {
	case ev.STRARR:
		return e.S, e.AT, true
	case ev.ARR:
		return string(e.B), e.AT, true
	case ev.ABEGIN:
		var b []byte
		for _, x := range kev[1:] {
			if x.K == ev.DATA {
				b = append(b, x.B...)
			}
		}
		return string(b), e.AT, true
	}
	return "", 0, false
}

func (g *streamGen) node(depth int) {
	g.emit(ev.Event{K: ev.NODE})
	g.pseudo()
	g.value(depth+1, false, true)
	n := g.r.Intn(4)
	for i := 0; i < n && g.budget > 0; i++ {
		g.pseudo()
		g.value(depth+1, false, true)
	}
	g.pseudo()
	g.emit(ev.Event{K: ev.END})
}

func (g *streamGen) edge(depth int) {
	g.emit(ev.Event{K: ev.EDGE})
	g.pseudo()
	g.value(depth+1, false, false)
	g.pseudo()
	g.value(depth+1, false, true)
	g.pseudo()
	g.value(depth+1, false, false)
	g.pseudo()
	g.emit(ev.Event{K: ev.END})
}

func (g *streamGen) record(depth int) {
	rt := g.recTypes[g.r.Intn(len(g.recTypes))]
	g.emit(ev.Event{K: ev.RECORD, B: []byte(rt.id)})
	for i := 0; i < rt.nkey; i++ {
		g.pseudo()
		g.value(depth+1, false, true)
	}
	g.pseudo()
	g.emit(ev.Event{K: ev.END})
}

// Rechunk rewrites every whole array / media / custom event of a stream into chunked form at random
// boundaries; data events may split anywhere (mid-element, mid-character) when alignData is false.
func Rechunk(r *rand.Rand, log []ev.Event, alignData bool) []ev.Event {
	var out []ev.Event
	for _, e := range log {
		switch e.K {
		case ev.ARR:
			sl := e.AT == events.ArrayTypeString || e.AT == events.ArrayTypeResourceID || e.AT == events.ArrayTypeReferenceRemote
			out = append(out, ev.Event{K: ev.ABEGIN, AT: e.AT})
			out = append(out, ChunkBodyOpt(r, e.AT.ElementSize(), e.U, e.B, sl, alignData)...)
		case ev.STRARR:
			out = append(out, ev.Event{K: ev.ABEGIN, AT: e.AT})
			out = append(out, ChunkBodyOpt(r, 8, uint64(len(e.S)), []byte(e.S), true, alignData)...)
		case ev.MEDIA:
			out = append(out, ev.Event{K: ev.MBEGIN, S: e.S})
			out = append(out, ChunkBodyOpt(r, 8, uint64(len(e.B)), e.B, false, alignData)...)
		case ev.CUSTB:
			out = append(out, ev.Event{K: ev.CBEGIN, AT: events.ArrayTypeCustomBinary, U: e.U})
			out = append(out, ChunkBodyOpt(r, 8, uint64(len(e.B)), e.B, false, alignData)...)
		case ev.CUSTT:
			out = append(out, ev.Event{K: ev.CBEGIN, AT: events.ArrayTypeCustomText, U: e.U})
			out = append(out, ChunkBodyOpt(r, 8, uint64(len(e.S)), []byte(e.S), true, alignData)...)
		default:
			out = append(out, e)
		}
	}
	return out
}
