package gen

import (
	"fmt"
	"math"
	"math/big"
	"math/rand"
	"net/url"
	"reflect"
	"sort"
	"strings"
	"time"

	"github.com/cockroachdb/apd/v2"
	compact_float "github.com/kstenerud/go-compact-float"
	compact_time "github.com/kstenerud/go-compact-time"
	"github.com/kstenerud/go-concise-encoding/types"
)

var (
	TBool      = reflect.TypeOf(false)
	TInt       = reflect.TypeOf(int(0))
	TInt8      = reflect.TypeOf(int8(0))
	TInt16     = reflect.TypeOf(int16(0))
	TInt32     = reflect.TypeOf(int32(0))
	TInt64     = reflect.TypeOf(int64(0))
	TUint      = reflect.TypeOf(uint(0))
	TUint8     = reflect.TypeOf(uint8(0))
	TUint16    = reflect.TypeOf(uint16(0))
	TUint32    = reflect.TypeOf(uint32(0))
	TUint64    = reflect.TypeOf(uint64(0))
	TFloat32   = reflect.TypeOf(float32(0))
	TFloat64   = reflect.TypeOf(float64(0))
	TString    = reflect.TypeOf("")
	TBytes     = reflect.TypeOf([]byte(nil))
	TTime      = reflect.TypeOf(time.Time{})
	TCTime     = reflect.TypeOf(compact_time.Time{})
	TBigInt    = reflect.TypeOf(big.Int{})
	TPBigInt   = reflect.TypeOf((*big.Int)(nil))
	TBigFloat  = reflect.TypeOf(big.Float{})
	TPBigFloat = reflect.TypeOf((*big.Float)(nil))
	TAPD       = reflect.TypeOf(apd.Decimal{})
	TPAPD      = reflect.TypeOf((*apd.Decimal)(nil))
	TDFloat    = reflect.TypeOf(compact_float.DFloat{})
	TURL       = reflect.TypeOf(url.URL{})
	TPURL      = reflect.TypeOf((*url.URL)(nil))
	TUID       = reflect.TypeOf(types.UID{})
	TMedia     = reflect.TypeOf(types.Media{})
	TNode      = reflect.TypeOf(types.Node{})
	TEdge      = reflect.TypeOf(types.Edge{})
	TIface     = reflect.TypeOf((*interface{})(nil)).Elem()
)

var numericElemTypes = []reflect.Type{TUint8, TUint16, TUint32, TUint64, TUint, TInt8, TInt16, TInt32, TInt64, TInt, TFloat32, TFloat64, TBool}

var scalarTypes = []reflect.Type{TBool, TInt, TInt8, TInt16, TInt32, TInt64, TUint, TUint8, TUint16, TUint32, TUint64, TFloat32, TFloat64, TString,
	TTime, TCTime, TPBigInt, TPBigFloat, TPAPD, TBigInt, TBigFloat, TAPD, TDFloat, TURL, TPURL, TUID}

var keyTypes = []reflect.Type{TInt, TInt8, TInt16, TInt32, TInt64, TUint, TUint8, TUint16, TUint32, TUint64, TString, TString, TString, TBool, TUID}

// FieldNames are distinct under snake-casing and case folding.
var FieldNames = []string{"Alpha", "BetaGamma", "Count", "DataSet", "Elem", "FooBar", "Gid", "HostName", "Idx", "JobTitle", "Kind", "LastSeenAt"}

// TypeOpts bounds RandType.
type TypeOpts struct {
	NoSpecial   bool // no Media/Node/Edge
	NoInterface bool
	NoTime      bool
	NoBigFloat  bool
	NoPointers  bool
	OnlyNamed   bool
	NoEmbed     bool   // no anonymously embedded structs
	NoRecursive bool   // none of the named recursive types (RecTree, RecMap, RecList, RecMix)
	Salt        string // made part of struct field names so types are fresh (first-use cache paths)
}

// RandType builds a random supported type of bounded depth.
func RandType(r *rand.Rand, depth int, o TypeOpts) reflect.Type {
	if depth <= 0 || r.Intn(3) == 0 {
		return leafType(r, o)
	}
	switch r.Intn(12) {
	case 0, 1:
		return reflect.SliceOf(RandType(r, depth-1, o))
	case 2:
		return reflect.SliceOf(numericElemTypes[r.Intn(len(numericElemTypes))])
	case 3:
		return reflect.ArrayOf(r.Intn(5), RandType(r, depth-1, o))
	case 4:
		return reflect.ArrayOf([]int{0, 1, 3, 15, 16, 17, 33}[r.Intn(7)], numericElemTypes[r.Intn(len(numericElemTypes))])
	case 5, 6:
		return reflect.MapOf(keyTypes[r.Intn(len(keyTypes))], RandType(r, depth-1, o))
	case 7:
		if o.NoPointers {
			return leafType(r, o)
		}
		if r.Intn(4) == 0 {
			// two levels of pointers directly above the pointee
			return reflect.PtrTo(reflect.PtrTo(RandType(r, depth-1, o)))
		}
		return reflect.PtrTo(RandType(r, depth-1, o))
	case 8, 9, 10:
		if !o.NoRecursive && r.Intn(8) == 0 {
			return recursiveTypes[r.Intn(len(recursiveTypes))]
		}
		return RandStruct(r, depth, o)
	default:
		if o.NoSpecial {
			return leafType(r, o)
		}
		return []reflect.Type{TMedia, TNode, TEdge}[r.Intn(3)]
	}
}

func leafType(r *rand.Rand, o TypeOpts) reflect.Type {
	for {
		t := scalarTypes[r.Intn(len(scalarTypes))]
		if o.NoTime && (t == TTime || t == TCTime) {
			continue
		}
		if o.NoBigFloat && (t == TBigFloat || t == TPBigFloat) {
			continue
		}
		if r.Intn(8) == 0 {
			return TBytes
		}
		return t
	}
}

// RandStruct builds a struct type with 0-6 exported fields.
func RandStruct(r *rand.Rand, depth int, o TypeOpts) reflect.Type {
	n := r.Intn(6)
	if r.Intn(10) == 0 {
		n = 0
	}
	perm := r.Perm(len(FieldNames))
	var fields []reflect.StructField
	for i := 0; i < n; i++ {
		name := FieldNames[perm[i]]
		if o.Salt != "" {
			name = name + o.Salt
		}
		fields = append(fields, reflect.StructField{Name: name, Type: RandType(r, depth-1, o)})
	}
	if !o.NoEmbed && r.Intn(5) == 0 {
		// a chain of 1-6 anonymously embedded structs (fields promoted into this struct); the innermost has 2-3 fields
		ep := r.Perm(len(EmbNames))
		next := 0
		name := func() string {
			next++
			return EmbNames[ep[next-1]] + o.Salt
		}
		var inner []reflect.StructField
		for i := 2 + r.Intn(2); i > 0; i-- {
			inner = append(inner, reflect.StructField{Name: name(), Type: embLeaf(r, depth, o)})
		}
		t := reflect.StructOf(inner)
		for level := r.Intn(6); level > 0; level-- {
			w := []reflect.StructField{{Name: fmt.Sprintf("Emb%d%s", level, o.Salt), Type: t, Anonymous: true}}
			if r.Intn(2) == 0 {
				own := reflect.StructField{Name: name(), Type: embLeaf(r, depth, o)}
				if r.Intn(2) == 0 {
					w = append(w, own)
				} else {
					w = append([]reflect.StructField{own}, w...)
				}
			}
			t = reflect.StructOf(w)
		}
		at := r.Intn(len(fields) + 1)
		fields = append(fields[:at], append([]reflect.StructField{{Name: "Emb0" + o.Salt, Type: t, Anonymous: true}}, fields[at:]...)...)
	}
	return reflect.StructOf(fields)
}

// EmbNames: field names used inside embedded structs (disjoint from FieldNames, so promoted names never collide).
var EmbNames = []string{"Lat", "Lon", "Place", "Geo", "Addr", "Owner", "Zip", "Tel", "Fax", "Web", "Ref", "Mode"}

func embLeaf(r *rand.Rand, depth int, o TypeOpts) reflect.Type {
	if depth > 1 && r.Intn(4) == 0 {
		return RandType(r, 1, o)
	}
	return []reflect.Type{TInt, TInt64, TString, TFloat64, TBool, TUint16, TInt8}[r.Intn(7)]
}

// RandValue returns a random value of type t.
func RandValue(r *rand.Rand, t reflect.Type, depth int) reflect.Value {
	v := reflect.New(t).Elem()
	fill(r, v, depth)
	return v
}

func randInt(r *rand.Rand, bits int) int64 {
	var v int64
	switch r.Intn(8) {
	case 0:
		v = 0
	case 1:
		v = int64(r.Intn(201) - 100)
	case 2:
		v = 1<<(uint(bits)-1) - 1
	case 3:
		v = -1 << (uint(bits) - 1)
	case 4:
		v = int64(1)<<uint(r.Intn(bits-1)) + int64(r.Intn(3)-1)
	case 5:
		v = -(int64(1)<<uint(r.Intn(bits-1)) + int64(r.Intn(3)-1))
	default:
		v = int64(r.Uint64())
	}
	if bits < 64 {
		v = v << (64 - uint(bits)) >> (64 - uint(bits))
	}
	return v
}

func randUint(r *rand.Rand, bits int) uint64 {
	var v uint64
	switch r.Intn(7) {
	case 0:
		v = 0
	case 1:
		v = uint64(r.Intn(300))
	case 2:
		v = math.MaxUint64
	case 3:
		v = uint64(1)<<uint(r.Intn(bits)) + uint64(r.Intn(3)) - 1
	default:
		v = r.Uint64()
	}
	if bits < 64 {
		v &= 1<<uint(bits) - 1
	}
	return v
}

var goZones = []string{"UTC", "America/New_York", "Europe/Berlin", "Asia/Tokyo", "Australia/Sydney", "America/Argentina/Buenos_Aires"}

// GoTime picks a time.Time in UTC or a named zone (zones whose data the image lacks fall back to UTC).
func GoTime(r *rand.Rand) time.Time {
	loc := time.UTC
	if name := goZones[r.Intn(len(goZones))]; name != "UTC" {
		if l, err := time.LoadLocation(name); err == nil {
			loc = l
		}
	}
	year := 1900 + r.Intn(300)
	if r.Intn(8) == 0 {
		year = []int{1, 9999, 1970, 2000, 1583}[r.Intn(5)]
	}
	ns := []int{0, 1, 999999999, 500000000, r.Intn(1000000000)}[r.Intn(5)]
	return time.Date(year, time.Month(1+r.Intn(12)), 1+r.Intn(28), r.Intn(24), r.Intn(60), r.Intn(60), ns, loc)
}

var urls = []string{"http://example.com", "https://example.com/a/b?c=d&e=f#frag", "mailto:someone@example.com", "file:///etc/hosts", "urn:isbn:0451450523", "http://x.org/%20space", "ftp://user@host:21/path"}

func scalarIface(r *rand.Rand) interface{} {
	switch r.Intn(8) {
	case 0:
		return true
	case 1:
		return int64(randInt(r, 64))
	case 2:
		return "s" + TextValue(r, 10, true)
	case 3:
		return float64(r.Intn(1000)) / 4
	case 4:
		return uint64(randUint(r, 64))
	case 5:
		return int(r.Intn(100))
	case 6:
		return []byte{1, 2, byte(r.Intn(256))}
	default:
		return "x"
	}
}

// Recursive named types (reflect cannot build these): a map, slice or struct type that contains itself by value
// through a map or slice. fill stops descending into them once depth is exhausted.
type RecTree struct {
	Kids map[string]RecTree
	Val  int
	Tail string
}

type RecMap map[string][]RecMap

type RecList struct {
	Next []RecList
	V    int8
}

type RecMix struct {
	A int
	M map[int64]RecMix
	L []RecMix
	Z string
}

var recursiveTypes = []reflect.Type{reflect.TypeOf(RecTree{}), reflect.TypeOf(RecMap(nil)), reflect.TypeOf(RecList{}), reflect.TypeOf(RecMix{}),
	reflect.TypeOf([]RecTree(nil)), reflect.TypeOf(map[string]RecList(nil))}

// IsRecursiveType reports whether t is one of the named recursive types.
func IsRecursiveType(t reflect.Type) bool { return isRecursiveType(t) }

func isRecursiveType(t reflect.Type) bool {
	switch t {
	case recursiveTypes[0], recursiveTypes[1], recursiveTypes[2], recursiveTypes[3]:
		return true
	}
	return false
}

func fill(r *rand.Rand, v reflect.Value, depth int) {
	t := v.Type()
	if depth < -1 && (isRecursiveType(t) || (t.Kind() == reflect.Slice || t.Kind() == reflect.Map) && isRecursiveType(t.Elem())) {
		return // a recursive type bottoms out with zero values (nil maps and slices)
	}
	switch t {
	case TTime:
		v.Set(reflect.ValueOf(GoTime(r)))
		return
	case TCTime:
		v.Set(reflect.ValueOf(Time(r)))
		return
	case TBigInt:
		m := Magnitude(r)
		if r.Intn(2) == 0 {
			m.Neg(m)
		}
		v.Set(reflect.ValueOf(*m))
		return
	case TBigFloat:
		v.Set(reflect.ValueOf(*bigFloat64Exact(r)))
		return
	case TAPD:
		v.Set(reflect.ValueOf(*finiteAPD(r)))
		return
	case TDFloat:
		v.Set(reflect.ValueOf(DFloatValue(r, true)))
		return
	case TURL:
		u, _ := url.Parse(urls[r.Intn(len(urls))])
		v.Set(reflect.ValueOf(*u))
		return
	case TUID:
		var u types.UID
		copy(u[:], randBytes(r, 16))
		v.Set(reflect.ValueOf(u))
		return
	case TMedia:
		v.Set(reflect.ValueOf(types.Media{MediaType: mediaTypes[r.Intn(len(mediaTypes))], Data: randBytes(r, r.Intn(20))}))
		return
	case TNode:
		n := types.Node{Value: scalarIface(r)}
		for i := r.Intn(4); i > 0; i-- {
			if depth > 0 && r.Intn(4) == 0 {
				child := types.Node{Value: scalarIface(r)}
				for j := r.Intn(3); j > 0; j-- {
					child.Children = append(child.Children, scalarIface(r))
				}
				n.Children = append(n.Children, child)
			} else {
				n.Children = append(n.Children, scalarIface(r))
			}
		}
		v.Set(reflect.ValueOf(n))
		return
	case TEdge:
		v.Set(reflect.ValueOf(types.Edge{Source: scalarIface(r), Description: scalarIface(r), Destination: scalarIface(r)}))
		return
	}
	switch t.Kind() {
	case reflect.Bool:
		v.SetBool(r.Intn(2) == 0)
	case reflect.Int, reflect.Int8, reflect.Int16, reflect.Int32, reflect.Int64:
		v.SetInt(randInt(r, t.Bits()))
	case reflect.Uint, reflect.Uint8, reflect.Uint16, reflect.Uint32, reflect.Uint64:
		v.SetUint(randUint(r, t.Bits()))
	case reflect.Float32:
		for {
			f := Float64Value(r)
			if float64(float32(f)) == f || math.IsInf(f, 0) {
				v.SetFloat(f)
				break
			}
		}
		if r.Intn(20) == 0 {
			v.SetFloat(math.NaN())
		}
	case reflect.Float64:
		v.SetFloat(Float64Value(r))
		if r.Intn(20) == 0 {
			v.SetFloat(math.NaN())
		}
	case reflect.String:
		v.SetString(TextValue(r, 30, r.Intn(2) == 0))
	case reflect.Slice:
		if r.Intn(20) == 0 {
			return // nil
		}
		n := r.Intn(4)
		if isNumericElem(t.Elem()) {
			n = []int{0, 1, 2, 7, 8, 9, 15, 16, 17, 40, 300}[r.Intn(11)]
		}
		s := reflect.MakeSlice(t, n, n)
		for i := 0; i < n; i++ {
			fill(r, s.Index(i), depth-1)
		}
		v.Set(s)
	case reflect.Array:
		for i := 0; i < v.Len(); i++ {
			fill(r, v.Index(i), depth-1)
		}
	case reflect.Map:
		if r.Intn(20) == 0 {
			return
		}
		m := reflect.MakeMap(t)
		n := r.Intn(4)
		for i := 0; i < n; i++ {
			k := reflect.New(t.Key()).Elem()
			fill(r, k, 0)
			if t.Key().Kind() == reflect.String {
				k.SetString("k" + TextValue(r, 8, true))
			}
			e := reflect.New(t.Elem()).Elem()
			fill(r, e, depth-1)
			m.SetMapIndex(k, e)
		}
		v.Set(m)
	case reflect.Ptr:
		switch t {
		case TPBigInt:
			if r.Intn(8) == 0 {
				return
			}
			m := Magnitude(r)
			if r.Intn(2) == 0 {
				m.Neg(m)
			}
			v.Set(reflect.ValueOf(m))
			return
		case TPBigFloat:
			if r.Intn(8) == 0 {
				return
			}
			v.Set(reflect.ValueOf(bigFloat64Exact(r)))
			return
		case TPAPD:
			if r.Intn(8) == 0 {
				return
			}
			v.Set(reflect.ValueOf(finiteAPD(r)))
			return
		case TPURL:
			if r.Intn(8) == 0 {
				return
			}
			u, _ := url.Parse(urls[r.Intn(len(urls))])
			v.Set(reflect.ValueOf(u))
			return
		}
		if r.Intn(5) == 0 {
			return
		}
		p := reflect.New(t.Elem())
		fill(r, p.Elem(), depth-1)
		v.Set(p)
	case reflect.Struct:
		for i := 0; i < v.NumField(); i++ {
			fill(r, v.Field(i), depth-1)
		}
	case reflect.Interface:
		v.Set(reflect.ValueOf(scalarIface(r)))
	}
}

func isNumericElem(t reflect.Type) bool {
	for _, n := range numericElemTypes {
		if t == n {
			return true
		}
	}
	return false
}

// bigFloat64Exact: big.Float values that a float64 carries exactly (others are rounded by the encoders: known finding of C01).
func bigFloat64Exact(r *rand.Rand) *big.Float {
	f := Float64Value(r)
	if math.IsInf(f, 0) {
		f = 1.5
	}
	return new(big.Float).SetFloat64(f)
}

// finiteAPD: a decimal for a Go value; despite the name, one in eight is a non-finite form (infinity of either sign,
// quiet or signalling NaN), which a marshal/unmarshal round trip has to preserve as well.
func finiteAPD(r *rand.Rand) *apd.Decimal {
	if r.Intn(8) == 0 {
		d := new(apd.Decimal)
		d.Form = []apd.Form{apd.Infinite, apd.Infinite, apd.NaN, apd.NaNSignaling}[r.Intn(4)]
		if d.Form == apd.Infinite {
			d.Negative = r.Intn(2) == 0
		}
		return d
	}
	for {
		d := APDValue(r, true)
		if d.Form == apd.Finite {
			return d
		}
	}
}

// ---------------------------------------------------------------------------
// ValueEq

// ValueEq compares two Go values structurally: NaN==NaN, times by Equal, big numbers by value,
// nil and empty slices/maps alike, numbers inside interface{} by exact value. It returns the path
// of the first difference ("" when equal).
func ValueEq(a, b interface{}) (path string, desc string) {
	return veq(reflect.ValueOf(a), reflect.ValueOf(b), "")
}

func exactNum(v reflect.Value) (string, bool) {
	switch v.Kind() {
	case reflect.Int, reflect.Int8, reflect.Int16, reflect.Int32, reflect.Int64:
		return big.NewInt(v.Int()).String(), true
	case reflect.Uint, reflect.Uint8, reflect.Uint16, reflect.Uint32, reflect.Uint64:
		return new(big.Int).SetUint64(v.Uint()).String(), true
	case reflect.Float32, reflect.Float64:
		f := v.Float()
		if math.IsNaN(f) {
			return "nan", true
		}
		if math.IsInf(f, 0) {
			return fmt.Sprint(f), true
		}
		if f == math.Trunc(f) && math.Abs(f) < 1e300 {
			bf := new(big.Float).SetFloat64(f)
			i, _ := bf.Int(nil)
			return i.String(), true
		}
		return new(big.Float).SetFloat64(f).Text('p', 0), true
	}
	switch x := v.Interface().(type) {
	case *big.Int:
		if x != nil {
			return x.String(), true
		}
	case big.Int:
		return x.String(), true
	case compact_float.DFloat:
		if x.Exponent >= 0 && !x.IsSpecial() && x.Exponent < 400 {
			bi := big.NewInt(x.Coefficient)
			bi.Mul(bi, new(big.Int).Exp(big.NewInt(10), big.NewInt(int64(x.Exponent)), nil))
			return bi.String(), true
		}
	}
	return "", false
}

func isNilOrEmpty(v reflect.Value) bool {
	if !v.IsValid() {
		return true
	}
	switch v.Kind() {
	case reflect.Slice, reflect.Map:
		return v.Len() == 0
	case reflect.Ptr, reflect.Interface:
		return v.IsNil()
	}
	return false
}

func veq(a, b reflect.Value, path string) (string, string) {
	fail := func(format string, args ...interface{}) (string, string) {
		if path == "" {
			return "/", fmt.Sprintf(format, args...)
		}
		return path, fmt.Sprintf(format, args...)
	}
	// unwrap interfaces
	for a.IsValid() && a.Kind() == reflect.Interface && !a.IsNil() {
		a = a.Elem()
	}
	for b.IsValid() && b.Kind() == reflect.Interface && !b.IsNil() {
		b = b.Elem()
	}
	if !a.IsValid() || !b.IsValid() || (a.Kind() == reflect.Interface && a.IsNil()) || (b.Kind() == reflect.Interface && b.IsNil()) {
		if isNilOrEmpty(a) && isNilOrEmpty(b) {
			return "", ""
		}
		return fail("one side nil/absent: %v vs %v", short(a), short(b))
	}
	if a.Type() != b.Type() {
		// numbers in interface positions may change kind
		if x, ok := exactNum(a); ok {
			if y, ok := exactNum(b); ok {
				if x == y {
					return "", ""
				}
				return fail("numbers differ: %s vs %s", x, y)
			}
		}
		// pointer vs value of the same underlying data
		if a.Kind() == reflect.Ptr && !a.IsNil() && a.Type().Elem() == b.Type() {
			return veq(a.Elem(), b, path)
		}
		if b.Kind() == reflect.Ptr && !b.IsNil() && b.Type().Elem() == a.Type() {
			return veq(a, b.Elem(), path)
		}
		// []interface{} vs typed slice, map[interface{}]interface{} vs typed map: compare element-wise
		if (a.Kind() == reflect.Slice || a.Kind() == reflect.Array) && (b.Kind() == reflect.Slice || b.Kind() == reflect.Array) {
			return veqSeq(a, b, path)
		}
		if a.Kind() == reflect.Map && b.Kind() == reflect.Map {
			return veqMap(a, b, path)
		}
		if a.Kind() == reflect.String && b.Kind() == reflect.String {
			if a.String() == b.String() {
				return "", ""
			}
		}
		return fail("types differ: %v vs %v (%v vs %v)", a.Type(), b.Type(), short(a), short(b))
	}
	switch x := a.Interface().(type) {
	case time.Time:
		y := b.Interface().(time.Time)
		if x.Equal(y) {
			return "", ""
		}
		return fail("times differ: %v vs %v", x, y)
	case compact_time.Time:
		y := b.Interface().(compact_time.Time)
		if ctimeKey(x) == ctimeKey(y) {
			return "", ""
		}
		return fail("compact times differ: %v vs %v", ctimeKey(x), ctimeKey(y))
	case big.Int:
		y := b.Interface().(big.Int)
		if x.Cmp(&y) == 0 {
			return "", ""
		}
		return fail("big ints differ: %v vs %v", x.String(), y.String())
	case big.Float:
		y := b.Interface().(big.Float)
		if x.Cmp(&y) == 0 {
			return "", ""
		}
		return fail("big floats differ: %v vs %v", x.Text('p', 0), y.Text('p', 0))
	case apd.Decimal:
		y := b.Interface().(apd.Decimal)
		if x.Form == y.Form && (x.Form == apd.Finite && x.Cmp(&y) == 0 || x.Form == apd.Infinite && x.Negative == y.Negative || x.Form == apd.NaN || x.Form == apd.NaNSignaling) {
			return "", ""
		}
		return fail("decimals differ: %v vs %v", x.String(), y.String())
	case url.URL:
		y := b.Interface().(url.URL)
		if x.String() == y.String() {
			return "", ""
		}
		return fail("urls differ: %v vs %v", x.String(), y.String())
	}
	switch a.Kind() {
	case reflect.Bool:
		if a.Bool() != b.Bool() {
			return fail("%v vs %v", a.Bool(), b.Bool())
		}
	case reflect.Int, reflect.Int8, reflect.Int16, reflect.Int32, reflect.Int64:
		if a.Int() != b.Int() {
			return fail("%v vs %v", a.Int(), b.Int())
		}
	case reflect.Uint, reflect.Uint8, reflect.Uint16, reflect.Uint32, reflect.Uint64, reflect.Uintptr:
		if a.Uint() != b.Uint() {
			return fail("%v vs %v", a.Uint(), b.Uint())
		}
	case reflect.Float32, reflect.Float64:
		x, y := a.Float(), b.Float()
		if !(x == y || (math.IsNaN(x) && math.IsNaN(y))) {
			return fail("%v vs %v", x, y)
		}
	case reflect.String:
		if a.String() != b.String() {
			return fail("%q vs %q", a.String(), b.String())
		}
	case reflect.Ptr:
		if a.IsNil() || b.IsNil() {
			// the formats have a single null: a pointer chain that ends in nil is the same data as a nil pointer
			if endsInNil(a) && endsInNil(b) {
				return "", ""
			}
			return fail("nil pointer vs %v", short(a)+short(b))
		}
		return veq(a.Elem(), b.Elem(), path+"/*")
	case reflect.Slice, reflect.Array:
		return veqSeq(a, b, path)
	case reflect.Map:
		return veqMap(a, b, path)
	case reflect.Struct:
		for i := 0; i < a.NumField(); i++ {
			if a.Type().Field(i).PkgPath != "" {
				continue
			}
			if p, d := veq(a.Field(i), b.Field(i), path+"/"+a.Type().Field(i).Name); p != "" {
				return p, d
			}
		}
	default:
		if !reflect.DeepEqual(a.Interface(), b.Interface()) {
			return fail("%v vs %v", short(a), short(b))
		}
	}
	return "", ""
}

func endsInNil(v reflect.Value) bool {
	for v.Kind() == reflect.Ptr || v.Kind() == reflect.Interface {
		if v.IsNil() {
			return true
		}
		v = v.Elem()
	}
	return false
}

func veqSeq(a, b reflect.Value, path string) (string, string) {
	if a.Len() != b.Len() {
		if path == "" {
			path = "/"
		}
		return path, fmt.Sprintf("lengths differ: %d vs %d", a.Len(), b.Len())
	}
	for i := 0; i < a.Len(); i++ {
		if p, d := veq(a.Index(i), b.Index(i), fmt.Sprintf("%s[%d]", path, i)); p != "" {
			return p, d
		}
	}
	return "", ""
}

func mapKeyString(k reflect.Value) string {
	for k.Kind() == reflect.Interface && !k.IsNil() {
		k = k.Elem()
	}
	if s, ok := exactNum(k); ok {
		return "n:" + s
	}
	return fmt.Sprintf("%T:%v", k.Interface(), k.Interface())
}

func veqMap(a, b reflect.Value, path string) (string, string) {
	if a.Len() != b.Len() {
		if path == "" {
			path = "/"
		}
		return path, fmt.Sprintf("map sizes differ: %d vs %d", a.Len(), b.Len())
	}
	bk := map[string]reflect.Value{}
	for _, k := range b.MapKeys() {
		bk[mapKeyString(k)] = b.MapIndex(k)
	}
	keys := a.MapKeys()
	sort.Slice(keys, func(i, j int) bool { return mapKeyString(keys[i]) < mapKeyString(keys[j]) })
	for _, k := range keys {
		ks := mapKeyString(k)
		// string-typed keys of different named types
		bv, ok := bk[ks]
		if !ok {
			// try kind-insensitive string form
			for s, v := range bk {
				if s[strings.Index(s, ":")+1:] == ks[strings.Index(ks, ":")+1:] {
					bv, ok = v, true
					break
				}
			}
		}
		if !ok {
			return path + "{" + ks + "}", "key missing in second value"
		}
		if p, d := veq(a.MapIndex(k), bv, path+"{"+ks+"}"); p != "" {
			return p, d
		}
	}
	return "", ""
}

func ctimeKey(t compact_time.Time) string {
	z := t.Timezone
	zone := ""
	switch z.Type {
	case compact_time.TimezoneTypeUTC, compact_time.TimezoneTypeUnset:
		zone = "utc"
	case compact_time.TimezoneTypeLocal:
		zone = "local"
	case compact_time.TimezoneTypeAreaLocation:
		zone = z.LongAreaLocation
	case compact_time.TimezoneTypeLatitudeLongitude:
		zone = fmt.Sprintf("%d/%d", z.LatitudeHundredths, z.LongitudeHundredths)
	case compact_time.TimezoneTypeUTCOffset:
		zone = fmt.Sprintf("off%d", z.MinutesOffsetFromUTC)
	}
	switch t.Type {
	case compact_time.TimeTypeDate:
		return fmt.Sprintf("d %d-%d-%d", t.Year, t.Month, t.Day)
	case compact_time.TimeTypeTime:
		return fmt.Sprintf("t %d:%d:%d.%d %s", t.Hour, t.Minute, t.Second, t.Nanosecond, zone)
	}
	return fmt.Sprintf("ts %d-%d-%d %d:%d:%d.%d %s", t.Year, t.Month, t.Day, t.Hour, t.Minute, t.Second, t.Nanosecond, zone)
}

func short(v reflect.Value) string {
	if !v.IsValid() {
		return "<invalid>"
	}
	s := fmt.Sprintf("%#v", v.Interface())
	if len(s) > 200 {
		s = s[:200] + "…"
	}
	return s
}

// Render gives a bounded printable form of a value for samples and replay files.
func Render(v interface{}) string {
	s := fmt.Sprintf("%T %+v", v, v)
	if len(s) > 1500 {
		s = s[:1500] + "…"
	}
	return s
}

// UnsupportedValues are values of kinds the library does not support (for "returns an error" checks).
func UnsupportedValues() []interface{} {
	type hasChan struct{ C chan int }
	type hasFunc struct{ F func() }
	return []interface{}{make(chan int), func() {}, complex(1, 2), complex64(1), uintptr(5), hasChan{}, hasFunc{F: func() {}},
		[]chan int{nil}, map[string]func(){"a": nil}, &hasChan{C: make(chan int)}, [2]complex128{},
		// self-referential types whose unsupported field comes after (or before) the recursive one: a sub-iterator/builder
		// for *T is generated and cached while T itself is still being generated, and T then fails
		RecBad1{}, &RecBad1{}, &RecBad1{Next: &RecBad1{}}, RecBad2{}, &RecBad2{Kids: []*RecBad2{{}}}, RecBad3{}, &RecBad3{M: map[string]*RecBad3{"k": {}}},
		[]RecBad1{{}}, map[string]*RecBad2{"a": {}}}
}

// RecBad1..3: self-referential struct types with a field of an unsupported kind.
type RecBad1 struct {
	Next *RecBad1
	Hook func()
}

type RecBad2 struct {
	C    chan int
	Kids []*RecBad2
}

type RecBad3 struct {
	A int
	M map[string]*RecBad3
	Z complex128
}
