# Table of claimed properties, exec'd by bin/mkmanifest.
NOT_CLAIMED = {}
TB = "trusted: the Go toolchain/runtime, the harness's own recorder, canonical data view and reference models (harness/ev, harness/checks), PRNG-driven generators with the bounds stated in the evidence file's rule/assumptions; verdict is 'held on the executions produced', not a proof"

claim("C01", "exploration", "runtime monitoring: round-trip monitor over recorded event logs (rules -> cbe.Encoder -> cbe.Decoder -> rules -> recorder) with exact canonical-data oracle",
      "Every generated rules-accepted stream is encoded and decoded by the real CBE codec in worker processes and the recorded output log is compared with the input log on an exact canonical data view; coverage floors force every integer width class, array form, zone form and container kind to be exercised. Exploration is the right level: the input space is unbounded and the property is about the real codec's behaviour on it.", TB)

claim("C02", "exploration", "runtime monitoring: round-trip monitor over recorded event logs (rules -> CTE encoder -> CTE decoder -> rules -> recorder) with exact canonical-data oracle",
      "Every generated rules-accepted stream (Unicode torture strings, comments at every grammar position, all time-zone forms, all numeric edge classes) is encoded and decoded by the real CTE codec in worker processes and the recorded output log is compared with the input log on an exact canonical data view; comments are compared by text and kind. Exploration fits an unbounded input space.", TB)
claim("C03", "exploration", "runtime monitoring: conversion-chain monitor (CBE -> CTE -> CBE and CTE -> CBE) over generated documents and accepted byte-mutants, canonical-data oracle at every stage",
      "Accepted CBE documents (generated and byte-mutated) and accepted CTE documents are pushed through the real decoder->rules->encoder chains; each stage must accept and the recorded event logs must carry the same canonical data. Mutants are where values the other format cannot spell come from. Exploration fits: the space of accepted documents is unbounded.", TB)
